//go:build verif

package graph

import (
	"strconv"
	"testing"

	v1 "sigs.k8s.io/gateway-api/apis/v1"

	vu "github.com/nginx/nginx-gateway-fabric/internal/verifutil"
)

// TestVerifC02Hosts: the real findAcceptedHostnames on every (listener hostname, route hostname) pair of a pool of
// exact names, wildcards of several depths and look-alikes, and on random lists; the probes are concrete hosts built
// from the same labels.
func TestVerifC02Hosts(t *testing.T) {
	out := vu.Open("C02")
	out.ShardLen(400)
	rng := vu.NewRng(out.Seed ^ 0xC0205)
	pool := []string{"example.com", "foo.example.com", "a.foo.example.com", "bar.example.com", "xexample.com", "example.org",
		"*.example.com", "*.foo.example.com", "*.a.foo.example.com", "*.com", "*.org", "*.xample.com", "*.o.example.com", "com", "a.b.c.d.example.com"}
	probes := []string{"example.com", "foo.example.com", "a.foo.example.com", "b.a.foo.example.com", "bar.example.com", "xexample.com",
		"foo.xexample.com", "example.org", "www.example.org", "com", "a.com", "o.example.com", "x.o.example.com", "a.b.c.d.example.com", "foo.example.com.evil.org"}
	run := func(lh string, rhs []string) {
		var lp *v1.Hostname
		if lh != "" {
			h := v1.Hostname(lh)
			lp = &h
		}
		var rh []v1.Hostname
		for _, r := range rhs {
			rh = append(rh, v1.Hostname(r))
		}
		got := findAcceptedHostnames(lp, rh)
		term := vu.App("HCase", vu.Str(lh), vu.StrList(rhs), vu.StrList(got), vu.StrList(probes))
		out.Case(term, map[string]any{"listener": lh, "route_hostnames": rhs, "accepted": got}, len(rhs) > 0 && lh != "", lh+"|"+vu.StrList(rhs))
		out.Tally("route_hostnames", strconv.Itoa(len(rhs)))
	}
	for _, lh := range append([]string{""}, pool...) {
		run(lh, nil)
		for _, rh := range pool {
			run(lh, []string{rh})
		}
	}
	n := out.Count(400, 20000)
	for i := 0; i < n; i++ {
		r := rng.Fork()
		lh := ""
		if r.Chance(5, 6) {
			lh = pool[r.Intn(len(pool))]
		}
		var rhs []string
		for k, nk := 0, 1+r.Intn(4); k < nk; k++ {
			rhs = append(rhs, pool[r.Intn(len(pool))])
		}
		run(lh, rhs)
	}
	out.Close("k8s.HostCheck", "")
}
