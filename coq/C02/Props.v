(* C02 — property theorems.

   Path matching: the locations the generator derives from a server's path rules (model C02/PathSel.v, compared with the
   location set of every server block the real generator emits), under NGINX's location selection, implement path
   matching by whole path elements with precedence Exact > longest PathPrefix, for every set of rules and every
   request path. The rest of the routing decision (hostnames, listeners, methods/headers/query parameters, filters,
   backends) is decided per generated state and request by the oracle of C02/Check.v against k8s/Spec.v. *)
From Coq Require Import List String Ascii Bool Arith.
From NGF Require Import lib.Str k8s.State k8s.Spec k8s.Hostnames C02.PathSel C02.PathSelProofs.
Import ListNotations.

(* the location NGINX selects belongs to a rule that matches the request path, and every other matching rule is a
   PathPrefix rule that loses to it: against an Exact rule always, against a PathPrefix rule by a strictly shorter path *)
Theorem C02_selected_location_is_the_most_specific_match :
  forall rs, keys_nodup rs = true ->
  forall u l i r,
    select (all_locs rs) u = Some l -> l_owner l = Some i -> nth_error rs i = Some r ->
    rule_matches r u = true /\
    forall j r', nth_error rs j = Some r' -> j <> i -> rule_matches r' u = true ->
      pr_exact r' = false /\ (pr_exact r = true \/ List.length (pr_path r') < List.length (pr_path r)).
Proof. exact select_sound. Qed.

(* a request path that some rule matches is never answered by the default 404 location or by no location *)
Theorem C02_matching_rule_is_served :
  forall rs, (forall r, In r rs -> pr_path r <> []) ->
  forall u i r, nth_error rs i = Some r -> rule_matches r u = true ->
    exists l j, select (all_locs rs) u = Some l /\ l_owner l = Some j.
Proof. exact select_complete. Qed.

(* Hostnames: the server names a Route gets on a listener (model of findAcceptedHostnames, compared with the real function on
   every pair of a pool and on random lists) serve exactly the request hosts that both the listener's hostname and one of
   the Route's hostnames admit - for every listener hostname, every non-empty list of Route hostnames, every host. *)
Theorem C02_server_names_are_the_hostname_intersection : forall lh rhs h,
  rhs <> [] -> (forall r, In r rhs -> r <> ""%string) ->
  (existsb (fun x => serves x h) (accepted_hostnames lh rhs) = true <->
   serves lh h = true /\ existsb (fun r => serves r h) rhs = true).
Proof. exact accepted_hostnames_exact. Qed.

(* the winning gateway, when there is one, is a gateway of the class *)
Theorem C02_winner_is_of_class :
  forall cs g, winning_gateway cs = Some g -> In g (c_gateways cs) /\ seqb (g_class g) our_class = true.
Proof.
  intros cs g H. unfold winning_gateway in H. destruct (class_active cs); [|discriminate].
  unfold our_gateways in H.
  destruct (filter (fun g0 => seqb (g_class g0) our_class) (c_gateways cs)) as [|g0 l] eqn:Hf; [discriminate|].
  inversion H; subst; clear H.
  assert (Hall : forall x, In x (g0 :: l) -> In x (c_gateways cs) /\ seqb (g_class x) our_class = true).
  { intros x Hx. rewrite <- Hf in Hx. apply filter_In in Hx. exact Hx. }
  assert (Hin : In (min_gateway g0 l) (g0 :: l)).
  { clear. revert g0. induction l as [|x l IH]; intros g0; simpl; [tauto|].
    destruct (older _ _ _ _ _ _).
    - destruct (IH x) as [H|H]; [right; left; exact H|right; right; exact H].
    - destruct (IH g0) as [H|H]; [left; exact H|right; right; exact H]. }
  apply Hall. exact Hin.
Qed.

From Coq Require Import ZArith.
From NGF Require Import ngx.Eval ngx.NjsCheck ngx.NjsProofs.

(* ---- inside a location, the njs module decides between the matches that share the path (method, headers, query parameters). The
   model of nginx/modules/src/httpmatches.js (ngx/Eval.v, compared with the real module under node on every run) picks, for EVERY
   request and every well-formed list of matches, the first match the request satisfies in the sense of the specification
   (k8s/Spec.v header_ok / query_ok: header names case-insensitive, value among the comma-separated values; the first occurrence of a
   query parameter has exactly the value), and answers 404 when there is none. The order of the list is the priority order
   (C14_match_order_is_the_priority_order). *)
Theorem C02_njs_module_picks_first_satisfied_match :
  forall tbl k q k' m0 ms,
  k <> EmptyString -> find (fun e => seqb (fst e) k) tbl = Some (k', m0 :: ms) -> forallb wf_match (m0 :: ms) = true ->
  njs_redirect tbl (Some k) q =
    match find (spec_satisfies q) (m0 :: ms) with
    | Some m => match jm_redirect m with Some p => NjsRedirect p | None => NjsStatus 500%Z end
    | None => NjsStatus 404%Z
    end.
Proof. exact njs_module_picks_first_satisfied_match. Qed.

Theorem C02_njs_module_never_fails_on_wellformed_matches :
  forall tbl k q k' m0 ms,
  k <> EmptyString -> find (fun e => seqb (fst e) k) tbl = Some (k', m0 :: ms) -> forallb wf_match (m0 :: ms) = true ->
  njs_redirect tbl (Some k) q <> NjsStatus 500%Z.
Proof. exact njs_module_never_500_on_wellformed. Qed.

(* ---- URLRewrite / RequestRedirect with ReplacePrefixMatch (model of createMainRewriteForFilters, C02/Rewrite.v; the text it writes and
   what a regular-expression engine makes of it are compared with the real function on every run). For EVERY prefix P, replacement R and
   request path that reaches the locations of the rule, the rewrite directive turns the path into what Gateway API prescribes: the
   matched prefix (a trailing slash of P or R does not count) replaced by R, the rest kept, never empty; [expected] reproduces the eleven
   rows of the table in the Gateway API reference (RewriteProofs.gateway_api_table). *)
From NGF Require Import C02.Rewrite C02.RewriteProofs.

Theorem C02_prefix_rewrite_is_what_gateway_api_prescribes :
  forall P R q, reaches P q -> apply (main_rewrite P R) q = Some (expected P R q).
Proof. exact rewrite_is_prefix_replacement. Qed.

Theorem C02_rewritten_path_is_never_empty : forall P R q, expected P R q <> [].
Proof. exact result_not_empty. Qed.

(* ---- TLS passthrough (specification C02/Pass.v, against which the generated stream configuration is evaluated on every run): a
   connection is handed to a backend only for a TLSRoute that is attached to a valid TLS passthrough listener of that port, under an
   accepted hostname (intersection of listener and Route hostnames) that admits the SNI, with a usable backend - and no name of the port
   that admits the SNI is more specific. For all listeners, Routes, ports and SNIs. *)
From NGF Require Import C02.Pass C02.PassProofs.

Theorem C02_passthrough_only_for_attached_routes :
  forall ls rs port sni u,
  expected_pass ls rs port sni = PProxy u ->
  exists l r h,
    In l ls /\ pl_valid l = true /\ (pl_port l =? port)%Z = true /\ pl_https l = false /\
    In r rs /\ attached_to l r = true /\ In h (accepted_hostnames (pl_host l) (pr_hosts r)) /\
    name_serves h (lower sni) = true /\ pr_backend r = Some u /\
    forall x, In x (port_names ls rs port) -> name_serves (fst x) (lower sni) = true -> name_rank (fst x) <= name_rank h.
Proof. exact passthrough_only_for_attached_routes. Qed.

(* ---- the rewrite directives of a location (model of updateLocation's part for URLRewrite / RequestRedirect, C02/RewriteLoc.v, compared
   with the real function on every run), run through the rewrite phase of ngx/EvalFwd.v - the evaluator every forwarded-path comparison
   uses: in an external location and in an internal one (entered with whatever path), for rewrite and redirect, for every path modifier,
   prefix and request path that reaches the rule, the path that leaves the location is the one the specification prescribes
   (k8s/SpecFwd.modified_path). The theorem fails for the tree before the repair of D50 (redirect, internal, prefix). *)
From NGF Require Import k8s.SpecFwd ngx.EvalFwd C02.RewriteLoc C02.RewriteLocProofs.

Theorem C02_location_path_is_the_prescribed_path :
  forall kind internal pm P q entry,
  (forall s, pm = Some (ReplaceFull s) -> strip_args s = s /\ seqb s "$request_uri" = false) ->
  reaches (Str.chars_of P) (Str.chars_of q) ->
  (internal = false -> entry = q) ->
  location_path kind internal pm P q entry = Some (modified_path pm (PathPrefix P) q).
Proof. exact location_path_is_the_prescribed_path. Qed.

(* the evaluator reads a prefix rewrite directive back as the rewrite it was written for, whatever the prefix contains *)
Theorem C02_rewrite_directive_round_trip : forall r, parse_prefix_rewrite (regex_text r) (repl_text r) = Some r.
Proof. exact parse_print. Qed.

(* ---- the choice of the server block (model of NGINX's selection by server_name, ngx/Eval.pick_server, which every routing oracle
   uses): for every list of server blocks and every requested name the chosen server has a name that serves the request and no name of
   any server that serves it ranks higher (exact, then the longest wildcard, then the catch-all) - "most specific hostname first". The
   evaluator's notions of serving and rank are the specification's (Spec.name_serves / name_rank) for the names the generator writes. *)
From NGF Require Import ngx.ServerSelProofs.

Theorem C02_server_choice_is_the_most_specific_name :
  forall srvs h s, pick_server None srvs h = Some s ->
  In s srvs /\
  exists x, In x (server_names s) /\ ngx_name_serves x h = true /\
            forall s' x', In s' srvs -> In x' (server_names s') -> ngx_name_serves x' h = true -> ngx_name_rank x' <= ngx_name_rank x.
Proof. exact pick_server_is_most_specific. Qed.

Theorem C02_a_served_name_always_finds_a_server :
  forall srvs h s x, In s srvs -> In x (server_names s) -> ngx_name_serves x h = true -> pick_server None srvs h <> None.
Proof. exact pick_server_finds. Qed.

Theorem C02_evaluator_and_specification_rank_names_alike :
  forall x h, (has_prefix "~" x = false \/ x = catch_all) ->
  ngx_name_serves x h = name_serves x h /\ ngx_name_rank x = name_rank x.
Proof. intros x h H. split; [exact (serves_is_spec x h H)|exact (rank_is_spec x H)]. Qed.
