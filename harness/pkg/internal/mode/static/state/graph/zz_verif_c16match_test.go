//go:build verif

package graph

import (
	"strconv"
	"testing"

	metav1 "k8s.io/apimachinery/pkg/apis/meta/v1"
	gatewayv1 "sigs.k8s.io/gateway-api/apis/v1"
	"sigs.k8s.io/gateway-api/apis/v1alpha3"

	"github.com/nginx/nginx-gateway-fabric/internal/framework/helpers"
	vu "github.com/nginx/nginx-gateway-fabric/internal/verifutil"
)

// TestVerifC16Match: second part of the C16 check. The real validateBackendTLSPolicyMatchingAllBackends on lists of one
// to five backends, each without a policy or with one drawn from a small pool (two namespaces, no / one / another / two
// CA references, well-known or not, two hostnames), so that policies that are written alike but live in different
// namespaces, and policies that differ in exactly one field, are common.
func TestVerifC16Match(t *testing.T) {
	out := vu.Open("C16")
	out.ShardLen(200)
	rng := vu.NewRng(out.Seed ^ 0xC16A)
	n := out.Count(1500, 40000)
	refPool := [][]gatewayv1.LocalObjectReference{
		nil,
		{{Group: "", Kind: "ConfigMap", Name: "ca"}},
		{{Group: "", Kind: "ConfigMap", Name: "ca2"}},
		{{Group: "core", Kind: "ConfigMap", Name: "ca"}},
		{{Group: "", Kind: "ConfigMap", Name: "ca"}, {Group: "", Kind: "ConfigMap", Name: "ca2"}},
	}
	for i := 0; i < n; i++ {
		r := rng.Fork()
		nb := 1 + r.Intn(5)
		// few distinct policies per case: agreement must be common
		type pol struct {
			ns   string
			refs int
			wk   bool
			host string
		}
		var pool []pol
		base := pol{ns: []string{"a", "b"}[r.Intn(2)], refs: r.Intn(len(refPool)), wk: r.Chance(1, 3), host: []string{"h1.example.com", "h2.example.com"}[r.Intn(2)]}
		pool = append(pool, base)
		for k := 0; k < 2; k++ {
			p := base
			switch r.Intn(5) {
			case 0:
				p.ns = map[string]string{"a": "b", "b": "a"}[p.ns]
			case 1:
				p.refs = r.Intn(len(refPool))
			case 2:
				p.wk = !p.wk
			case 3:
				p.host = map[string]string{"h1.example.com": "h2.example.com", "h2.example.com": "h1.example.com"}[p.host]
			}
			pool = append(pool, p)
		}
		// one policy object per pool entry (a backend that draws the same entry shares the object, as backends of one Service do);
		// entries that came out alike are distinct objects written alike
		srcs := make([]*v1alpha3.BackendTLSPolicy, len(pool))
		for k, p := range pool {
			src := &v1alpha3.BackendTLSPolicy{ObjectMeta: metav1.ObjectMeta{Namespace: p.ns, Name: "btp" + strconv.Itoa(k)},
				Spec: v1alpha3.BackendTLSPolicySpec{Validation: v1alpha3.BackendTLSPolicyValidation{Hostname: gatewayv1.PreciseHostname(p.host), CACertificateRefs: refPool[p.refs]}}}
			if p.wk {
				src.Spec.Validation.WellKnownCACertificates = helpers.GetPointer(v1alpha3.WellKnownCACertificatesSystem)
			}
			srcs[k] = src
		}
		var brefs []BackendRef
		var terms []string
		npol := 0
		for k := 0; k < nb; k++ {
			if r.Chance(1, 6) {
				brefs = append(brefs, BackendRef{})
				terms = append(terms, "None")
				continue
			}
			x := 0
			if r.Chance(1, 2) {
				x = r.Intn(len(pool))
			}
			p := pool[x]
			npol++
			wk := "None"
			if p.wk {
				wk = vu.App("Some", vu.Str("System"))
			}
			brefs = append(brefs, BackendRef{BackendTLSPolicy: &BackendTLSPolicy{Source: srcs[x], Valid: true}})
			var refs []string
			for _, y := range refPool[p.refs] {
				refs = append(refs, vu.Tuple(vu.Str(string(y.Group)), vu.Str(string(y.Kind)), vu.Str(string(y.Name))))
			}
			terms = append(terms, vu.App("Some", vu.App("TPol", vu.Str(p.ns), vu.List(refs), wk, vu.Str(p.host))))
		}
		rejected := validateBackendTLSPolicyMatchingAllBackends(brefs) != nil
		out.Case(vu.App("MCase", vu.List(terms), vu.Bool(rejected)), map[string]any{"backends": terms, "rejected": rejected}, npol >= 2, vu.List(terms))
		out.Tally("backends", strconv.Itoa(nb))
		out.Tally("rejected", strconv.FormatBool(rejected))
	}
	out.Close("C16.PolMatchCheck", "")
}
