//go:build verif

package main

import (
	"os"
	"path/filepath"
	"sort"
	"strconv"
	"strings"
	"testing"

	crossplane "github.com/nginxinc/nginx-go-crossplane"

	vu "github.com/nginx/nginx-gateway-fabric/tests/framework/crossplane/cmd/crossplane/vu"
)

// TestVerifLexCross: a second opinion on ngx/Lexer.v. The configuration files the first part of the C03 check generated through the
// real pipeline (written to <out>/lexfiles) are tokenized by nginx-go-crossplane's lexer; the tokens go to ngx/LexCross.v, which
// compares them with the model's.
func TestVerifLexCross(t *testing.T) { lexCross(t, "C03") }

func lexCross(t *testing.T, prop string) {
	out := vu.Open(prop)
	out.ShardLen(60)
	dir := filepath.Join(os.Getenv("VERIF_OUT"), "..", "lexfiles")
	names, _ := filepath.Glob(filepath.Join(dir, "*"))
	sort.Strings(names)
	if len(names) == 0 {
		t.Fatalf("no generated files under %s: the first part of the check writes them", dir)
	}
	for _, name := range names {
		b, err := os.ReadFile(name)
		if err != nil {
			t.Fatal(err)
		}
		text := string(b)
		var toks []string
		failed := false
		for tok := range crossplane.Lex(strings.NewReader(text)) {
			if tok.Error != nil {
				failed = true
				continue
			}
			toks = append(toks, vu.Pair(vu.Bool(tok.IsQuoted), vu.Str(tok.Value)))
		}
		obs := vu.App("Some", vu.List(toks))
		if failed {
			obs = "None"
		}
		out.Case(vu.App("LCase", vu.Str(text), obs), map[string]any{"file": filepath.Base(name), "tokens": len(toks), "lexer_error": failed}, len(toks) > 100, text)
		out.Tally("tokens_hundreds", strconv.Itoa(len(toks)/100))
	}
	out.Close("ngx.LexCross", "")
}

// TestVerifLexCross04: the same second opinion on the files of the hostile runs of the C04 check.
func TestVerifLexCross04(t *testing.T) { lexCross(t, "C04") }
