(* C13 — lemmas.  Declarative specifications live here (they do not mention the model's control flow):
   [exposes], [prescribed], [serves], [ng_ok]. *)
From Coq Require Import List String ZArith Bool Lia Arith Permutation.
From NGF Require Import C13.Model.
Import ListNotations.
Open Scope string_scope.

(* ================================================================ resolver *)

Lemma addrtype_eqb_eq a b : addrtype_eqb a b = true <-> a = b.
Proof. destruct a, b; simpl; split; intros H; try reflexivity; try discriminate. Qed.

(* every contribution of the slices, stated with find_port (valid for ANY port list) *)
Definition contributes (ns name : string) (sp : sport) (allowed : list addrtype) (slices : list slice) (e : ep) : Prop :=
  exists s en a,
    In s slices /\ belongs ns name s = true /\ s_type s <> ATfqdn /\ In (s_type s) allowed /\
    find_port (s_ports s) sp <> 0%Z /\
    In en (s_eps s) /\ e_ready en = Some true /\ In a (e_addrs en) /\
    e = Ep a (find_port (s_ports s) sp) (addrtype_eqb (s_type s) ATv6).

Lemma ignore_slice_false s sp allowed :
  ignore_slice s sp allowed = false <->
  s_type s <> ATfqdn /\ In (s_type s) allowed /\ find_port (s_ports s) sp <> 0%Z.
Proof.
  unfold ignore_slice.
  destruct (addrtype_eqb (s_type s) ATfqdn) eqn:Hf.
  - apply addrtype_eqb_eq in Hf. split; [discriminate | intros [H _]; contradiction].
  - assert (Hnf : s_type s <> ATfqdn) by (intros H; apply addrtype_eqb_eq in H; congruence).
    destruct (existsb (addrtype_eqb (s_type s)) allowed) eqn:Hex; simpl.
    + apply existsb_exists in Hex. destruct Hex as [t [Hin Ht]]. apply addrtype_eqb_eq in Ht. subst t.
      rewrite Z.eqb_neq. tauto.
    + split; [discriminate|]. intros [_ [Hin _]].
      assert (existsb (addrtype_eqb (s_type s)) allowed = true)
        by (apply existsb_exists; exists (s_type s); split; [assumption | apply addrtype_eqb_eq; reflexivity]).
      congruence.
Qed.

Lemma endpoint_ready_true e : endpoint_ready e = true <-> e_ready e = Some true.
Proof. unfold endpoint_ready. destruct (e_ready e) as [[|]|]; split; congruence. Qed.

Lemma slice_endpoints_in sp s e :
  In e (slice_endpoints sp s) <->
  exists en a, In en (s_eps s) /\ e_ready en = Some true /\ In a (e_addrs en) /\
               e = Ep a (find_port (s_ports s) sp) (addrtype_eqb (s_type s) ATv6).
Proof.
  unfold slice_endpoints. rewrite in_flat_map. split.
  - intros [en [Hen Hin]]. destruct (endpoint_ready en) eqn:Hr; [|contradiction].
    apply endpoint_ready_true in Hr. apply in_map_iff in Hin. destruct Hin as [a [Ha Hia]].
    exists en, a. auto.
  - intros [en [a [Hen [Hr [Ha He]]]]]. exists en. split; [assumption|].
    apply endpoint_ready_true in Hr. rewrite Hr. apply in_map_iff. exists a. auto.
Qed.

Lemma resolved_in ns name sp allowed slices e :
  In e (flat_map (slice_endpoints sp)
          (filter (fun s => negb (ignore_slice s sp allowed)) (filter (belongs ns name) slices))) <->
  contributes ns name sp allowed slices e.
Proof.
  rewrite in_flat_map. unfold contributes. split.
  - intros [s [Hs He]]. apply filter_In in Hs. destruct Hs as [Hs Hig]. apply filter_In in Hs.
    destruct Hs as [Hs Hb]. apply negb_true_iff in Hig. apply ignore_slice_false in Hig.
    apply slice_endpoints_in in He. destruct He as [en [a He]]. exists s, en, a. tauto.
  - intros [s [en [a [Hs [Hb [Hf [Hal [Hp He]]]]]]]]. exists s. split.
    + apply filter_In. split; [apply filter_In; auto|]. apply negb_true_iff. apply ignore_slice_false. auto.
    + apply slice_endpoints_in. exists en, a. tauto.
Qed.

Lemma resolve_some ns name sp allowed slices eps :
  resolve ns name sp allowed slices = Some eps ->
  NoDup eps /\ forall e, In e eps <-> contributes ns name sp allowed slices e.
Proof.
  unfold resolve. intros H.
  destruct (filter (belongs ns name) slices) as [|m0 mine'] eqn:Hm; [discriminate|].
  rewrite <- Hm in H.
  destruct (filter (fun s => negb (ignore_slice s sp allowed)) (filter (belongs ns name) slices))
    as [|f0 fs'] eqn:Hfs; [discriminate|].
  injection H as <-. change (slice_endpoints sp f0 ++ flat_map (slice_endpoints sp) fs')%list with (flat_map (slice_endpoints sp) (f0 :: fs')). rewrite <- Hfs.
  split; [apply NoDup_nodup|]. intros e. rewrite nodup_In. apply resolved_in.
Qed.

Lemma resolve_none ns name sp allowed slices :
  resolve ns name sp allowed slices = None -> forall e, ~ contributes ns name sp allowed slices e.
Proof.
  unfold resolve. intros H e Hc. apply resolved_in in Hc.
  destruct (filter (belongs ns name) slices) as [|m0 mine'] eqn:Hm; [simpl in Hc; contradiction|].
  destruct (filter (fun s => negb (ignore_slice s sp allowed)) (m0 :: mine')) as [|f0 fs'] eqn:Hfs;
    [simpl in Hc; contradiction | discriminate].
Qed.

(* ---------------------------------------------------------------- findPort, declaratively *)

(* as API validation and the EndpointSlice controller write them: unique port names, and "all ports" (nil port)
   only as the single entry *)
Definition wf_ports (ps : list eport) : Prop :=
  NoDup (map ep_name ps) /\ ((exists p, In p ps /\ ep_port p = None) -> List.length ps = 1%nat).

(* the slice publishes port p for the referenced Service port *)
Definition exposes (ps : list eport) (sp : sport) (p : Z) : Prop :=
  p <> 0%Z /\
  ((exists n, ps = [EPort n None] /\ p = default_port sp) \/
   In (EPort (Some (sp_name sp)) (Some p)) ps).

Lemma nil_entry_dec ps :
  {exists p, In p ps /\ ep_port p = None} + {forall p, In p ps -> ep_port p <> None}.
Proof.
  induction ps as [|q ps IH].
  - right. intros p [].
  - destruct (ep_port q) eqn:Hq.
    + destruct IH as [IH|IH].
      * left. destruct IH as [p [Hin Hp]]. exists p. split; [right; assumption | assumption].
      * right. intros p [<-|Hin]; [congruence | auto].
    + left. exists q. split; [left; reflexivity | assumption].
Defined.

Lemma find_port_in ps sp z :
  (forall p, In p ps -> ep_port p <> None) ->
  find_port ps sp = z -> z <> 0%Z -> In (EPort (Some (sp_name sp)) (Some z)) ps.
Proof.
  induction ps as [|q ps IH]; simpl; intros Hall Hf Hz; [congruence|].
  destruct q as [qn qp]. simpl in *. destruct qp as [qz|].
  - destruct qn as [n|].
    + destruct (String.eqb_spec n (sp_name sp)) as [->|Hne].
      * subst. left. reflexivity.
      * right. apply IH; auto.
    + right. apply IH; auto.
  - exfalso. apply (Hall (EPort qn None)); [left; reflexivity | reflexivity].
Qed.

Lemma find_port_unique ps sp z :
  (forall p, In p ps -> ep_port p <> None) -> NoDup (map ep_name ps) ->
  In (EPort (Some (sp_name sp)) (Some z)) ps -> find_port ps sp = z.
Proof.
  induction ps as [|q ps IH]; simpl; intros Hall Hnd Hin; [contradiction|].
  inversion Hnd as [|? ? Hnotin Hnd']; subst.
  destruct Hin as [->|Hin].
  - simpl. rewrite String.eqb_refl. reflexivity.
  - destruct q as [qn qp]. simpl in *. destruct qp as [qz|].
    + destruct qn as [n|].
      * destruct (String.eqb_spec n (sp_name sp)) as [->|Hne].
        -- exfalso. apply Hnotin. apply in_map_iff. exists (EPort (Some (sp_name sp)) (Some z)). auto.
        -- apply IH; auto.
      * apply IH; auto.
    + exfalso. apply (Hall (EPort qn None)); [left; reflexivity | reflexivity].
Qed.

Lemma find_port_exposes ps sp p :
  wf_ports ps -> (find_port ps sp = p /\ p <> 0%Z) <-> exposes ps sp p.
Proof.
  intros [Hnd Hnil]. unfold exposes. destruct (nil_entry_dec ps) as [Hex|Hall].
  - pose proof (Hnil Hex) as Hlen. destruct ps as [|q [|q' ps]]; simpl in Hlen; try discriminate.
    destruct Hex as [p0 [[<-|[]] Hp0]]. destruct q as [qn qp]. simpl in Hp0. subst qp. simpl.
    split.
    + intros [<- Hz]. split; [assumption|]. left. exists qn. auto.
    + intros [Hz [[n [_ ->]]|[Hin|[]]]]; [auto | discriminate].
  - split.
    + intros [Hf Hz]. split; [assumption|]. right. apply find_port_in; assumption.
    + intros [Hz [[n [-> _]]|Hin]].
      * exfalso. apply (Hall (EPort n None)); [left; reflexivity | reflexivity].
      * split; [apply find_port_unique; assumption | assumption].
Qed.

(* ---------------------------------------------------------------- the property's own words *)

(* IP families the NginxProxy setting allows (FQDN never) *)
Definition allowed_type (np : npspec) (t : addrtype) : Prop :=
  (t = ATv4 /\ np <> NP true (Some FIPv6)) \/ (t = ATv6 /\ np <> NP true (Some FIPv4)).

Lemma allowed_type_spec np t :
  (t <> ATfqdn /\ In t (allowed_types (base_family np))) <-> allowed_type np t.
Proof.
  unfold allowed_type.
  destruct np as [|[|] [[| | |]|]]; destruct t; simpl; split;
    try (intros [Hn [H|[H|H]]]; try discriminate; try contradiction);
    try (intros [Hn [H|H]]; try discriminate; try contradiction);
    try (intros [[H1 H2]|[H1 H2]]; try discriminate; try congruence);
    try (left; split; [reflexivity | discriminate]);
    try (right; split; [reflexivity | discriminate]);
    try (split; [discriminate | auto]).
Qed.

(* e is a server the property prescribes for the Service port v in world w *)
Definition prescribed (w : world) (v : svc) (e : ep) : Prop :=
  exists s en a p,
    In s (w_slices w) /\ s_ns s = v_ns v /\ s_label s = Some (v_name v) /\    (* slice belongs to the Service *)
    allowed_type (w_np w) (s_type s) /\                                        (* allowed IP family *)
    exposes (s_ports s) (v_port v) p /\                                        (* exposes the referenced port *)
    In en (s_eps s) /\ e_ready en = Some true /\ In a (e_addrs en) /\          (* a ready address *)
    e = Ep a p (addrtype_eqb (s_type s) ATv6).

Lemma belongs_spec ns name s :
  name <> "" -> (belongs ns name s = true <-> s_ns s = ns /\ s_label s = Some name).
Proof.
  intros Hne. unfold belongs. rewrite andb_true_iff, String.eqb_eq.
  destruct (s_label s) as [l|].
  - rewrite andb_true_iff, negb_true_iff, String.eqb_eq, String.eqb_neq. split.
    + intros [H1 [_ ->]]. auto.
    + intros [H1 H2]. injection H2 as ->. auto.
  - split; [intros [_ H]; discriminate | intros [_ H]; discriminate].
Qed.

Lemma contributes_prescribed w v e :
  v_name v <> "" -> (forall s, In s (w_slices w) -> wf_ports (s_ports s)) ->
  contributes (v_ns v) (v_name v) (v_port v) (allowed_types (base_family (w_np w))) (w_slices w) e <->
  prescribed w v e.
Proof.
  intros Hne Hwf. unfold contributes, prescribed. split.
  - intros [s [en [a [Hs [Hb [Hf [Hal [Hp [Hen [Hr [Ha ->]]]]]]]]]]].
    apply (belongs_spec _ _ _ Hne) in Hb. destruct Hb as [Hns Hl].
    exists s, en, a, (find_port (s_ports s) (v_port v)).
    repeat split; try assumption.
    + apply allowed_type_spec. auto.
    + apply (find_port_exposes _ _ _ (Hwf s Hs)). auto.
  - intros [s [en [a [p [Hs [Hns [Hl [Hal [Hex [Hen [Hr [Ha ->]]]]]]]]]]]].
    apply allowed_type_spec in Hal. destruct Hal as [Hf Hal].
    apply (find_port_exposes _ _ _ (Hwf s Hs)) in Hex. destruct Hex as [<- Hp].
    exists s, en, a. repeat split; try assumption.
    apply (belongs_spec _ _ _ Hne). auto.
Qed.

Lemma world_eps_general w v :
  NoDup (world_eps w v) /\
  forall e, In e (world_eps w v) <->
            contributes (v_ns v) (v_name v) (v_port v) (allowed_types (base_family (w_np w))) (w_slices w) e.
Proof.
  unfold world_eps, world_resolve.
  destruct (resolve (v_ns v) (v_name v) (v_port v) (allowed_types (base_family (w_np w))) (w_slices w)) as [eps|] eqn:Hr.
  - apply resolve_some. exact Hr.
  - split; [constructor|]. intros e. split; [intros [] | intros Hc; exact (resolve_none _ _ _ _ _ Hr e Hc)].
Qed.

Lemma world_eps_exact w v :
  v_name v <> "" -> (forall s, In s (w_slices w) -> wf_ports (s_ports s)) ->
  NoDup (world_eps w v) /\ forall e, In e (world_eps w v) <-> prescribed w v e.
Proof.
  intros Hne Hwf. destruct (world_eps_general w v) as [Hnd Hin]. split; [assumption|].
  intros e. rewrite Hin. apply contributes_prescribed; assumption.
Qed.

(* resolved ports are never 0 (so ConvertEndpoints always prints a port) *)
Lemma world_eps_port_nonzero w v e : In e (world_eps w v) -> a_port e <> 0%Z.
Proof.
  intros H. apply (proj2 (world_eps_general w v)) in H.
  destruct H as [s [en [a [_ [_ [_ [_ [Hp [_ [_ [_ ->]]]]]]]]]]]. exact Hp.
Qed.

(* ---------------------------------------------------------------- the 503 placeholder (NGINX OSS) *)

Lemma oss_http_block_spec w v :
  v_name v <> "" -> (forall s, In s (w_slices w) -> wf_ports (s_ports s)) ->
  ((forall e, ~ prescribed w v e) -> oss_http_block (world_eps w v) = [sock503]) /\
  ((exists e, prescribed w v e) ->
   forall srv, In srv (oss_http_block (world_eps w v)) <-> exists e, prescribed w v e /\ srv = fmt_server e).
Proof.
  intros Hne Hwf. destruct (world_eps_exact w v Hne Hwf) as [_ Hin]. split.
  - intros Hno. destruct (world_eps w v) as [|e l]; [reflexivity|].
    exfalso. apply (Hno e). apply Hin. left. reflexivity.
  - intros [e0 He0] srv. apply Hin in He0.
    destruct (world_eps w v) as [|e l] eqn:Heq; [contradiction|].
    unfold oss_http_block. rewrite in_map_iff. split.
    + intros [e1 [<- H1]]. exists e1. split; [apply Hin; assumption | reflexivity].
    + intros [e1 [H1 ->]]. exists e1. split; [reflexivity | apply Hin; assumption].
Qed.

(* ================================================================ NGINX Plus *)

Lemma mem_in s l : mem s l = true <-> In s l.
Proof.
  unfold mem. rewrite existsb_exists. split.
  - intros [x [Hin Hx]]. apply String.eqb_eq in Hx. subst. assumption.
  - intros H. exists s. split; [assumption | apply String.eqb_refl].
Qed.

Lemma mem_false s l : mem s l = false <-> ~ In s l.
Proof. rewrite <- mem_in. destruct (mem s l); split; congruence. Qed.

(* serversEqual is sound when NGINX's list has no repetition *)
Lemma servers_equal_sound new old :
  NoDup old -> servers_equal new old = true -> forall s, In s new <-> In s old.
Proof.
  unfold servers_equal. intros Hnd H. apply andb_true_iff in H. destruct H as [Hlen Hall].
  apply Nat.eqb_eq in Hlen. rewrite forallb_forall in Hall.
  assert (Hincl : incl old new) by (intros s Hs; apply mem_in; apply Hall; assumption).
  assert (Hincl' : incl new old) by (apply NoDup_length_incl; [assumption | lia | assumption]).
  intros s. split; [apply Hincl' | apply Hincl].
Qed.

Lemma fold_add_spec xs : forall l,
  NoDup l ->
  NoDup (fold_left (fun l s => if mem s l then l else (l ++ [s])%list) xs l) /\
  forall s, In s (fold_left (fun l s => if mem s l then l else (l ++ [s])%list) xs l) <-> In s l \/ In s xs.
Proof.
  induction xs as [|x xs IH]; simpl; intros l Hnd.
  - split; [assumption | intros s; tauto].
  - destruct (mem x l) eqn:Hm.
    + destruct (IH l Hnd) as [H1 H2]. split; [assumption|]. intros s. rewrite H2.
      apply mem_in in Hm. split; [tauto|]. intros [H|[<-|H]]; tauto.
    + apply mem_false in Hm.
      assert (Hnd' : NoDup (l ++ [x])%list).
      { apply Permutation_NoDup with (l := x :: l).
        - apply Permutation_cons_append.
        - constructor; assumption. }
      destruct (IH (l ++ [x])%list Hnd') as [H1 H2]. split; [assumption|]. intros s. rewrite H2.
      rewrite in_app_iff. simpl. tauto.
Qed.

Lemma api_update_spec new old :
  NoDup old -> NoDup (api_update new old) /\ forall s, In s (api_update new old) <-> In s new.
Proof.
  intros Hnd. unfold api_update.
  destruct (fold_add_spec (filter (fun s => negb (mem s old)) new) old Hnd) as [H1 H2].
  split; [apply NoDup_filter; assumption|].
  intros s. rewrite filter_In, H2, mem_in, filter_In, negb_true_iff, mem_false.
  split; [tauto|]. intros H. split; [|assumption].
  destruct (in_dec string_dec s old); tauto.
Qed.

(* ---------------------------------------------------------------- maps *)

Lemma lookup_set_key_same {A} k (v : A) m : lookup k (set_key k v m) = Some v.
Proof.
  induction m as [|[k' v'] m IH]; simpl.
  - rewrite String.eqb_refl. reflexivity.
  - destruct (String.eqb_spec k k') as [->|Hne]; simpl.
    + rewrite String.eqb_refl. reflexivity.
    + destruct (String.eqb_spec k k'); [contradiction | exact IH].
Qed.

Lemma lookup_set_key_other {A} k k2 (v : A) m : k2 <> k -> lookup k2 (set_key k v m) = lookup k2 m.
Proof.
  intros Hne. induction m as [|[k' v'] m IH]; simpl.
  - destruct (String.eqb_spec k2 k); [contradiction | reflexivity].
  - destruct (String.eqb_spec k k') as [->|Hne']; simpl.
    + destruct (String.eqb_spec k2 k'); [contradiction | reflexivity].
    + destruct (String.eqb_spec k2 k'); [reflexivity | exact IH].
Qed.

Lemma lookup_in_keys {A} k (m : list (string * A)) : lookup k m <> None <-> In k (map fst m).
Proof.
  induction m as [|[k' v'] m IH]; simpl.
  - split; [congruence | intros []].
  - destruct (String.eqb_spec k k') as [->|Hne].
    + split; [auto | congruence].
    + rewrite IH. split; [auto | intros [H|H]; [congruence | assumption]].
Qed.

Lemma set_key_keys {A} k (v : A) m : In k (map fst m) -> map fst (set_key k v m) = map fst m.
Proof.
  induction m as [|[k' v'] m IH]; simpl; intros H; [contradiction|].
  destruct (String.eqb_spec k k') as [->|Hne]; simpl; [reflexivity|].
  f_equal. apply IH. destruct H as [H|H]; [congruence | assumption].
Qed.

(* ---------------------------------------------------------------- one kind of upstreams *)

Definition run_t := list (string * (bool * list string)).
Definition files_t := list (string * list string).

(* NGINX balances upstream [name] across exactly [want] *)
Definition serves (run : run_t) (name : string) (want : list string) : Prop :=
  exists st srv, lookup name run = Some (st, srv) /\ NoDup srv /\ forall s, In s srv <-> In s want.

Definition run_nodup (run : run_t) : Prop := forall k st srv, lookup k run = Some (st, srv) -> NoDup srv.
Definition files_nodup (files : files_t) : Prop := forall k l, lookup k files = Some l -> NoDup l.

Lemma update_one_spec files run name eps files' run' :
  update_one files run name eps = (files', run') ->
  run_nodup run -> files_nodup files ->
  run_nodup run' /\ files_nodup files' /\ map fst run' = map fst run /\
  (forall k, k <> name -> lookup k run' = lookup k run) /\
  (lookup name run <> None -> serves run' name (map plus_server eps)) /\
  (lookup name run = None -> lookup name run' = None).
Proof.
  unfold update_one. intros H Hrn Hfn.
  destruct (lookup name run) as [[st old]|] eqn:Hl.
  - pose proof (Hrn _ _ _ Hl) as Hndold.
    destruct (servers_equal (map plus_server eps) old) eqn:Hse.
    + injection H as <- <-. repeat split; auto; try congruence.
      intros _. exists st, old. split; [assumption|]. split; [assumption|].
      intros s. symmetry. apply servers_equal_sound; assumption.
    + destruct (api_update_spec (map plus_server eps) old Hndold) as [Hnd Hin].
      injection H as <- <-. repeat split.
      * intros k st' srv' Hk. destruct (string_dec k name) as [->|Hne].
        -- rewrite lookup_set_key_same in Hk. injection Hk as <- <-. assumption.
        -- rewrite lookup_set_key_other in Hk by assumption. eapply Hrn; eassumption.
      * destruct st; [|assumption]. intros k l Hk. destruct (string_dec k name) as [->|Hne].
        -- rewrite lookup_set_key_same in Hk. injection Hk as <-. assumption.
        -- rewrite lookup_set_key_other in Hk by assumption. eapply Hfn; eassumption.
      * apply set_key_keys. apply lookup_in_keys. congruence.
      * intros k Hne. apply lookup_set_key_other. assumption.
      * intros _. exists st, (api_update (map plus_server eps) old).
        rewrite lookup_set_key_same. auto.
      * congruence.
  - injection H as <- <-. repeat split; auto; congruence.
Qed.

Lemma serves_other run run' name k want :
  k <> name -> lookup name run' = lookup name run -> serves run name want -> serves run' name want.
Proof. intros _ Heq [st [srv [Hl H]]]. exists st, srv. rewrite Heq. auto. Qed.

Lemma update_all_spec conf : forall files run files' run',
  update_all files run conf = (files', run') ->
  NoDup (map fst conf) -> run_nodup run -> files_nodup files ->
  run_nodup run' /\ files_nodup files' /\ map fst run' = map fst run /\
  (forall k, ~ In k (map fst conf) -> lookup k run' = lookup k run) /\
  (forall name eps, In (name, eps) conf -> lookup name run <> None -> serves run' name (map plus_server eps)) /\
  (forall name, lookup name run = None -> lookup name run' = None).
Proof.
  unfold update_all. induction conf as [|[n e] conf IH]; simpl; intros files run files' run' H Hnd Hrn Hfn.
  - injection H as <- <-. repeat split; auto. intros name eps [].
  - destruct (update_one files run n e) as [f1 r1] eqn:H1. simpl in H.
    inversion Hnd as [|? ? Hnotin Hnd']; subst.
    destruct (update_one_spec _ _ _ _ _ _ H1 Hrn Hfn) as [Hrn1 [Hfn1 [Hk1 [Ho1 [Hs1 Hn1]]]]].
    destruct (IH _ _ _ _ H Hnd' Hrn1 Hfn1) as [Hrn2 [Hfn2 [Hk2 [Ho2 [Hs2 Hn2]]]]].
    repeat split; auto.
    + congruence.
    + intros k Hk. rewrite Ho2 by tauto. apply Ho1. intros ->. apply Hk. left. reflexivity.
    + intros name eps [Heq|Hin] Hl.
      * injection Heq as -> ->. specialize (Hs1 Hl). destruct Hs1 as [st [srv [Hl1 Hrest]]].
        exists st, srv. rewrite (Ho2 name Hnotin). auto.
      * apply (Hs2 name eps Hin).
        assert (name <> n).
        { intros ->. apply Hnotin. apply in_map_iff. exists (n, eps). auto. }
        rewrite Ho1 by assumption. assumption.
    + intros name Hl. apply Hn2. destruct (string_dec name n) as [->|Hne]; [auto|].
      rewrite Ho1 by assumption. assumption.
Qed.

(* ---------------------------------------------------------------- reload *)

Lemma lookup_load_state files names k :
  In k names ->
  exists srv, lookup k (load files (map (fun n => (n, None)) names)) = Some (true, srv) /\
              (srv = [] \/ lookup k files = Some srv).
Proof.
  induction names as [|n names IH]; simpl; intros H; [contradiction|].
  destruct (String.eqb_spec k n) as [->|Hne].
  - destruct (lookup n files) as [l|]; eexists; split; try reflexivity; auto.
  - apply IH. destruct H; [congruence | assumption].
Qed.

Lemma load_keys files blocks : map fst (load files blocks) = map fst blocks.
Proof. unfold load. rewrite map_map. apply map_ext. intros [n [l|]]; reflexivity. Qed.

Lemma load_nodup files blocks :
  files_nodup files -> (forall n l, In (n, Some l) blocks -> NoDup l) -> run_nodup (load files blocks).
Proof.
  intros Hfn Hb. induction blocks as [|[n b] blocks IH]; simpl; intros k st srv Hk; [discriminate|].
  destruct b as [l|]; simpl in Hk.
  - destruct (String.eqb k n).
    + injection Hk as <- <-. apply (Hb n l). left. reflexivity.
    + eapply IH; [|eassumption]. intros n' l' Hin. apply (Hb n' l'). right. assumption.
  - destruct (String.eqb k n).
    + injection Hk as <- <-. destruct (lookup n files) as [l|] eqn:Hl; [eapply Hfn; eassumption | constructor].
    + eapply IH; [|eassumption]. intros n' l' Hin. apply (Hb n' l'). right. assumption.
Qed.

(* ---------------------------------------------------------------- the handler on NGINX Plus *)

Definition wf_conf (c : pconf) : Prop := NoDup (map fst (c_http c)) /\ NoDup (map fst (c_stream c)).

(* NGINX serves exactly the configuration's endpoints: every HTTP upstream, every stream upstream that has
   endpoints; a stream upstream without endpoints has no servers (it does not exist) *)
Definition ng_ok (c : pconf) (ng : nginx) : Prop :=
  (forall name eps, In (name, eps) (c_http c) -> serves (n_http ng) name (map plus_server eps)) /\
  (forall name eps, In (name, eps) (c_stream c) -> eps <> [] -> serves (n_stream ng) name (map plus_server eps)) /\
  (forall name, In (name, []) (c_stream c) -> lookup name (n_stream ng) = None).

Definition ng_nodup (ng : nginx) : Prop :=
  files_nodup (n_files ng) /\ run_nodup (n_http ng) /\ run_nodup (n_stream ng).

(* what the handler keeps between batches *)
Definition hinv (c : pconf) (h : hstate) : Prop :=
  ng_nodup (h_ng h) /\ ng_ok c (h_ng h) /\ h_rendered h = rendered_stream c /\
  (forall k, In k (map fst (n_stream (h_ng h))) <-> In k (rendered_stream c)) /\
  (forall k, In k (map fst (c_http c)) -> In k (map fst (n_http (h_ng h)))).

Lemma in_rendered c name : In name (rendered_stream c) <-> exists eps, In (name, eps) (c_stream c) /\ eps <> [].
Proof.
  unfold rendered_stream. rewrite in_map_iff. split.
  - intros [[n e] [<- Hin]]. apply filter_In in Hin. destruct Hin as [Hin Hne]. simpl in *.
    exists e. split; [assumption|]. destruct e; [discriminate | congruence].
  - intros [eps [Hin Hne]]. exists (name, eps). split; [reflexivity|]. apply filter_In. split; [assumption|].
    destruct eps; [contradiction | reflexivity].
Qed.

Lemma update_upstream_servers_spec c ng :
  wf_conf c -> ng_nodup ng ->
  let ng' := update_upstream_servers c ng in
  ng_nodup ng' /\
  map fst (n_http ng') = map fst (n_http ng) /\ map fst (n_stream ng') = map fst (n_stream ng) /\
  (forall name eps, In (name, eps) (c_http c) -> In name (map fst (n_http ng)) ->
                    serves (n_http ng') name (map plus_server eps)) /\
  (forall name eps, In (name, eps) (c_stream c) -> In name (map fst (n_stream ng)) ->
                    serves (n_stream ng') name (map plus_server eps)) /\
  (forall name, lookup name (n_stream ng) = None -> lookup name (n_stream ng') = None).
Proof.
  intros [Hwh Hws] [Hfn [Hrh Hrs]]. unfold update_upstream_servers.
  destruct (update_all (n_files ng) (n_http ng) (c_http c)) as [f1 h1] eqn:H1.
  destruct (update_all f1 (n_stream ng) (c_stream c)) as [f2 s2] eqn:H2. simpl.
  destruct (update_all_spec _ _ _ _ _ H1 Hwh Hrh Hfn) as [Hrh1 [Hfn1 [Hk1 [_ [Hs1 _]]]]].
  destruct (update_all_spec _ _ _ _ _ H2 Hws Hrs Hfn1) as [Hrs2 [Hfn2 [Hk2 [_ [Hs2 Hn2]]]]].
  repeat split; auto.
  - intros name eps Hin Hk. apply (Hs1 name eps Hin). apply lookup_in_keys. assumption.
  - intros name eps Hin Hk. apply (Hs2 name eps Hin). apply lookup_in_keys. assumption.
Qed.

Lemma ng_reload_spec c ng :
  ng_nodup ng ->
  let ng' := ng_reload c ng in
  ng_nodup ng' /\
  map fst (n_http ng') = (map fst (c_http c) ++ [invalid_backend_ref])%list /\
  map fst (n_stream ng') = rendered_stream c.
Proof.
  intros [Hfn [Hrh Hrs]]. unfold ng_reload. simpl. repeat split.
  - assumption.
  - apply load_nodup; [assumption|]. intros n l Hin. unfold plus_http_blocks in Hin.
    apply in_app_or in Hin. destruct Hin as [Hin|[Hin|[]]].
    + apply in_map_iff in Hin. destruct Hin as [x [Hx _]]. discriminate.
    + injection Hin as _ <-. constructor; [intros [] | constructor].
  - apply load_nodup; [assumption|]. intros n l Hin. unfold plus_stream_blocks in Hin.
    apply in_map_iff in Hin. destruct Hin as [x [Hx _]]. discriminate.
  - rewrite load_keys. unfold plus_http_blocks. rewrite map_app, map_map. simpl. reflexivity.
  - rewrite load_keys. unfold plus_stream_blocks. rewrite map_map. simpl. apply map_id.
Qed.

Lemma stream_empty_not_rendered c name :
  NoDup (map fst (c_stream c)) -> In (name, []) (c_stream c) -> ~ In name (rendered_stream c).
Proof.
  intros Hnd Hin Hr. apply in_rendered in Hr. destruct Hr as [eps [Hin' Hne]].
  assert (eps = []); [|contradiction].
  clear Hne. induction (c_stream c) as [|[n e] l IH]; [contradiction|].
  simpl in Hnd. inversion Hnd as [|? ? Hnotin Hnd']; subst.
  destruct Hin as [Heq|Hin]; destruct Hin' as [Heq'|Hin'].
  - congruence.
  - injection Heq as -> ->. exfalso. apply Hnotin. apply in_map_iff. exists (name, eps). auto.
  - injection Heq' as -> ->. exfalso. apply Hnotin. apply in_map_iff. exists (name, []). auto.
  - auto.
Qed.

(* the reload path establishes the invariant from any NGINX state *)
Lemma reload_path_ok c ng :
  wf_conf c -> ng_nodup ng -> hinv c (HState (update_nginx_conf c ng) (rendered_stream c)).
Proof.
  intros Hwf Hnd. unfold update_nginx_conf.
  destruct (ng_reload_spec c ng Hnd) as [Hnd1 [Hkh Hks]].
  destruct (update_upstream_servers_spec c (ng_reload c ng) Hwf Hnd1) as [Hnd2 [Hkh2 [Hks2 [Hh [Hs Hn]]]]].
  unfold hinv. simpl.
  split; [exact Hnd2|]. split; [|split; [reflexivity|split]].
  - split; [|split].
    + intros name eps Hin. apply (Hh name eps Hin). rewrite Hkh. apply in_or_app. left.
      apply in_map_iff. exists (name, eps). auto.
    + intros name eps Hin Hne. apply (Hs name eps Hin). rewrite Hks. apply in_rendered. exists eps. auto.
    + intros name Hin. apply Hn. destruct (lookup name (n_stream (ng_reload c ng))) eqn:Hl; [|reflexivity].
      exfalso. apply (stream_empty_not_rendered c name (proj2 Hwf) Hin). rewrite <- Hks.
      apply lookup_in_keys. congruence.
  - intros k. rewrite Hks2, Hks. tauto.
  - intros k Hk. rewrite Hkh2, Hkh. apply in_or_app. left. assumption.
Qed.

(* between two reloads only endpoints change: the referenced Service ports stay the same *)
Definition same_shape (c c' : pconf) : Prop :=
  map fst (c_http c) = map fst (c_http c') /\ map fst (c_stream c) = map fst (c_stream c').

Lemma names_eqb_spec a b : names_eqb a b = true <-> forall s, In s a <-> In s b.
Proof.
  unfold names_eqb. rewrite andb_true_iff, !forallb_forall. split.
  - intros [H1 H2] s. split; intros H; apply mem_in; auto.
  - intros H. split; intros s Hs; apply mem_in; apply H; assumption.
Qed.

Lemma plus_step_ok (r : bool) c c' h :
  wf_conf c' -> hinv c h -> (r = true \/ same_shape c c') -> hinv c' (plus_step true r c' h).
Proof.
  intros Hwf [Hnd [Hok [Hren [Hks Hkh]]]] Hshape. unfold plus_step.
  destruct (r || true && negb (names_eqb (h_rendered h) (rendered_stream c'))) eqn:Hneed.
  - apply reload_path_ok; assumption.
  - apply orb_false_iff in Hneed. destruct Hneed as [Hr Hneq]. subst r. simpl in Hneq.
    apply negb_false_iff in Hneq. rewrite Hren in Hneq.
    pose proof (proj1 (names_eqb_spec _ _) Hneq) as Hsame.
    destruct Hshape as [Hf | [Hsh Hss]]; [discriminate|].
    destruct (update_upstream_servers_spec c' (h_ng h) Hwf Hnd) as [Hnd2 [Hkh2 [Hks2 [Hh [Hs Hn]]]]].
    unfold hinv. simpl.
    split; [exact Hnd2|]. split; [|split; [reflexivity|split]].
    + split; [|split].
      * intros name eps Hin. apply (Hh name eps Hin). apply Hkh. rewrite Hsh.
        apply in_map_iff. exists (name, eps). auto.
      * intros name eps Hin Hne. apply (Hs name eps Hin). apply Hks. apply Hsame. apply in_rendered.
        exists eps. auto.
      * intros name Hin. apply Hn. destruct (lookup name (n_stream (h_ng h))) eqn:Hl; [|reflexivity].
        exfalso. apply (stream_empty_not_rendered c' name (proj2 Hwf) Hin). apply Hsame. apply Hks.
        apply lookup_in_keys. congruence.
    + intros k. rewrite Hks2. rewrite Hks. apply Hsame.
    + intros k Hk. rewrite Hkh2. apply Hkh. rewrite Hsh. assumption.
Qed.

(* histories: the first batch is a ClusterStateChange; an EndpointsOnlyChange keeps the set of referenced ports *)
Fixpoint valid_from (prev : option pconf) (steps : list (bool * pconf)) : Prop :=
  match steps with
  | [] => True
  | (r, c) :: steps' =>
      wf_conf c /\ (r = true \/ exists p, prev = Some p /\ same_shape p c) /\ valid_from (Some c) steps'
  end.

Definition last_conf (prev : option pconf) (steps : list (bool * pconf)) : option pconf :=
  fold_left (fun _ rc => Some (snd rc)) steps prev.

Lemma ng_nodup0 : ng_nodup nginx0.
Proof. repeat split; intros k; intros; discriminate. Qed.

Lemma plus_run_ok steps : forall prev h,
  valid_from prev steps ->
  ng_nodup (h_ng h) -> (forall p, prev = Some p -> hinv p h) ->
  forall c, last_conf prev steps = Some c -> hinv c (plus_run true steps h).
Proof.
  induction steps as [|[r c1] steps IH]; simpl; intros prev h Hv Hnd Hp c Hl.
  - apply Hp. exact Hl.
  - destruct Hv as [Hwf [Hr Hv]].
    assert (Hinv1 : hinv c1 (plus_step true r c1 h)).
    { destruct Hr as [->|[p [-> Hsh]]].
      - unfold plus_step. simpl. apply reload_path_ok; assumption.
      - apply (plus_step_ok r p c1 h Hwf (Hp p eq_refl)). right. assumption. }
    apply (IH (Some c1) _ Hv).
    + destruct Hinv1 as [H _]. exact H.
    + intros p Heq. injection Heq as <-. exact Hinv1.
    + exact Hl.
Qed.

Lemma plus_history_ok steps c :
  valid_from None steps -> last_conf None steps = Some c -> ng_ok c (h_ng (plus_run true steps hstate0)).
Proof.
  intros Hv Hl.
  assert (H : hinv c (plus_run true steps hstate0)).
  { apply (plus_run_ok steps None hstate0 Hv); [apply ng_nodup0 | discriminate | exact Hl]. }
  destruct H as [_ [H _]]. exact H.
Qed.

(* an EndpointsOnlyChange leaves NGINX serving what a ClusterStateChange (reload) would have produced *)
Lemma api_path_same_as_reload c c' h :
  wf_conf c' -> hinv c h -> same_shape c c' ->
  ng_ok c' (h_ng (plus_step true false c' h)) /\ ng_ok c' (h_ng (plus_step true true c' h)).
Proof.
  intros Hwf Hinv Hsh. split.
  - destruct (plus_step_ok false c c' h Hwf Hinv (or_intror Hsh)) as [_ [H _]]. exact H.
  - destruct (plus_step_ok true c c' h Hwf Hinv (or_introl eq_refl)) as [_ [H _]]. exact H.
Qed.

(* ---------------------------------------------------------------- D32: the code as found *)

Definition d32_e1 := Ep "10.0.0.1" 8080%Z false.
Definition d32_c0 := PConf [] [("ns1_svc-a_80", [])].
Definition d32_c1 := PConf [] [("ns1_svc-a_80", [d32_e1])].
Definition d32_steps := [(true, d32_c0); (false, d32_c1)].

Lemma d32_valid : valid_from None d32_steps.
Proof.
  assert (Hnd1 : forall n : string, NoDup [n]) by (intros n; constructor; [intros [] | constructor]).
  simpl. split; [split; [constructor | apply Hnd1]|]. split; [left; reflexivity|].
  split; [split; [constructor | apply Hnd1]|]. split; [|exact I].
  right. exists d32_c0. split; [reflexivity | split; reflexivity].
Qed.

Lemma d32_refuted : ~ ng_ok d32_c1 (h_ng (plus_run false d32_steps hstate0)).
Proof.
  intros [_ [H _]]. specialize (H "ns1_svc-a_80" [d32_e1] (or_introl eq_refl)).
  destruct H as [st [srv [Hl _]]]; [discriminate|]. vm_compute in Hl. discriminate.
Qed.

Lemma d32_repaired : ng_ok d32_c1 (h_ng (plus_run true d32_steps hstate0)).
Proof. apply plus_history_ok; [exact d32_valid | reflexivity]. Qed.

(* ================================================================ non-vacuity *)

Definition ex_sp := SPort "http" 80%Z (TInt 0%Z).
Definition ex_svc := Svc "ns1" "svc-a" ex_sp false.
Definition ex_world :=
  World (NP true (Some FIPv4))
        [ Slice "s1" "ns1" (Some "svc-a") ATv4 [EPort (Some "http") (Some 8080%Z); EPort (Some "metrics") (Some 9090%Z)]
                [Endp (Some true) ["10.0.0.1"; "10.0.0.2"]; Endp (Some false) ["10.0.0.3"]];
          Slice "s2" "ns1" (Some "svc-a") ATv4 [EPort (Some "http") (Some 8080%Z)]
                [Endp (Some true) ["10.0.0.2"]; Endp None ["10.0.0.4"]];
          Slice "s3" "ns1" (Some "svc-a") ATv6 [EPort (Some "http") (Some 8080%Z)] [Endp (Some true) ["fd00::1"]];
          Slice "s4" "ns1" (Some "svc-a") ATv4 [EPort (Some "x") None] [Endp (Some true) ["10.0.0.9"]] ]
        [ex_svc].

Example ex_world_wf : forall s, In s (w_slices ex_world) -> wf_ports (s_ports s).
Proof.
  intros s [<-|[<-|[<-|[<-|[]]]]]; split; simpl;
    try (repeat constructor; simpl; intuition discriminate);
    try reflexivity;
    intros [p [Hin Hp]]; simpl in Hin; intuition (subst; simpl in *; try discriminate; try reflexivity).
Qed.

Example ex_world_eps :
  world_eps ex_world ex_svc = [Ep "10.0.0.1" 8080%Z false; Ep "10.0.0.2" 8080%Z false; Ep "10.0.0.9" 80%Z false].
Proof. vm_compute. reflexivity. Qed.

Example ex_prescribed : prescribed ex_world ex_svc (Ep "10.0.0.9" 80%Z false).
Proof.
  assert (Hne : v_name ex_svc <> "") by (simpl; discriminate).
  destruct (world_eps_exact ex_world ex_svc Hne ex_world_wf) as [_ H].
  refine (proj1 (H (Ep "10.0.0.9" 80%Z false)) _). rewrite ex_world_eps. right. right. left. reflexivity.
Qed.

Example ex_503 : oss_http_block (world_eps (World NoNP [] [ex_svc]) ex_svc) = [sock503].
Proof. reflexivity. Qed.

Example ex_servers_equal : servers_equal ["a"; "b"] ["b"; "a"] = true /\ NoDup ["b"; "a"].
Proof. split; [reflexivity | repeat constructor; simpl; intuition discriminate]. Qed.

(* a history with an HTTP upstream and a TLSRoute upstream that goes 0 -> 1 -> 0 through endpoint-only changes *)
Definition ex_e2 := Ep "fd00::2" 8443%Z true.
Definition ex_hist : list (bool * pconf) :=
  [ (true,  PConf [("ns1_svc-a_80", [])] [("ns1_svc-b_443", [])]);
    (false, PConf [("ns1_svc-a_80", [d32_e1])] [("ns1_svc-b_443", [ex_e2])]);
    (false, PConf [("ns1_svc-a_80", [d32_e1; Ep "10.0.0.2" 8080%Z false])] [("ns1_svc-b_443", [])]) ].

Example ex_hist_valid : valid_from None ex_hist.
Proof.
  simpl. repeat split; try (repeat constructor; simpl; tauto); try (left; reflexivity);
    right; eexists; repeat split.
Qed.

Definition view_of (h : hstate) :=
  (map (fun x => (fst x, snd (snd x))) (n_http (h_ng h)), map (fun x => (fst x, snd (snd x))) (n_stream (h_ng h))).

Example ex_hist_result :
  view_of (plus_run true ex_hist hstate0) =
  ([("ns1_svc-a_80", ["10.0.0.1:8080"; "10.0.0.2:8080"]); ("invalid-backend-ref", [sock500])], []).
Proof. vm_compute. reflexivity. Qed.
