"""C07 check configuration."""


def setup(register, COMMON_TB):
    register(
        "C07", coq="C07", coq_extra=["k8s"], pkg="./internal/mode/static/", test="TestVerifC07",
        rule="generated cluster states (as C02) run through the real handler with a successful or failing (file write / reload) apply; the statuses "
             "written by the real setters are read back from the objects and compared inside Coq with the declarative attachment relation: Accepted "
             "per parentRef iff served, ResolvedRefs False iff a processed rule has an invalid backend, exactly one entry per parentRef with the "
             "object's generation, attachedRoutes per listener, Programmed only when valid and the reload succeeded; non-trivial = at least 2 routes",
        trusted_base=COMMON_TB + [
            "k8s/Spec.v: declarative attachment/validity relation used as the truth about what is programmed (the same relation the C02 check validates "
            "against the generated NGINX configuration)",
            "controller-runtime fake client as API server; generation is set by the generator (timestamp + 1)",
        ],
        assumptions=["policy ancestor statuses are covered by C08/C04, not here"],
        timeout={"quick": 900, "thorough": 7200},
    )
