//go:build verif

package config

import (
	"go/ast"
	"go/parser"
	"go/token"
	"os"
	"path/filepath"
	"strings"
	"testing"

	vu "github.com/nginx/nginx-gateway-fabric/internal/verifutil"
)

// verifCountParsedTemplates counts, in the non-test sources below internal/, the calls X.Parse(...) in files that
// import text/template: every one of them creates a template that must be registered.
func verifCountParsedTemplates(t *testing.T) (n int, where []string) {
	root := filepath.Join("..", "..", "..", "..") // internal/
	fset := token.NewFileSet()
	err := filepath.Walk(root, func(p string, info os.FileInfo, err error) error {
		if err != nil {
			return err
		}
		if info.IsDir() || !strings.HasSuffix(p, ".go") || strings.HasSuffix(p, "_test.go") || strings.Contains(p, "zz_verif") {
			return nil
		}
		f, perr := parser.ParseFile(fset, p, nil, 0)
		if perr != nil {
			return perr
		}
		imports := false
		for _, im := range f.Imports {
			if im.Path.Value == `"text/template"` || im.Path.Value == `"html/template"` {
				imports = true
			}
		}
		if !imports {
			return nil
		}
		ast.Inspect(f, func(nd ast.Node) bool {
			if c, ok := nd.(*ast.CallExpr); ok {
				if s, ok := c.Fun.(*ast.SelectorExpr); ok && (s.Sel.Name == "Parse" || s.Sel.Name == "ParseFiles" || s.Sel.Name == "ParseGlob" || s.Sel.Name == "ParseFS") {
					n++
					where = append(where, fset.Position(c.Pos()).String())
				}
			}
			return true
		})
		return nil
	})
	if err != nil {
		t.Fatal(err)
	}
	return n, where
}

// TestVerifGenTemplates writes coq/gen/Templates.v ($VERIF_GEN_OUT) from the parse trees the package variables hold.
func TestVerifGenTemplates(t *testing.T) {
	out := os.Getenv("VERIF_GEN_OUT")
	if out == "" {
		t.Skip("VERIF_GEN_OUT not set")
	}
	regs := VerifAllTemplates()
	n, where := verifCountParsedTemplates(t)
	if n != len(regs) {
		t.Fatalf("the sources below internal/ parse %d templates (%v) but %d are registered in the zz_verif_tmpl.go hook files", n, where, len(regs))
	}
	if err := os.WriteFile(out, []byte(vu.TmplCoqFile(regs)), 0o644); err != nil {
		t.Fatal(err)
	}
}
