(* The order in which matches are tried is a function of the cluster state only: whatever order the Routes were
   visited in (Go map iteration), the stable sort yields the same list, namely the list sorted by
   (method, header count, query count, Route age, Route namespace/name, position in the Route). *)
From Coq Require Import List String ZArith Bool Arith Lia Permutation Sorted.
From NGF Require Import lib.Str lib.Order C14.MatchSort.
Import ListNotations.

(* ---------------------------------------------------------------- rank: what higher compares before the Route *)

Definition rank (a : mrule) : nat * nat * nat := ((if m_method a then 1 else 0), m_nh a, m_nq a).

Definition rank_gt (a b : mrule) : Prop :=
  let '(ma, ha, qa) := rank a in let '(mb, hb, qb) := rank b in
  ma > mb \/ (ma = mb /\ (ha > hb \/ (ha = hb /\ qa > qb))).

Lemma higher_spec : forall a b,
  higher a b = true <-> rank_gt a b \/ (rank a = rank b /\ key_lt (m_key a) (m_key b) = true).
Proof.
  intros a b. unfold higher, rank_gt, rank.
  destruct (m_method a), (m_method b); cbn [andb negb];
    destruct (Nat.eqb_spec (m_nh a) (m_nh b)) as [Eh|Eh]; cbn [negb];
    try destruct (Nat.eqb_spec (m_nq a) (m_nq b)) as [Eq|Eq]; cbn [negb];
    rewrite ?Nat.ltb_lt; split; intros H;
    try (destruct H as [H|[H1 H2]]; try (inversion H1; subst)); try lia; try discriminate; try tauto;
    try (right; split; [congruence|exact H]); try (left; lia).
Qed.

Lemma rank_gt_irrefl : forall a, ~ rank_gt a a.
Proof. intros a. unfold rank_gt. destruct (rank a) as [[m h] q]. lia. Qed.

Lemma rank_gt_trans : forall a b c, rank_gt a b -> rank_gt b c -> rank_gt a c.
Proof.
  intros a b c. unfold rank_gt.
  destruct (rank a) as [[ma ha] qa], (rank b) as [[mb hb] qb], (rank c) as [[mc hc] qc]. lia.
Qed.

Lemma rank_gt_eq_l : forall a b c, rank a = rank b -> rank_gt b c -> rank_gt a c.
Proof. intros a b c E. unfold rank_gt. rewrite E. tauto. Qed.

Lemma rank_gt_eq_r : forall a b c, rank b = rank c -> rank_gt a b -> rank_gt a c.
Proof. intros a b c E. unfold rank_gt. rewrite E. tauto. Qed.

Lemma rank_total : forall a b, rank_gt a b \/ rank a = rank b \/ rank_gt b a.
Proof.
  intros a b. unfold rank_gt. destruct (rank a) as [[ma ha] qa], (rank b) as [[mb hb] qb].
  destruct (lt_eq_lt_dec ma mb) as [[?|?]|?]; destruct (lt_eq_lt_dec ha hb) as [[?|?]|?];
    destruct (lt_eq_lt_dec qa qb) as [[?|?]|?]; subst; try (left; lia); try (right; right; lia); right; left; reflexivity.
Qed.

Lemma higher_irrefl : forall a, higher a a = false.
Proof.
  intros a. destruct (higher a a) eqn:H; [|reflexivity]. apply higher_spec in H.
  destruct H as [H|[_ H]]; [exfalso; exact (rank_gt_irrefl a H)|]. rewrite key_lt_irrefl in H. discriminate.
Qed.

Lemma higher_trans : forall a b c, higher a b = true -> higher b c = true -> higher a c = true.
Proof.
  intros a b c Hab Hbc. apply higher_spec in Hab. apply higher_spec in Hbc. apply higher_spec.
  destruct Hab as [Hab|[Eab Kab]]; destruct Hbc as [Hbc|[Ebc Kbc]].
  - left. eapply rank_gt_trans; eassumption.
  - left. eapply rank_gt_eq_r; eassumption.
  - left. eapply rank_gt_eq_l; eassumption.
  - right. split; [congruence|]. eapply key_lt_trans; eassumption.
Qed.

Lemma higher_asym : forall a b, higher a b = true -> higher b a = false.
Proof.
  intros a b H. destruct (higher b a) eqn:H'; [|reflexivity].
  pose proof (higher_trans _ _ _ H H') as Haa. rewrite higher_irrefl in Haa. discriminate.
Qed.

(* ties: same rank and same Route key *)
Lemma tie_spec : forall a b, tie a b = true <-> rank a = rank b /\ m_key a = m_key b.
Proof.
  intros a b. unfold tie. rewrite andb_true_iff, !negb_true_iff. split.
  - intros [Hab Hba].
    destruct (rank_total a b) as [G|[E|G]].
    + assert (higher a b = true) by (apply higher_spec; left; exact G). congruence.
    + split; [exact E|]. destruct (key_eq_dec (m_key a) (m_key b)) as [K|K]; [exact K|].
      destruct (key_lt_total _ _ K) as [L|L].
      * assert (higher a b = true) by (apply higher_spec; right; split; assumption). congruence.
      * assert (higher b a = true) by (apply higher_spec; right; split; [symmetry; assumption|assumption]). congruence.
    + assert (higher b a = true) by (apply higher_spec; left; exact G). congruence.
  - intros [E K]. split.
    + destruct (higher a b) eqn:H; [|reflexivity]. apply higher_spec in H. destruct H as [G|[_ L]].
      * exfalso. unfold rank_gt in G. rewrite E in G. destruct (rank b) as [[m h] q]. lia.
      * rewrite K, key_lt_irrefl in L. discriminate.
    + destruct (higher b a) eqn:H; [|reflexivity]. apply higher_spec in H. destruct H as [G|[_ L]].
      * exfalso. unfold rank_gt in G. rewrite E in G. destruct (rank b) as [[m h] q]. lia.
      * rewrite K, key_lt_irrefl in L. discriminate.
Qed.

Lemma tie_higher_l : forall a b c, tie a b = true -> higher b c = true -> higher a c = true.
Proof.
  intros a b c T H. apply tie_spec in T. destruct T as [E K]. apply higher_spec in H. apply higher_spec.
  destruct H as [G|[E2 L]]; [left; eapply rank_gt_eq_l; eassumption|right; split; [congruence|rewrite K; exact L]].
Qed.

Lemma tie_higher_r : forall a b c, higher a b = true -> tie b c = true -> higher a c = true.
Proof.
  intros a b c H T. apply tie_spec in T. destruct T as [E K]. apply higher_spec in H. apply higher_spec.
  destruct H as [G|[E2 L]]; [left; eapply rank_gt_eq_r; eassumption|right; split; [congruence|rewrite <- K; exact L]].
Qed.

Lemma tie_trans : forall a b c, tie a b = true -> tie b c = true -> tie a c = true.
Proof. intros a b c H1 H2. apply tie_spec in H1, H2. apply tie_spec. destruct H1, H2. split; congruence. Qed.

Lemma tie_sym : forall a b, tie a b = tie b a.
Proof. intros a b. unfold tie. apply andb_comm. Qed.

(* ---------------------------------------------------------------- the full order *)

Lemma before_trans : forall a b c, before a b = true -> before b c = true -> before a c = true.
Proof.
  intros a b c. unfold before. rewrite !orb_true_iff, !andb_true_iff, !Nat.ltb_lt.
  intros [H1|[T1 L1]] [H2|[T2 L2]].
  - left. eapply higher_trans; eassumption.
  - left. eapply tie_higher_r; eassumption.
  - left. eapply tie_higher_l; eassumption.
  - right. split; [eapply tie_trans; eassumption|lia].
Qed.

Lemma before_asym : forall a b, before a b = true -> before b a = false.
Proof.
  intros a b H. destruct (before b a) eqn:H'; [|reflexivity]. exfalso.
  unfold before in H, H'. rewrite !orb_true_iff, !andb_true_iff, !Nat.ltb_lt in H, H'.
  destruct H as [H|[T L]]; destruct H' as [H'|[T' L']].
  - rewrite (higher_asym _ _ H) in H'. discriminate.
  - unfold tie in T'. rewrite H in T'. rewrite andb_false_r in T'. discriminate.
  - unfold tie in T. rewrite H' in T. rewrite andb_false_r in T. discriminate.
  - lia.
Qed.

(* ---------------------------------------------------------------- the sort *)

Lemma insert_perm : forall x l, Permutation (x :: l) (insert x l).
Proof.
  intros x. induction l as [|y l IH]; cbn [insert]; [reflexivity|].
  destruct (higher y x); [|reflexivity].
  eapply perm_trans; [apply perm_swap|]. apply perm_skip. exact IH.
Qed.

Lemma sort_perm : forall l, Permutation l (sort l).
Proof.
  induction l as [|x l IH]; [reflexivity|]. cbn [sort fold_right].
  eapply perm_trans; [apply perm_skip; exact IH|]. apply insert_perm.
Qed.

(* x is ahead (in the input) of every element of l it ties with *)
Definition ahead (x : mrule) (l : list mrule) : Prop := forall y, In y l -> tie x y = true -> m_idx x < m_idx y.

Definition leq (a b : mrule) : Prop := before a b = true.

Lemma insert_sorted : forall x l, StronglySorted leq l -> ahead x l -> StronglySorted leq (insert x l).
Proof.
  intros x. induction l as [|y l IH]; intros Hs Ha; cbn [insert]; [repeat constructor|].
  inversion Hs as [|? ? Hs' Hall]; subst.
  destruct (higher y x) eqn:Hyx.
  - constructor.
    + apply IH; [exact Hs'|]. intros z Hz. apply Ha. right. exact Hz.
    + apply Forall_forall. intros z Hz. apply (Permutation_in _ (Permutation_sym (insert_perm x l))) in Hz.
      destruct Hz as [->|Hz]; [unfold leq, before; rewrite Hyx; reflexivity|].
      rewrite Forall_forall in Hall. apply Hall. exact Hz.
  - assert (Hxy : leq x y).
    { unfold leq, before. destruct (higher x y) eqn:Hxy; [reflexivity|].
      assert (T : tie x y = true) by (unfold tie; rewrite Hxy, Hyx; reflexivity).
      rewrite T. cbn [orb andb]. apply Nat.ltb_lt. apply Ha; [left; reflexivity|exact T]. }
    constructor; [exact Hs|]. constructor; [exact Hxy|].
    rewrite Forall_forall in Hall |- *. intros z Hz. unfold leq in *. eapply before_trans; [exact Hxy|apply Hall; exact Hz].
Qed.

(* the input lists the matches of every Route in the Route's own order *)
Fixpoint route_ordered (l : list mrule) : Prop :=
  match l with
  | [] => True
  | x :: l' => ahead x l' /\ route_ordered l'
  end.

Lemma sort_sorted : forall l, route_ordered l -> StronglySorted leq (sort l).
Proof.
  induction l as [|x l IH]; intros Ho; [constructor|].
  destruct Ho as [Ha Ho]. cbn [sort fold_right]. apply insert_sorted; [apply IH; exact Ho|].
  intros y Hy. apply Ha. apply (Permutation_in _ (Permutation_sym (sort_perm l))). exact Hy.
Qed.

(* two lists sorted by an asymmetric order with the same elements are equal *)
Lemma sorted_unique : forall l1 l2, StronglySorted leq l1 -> StronglySorted leq l2 -> Permutation l1 l2 -> NoDup l1 -> l1 = l2.
Proof.
  induction l1 as [|a l1 IH]; intros l2 S1 S2 P N.
  - apply Permutation_nil in P. subst. reflexivity.
  - destruct l2 as [|b l2]; [apply Permutation_sym, Permutation_nil in P; discriminate|].
    inversion S1 as [|? ? S1' A1]; subst. inversion S2 as [|? ? S2' A2]; subst. inversion N as [|? ? Nin N']; subst.
    assert (a = b) as ->.
    { assert (Hb : In b (a :: l1)) by (apply (Permutation_in _ (Permutation_sym P)); left; reflexivity).
      assert (Ha : In a (b :: l2)) by (apply (Permutation_in _ P); left; reflexivity).
      destruct Hb as [Hb|Hb]; [exact Hb|]. destruct Ha as [Ha|Ha]; [symmetry; exact Ha|].
      rewrite Forall_forall in A1, A2. pose proof (A1 _ Hb) as H1. pose proof (A2 _ Ha) as H2. unfold leq in *.
      rewrite (before_asym _ _ H1) in H2. discriminate. }
    f_equal. apply IH; [assumption|assumption|eapply Permutation_cons_inv; exact P|assumption].
Qed.

Theorem sort_independent_of_visit_order : forall l1 l2,
  Permutation l1 l2 -> NoDup l1 -> route_ordered l1 -> route_ordered l2 -> sort l1 = sort l2.
Proof.
  intros l1 l2 P N O1 O2. apply sorted_unique.
  - apply sort_sorted. exact O1.
  - apply sort_sorted. exact O2.
  - eapply perm_trans; [apply Permutation_sym, sort_perm|]. eapply perm_trans; [exact P|apply sort_perm].
  - eapply Permutation_NoDup; [apply sort_perm|exact N].
Qed.

(* what the sorted list looks like: every earlier element is before every later one in the full order *)
Theorem sort_is_the_priority_order : forall l, route_ordered l ->
  StronglySorted (fun a b => before a b = true) (sort l) /\ Permutation l (sort l).
Proof. intros l H. split; [exact (sort_sorted l H)|apply sort_perm]. Qed.

(* non-vacuity: two Routes with tying rules, visited in either order *)
Local Open Scope string_scope.
Definition ex_older : key := (1%Z, "ns", "a").
Definition ex_newer : key := (2%Z, "ns", "b").
Definition ex_l1 := [MR false 1 0 ex_newer 0 10; MR false 1 0 ex_newer 1 11; MR false 1 0 ex_older 0 20; MR true 0 0 ex_older 1 21].
Definition ex_l2 := [MR false 1 0 ex_older 0 20; MR true 0 0 ex_older 1 21; MR false 1 0 ex_newer 0 10; MR false 1 0 ex_newer 1 11].
Example ex_sort : map m_tag (sort ex_l1) = [21; 20; 10; 11] /\ sort ex_l1 = sort ex_l2.
Proof. split; reflexivity. Qed.
