//go:build verif

package static

// C12 — "a reload is reported successful only if NGINX really runs that version".
//
// Part A drives the REAL runtime.ManagerImpl.Reload (real ProcessHandlerImpl.FindMainProcess/ReadFile, real
// VerifyClient speaking HTTP over a temporary unix socket) against a scripted NGINX master: pid file
// missing / late / garbled / unreadable, SIGHUP failing, workers not respawned or respawned late,
// children file unreadable, version endpoint stale / refusing / resetting / non-200 / garbage / hanging,
// deadlines and cancellation.  Only the environment is faked: os.Stat/os.ReadFile of the pid file and of
// /proc/<pid>/task/<pid>/children, syscall.Kill, the NGINX behind the socket, the metrics collector.
// The answers actually SERVED to the implementation are recorded and become the environment of the case.
//
// Part B drives the REAL eventHandlerImpl (real ChangeProcessorImpl, validators, resolver, generator,
// status preparers and setters) through batch sequences with a fault-injecting file manager and
// runtime manager and records versions, issued statuses and readyz.

import (
	"bytes"
	"context"
	"errors"
	"fmt"
	"io"
	"io/fs"
	"net"
	"net/http"
	"os"
	"path/filepath"
	"regexp"
	"strconv"
	"strings"
	"sync"
	"syscall"
	"testing"
	"time"

	"github.com/go-logr/logr"
	ngxclient "github.com/nginxinc/nginx-plus-go-client/client"
	"go.uber.org/zap"
	apiv1 "k8s.io/api/core/v1"
	discoveryV1 "k8s.io/api/discovery/v1"
	metav1 "k8s.io/apimachinery/pkg/apis/meta/v1"
	"k8s.io/apimachinery/pkg/types"
	"k8s.io/client-go/tools/record"
	"sigs.k8s.io/controller-runtime/pkg/client"
	"sigs.k8s.io/controller-runtime/pkg/client/fake"
	gatewayv1 "sigs.k8s.io/gateway-api/apis/v1"
	"sigs.k8s.io/gateway-api/apis/v1alpha2"

	"github.com/nginx/nginx-gateway-fabric/internal/framework/controller/index"
	"github.com/nginx/nginx-gateway-fabric/internal/framework/events"
	"github.com/nginx/nginx-gateway-fabric/internal/framework/gatewayclass"
	"github.com/nginx/nginx-gateway-fabric/internal/framework/helpers"
	"github.com/nginx/nginx-gateway-fabric/internal/framework/kinds"
	frameworkStatus "github.com/nginx/nginx-gateway-fabric/internal/framework/status"
	ngfConfig "github.com/nginx/nginx-gateway-fabric/internal/mode/static/config"
	"github.com/nginx/nginx-gateway-fabric/internal/mode/static/licensing/licensingfakes"
	"github.com/nginx/nginx-gateway-fabric/internal/mode/static/metrics/collectors"
	ngxcfg "github.com/nginx/nginx-gateway-fabric/internal/mode/static/nginx/config"
	ngxvalidation "github.com/nginx/nginx-gateway-fabric/internal/mode/static/nginx/config/validation"
	"github.com/nginx/nginx-gateway-fabric/internal/mode/static/nginx/file"
	ngxruntime "github.com/nginx/nginx-gateway-fabric/internal/mode/static/nginx/runtime"
	"github.com/nginx/nginx-gateway-fabric/internal/mode/static/state"
	staticConds "github.com/nginx/nginx-gateway-fabric/internal/mode/static/state/conditions"
	"github.com/nginx/nginx-gateway-fabric/internal/mode/static/state/graph"
	"github.com/nginx/nginx-gateway-fabric/internal/mode/static/state/resolver"
	"github.com/nginx/nginx-gateway-fabric/internal/mode/static/state/validation"
	"github.com/nginx/nginx-gateway-fabric/internal/mode/static/status"
	vu "github.com/nginx/nginx-gateway-fabric/internal/verifutil"
)

// =====================================================================================================
// Part A: Reload against a scripted NGINX master
// =====================================================================================================

const (
	c12AnsResp   = 0 // HTTP response (status, body)
	c12AnsRefuse = 1 // dial fails (nothing listens)
	c12AnsClose  = 2 // connection accepted, request read, connection closed without a response
	c12AnsHang   = 3 // no response until the client gives up
	c12PollCap   = 200
)

type c12Ans struct {
	kind   int
	status int
	body   string
}

type c12Read struct {
	content string
	err     bool
}

type c12Script struct {
	class         string
	v             int
	stat          []int // 0 exists, 1 fs.ErrNotExist, 2 other error
	statRest      int   // answer once the list is used up
	pid           c12Read
	ch0           c12Read
	killOK        bool
	masterPid     int
	children      []c12Read
	chRest        c12Read
	versions      []c12Ans
	verRest       c12Ans
	cancelStat    int // poll index at which the caller's context is cancelled (-1: never)
	cancelChild   int
	cancelVer     int
	parentTimeout time.Duration
	timeout       time.Duration
	realFile      bool // children file is a real file, read through the unmodified os.ReadFile path
	realNewRead   c12Read
	simOld        int
	hupValid      bool // the master accepts the configuration on disk when the signal arrives
	loadVer       int  // ... whose version file says this
	intended      *int
}

type c12Obs struct {
	stat     []int
	children []c12Read
	versions []c12Ans
	readPid  bool
	readCh0  bool
	ch0      c12Read // what the read of the children file before the signal returned
	kill     *int
	killRet  bool
	pathPids []int
	ok       bool
	errText  string
	reloads  int
	errors   int
	badReq   bool
}

type c12Collector struct {
	mu              sync.Mutex
	reloads, errors int
}

func (c *c12Collector) IncReloadCount()                     { c.mu.Lock(); c.reloads++; c.mu.Unlock() }
func (c *c12Collector) IncReloadErrors()                    { c.mu.Lock(); c.errors++; c.mu.Unlock() }
func (c *c12Collector) ObserveLastReloadTime(time.Duration) {}

// c12Proc is the real ProcessHandlerImpl except for Kill (which would signal real processes).
type c12Proc struct {
	*ngxruntime.ProcessHandlerImpl
	kill func(pid int) error
}

func (p c12Proc) Kill(pid int) error { return p.kill(pid) }

// c12Verifier is the real VerifyClient; the only substitution is the function used to read the children
// file (ManagerImpl.Reload passes os.ReadFile, i.e. the real /proc).
type c12Verifier struct {
	*ngxruntime.VerifyClient
	rf ngxruntime.ReadFileFunc
}

func (v c12Verifier) WaitForCorrectVersion(
	ctx context.Context, expected int, childProcFile string, prev []byte, rf ngxruntime.ReadFileFunc,
) error {
	if v.rf != nil {
		rf = v.rf
	}
	return v.VerifyClient.WaitForCorrectVersion(ctx, expected, childProcFile, prev, rf)
}

var c12PathRe = regexp.MustCompile(`/(-?\d+)/task/(-?\d+)/children$`)

func c12RunReload(base string, id int, sc *c12Script) *c12Obs {
	obs := &c12Obs{}
	var mu sync.Mutex
	ctx, cancel := context.WithCancel(context.Background())
	defer cancel()
	if sc.parentTimeout > 0 {
		var c2 context.CancelFunc
		ctx, c2 = context.WithTimeout(ctx, sc.parentTimeout)
		defer c2()
	}
	notePath := func(name string) {
		m := c12PathRe.FindStringSubmatch(name)
		if m == nil {
			obs.pathPids = append(obs.pathPids, -999999, -999998)
			return
		}
		a, _ := strconv.Atoi(m[1])
		b, _ := strconv.Atoi(m[2])
		obs.pathPids = append(obs.pathPids, a, b)
	}

	checkFile := func(name string) (fs.FileInfo, error) {
		mu.Lock()
		defer mu.Unlock()
		i := len(obs.stat)
		a := sc.statRest
		if i < len(sc.stat) {
			a = sc.stat[i]
		}
		if i >= c12PollCap || name != ngxruntime.PidFile {
			a = 2
		}
		obs.stat = append(obs.stat, a)
		if i == sc.cancelStat {
			cancel()
		}
		switch a {
		case 0:
			return nil, nil
		case 1:
			return nil, &fs.PathError{Op: "stat", Path: name, Err: fs.ErrNotExist}
		default:
			return nil, &fs.PathError{Op: "stat", Path: name, Err: syscall.EACCES}
		}
	}
	readFile := func(name string) ([]byte, error) {
		mu.Lock()
		defer mu.Unlock()
		if name == ngxruntime.PidFile {
			obs.readPid = true
			if sc.pid.err {
				return nil, &fs.PathError{Op: "read", Path: name, Err: syscall.EIO}
			}
			return []byte(sc.pid.content), nil
		}
		obs.readCh0 = true
		notePath(name)
		if sc.realFile {
			// the file was created before Reload started (see below): whatever is there now is the answer
			data, err := os.ReadFile(name)
			obs.ch0 = c12Read{content: string(data), err: err != nil}
			return data, err
		}
		obs.ch0 = sc.ch0
		if sc.ch0.err {
			return nil, &fs.PathError{Op: "open", Path: name, Err: syscall.ESRCH}
		}
		return []byte(sc.ch0.content), nil
	}
	pollChildren := func(name string) ([]byte, error) {
		mu.Lock()
		defer mu.Unlock()
		notePath(name)
		i := len(obs.children)
		a := sc.chRest
		if i < len(sc.children) {
			a = sc.children[i]
		}
		if i >= c12PollCap {
			a = c12Read{err: true}
		}
		obs.children = append(obs.children, a)
		if i == sc.cancelChild {
			cancel()
		}
		if a.err {
			return nil, &fs.PathError{Op: "open", Path: name, Err: syscall.ESRCH}
		}
		return []byte(a.content), nil
	}
	realMaster := filepath.Join(base, "proc", strconv.Itoa(sc.masterPid), "task", strconv.Itoa(sc.masterPid), "children")
	if sc.realFile && !sc.ch0.err {
		if err := os.MkdirAll(filepath.Dir(realMaster), 0o755); err != nil {
			panic(err)
		}
		if err := os.WriteFile(realMaster, []byte(sc.ch0.content), 0o644); err != nil {
			panic(err)
		}
	}
	kill := func(pid int) error {
		mu.Lock()
		defer mu.Unlock()
		p := pid
		obs.kill = &p
		// a signal reaches the master only if it is addressed to the master
		obs.killRet = sc.killOK && pid == sc.masterPid
		if !obs.killRet {
			return syscall.ESRCH
		}
		if sc.realFile {
			// the master reacts to the signal at once: new workers (or the process is gone)
			if sc.realNewRead.err {
				_ = os.Remove(realMaster)
			} else if err := os.WriteFile(realMaster, []byte(sc.realNewRead.content), 0o644); err != nil {
				panic(err)
			}
		}
		return nil
	}

	// the scripted NGINX behind the version socket
	sock := filepath.Join(base, fmt.Sprintf("v%d.sock", id))
	ln, err := net.Listen("unix", sock)
	if err != nil {
		panic(err)
	}
	pending := make(chan int, 8)
	srv := &http.Server{Handler: http.HandlerFunc(func(w http.ResponseWriter, r *http.Request) {
		i := <-pending
		mu.Lock()
		a := obs.versions[i]
		if r.Method != http.MethodGet || r.URL.Path != "/version" {
			a = c12Ans{kind: c12AnsResp, status: 404, body: ""}
			obs.versions[i] = a
			obs.badReq = true
		}
		mu.Unlock()
		switch a.kind {
		case c12AnsResp:
			w.WriteHeader(a.status)
			_, _ = io.WriteString(w, a.body)
		case c12AnsClose:
			if hj, ok := w.(http.Hijacker); ok {
				if conn, _, err := hj.Hijack(); err == nil {
					_ = conn.Close()
				}
			}
		case c12AnsHang:
			select {
			case <-r.Context().Done():
			case <-time.After(3 * time.Second):
			}
		}
	})}
	srv.SetKeepAlivesEnabled(false)
	go func() { _ = srv.Serve(ln) }()
	defer srv.Close()

	dial := func(dctx context.Context, _, _ string) (net.Conn, error) {
		mu.Lock()
		i := len(obs.versions)
		a := sc.verRest
		if i < len(sc.versions) {
			a = sc.versions[i]
		}
		if i >= c12PollCap {
			a = c12Ans{kind: c12AnsRefuse}
		}
		obs.versions = append(obs.versions, a)
		mu.Unlock()
		if i == sc.cancelVer {
			cancel()
		}
		if a.kind == c12AnsRefuse {
			return nil, &net.OpError{Op: "dial", Net: "unix", Err: syscall.ECONNREFUSED}
		}
		pending <- i
		var d net.Dialer
		return d.DialContext(dctx, "unix", sock)
	}

	coll := &c12Collector{}
	proc := c12Proc{ProcessHandlerImpl: ngxruntime.NewProcessHandlerImpl(readFile, checkFile), kill: kill}
	ver := c12Verifier{VerifyClient: ngxruntime.C12NewVerifyClient(sc.timeout, dial)}
	if !sc.realFile {
		ver.rf = pollChildren
	}
	mgr := ngxruntime.NewManagerImpl(nil, coll, logr.Discard(), proc, ver)
	rerr := mgr.Reload(ctx, sc.v)
	mu.Lock()
	defer mu.Unlock()
	obs.ok = rerr == nil
	if rerr != nil {
		obs.errText = rerr.Error()
	}
	obs.reloads, obs.errors = coll.reloads, coll.errors
	if sc.realFile && obs.kill != nil && obs.killRet {
		// the unmodified path reads the real file: it changed (or vanished) at the signal, so exactly one
		// poll saw the new state
		obs.children = []c12Read{sc.realNewRead}
		obs.pathPids = append(obs.pathPids, obs.pathPids[0], obs.pathPids[1])
	}
	return obs
}

func c12StatTerm(a int) string { return []string{"StOk", "StMissing", "StErr"}[a] }

func c12ReadTerm(r c12Read) string {
	if r.err {
		return "RdErr"
	}
	return vu.App("RdOk", vu.Str(r.content))
}

func c12AnsTerm(a c12Ans) string {
	if a.kind == c12AnsResp {
		return vu.App("VResp", vu.Z(int64(a.status)), vu.Str(a.body))
	}
	return "VFail"
}

func c12OptZ(p *int) string {
	if p == nil {
		return "None"
	}
	return vu.Some(vu.Z(int64(*p)))
}

// c12SimNew is the version the scripted master runs when Reload returns: it loads the files on disk
// only if the signal was really delivered and it accepts them.
func c12SimNew(sc *c12Script, o *c12Obs) int {
	if o.kill != nil && o.killRet && sc.hupValid {
		return sc.loadVer
	}
	return sc.simOld
}

func c12ReloadTerm(sc *c12Script, o *c12Obs) string {
	var st, ch, vs, pp []string
	for _, a := range o.stat {
		st = append(st, c12StatTerm(a))
	}
	for _, a := range o.children {
		ch = append(ch, c12ReadTerm(a))
	}
	for _, a := range o.versions {
		vs = append(vs, c12AnsTerm(a))
	}
	for _, p := range o.pathPids {
		pp = append(pp, vu.Z(int64(p)))
	}
	killRet := sc.killOK
	if o.kill != nil {
		killRet = o.killRet
	}
	ch0 := sc.ch0
	if o.readCh0 {
		ch0 = o.ch0
	}
	env := vu.App("Env", vu.List(st), c12ReadTerm(sc.pid), c12ReadTerm(ch0), vu.Bool(killRet), vu.List(ch), vu.List(vs))
	return vu.App("CReload", vu.Z(int64(sc.v)), env, vu.Z(int64(sc.simOld)), vu.Z(int64(c12SimNew(sc, o))), c12OptZ(sc.intended),
		vu.Bool(o.ok), c12OptZ(o.kill), vu.List(pp), vu.Nat(len(o.stat)), vu.Bool(o.readPid), vu.Bool(o.readCh0),
		vu.Nat(o.reloads), vu.Nat(o.errors))
}

func c12ReloadHuman(sc *c12Script, o *c12Obs) map[string]any {
	rd := func(r c12Read) any {
		if r.err {
			return "read-error"
		}
		return r.content
	}
	var ch []any
	for _, a := range o.children {
		ch = append(ch, rd(a))
	}
	var vs []any
	for _, a := range o.versions {
		switch a.kind {
		case c12AnsResp:
			vs = append(vs, fmt.Sprintf("%d %q", a.status, a.body))
		case c12AnsRefuse:
			vs = append(vs, "refused")
		case c12AnsClose:
			vs = append(vs, "reset")
		default:
			vs = append(vs, "hang")
		}
	}
	return map[string]any{
		"part": "reload", "class": sc.class, "expected_version": sc.v,
		"scripted_nginx": map[string]any{"version_before": sc.simOld, "version_master_runs_at_return": c12SimNew(sc, o), "version_on_disk": sc.loadVer, "accepts_config": sc.hupValid,
			"master_pid": sc.masterPid, "hup_would_be_delivered": sc.killOK},
		"pid_file_stat_answers(0=ok,1=missing,2=error)": o.stat, "pid_file": rd(sc.pid), "children_before_scripted": rd(sc.ch0), "children_before_served": rd(o.ch0),
		"children_polls_served": ch, "version_answers_served": vs, "verify_timeout_ms": sc.timeout.Milliseconds(),
		"real_children_file": sc.realFile,
		"observed": map[string]any{"reload_returned_nil": o.ok, "error": o.errText, "signalled_pid": o.kill,
			"signal_delivered": o.killRet, "reload_count_metric": o.reloads, "reload_errors_metric": o.errors,
			"children_paths_pids": o.pathPids, "bad_request_seen": o.badReq},
	}
}

var c12Bodies = []string{"", " ", "v7", "7\n", " 7", "7 ", "7.0", "0x7", "1_0", "seven", "99999999999999999999", "-", "+"}

func c12GenScript(r *vu.Rng, size int, pid int) *c12Script {
	sc := &c12Script{cancelStat: -1, cancelChild: -1, cancelVer: -1, timeout: 5 * time.Second, killOK: true,
		masterPid: pid, class: "plain"}
	short := func() { sc.timeout = time.Duration(60+r.Intn(50)) * time.Millisecond }
	old := r.Intn(30)
	v := old + 1 + r.Intn(3)
	if r.Chance(1, 12) {
		v = old // version reuse: outside the theorem's hypothesis, correspondence only
		sc.class = "reused-version"
	}
	sc.v, sc.simOld = v, old

	// ---- pid file
	sc.stat = []int{0}
	switch x := r.Intn(70); {
	case x < 2 && size >= 3:
		sc.stat = []int{1, 0}
		sc.class = "pid-late"
	case x == 2:
		sc.stat = []int{2}
		sc.class = "pid-stat-error"
	case x == 3:
		sc.stat = []int{1}
		sc.statRest = 1
		sc.cancelStat = 0
		sc.class = "pid-missing-cancelled"
	case x == 4:
		sc.stat = nil
		sc.statRest = 1
		sc.parentTimeout = time.Duration(80+r.Intn(60)) * time.Millisecond
		sc.class = "pid-missing-deadline"
	}
	ps := strconv.Itoa(pid)
	sc.pid = c12Read{content: ps + "\n"}
	ip := pid
	sc.intended = &ip
	switch x := r.Intn(80); x {
	case 0:
		sc.pid = c12Read{content: ""}
	case 1:
		sc.pid = c12Read{content: "abc\n"}
	case 2:
		sc.pid = c12Read{content: ps + " " + ps}
	case 3:
		sc.pid = c12Read{content: ps + "\x00"}
	case 4:
		sc.pid = c12Read{content: "99999999999999999999\n"}
	case 5:
		sc.pid = c12Read{content: "0x1F"}
	case 6:
		sc.pid = c12Read{content: "1_000"}
	case 7:
		sc.pid = c12Read{content: []string{"-", "+", " \n", "- 5", "5-"}[r.Intn(5)]}
	case 8:
		sc.pid = c12Read{err: true}
	case 9:
		sc.pid = c12Read{content: "-" + ps + "\n"} // parses, but is not the master
	case 10:
		sc.pid = c12Read{content: "+" + ps}
	case 11:
		sc.pid = c12Read{content: " \t" + ps + "\r\n\v\f "}
	case 12:
		sc.pid = c12Read{content: "000" + ps + "\n"}
	case 13:
		sc.pid = c12Read{content: ps}
	case 14:
		sc.pid = c12Read{content: strconv.Itoa(pid+1) + "\n"} // stale pid file: somebody else's pid
	}
	if x, err := strconv.Atoi(strings.TrimSpace(sc.pid.content)); sc.pid.err || err != nil || x != pid {
		sc.intended = nil
		sc.class = "pid-garbled"
	}

	// ---- children before, signal
	prev := []string{"101 102 103 ", "7 ", "", "101 102 103 104 "}[r.Intn(4)]
	neu := []string{"201 202 203 ", "8 ", "101 102 103 205 ", "101 102 "}[r.Intn(4)]
	sc.ch0 = c12Read{content: prev}
	if r.Chance(1, 40) {
		sc.ch0 = c12Read{err: true}
		sc.class = "children-unreadable"
	}
	if r.Chance(1, 16) {
		sc.killOK = false
		sc.class = "hup-fails"
	}
	delivered := sc.killOK && sc.intended != nil

	// ---- what the master does with the signal
	valid := r.Chance(4, 5)
	d := v
	if r.Chance(1, 7) {
		if r.Bool() {
			d = old
		} else {
			d = v + 1 + r.Intn(40)
		}
	}
	loaded := delivered && valid
	sc.hupValid, sc.loadVer = valid, d

	if r.Chance(1, 16) && !sc.ch0.err {
		// unmodified os.ReadFile path on a real file that changes (or vanishes) when the signal arrives
		sc.realFile = true
		sc.realNewRead = c12Read{content: neu}
		if r.Chance(1, 4) {
			sc.realNewRead = c12Read{err: true}
		}
		if sc.class == "plain" {
			sc.class = "real-children-file"
		}
	} else if loaded || r.Chance(1, 4) {
		k := []int{0, 0, 0, 1, 2, 3}[r.Intn(6)]
		if k > size {
			k = size
		}
		for i := 0; i < k; i++ {
			sc.children = append(sc.children, c12Read{content: prev})
		}
		sc.children = append(sc.children, c12Read{content: neu})
		if !loaded && delivered && sc.class == "plain" {
			sc.class = "spurious-respawn"
		}
	} else {
		// workers are never respawned
		sc.chRest = c12Read{content: prev}
		if r.Bool() {
			c := r.Intn(1 + min(size, 3))
			sc.cancelChild = c
		} else {
			short()
		}
		if sc.class == "plain" {
			sc.class = "no-new-workers"
		}
	}
	if !sc.realFile && r.Chance(1, 15) {
		j := r.Intn(len(sc.children) + 1)
		sc.children = append(sc.children[:j:j], c12Read{err: true})
		if sc.class == "plain" {
			sc.class = "children-poll-error"
		}
	}

	// ---- version endpoint
	aliveAns := func() c12Ans {
		n := old
		if loaded && r.Bool() {
			n = d
		}
		return c12Ans{kind: c12AnsResp, status: 200, body: strconv.Itoa(n)}
	}
	num := func(n int) c12Ans { return c12Ans{kind: c12AnsResp, status: 200, body: strconv.Itoa(n)} }
	hostile := r.Chance(1, 6)
	if hostile {
		n := r.Intn(2 + size)
		for i := 0; i < n; i++ {
			pool := []int{old, v, d, r.Intn(60), v + 1, v - 1}
			sc.versions = append(sc.versions, num(pool[r.Intn(len(pool))]))
		}
		switch r.Intn(3) {
		case 0:
			sc.versions = append(sc.versions, num(v))
		case 1:
			sc.versions = append(sc.versions, c12Ans{kind: c12AnsResp, status: []int{200, 200, 404, 500}[r.Intn(4)],
				body: c12Bodies[r.Intn(len(c12Bodies))]})
			sc.versions = append(sc.versions, num(v))
		default:
			sc.versions = append(sc.versions, num(v+7))
			sc.cancelVer = len(sc.versions) - 1
		}
		if sc.class == "plain" {
			sc.class = "hostile-endpoint"
		}
	} else {
		stale := r.Intn(1 + min(size, 4))
		if r.Bool() {
			stale = 0
		}
		for i := 0; i < stale; i++ {
			a := aliveAns()
			if a.body == strconv.Itoa(v) {
				break
			}
			sc.versions = append(sc.versions, a)
		}
		if loaded && d == v {
			sc.versions = append(sc.versions, num(v))
		} else {
			// the expected version never shows up
			n := old
			if loaded {
				n = d
			}
			if n == v { // reused version: the stale answer already satisfies
				sc.versions = append(sc.versions, num(n))
			} else if r.Bool() {
				sc.versions = append(sc.versions, num(n))
				sc.cancelVer = len(sc.versions) - 1
			} else {
				sc.verRest = num(n)
				short()
			}
			if sc.class == "plain" {
				sc.class = "stale-version"
			}
		}
		if r.Chance(1, 6) {
			j := r.Intn(len(sc.versions) + 1)
			var a c12Ans
			switch r.Intn(7) {
			case 0:
				a = c12Ans{kind: c12AnsRefuse}
			case 1:
				a = c12Ans{kind: c12AnsClose}
			case 2:
				a = c12Ans{kind: c12AnsHang}
				short()
			case 3:
				a = c12Ans{kind: c12AnsResp, status: []int{404, 500, 503, 201}[r.Intn(4)], body: strconv.Itoa(v)}
			default:
				a = c12Ans{kind: c12AnsResp, status: 200, body: strings.ReplaceAll(c12Bodies[r.Intn(len(c12Bodies))], "7", strconv.Itoa(v))}
			}
			sc.versions = append(sc.versions[:j:j], a)
			if sc.class == "plain" || sc.class == "stale-version" {
				sc.class = "endpoint-error"
			}
		}
	}
	// a short timeout must never race with an answer that would satisfy the poll
	if sc.timeout < time.Second {
		for _, a := range sc.versions {
			if a.kind == c12AnsResp && a.status == 200 && a.body == strconv.Itoa(v) {
				sc.timeout = 5 * time.Second
			}
		}
		if sc.verRest.kind == c12AnsResp && sc.verRest.body == strconv.Itoa(v) && sc.verRest.status == 200 {
			sc.timeout = 5 * time.Second
		}
	}
	if sc.timeout >= time.Second {
		// with a long timeout every phase must end by itself: satisfied, error, or cancellation
		for i, a := range sc.versions {
			if a.kind == c12AnsHang {
				sc.versions[i] = c12Ans{kind: c12AnsClose}
			}
		}
		if sc.cancelVer < 0 {
			ends := false
			for _, a := range sc.versions {
				if a.kind != c12AnsResp || a.status != 200 {
					ends = true
				} else if n, err := strconv.Atoi(a.body); err != nil || n == v {
					ends = true
				}
			}
			if !ends {
				sc.versions = append(sc.versions, c12Ans{kind: c12AnsRefuse})
			}
		}
		if sc.cancelChild < 0 && !sc.realFile {
			ends := false
			for _, a := range sc.children {
				if a.err || a.content != sc.ch0.content {
					ends = true
				}
			}
			if !ends {
				sc.children = append(sc.children, c12Read{err: true})
			}
		}
	}
	return sc
}

// =====================================================================================================
// Part B: the event handler
// =====================================================================================================

const (
	c12CtlrName  = "gateway.nginx.org/nginx-gateway-controller"
	c12ClassName = "nginx"
	c12PodNS     = "nginx-gateway"
)

var c12Err = errors.New("verif: scripted failure")

type c12Fault struct {
	write, reload, getUps, update bool
	// pick selects the file operation that fails when write is set
	pick int
}

type c12Calls struct {
	written     *int
	writeErr    bool
	writeCalled bool
	// writeSaid: ReplaceFiles returned nil
	writeSaid  bool
	reloaded   *int
	reloadErr  bool
	reloadCall bool
	plusCalled bool
	plusErr    bool
}

// c12FileMgr is the REAL file manager (file.ManagerImpl) over a file system rooted in a scratch directory whose operations fail
// on request. What the record says about the write (writeErr) is the truth read back from the directory - the files of the call,
// whole, and nothing else - not what the manager answered.
type c12FileMgr struct {
	w    *c12World
	os   *c12OS
	real *file.ManagerImpl
	prev []string
}

// c12OS implements file.OSFileManager below base; operation failOp on failPath fails.
type c12OS struct {
	base             string
	failOp, failPath string
}

func (o *c12OS) fails(op, path string) bool { return o.failOp == op && o.failPath == path }
func (o *c12OS) rel(f *os.File) string      { return strings.TrimPrefix(f.Name(), o.base) }
func (o *c12OS) ReadDir(dirname string) ([]fs.DirEntry, error) {
	return os.ReadDir(filepath.Join(o.base, dirname))
}

func (o *c12OS) Remove(name string) error {
	if o.fails("remove", name) {
		return c12Err
	}
	return os.Remove(filepath.Join(o.base, name))
}

func (o *c12OS) Create(name string) (*os.File, error) {
	if o.fails("create", name) {
		return nil, c12Err
	}
	if err := os.MkdirAll(filepath.Dir(filepath.Join(o.base, name)), 0o755); err != nil {
		return nil, err
	}
	return os.Create(filepath.Join(o.base, name))
}

func (o *c12OS) Chmod(f *os.File, mode os.FileMode) error {
	if o.fails("chmod", o.rel(f)) {
		return c12Err
	}
	return f.Chmod(mode)
}

func (o *c12OS) Write(f *os.File, contents []byte) error {
	if o.fails("write", o.rel(f)) {
		// a short write: part of the content arrives
		_, _ = f.Write(contents[:len(contents)/2])
		return c12Err
	}
	_, err := f.Write(contents)
	return err
}
func (o *c12OS) Open(name string) (*os.File, error)      { return os.Open(filepath.Join(o.base, name)) }
func (o *c12OS) Copy(dst io.Writer, src io.Reader) error { _, err := io.Copy(dst, src); return err }

var c12VerRe = regexp.MustCompile(`return 200 (-?\d+);`)

// dirHolds: the scratch directory holds exactly the given files with exactly their contents.
func (o *c12OS) dirHolds(files []file.File) bool {
	want := map[string][]byte{}
	for _, fl := range files {
		want[filepath.Join(o.base, fl.Path)] = fl.Content
	}
	ok := true
	seen := 0
	_ = filepath.WalkDir(o.base, func(p string, d fs.DirEntry, err error) error {
		if err != nil || d.IsDir() {
			return nil
		}
		content, isWanted := want[p]
		got, rerr := os.ReadFile(p)
		if !isWanted || rerr != nil || !bytes.Equal(got, content) {
			ok = false
		}
		seen++
		return nil
	})
	return ok && seen == len(want)
}

func (f *c12FileMgr) ReplaceFiles(files []file.File) error {
	c := &f.w.calls
	c.writeCalled = true
	for _, fl := range files {
		if strings.HasSuffix(fl.Path, "/config-version.conf") {
			if m := c12VerRe.FindSubmatch(fl.Content); m != nil {
				n, _ := strconv.Atoi(string(m[1]))
				c.written = &n
			}
		}
	}
	f.os.failOp, f.os.failPath = "", ""
	if f.w.fault.write && len(files) > 0 {
		pick := f.w.fault.pick
		ops := []string{"create", "chmod", "write", "write"}
		if len(f.prev) > 0 {
			ops = append(ops, "remove")
		}
		f.os.failOp = ops[pick%len(ops)]
		if f.os.failOp == "remove" {
			f.os.failPath = f.prev[(pick/8)%len(f.prev)]
		} else {
			f.os.failPath = files[(pick/8)%len(files)].Path
		}
	}
	err := f.real.ReplaceFiles(files)
	f.prev = f.prev[:0]
	for _, fl := range files {
		f.prev = append(f.prev, fl.Path)
	}
	c.writeErr = !f.os.dirHolds(files)
	c.writeSaid = err == nil
	return err
}

type c12Runtime struct{ w *c12World }

func (r *c12Runtime) Reload(_ context.Context, v int) error {
	c := &r.w.calls
	c.reloadCall = true
	n := v
	c.reloaded = &n
	if r.w.fault.reload {
		c.reloadErr = true
		return c12Err
	}
	return nil
}
func (r *c12Runtime) IsPlus() bool { return r.w.plus }
func (r *c12Runtime) GetUpstreams() (ngxclient.Upstreams, ngxclient.StreamUpstreams, error) {
	c := &r.w.calls
	c.plusCalled = true
	if r.w.fault.getUps {
		c.plusErr = true
		return nil, nil, c12Err
	}
	// NGINX Plus knows every upstream of the latest configuration, with stale peers (forces updates)
	ups := ngxclient.Upstreams{}
	sups := ngxclient.StreamUpstreams{}
	if conf := r.w.h.GetLatestConfiguration(); conf != nil {
		for _, u := range conf.Upstreams {
			ups[u.Name] = ngxclient.Upstream{Peers: []ngxclient.Peer{{Server: "192.0.2.1:1"}}}
		}
		for _, u := range conf.StreamUpstreams {
			sups[u.Name] = ngxclient.StreamUpstream{Peers: []ngxclient.StreamPeer{{Server: "192.0.2.1:1"}}}
		}
	}
	return ups, sups, nil
}
func (r *c12Runtime) UpdateHTTPServers(string, []ngxclient.UpstreamServer) error {
	c := &r.w.calls
	c.plusCalled = true
	if r.w.fault.update {
		c.plusErr = true
		return c12Err
	}
	return nil
}
func (r *c12Runtime) UpdateStreamServers(string, []ngxclient.StreamUpstreamServer) error {
	return r.UpdateHTTPServers("", nil)
}

// c12Processor is the real ChangeProcessorImpl; it only notes what Process returned.
type c12Processor struct {
	*state.ChangeProcessorImpl
	w *c12World
}

func (p *c12Processor) Process() (state.ChangeType, *graph.Graph) {
	ct, gr := p.ChangeProcessorImpl.Process()
	p.w.change = ct
	p.w.processed = true
	return ct, gr
}

type c12Stat struct {
	gw        bool
	base      bool
	prog      bool
	listeners [][2]bool
	parents   []bool
	what      string
}

type c12Group struct {
	name        string
	afterProc   bool
	stats       []c12Stat
	requestsLen int
}

type c12Updater struct{ w *c12World }

func c12CondTrue(conds []metav1.Condition, typ string) bool {
	for _, c := range conds {
		if c.Type == typ {
			return c.Status == metav1.ConditionTrue
		}
	}
	return false
}

func c12GwRead(gw *gatewayv1.Gateway) (bool, []bool) {
	var ls []bool
	for _, l := range gw.Status.Listeners {
		ls = append(ls, c12CondTrue(l.Conditions, string(gatewayv1.ListenerConditionProgrammed)))
	}
	return c12CondTrue(gw.Status.Conditions, string(gatewayv1.GatewayConditionProgrammed)), ls
}

func c12ParentsRead(ps []gatewayv1.RouteParentStatus) []bool {
	var out []bool
	for _, p := range ps {
		if string(p.ControllerName) != c12CtlrName {
			continue
		}
		np := false
		for _, c := range p.Conditions {
			if c.Type == string(gatewayv1.RouteConditionAccepted) {
				np = c.Status == metav1.ConditionFalse && c.Reason == string(staticConds.RouteReasonGatewayNotProgrammed)
			}
		}
		out = append(out, np)
	}
	return out
}

func (u *c12Updater) UpdateGroup(_ context.Context, name string, reqs ...frameworkStatus.UpdateRequest) {
	g := c12Group{name: name, afterProc: u.w.processed, requestsLen: len(reqs)}
	gr := u.w.proc.GetLatestGraph()
	for _, rq := range reqs {
		switch rq.ResourceType.(type) {
		case *gatewayv1.Gateway:
			if gr == nil || gr.Gateway == nil || rq.NsName != client.ObjectKeyFromObject(gr.Gateway.Source) {
				continue
			}
			got := &gatewayv1.Gateway{}
			rq.Setter(got)
			baseReqs := status.PrepareGatewayRequests(gr.Gateway, nil, metav1.Now(), nil, status.NginxReloadResult{})
			base := &gatewayv1.Gateway{}
			baseReqs[0].Setter(base)
			st := c12Stat{gw: true, what: "Gateway " + rq.NsName.String()}
			var bl, gl []bool
			st.base, bl = c12GwRead(base)
			st.prog, gl = c12GwRead(got)
			for i := range gl {
				b := false
				if i < len(bl) {
					b = bl[i]
				}
				st.listeners = append(st.listeners, [2]bool{b, gl[i]})
			}
			g.stats = append(g.stats, st)
		case *gatewayv1.HTTPRoute:
			o := &gatewayv1.HTTPRoute{}
			rq.Setter(o)
			g.stats = append(g.stats, c12Stat{parents: c12ParentsRead(o.Status.Parents), what: "HTTPRoute " + rq.NsName.String()})
		case *gatewayv1.GRPCRoute:
			o := &gatewayv1.GRPCRoute{}
			rq.Setter(o)
			g.stats = append(g.stats, c12Stat{parents: c12ParentsRead(o.Status.Parents), what: "GRPCRoute " + rq.NsName.String()})
		case *v1alpha2.TLSRoute:
			o := &v1alpha2.TLSRoute{}
			rq.Setter(o)
			g.stats = append(g.stats, c12Stat{parents: c12ParentsRead(o.Status.Parents), what: "TLSRoute " + rq.NsName.String()})
		}
	}
	u.w.groups = append(u.w.groups, g)
}

type c12World struct {
	h         *eventHandlerImpl
	proc      *c12Processor
	k8s       client.WithWatch
	plus      bool
	fault     c12Fault
	calls     c12Calls
	change    state.ChangeType
	processed bool
	groups    []c12Group
	fm        *c12FileMgr
}

func c12CRD(name string) *metav1.PartialObjectMetadata {
	return &metav1.PartialObjectMetadata{
		TypeMeta: metav1.TypeMeta{Kind: "CustomResourceDefinition", APIVersion: "apiextensions.k8s.io/v1"},
		ObjectMeta: metav1.ObjectMeta{
			Name:        name,
			Annotations: map[string]string{gatewayclass.BundleVersionAnnotation: gatewayclass.SupportedVersion},
		},
	}
}

func c12NewWorld(plus bool) *c12World {
	w := &c12World{plus: plus}
	dir, err := os.MkdirTemp("", "c12fs")
	if err != nil {
		panic(err)
	}
	w.fm = &c12FileMgr{w: w, os: &c12OS{base: dir}}
	w.fm.real = file.NewManagerImpl(logr.Discard(), w.fm.os)
	w.k8s = fake.NewClientBuilder().WithScheme(scheme).
		WithIndex(&discoveryV1.EndpointSlice{}, index.KubernetesServiceNameIndexField, index.ServiceNameIndexFunc).
		Build()
	mustExtractGVK := kinds.NewMustExtractGKV(scheme)
	genericValidator := ngxvalidation.GenericValidator{}
	policyManager := createPolicyManager(mustExtractGVK, genericValidator)
	w.proc = &c12Processor{w: w, ChangeProcessorImpl: state.NewChangeProcessorImpl(state.ChangeProcessorConfig{
		GatewayCtlrName:  c12CtlrName,
		GatewayClassName: c12ClassName,
		Logger:           logr.Discard(),
		Validators: validation.Validators{
			HTTPFieldsValidator: ngxvalidation.HTTPValidator{},
			GenericValidator:    genericValidator,
			PolicyValidator:     policyManager,
		},
		EventRecorder:  record.NewFakeRecorder(100000),
		MustExtractGVK: mustExtractGVK,
		ProtectedPorts: map[int32]string{9113: "MetricsPort", 8081: "HealthPort"},
		PlusSecrets:    map[types.NamespacedName][]graph.PlusSecretFile{},
	})}
	w.h = newEventHandlerImpl(eventHandlerConfig{
		nginxFileMgr:     w.fm,
		metricsCollector: collectors.NewControllerNoopCollector(),
		nginxRuntimeMgr:  &c12Runtime{w: w},
		statusUpdater:    &c12Updater{w: w},
		processor:        w.proc,
		serviceResolver:  resolver.NewServiceResolverImpl(w.k8s),
		// the OSS generator: the Plus one additionally needs the usage-report Secret wiring, which is
		// not what this property is about; the handler itself runs in Plus mode when w.plus is set
		generator:                     ngxcfg.NewGeneratorImpl(false, &ngfConfig.UsageReportConfig{}, logr.Discard()),
		k8sClient:                     w.k8s,
		k8sReader:                     w.k8s,
		logLevelSetter:                newZapLogLevelSetter(zap.NewAtomicLevel()),
		eventRecorder:                 record.NewFakeRecorder(100000),
		deployCtxCollector:            &licensingfakes.FakeCollector{},
		nginxConfiguredOnStartChecker: newNginxConfiguredOnStartChecker(),
		gatewayPodConfig: ngfConfig.GatewayPodConfig{
			PodIP: "10.0.0.1", ServiceName: "nginx-gateway", Namespace: c12PodNS, Name: "ngf-pod", UID: "uid",
		},
		controlConfigNSName:      types.NamespacedName{Namespace: c12PodNS, Name: "nginx-gateway-config"},
		gatewayCtlrName:          c12CtlrName,
		updateGatewayClassStatus: true,
		plus:                     plus,
	})
	_ = w.k8s.Create(context.Background(), c12NgfService())
	return w
}

func c12NgfService() *apiv1.Service {
	return &apiv1.Service{ObjectMeta: metav1.ObjectMeta{Name: "nginx-gateway", Namespace: c12PodNS}}
}

// c12Apply creates/updates the object in the fake cluster and returns the upsert event.
func (w *c12World) c12Apply(obj client.Object) interface{} {
	ctx := context.Background()
	cp := obj.DeepCopyObject().(client.Object)
	cur := obj.DeepCopyObject().(client.Object)
	if err := w.k8s.Get(ctx, client.ObjectKeyFromObject(obj), cur); err == nil {
		cp.SetResourceVersion(cur.GetResourceVersion())
		if e := w.k8s.Update(ctx, cp); e != nil {
			panic(e)
		}
	} else {
		cp.SetResourceVersion("")
		if e := w.k8s.Create(ctx, cp); e != nil {
			panic(e)
		}
	}
	got := obj.DeepCopyObject().(client.Object)
	if e := w.k8s.Get(ctx, client.ObjectKeyFromObject(obj), got); e != nil {
		panic(e)
	}
	return &events.UpsertEvent{Resource: got}
}

func (w *c12World) c12Remove(obj client.Object, bare client.Object) interface{} {
	_ = w.k8s.Delete(context.Background(), obj.DeepCopyObject().(client.Object))
	return &events.DeleteEvent{Type: bare, NamespacedName: client.ObjectKeyFromObject(obj)}
}

func c12GatewayClass() *gatewayv1.GatewayClass {
	return &gatewayv1.GatewayClass{
		ObjectMeta: metav1.ObjectMeta{Name: c12ClassName, Generation: 1},
		Spec:       gatewayv1.GatewayClassSpec{ControllerName: c12CtlrName},
	}
}

func c12Gateway(name string, gen int64, httpPort int32, withBroken bool) *gatewayv1.Gateway {
	ls := []gatewayv1.Listener{{
		Name: "http", Port: gatewayv1.PortNumber(httpPort), Protocol: gatewayv1.HTTPProtocolType,
		AllowedRoutes: &gatewayv1.AllowedRoutes{Namespaces: &gatewayv1.RouteNamespaces{From: helpers.GetPointer(gatewayv1.NamespacesFromSame)}},
	}}
	if withBroken {
		ls = append(ls, gatewayv1.Listener{
			Name: "https", Port: 443, Protocol: gatewayv1.HTTPSProtocolType,
			Hostname: helpers.GetPointer(gatewayv1.Hostname("secure.example.com")),
			TLS: &gatewayv1.GatewayTLSConfig{
				Mode: helpers.GetPointer(gatewayv1.TLSModeTerminate),
				CertificateRefs: []gatewayv1.SecretObjectReference{{
					Kind: helpers.GetPointer(gatewayv1.Kind("Secret")), Name: "missing",
					Group: helpers.GetPointer(gatewayv1.Group("")),
				}},
			},
			AllowedRoutes: &gatewayv1.AllowedRoutes{Namespaces: &gatewayv1.RouteNamespaces{From: helpers.GetPointer(gatewayv1.NamespacesFromSame)}},
		})
	}
	return &gatewayv1.Gateway{
		ObjectMeta: metav1.ObjectMeta{Name: name, Namespace: "default", Generation: gen},
		Spec:       gatewayv1.GatewaySpec{GatewayClassName: c12ClassName, Listeners: ls},
	}
}

func c12Route(name string, gen int64, section string, host string, path string, svc string) *gatewayv1.HTTPRoute {
	return &gatewayv1.HTTPRoute{
		ObjectMeta: metav1.ObjectMeta{Name: name, Namespace: "default", Generation: gen},
		Spec: gatewayv1.HTTPRouteSpec{
			CommonRouteSpec: gatewayv1.CommonRouteSpec{ParentRefs: []gatewayv1.ParentReference{{
				Group: helpers.GetPointer(gatewayv1.Group(gatewayv1.GroupName)), Kind: helpers.GetPointer(gatewayv1.Kind("Gateway")),
				Namespace: helpers.GetPointer(gatewayv1.Namespace("default")), Name: "gw",
				SectionName: helpers.GetPointer(gatewayv1.SectionName(section)),
			}}},
			Hostnames: []gatewayv1.Hostname{gatewayv1.Hostname(host)},
			Rules: []gatewayv1.HTTPRouteRule{{
				Matches: []gatewayv1.HTTPRouteMatch{{Path: &gatewayv1.HTTPPathMatch{
					Type: helpers.GetPointer(gatewayv1.PathMatchPathPrefix), Value: helpers.GetPointer(path),
				}}},
				BackendRefs: []gatewayv1.HTTPBackendRef{{BackendRef: gatewayv1.BackendRef{
					BackendObjectReference: gatewayv1.BackendObjectReference{
						Group: helpers.GetPointer(gatewayv1.Group("")), Kind: helpers.GetPointer(gatewayv1.Kind("Service")),
						Name: gatewayv1.ObjectName(svc), Port: helpers.GetPointer(gatewayv1.PortNumber(80)),
					},
					Weight: helpers.GetPointer(int32(1)),
				}}},
			}},
		},
	}
}

func c12Service(name string) *apiv1.Service {
	return &apiv1.Service{
		ObjectMeta: metav1.ObjectMeta{Name: name, Namespace: "default"},
		Spec: apiv1.ServiceSpec{
			Type: apiv1.ServiceTypeClusterIP, ClusterIP: "10.96.0.10", IPFamilies: []apiv1.IPFamily{apiv1.IPv4Protocol},
			Ports: []apiv1.ServicePort{{Name: "http", Port: 80, Protocol: apiv1.ProtocolTCP}},
		},
	}
}

func c12Slice(svc string, gen int64, n int) *discoveryV1.EndpointSlice {
	var eps []discoveryV1.Endpoint
	for i := 0; i < n; i++ {
		eps = append(eps, discoveryV1.Endpoint{
			Addresses:  []string{fmt.Sprintf("10.1.0.%d", i+1)},
			Conditions: discoveryV1.EndpointConditions{Ready: helpers.GetPointer(true)},
		})
	}
	return &discoveryV1.EndpointSlice{
		ObjectMeta: metav1.ObjectMeta{Name: svc + "-slice", Namespace: "default", Generation: gen,
			Labels: map[string]string{index.KubernetesServiceNameLabel: svc}},
		AddressType: discoveryV1.AddressTypeIPv4,
		Ports: []discoveryV1.EndpointPort{{Name: helpers.GetPointer("http"), Port: helpers.GetPointer(int32(80)),
			Protocol: helpers.GetPointer(apiv1.ProtocolTCP)}},
		Endpoints: eps,
	}
}

type c12Step struct {
	kind     string
	fault    c12Fault
	svcEvent bool
	// observed
	change    state.ChangeType
	graphWas  bool
	calls     c12Calls
	svcStats  []c12Stat
	svcIssued bool
	finStats  []c12Stat
	finIssued bool
	conf      *int
	ready     bool
}

func c12StatTermB(s c12Stat) string {
	if s.gw {
		var ls []string
		for _, l := range s.listeners {
			ls = append(ls, vu.Pair(vu.Bool(l[0]), vu.Bool(l[1])))
		}
		return vu.App("SGw", vu.Bool(s.base), vu.Bool(s.prog), vu.List(ls))
	}
	var ps []string
	for _, p := range s.parents {
		ps = append(ps, vu.Bool(p))
	}
	return vu.App("SRoute", vu.List(ps))
}

func c12OptStats(issued bool, sts []c12Stat) string {
	if !issued {
		return "None"
	}
	var it []string
	for _, s := range sts {
		it = append(it, c12StatTermB(s))
	}
	return vu.Some(vu.List(it))
}

func c12ChangeTerm(c state.ChangeType) string {
	switch c {
	case state.NoChange:
		return "NoChange"
	case state.EndpointsOnlyChange:
		return "EndpointsOnly"
	default:
		return "ClusterState"
	}
}

// c12RunHandler plays the plan against a fresh handler and fills in the observations.
func c12RunHandler(r *vu.Rng, plus bool, steps []*c12Step) {
	w := c12NewWorld(plus)
	defer os.RemoveAll(w.fm.os.base)
	gen := int64(1)
	port := int32(80)
	broken := true
	haveGw, haveR1, haveR2, haveR3 := false, false, false, false
	nEps := 2
	host := 0
	for _, st := range steps {
		var evs []interface{}
		switch st.kind {
		case "startup":
			for _, n := range []string{"gatewayclasses", "gateways", "httproutes", "referencegrants", "grpcroutes"} {
				evs = append(evs, &events.UpsertEvent{Resource: c12CRD(n + ".gateway.networking.k8s.io")})
			}
			evs = append(evs, w.c12Apply(c12GatewayClass()), w.c12Apply(c12Gateway("gw", gen, port, broken)),
				w.c12Apply(c12Service("svc1")), w.c12Apply(c12Slice("svc1", 1, nEps)),
				w.c12Apply(c12Route("r1", 1, "http", "a.example.com", "/", "svc1")),
				w.c12Apply(c12Route("r2", 1, "nope", "b.example.com", "/b", "svc1")))
			haveGw, haveR1, haveR2 = true, true, true
		case "route":
			gen++
			host++
			evs = append(evs, w.c12Apply(c12Route("r1", gen, "http", fmt.Sprintf("h%d.example.com", host), "/", "svc1")))
			haveR1 = true
		case "route3":
			if haveR3 {
				evs = append(evs, w.c12Remove(c12Route("r3", 1, "http", "c.example.com", "/c", "svc1"), &gatewayv1.HTTPRoute{}))
			} else {
				evs = append(evs, w.c12Apply(c12Route("r3", 1, "http", "c.example.com", "/c", "svc1")))
			}
			haveR3 = !haveR3
		case "gateway":
			gen++
			if r.Bool() {
				port = 80 + 8000 - port + 80 - 80 // 80 <-> 8000
				if port != 80 && port != 8000 {
					port = 8000
				}
			} else {
				broken = !broken
			}
			evs = append(evs, w.c12Apply(c12Gateway("gw", gen, port, broken)))
			haveGw = true
		case "gateway-delete":
			if haveGw {
				evs = append(evs, w.c12Remove(c12Gateway("gw", gen, port, broken), &gatewayv1.Gateway{}))
				haveGw = false
			} else {
				gen++
				evs = append(evs, w.c12Apply(c12Gateway("gw", gen, port, broken)))
				haveGw = true
			}
		case "endpoints":
			nEps = 1 + (nEps % 3)
			gen++
			evs = append(evs, w.c12Apply(c12Slice("svc1", gen, nEps)))
		case "endpoints-same":
			// the slice is written again with the same endpoints (only its generation moves)
			gen++
			evs = append(evs, w.c12Apply(c12Slice("svc1", gen, nEps)))
		case "unrelated":
			gen++
			evs = append(evs, w.c12Apply(&apiv1.Service{ObjectMeta: metav1.ObjectMeta{Name: "other", Namespace: "default",
				Labels: map[string]string{"g": strconv.FormatInt(gen, 10)}}}))
		case "empty":
		}
		_ = haveR1
		_ = haveR2
		if st.svcEvent {
			svc := c12NgfService()
			svc.Spec.Type = apiv1.ServiceTypeLoadBalancer
			svc.Status.LoadBalancer.Ingress = []apiv1.LoadBalancerIngress{{IP: fmt.Sprintf("198.51.100.%d", 1+r.Intn(200))}}
			evs = append([]interface{}{&events.UpsertEvent{Resource: svc}}, evs...)
		}
		w.fault = st.fault
		w.calls = c12Calls{}
		w.groups = nil
		w.processed = false
		st.graphWas = w.proc.GetLatestGraph() != nil
		w.h.HandleEventBatch(context.Background(), logr.Discard(), events.EventBatch(evs))
		st.change = w.change
		st.calls = w.calls
		for _, g := range w.groups {
			if g.name == groupControlPlane {
				continue
			}
			if !g.afterProc {
				st.svcIssued = true
				st.svcStats = append(st.svcStats, g.stats...)
			} else {
				st.finIssued = true
				st.finStats = append(st.finStats, g.stats...)
			}
		}
		if c := w.h.GetLatestConfiguration(); c != nil {
			v := c.Version
			st.conf = &v
		}
		st.ready = w.h.cfg.nginxConfiguredOnStartChecker.readyCheck(nil) == nil
	}
}

func c12HandlerTerm(plus bool, steps []*c12Step) string {
	var it []string
	for _, st := range steps {
		writeOK := !st.calls.writeErr
		reloadOK := !st.calls.reloadErr
		plusOK := !st.calls.plusErr
		b := vu.App("Batch", vu.Bool(st.svcEvent && st.graphWas), c12ChangeTerm(st.change), vu.Bool(writeOK), vu.Bool(reloadOK), vu.Bool(plusOK))
		failed := st.calls.writeErr || st.calls.reloadErr || st.calls.plusErr
		it = append(it, vu.App("HObs", b, vu.Bool(failed), c12OptStats(st.svcIssued, st.svcStats), c12OptZ(st.conf),
			c12OptZ(st.calls.written), c12OptZ(st.calls.reloaded), c12OptStats(st.finIssued, st.finStats), vu.Bool(st.ready)))
	}
	return vu.App("CHandler", vu.Bool(plus), vu.List(it))
}

func c12HandlerHuman(plus bool, steps []*c12Step) map[string]any {
	var hs []map[string]any
	for _, st := range steps {
		stats := func(sts []c12Stat) []map[string]any {
			var out []map[string]any
			for _, s := range sts {
				if s.gw {
					out = append(out, map[string]any{"object": s.what, "programmed_without_reload_result": s.base,
						"programmed_as_issued": s.prog, "listeners(base,issued)": s.listeners})
				} else {
					out = append(out, map[string]any{"object": s.what, "parents_carry_GatewayNotProgrammed": s.parents})
				}
			}
			return out
		}
		hs = append(hs, map[string]any{
			"events": st.kind, "ngf_service_event": st.svcEvent,
			"scripted_faults": map[string]bool{"ReplaceFiles": st.fault.write, "Reload": st.fault.reload,
				"GetUpstreams": st.fault.getUps, "UpdateServers": st.fault.update},
			"observed": map[string]any{
				"change_type": c12ChangeTerm(st.change), "ReplaceFiles_called": st.calls.writeCalled, "directory_is_not_the_file_set_after_ReplaceFiles": st.calls.writeErr,
				"ReplaceFiles_returned_nil": st.calls.writeSaid,
				"version_in_written_files":  st.calls.written, "Reload_called": st.calls.reloadCall, "Reload_failed": st.calls.reloadErr,
				"version_given_to_Reload": st.calls.reloaded, "plus_api_called": st.calls.plusCalled, "plus_api_failed": st.calls.plusErr,
				"latest_configuration_version": st.conf, "service_event_statuses_issued": st.svcIssued, "service_event_statuses": stats(st.svcStats),
				"final_statuses_issued": st.finIssued, "final_statuses": stats(st.finStats), "readyz_ok": st.ready,
			},
		})
	}
	return map[string]any{"part": "handler", "plus": plus, "batches": hs}
}

func c12GenPlan(r *vu.Rng, n int, plus bool) []*c12Step {
	var steps []*c12Step
	kinds := []string{"route", "route", "route3", "gateway", "gateway-delete", "endpoints", "endpoints", "endpoints-same", "endpoints-same", "unrelated", "unrelated", "empty"}
	for i := 0; i < n; i++ {
		st := &c12Step{}
		switch {
		case i == 0 && r.Chance(2, 3):
			st.kind = "startup"
		case i == 0:
			st.kind = []string{"empty", "unrelated"}[r.Intn(2)]
		case i == 1 && steps[0].kind != "startup":
			st.kind = "startup"
		default:
			st.kind = kinds[r.Intn(len(kinds))]
		}
		if r.Chance(2, 5) {
			switch r.Intn(6) {
			case 0, 1:
				st.fault.write = true
			case 2, 3:
				st.fault.reload = true
			case 4:
				if plus {
					st.fault.getUps = true
				} else {
					st.fault.reload = true
				}
			default:
				if plus {
					st.fault.update = true
				} else {
					st.fault.write = true
				}
			}
		}
		st.fault.pick = r.Intn(1 << 16)
		st.svcEvent = r.Chance(1, 5)
		steps = append(steps, st)
	}
	return steps
}

// =====================================================================================================

func TestVerifC12(t *testing.T) {
	out := vu.Open("C12")
	rng := vu.NewRng(out.Seed ^ 0xC12)
	base, err := os.MkdirTemp("", "c12")
	if err != nil {
		t.Fatal(err)
	}
	defer os.RemoveAll(base)
	oldFmt := ngxruntime.C12SetChildProcPathFmt(filepath.Join(base, "proc") + "/%[1]v/task/%[1]v/children")
	defer ngxruntime.C12SetChildProcPathFmt(oldFmt)

	// ---------------- Part A
	nA := out.Count(420, 6000)
	scripts := make([]*c12Script, nA)
	obsA := make([]*c12Obs, nA)
	for i := 0; i < nA; i++ {
		scripts[i] = c12GenScript(rng.Fork(), 1+(i*6)/nA, 1000+i)
	}
	var wg sync.WaitGroup
	work := make(chan int)
	for k := 0; k < 8; k++ {
		wg.Add(1)
		go func() {
			defer wg.Done()
			for i := range work {
				obsA[i] = c12RunReload(base, i, scripts[i])
			}
		}()
	}
	for i := 0; i < nA; i++ {
		work <- i
	}
	close(work)
	wg.Wait()
	for i := 0; i < nA; i++ {
		sc, o := scripts[i], obsA[i]
		term := c12ReloadTerm(sc, o)
		polls := len(o.children) + len(o.versions)
		out.Case(term, c12ReloadHuman(sc, o), len(o.versions) >= 1 && polls >= 3, "A|"+term)
		out.Tally("reload_class", sc.class)
		out.Tally("reload_result", map[bool]string{true: "nil", false: "error"}[o.ok])
		out.Tally("reload_polls", strconv.Itoa(min(polls, 12)))
	}

	// ---------------- Part B
	nB := out.Count(260, 4000)
	for i := 0; i < nB; i++ {
		r := rng.Fork()
		plus := r.Chance(2, 5)
		n := 1 + (i*8)/nB + r.Intn(3)
		steps := c12GenPlan(r, n, plus)
		c12RunHandler(r, plus, steps)
		term := c12HandlerTerm(plus, steps)
		fails, oks := 0, 0
		for _, st := range steps {
			failed := st.calls.writeErr || st.calls.reloadErr || st.calls.plusErr
			if failed {
				fails++
			} else if st.change != state.NoChange {
				oks++
			}
			out.Tally("handler_change", c12ChangeTerm(st.change))
			out.Tally("handler_failed_call", map[bool]string{true: "yes", false: "no"}[failed])
		}
		out.Case(term, c12HandlerHuman(plus, steps), len(steps) >= 3 && fails >= 1 && oks >= 1, "B|"+term)
		out.Tally("handler_plus", strconv.FormatBool(plus))
		out.Tally("handler_batches", strconv.Itoa(len(steps)))
	}
	out.Close("C12.Check", "")
}
