"""C20 check configuration."""


def setup(register, COMMON_TB):
    register(
        "C20", coq="C20", pkg="./cmd/gateway/", test="TestVerifC20",
        rule="placeholder",
        trusted_base=COMMON_TB + [],
        assumptions=[],
    )
