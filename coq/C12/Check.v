(* C12 — correspondence checker and property oracle, evaluated on what the Go harness observed.

   CReload: one call of the real ManagerImpl.Reload (real ProcessHandlerImpl.FindMainProcess, real
   VerifyClient over HTTP on a temporary unix socket) against a scripted NGINX.  The environment in
   the case is the list of answers that were actually SERVED to the implementation, in order.
   CHandler: a sequence of batches through the real eventHandlerImpl with fault-injecting file manager
   and runtime manager; statuses are read back by running the real setters.

   [*_model_ok]: the model, fed the same environment, does and reports the same (projected observables
   only: success flag, pid signalled, number of polls, metric increments; versions, "built with reload
   failure" flag of statuses, readiness).  [oracle_*]: the property, stated on the observation alone. *)
From Coq Require Import List ZArith String Ascii Bool Arith.
From NGF Require Export lib.CaseLib C12.Model.
Import ListNotations.
Local Open Scope Z_scope.

(* ---------------------------------------------------------------- status observations *)

Inductive stat :=
| SGw (base_prog prog : bool) (listeners : list (bool * bool))
    (* the winning Gateway: is Programmed=True in the status the same graph yields WITHOUT a reload
       failure (base) and in the status that was issued (prog); same per listener *)
| SRoute (parents : list bool).
    (* a Route: per parent status, does it carry Accepted=False / GatewayNotProgrammed *)

Record hobs := HObs {
  hb_in : batch;                    (* inputs: change type returned by the processor, scripted faults *)
  hb_env_failed : bool;             (* some call made to file manager / runtime manager returned an error *)
  hb_svc : option (list stat);      (* Gateway statuses issued while handling the NGF Service event *)
  hb_conf : option Z;               (* GetLatestConfiguration().Version after the batch *)
  hb_written : option Z;            (* version in config-version.conf of the file set given to ReplaceFiles *)
  hb_reloaded : option Z;           (* version given to Reload *)
  hb_final : option (list stat);    (* statuses issued at the end of the batch *)
  hb_ready : bool                   (* readyCheck(nil) == nil after the batch *)
}.

Inductive case :=
| CReload (v : Z) (e : env)
          (sim_old sim_new : Z)     (* scripted NGINX: version alive before; version the master runs at return *)
          (intended : option Z)     (* pid of the scripted master, if the pid file identifies it *)
          (ok : bool) (kill : option Z) (path_pids : list Z)
          (nstat : nat) (readpid readch0 : bool) (reloads errors : nat)
| CHandler (plus : bool) (steps : list hobs).

(* ---------------------------------------------------------------- helpers *)

Definition optZ_eqb (a b : option Z) : bool :=
  match a, b with
  | Some x, Some y => x =? y
  | None, None => true
  | _, _ => false
  end.

Definition readres_is_err (r : readres) : bool := match r with RdErr => true | _ => false end.
Definition statres_is_err (r : statres) : bool := match r with StErr => true | _ => false end.

Fixpoint last_opt {A} (l : list A) : option A :=
  match l with
  | [] => None
  | [x] => Some x
  | _ :: l' => last_opt l'
  end.

(* ---------------------------------------------------------------- CReload: correspondence *)

Definition reload_model_ok (v : Z) (e : env) (ok : bool) (kill : option Z) (path_pids : list Z)
           (nstat : nat) (readpid readch0 : bool) (reloads errors : nat) : bool :=
  let m := reload e v in
  Bool.eqb (is_ok (o_res m)) ok &&
  optZ_eqb (o_kill m) kill &&
  Nat.eqb (o_nstat m) nstat && Nat.eqb (o_nstat m) (List.length (e_stat e)) &&
  Bool.eqb (o_readpid m) readpid && Bool.eqb (o_readch0 m) readch0 &&
  Nat.eqb (o_nchildren m) (List.length (e_children e)) &&
  Nat.eqb (o_nversions m) (List.length (e_versions e)) &&
  Nat.eqb (o_reloads m) reloads && Nat.eqb (o_errors m) errors &&
  (* every children file that was read belongs to the pid found in the pid file *)
  match e_pidfile e with
  | RdOk c => match atoi (trim_space c) with
              | Some pid => forallb (Z.eqb pid) path_pids
              | None => match path_pids with [] => true | _ => false end
              end
  | RdErr => match path_pids with [] => true | _ => false end
  end.

(* ---------------------------------------------------------------- CReload: the property *)

(* a served answer is an honest one: a number only if a worker generation with that version is alive *)
Definition truthful (old new : Z) (l : list vans) : bool :=
  forallb (fun a => match version_of a with
                    | Some n => (n =? old) || (n =? new)
                    | None => true
                    end) l.

Definition oracle_reload (v : Z) (e : env) (old new : Z) (intended : option Z)
           (ok : bool) (kill : option Z) : bool :=
  if ok then
    (* the signal went to the NGINX master and was delivered *)
    e_kill e && match kill with Some p => optZ_eqb intended (Some p) | None => false end &&
    (* new workers exist: the last look at the children file differs from the one before the signal *)
    match e_children0 e, last_opt (e_children e) with
    | RdOk prev, Some (RdOk c) => negb (String.eqb prev c)
    | _, _ => false
    end &&
    (* ... and answered with exactly that version *)
    match last_opt (e_versions e) with
    | Some a => match version_of a with Some n => n =? v | None => false end
    | None => false
    end &&
    (* hence (honest endpoint, version not in use before) the master runs that version now *)
    (if truthful old new (e_versions e) && negb (old =? v) then new =? v else true)
  else true.

(* ---------------------------------------------------------------- CHandler: correspondence *)

Definition stat_fits (flag : bool) (s : stat) : bool :=
  match s with
  | SGw base prog ls =>
      Bool.eqb prog (base && negb flag) &&
      forallb (fun p => Bool.eqb (snd p) (fst p && negb flag)) ls
  | SRoute ps => forallb (Bool.eqb flag) ps
  end.

Definition stats_fit (m : option bool) (o : option (list stat)) : bool :=
  match m, o with
  | None, None => true
  | Some flag, Some l => forallb (stat_fits flag) l
  | _, _ => false
  end.

Fixpoint handler_model_ok (plus : bool) (s : hstate) (l : list hobs) : bool :=
  match l with
  | [] => true
  | h :: l' =>
      let '(s1, o) := hstep plus s (hb_in h) in
      if stats_fit (ho_svc o) (hb_svc h) &&
         optZ_eqb (if h_version s1 =? 0 then None else Some (h_version s1)) (hb_conf h) &&
         optZ_eqb (ho_written o) (hb_written h) &&
         optZ_eqb (ho_reloaded o) (hb_reloaded h) &&
         stats_fit (ho_status o) (hb_final h) &&
         Bool.eqb (ho_ready o) (hb_ready h)
      then handler_model_ok plus s1 l' else false
  end.

(* ---------------------------------------------------------------- CHandler: the property *)

Definition applied (h : hobs) : bool :=
  match b_change (hb_in h) with NoChange => false | _ => true end.

Definition not_programmed (s : stat) : bool :=
  match s with
  | SGw _ prog ls => negb prog && forallb (fun p => negb (snd p)) ls
  | SRoute ps => forallb (fun b => b) ps
  end.

Definition says_programmed (s : stat) : bool :=
  match s with
  | SGw _ prog ls => prog || existsb snd ls
  | SRoute _ => false
  end.

(* [prev_ready]: readyz before the batch; [prev_fail]: did an earlier batch fail; [last_fail]: did the
   most recent applying batch fail; [last_v]: greatest version seen so far *)
Fixpoint oracle_handler (plus : bool) (prev_ready prev_fail last_fail : bool) (last_v : Z) (l : list hobs) : bool :=
  match l with
  | [] => true
  | h :: l' =>
      let failed := hb_env_failed h in
      (* versions: what is written is what was built; what NGINX is asked to verify is what was written;
         each strictly greater than everything before *)
      let v_ok :=
        match hb_written h, hb_reloaded h with
        | None, Some _ => false
        | Some w, Some r => w =? r
        | _, None => true
        end &&
        match hb_written h with Some w => last_v <? w | None => true end &&
        match hb_reloaded h with Some r => last_v <? r | None => true end &&
        match hb_written h, hb_conf h with
        | Some w, Some c => w =? c
        | Some _, None => false
        | None, _ => true
        end &&
        (* every applied configuration carries a version greater than all earlier ones *)
        (if applied h then match hb_conf h with Some c => last_v <? c | None => false end else true) in
      let new_v := match hb_conf h with Some c => Z.max last_v c | None => last_v end in
      (* a failure is surfaced and keeps an unready pod unready *)
      let surfaced :=
        if failed then
          match hb_final h with Some sts => forallb not_programmed sts | None => false end &&
          (prev_ready || negb (hb_ready h))
        else true in
      (* programmed is only reported when nothing failed *)
      let honest :=
        match hb_final h with
        | Some sts => if existsb says_programmed sts then negb failed else true
        | None => true
        end &&
        match hb_svc h with
        | Some sts => if existsb says_programmed sts then negb last_fail else true
        | None => true
        end in
      (* readiness: never back to unready; turns ready only for a reason *)
      let latch :=
        implb prev_ready (hb_ready h) &&
        (if hb_ready h && negb prev_ready
         then (applied h && negb failed) || (negb (applied h) && negb prev_fail)
         else true) in
      (* a batch that applies a configuration and reports Programmed has given exactly that version to NGINX: written to
         disk and handed to Reload (with NGINX Plus an endpoints-only change may go through the API instead) *)
      let loaded :=
        if applied h && match hb_final h with Some sts => existsb says_programmed sts | None => false end &&
           (negb plus || match b_change (hb_in h) with ClusterState => true | _ => false end)
        then match hb_conf h, hb_written h, hb_reloaded h with
             | Some c, Some w, Some r => (c =? w) && (c =? r)
             | _, _, _ => false
             end
        else true in
      if v_ok && surfaced && honest && latch && loaded
      then oracle_handler plus (hb_ready h) (prev_fail || failed)
                          (if applied h then failed else last_fail) new_v l'
      else false
  end.

(* ---------------------------------------------------------------- verdict *)

Definition check_case (c : case) : list nat :=
  match c with
  | CReload v e old new intended ok kill path_pids nstat readpid readch0 reloads errors =>
      if oracle_reload v e old new intended ok kill
      then when (negb (reload_model_ok v e ok kill path_pids nstat readpid readch0 reloads errors))
                code_mismatch
      else [code_violation]
  | CHandler plus steps =>
      if oracle_handler plus false false false 0 steps
      then when (negb (handler_model_ok plus hinit steps)) code_mismatch
      else [code_violation]
  end.
