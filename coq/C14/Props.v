(* C14 — property theorems: conflicts resolve by age, then namespace/name, independent of order. *)
From Coq Require Import List String ZArith Permutation.
From NGF Require Import lib.Str lib.Order k8s.State k8s.Spec k8s.OrderProofs.
Import ListNotations.

(* The order used everywhere (Go: LessObjectMeta / LessClientObject) is a strict total order on
   (creation timestamp, namespace, name). *)
Theorem C14_order_irreflexive : forall a, key_lt a a = false.
Proof. exact key_lt_irrefl. Qed.
Theorem C14_order_asymmetric : forall a b, key_lt a b = true -> key_lt b a = false.
Proof. exact key_lt_asym. Qed.
Theorem C14_order_transitive : forall a b c, key_lt a b = true -> key_lt b c = true -> key_lt a c = true.
Proof. exact key_lt_trans. Qed.
Theorem C14_order_total : forall a b, a <> b -> key_lt a b = true \/ key_lt b a = true.
Proof. exact key_lt_total. Qed.

(* Picking the least element by that order from a list with pairwise distinct keys does not depend on
   the order of the list (arrival order, map iteration order). *)
Theorem C14_least_is_order_independent :
  forall (A : Type) (kf : A -> key) a l b l',
  NoDup (map kf (a :: l)) -> Permutation (a :: l) (b :: l') -> least A kf a l = least A kf b l'.
Proof. exact least_perm_invariant. Qed.

(* Gateways of the class: the winner is the oldest (ties by namespace/name), whatever the order. *)
Theorem C14_winning_gateway_is_oldest :
  forall cs g, winning_gateway cs = Some g ->
  In g (our_gateways cs) /\ forall g', In g' (our_gateways cs) -> key_lt (gw_key g') (gw_key g) = false.
Proof. exact winning_gateway_is_least. Qed.

Theorem C14_winning_gateway_order_independent :
  forall cs cs', c_classes cs = c_classes cs' -> Permutation (c_gateways cs) (c_gateways cs') ->
  NoDup (map gw_key (c_gateways cs)) -> winning_gateway cs = winning_gateway cs'.
Proof. exact winning_gateway_order_independent. Qed.
