(* C03 — oracle: the file set the REAL generator produced for a generated admissible cluster state,
   together with the static nginx.conf and include files of the repository, is a well-formed NGINX
   configuration (ngx/Wf.v). Complaints are classified into the known-finding classes of DESIGN.md. *)
From Coq Require Import List String ZArith Bool Arith.
From NGF Require Export lib.CaseLib lib.Str ngx.Lexer ngx.Eval ngx.Wf.
Import ListNotations.
Local Open Scope string_scope.

Record case := Case {
  k_texts : list (string * string);   (* configuration files: nginx.conf first *)
  k_others : list string;             (* other file paths of the set *)
  k_keys : list string;               (* keys of matches.json *)
  k_twins : list string               (* part of the INPUT: for every namespace/name borne by both an HTTPRoute and a GRPCRoute of the
                                         state, the stem group_<ns>__<name>_rule of their backend group variables *)
}.

Definition errors_of (c : case) : list string := check_fileset (k_texts c) (k_others c) (k_keys c).

Fixpoint contains_l (sub s : list Ascii.ascii) : bool :=
  if is_prefix_l sub s then true else match s with [] => false | _ :: s' => contains_l sub s' end.
Definition contains (sub s : string) : bool := contains_l (chars_of sub) (chars_of s).

(* classes of recorded findings, decided from the complaint itself *)
Definition classify (twins : list string) (e : string) : nat :=
  if existsb (fun t => has_prefix ("unknown variable " ++ t)%string e) twins then code_known 51
       (* D51: the backend groups of an HTTPRoute and a GRPCRoute of one name are one group: the kept one needs no split_clients *)
  else if has_prefix "unknown variable group_" e then code_known 5          (* D5: dots survive in variable names *)
  else if has_prefix "duplicate variable definition $group_" e then code_known 6   (* D6: - and _ collide *)
  else if has_prefix "invalid regular expression ^" e then code_known 7  (* D7: path inserted unescaped into a rewrite regex *)
  else if has_prefix "unix socket path too long" e then code_known 10    (* D10 *)
  else if has_prefix "conflicting listen/server_name pair" e && negb (has_suffix sep e) then code_known 25   (* D25: http servers (the pair names a server) *)
  else if has_prefix "conflicting parameter in map: " e && contains "connection-closed-server.sock" e then code_known 49
       (* D49: a TLS listener without a Route of its own hostname and a Route of that hostname on another listener of the port *)
  else if has_prefix "invalid number of arguments in rewrite" e then code_known 28 (* D28 *)
  else if has_prefix "directive is duplicate: client_" e || has_prefix "directive is duplicate: keepalive_" e
          || has_prefix "directive is duplicate: otel_" e then code_known 4           (* D4: policy include repeated *)
  else code_violation.

Fixpoint dedup_nat (l : list nat) : list nat :=
  match l with [] => [] | x :: l' => if existsb (Nat.eqb x) l' then dedup_nat l' else x :: dedup_nat l' end.

Definition check_case (c : case) : list nat := dedup_nat (map (classify (k_twins c)) (errors_of c)).
