(* C10 — correspondence checker and property oracle, evaluated on logs observed by the Go harness
   (real EventLoop, a handler that blocks until released, scripted producers and cancellation).

   The log is the sequence of what the harness could SEE, totally ordered by one mutex:
     OPrepare        the (fake) preparer was called; it returns b0, or an error when k_fail
     OCancel         cancel() was called (inside the critical section of this entry)
     OSendStart e    a producer is about to execute  eventCh <- e
     OSendDone e     that send completed (so the loop received e between the two entries)
     OSendAbort e    the producer gave up because Start had returned (the event was never delivered)
     OBegin b        HandleEventBatch was entered with a batch whose contents are b
     OEnd b          HandleEventBatch is about to return; the same slice now reads b
     OReturn err     Start returned (err = it returned an error)
     OQuiet          the driver, having released all handlers, saw every delivered event handled
     OStall k        a bounded wait (10 s) expired: 0 quiescence, 1 Start did not return, 2 a send hung

   What the harness can NOT see are the loop's own actions (taking an event, taking handlingDone,
   seeing ctx.Done).  [incl_ok] decides TRACE INCLUSION: is there a run of the model whose visible
   actions are exactly the log, with the invisible ones placed anywhere the model allows (a receive
   between its SendStart and SendDone, ...)?  Where Go's select may pick either ready case both
   continuations are kept (subset construction over model states, with deduplication, so the search is
   polynomial and vm_compute's call-by-value evaluation does no harm).

   [oracle] states the property on the log directly, without the model. *)
From Coq Require Import List Arith Bool.
From NGF Require Export lib.CaseLib C10.Model.
Import ListNotations.

Inductive oev :=
| OPrepare
| OCancel
| OSendStart (e : ev)
| OSendDone (e : ev)
| OSendAbort (e : ev)
| OBegin (b : list ev)
| OEnd (b : list ev)
| OReturn (err : bool)
| OQuiet
| OStall (k : nat).

Record case := Case { k_b0 : list ev; k_fail : bool; k_log : list oev }.

(* ---------------------------------------------------------------- decidable equalities *)

Fixpoint list_eqb (a b : list nat) : bool :=
  match a, b with
  | [], [] => true
  | x :: a', y :: b' => if Nat.eqb x y then list_eqb a' b' else false
  | _, _ => false
  end.

Fixpoint lists_eqb {A} (eqb : A -> A -> bool) (a b : list A) : bool :=
  match a, b with
  | [], [] => true
  | x :: a', y :: b' => if eqb x y then lists_eqb eqb a' b' else false
  | _, _ => false
  end.

Definition slice_eqb (a b : slice) := Nat.eqb (s_buf a) (s_buf b) && Nat.eqb (s_len a) (s_len b).

Definition hphase_eqb (a b : hphase) :=
  match a, b with
  | HLaunched, HLaunched | HRunning, HRunning | HSending, HSending => true
  | _, _ => false
  end.

Definition hg_eqb (a b : hg) := slice_eqb (h_slice a) (h_slice b) && hphase_eqb (h_ph a) (h_ph b).

Definition lphase_eqb (a b : lphase) :=
  match a, b with
  | LInit, LInit | LSelect, LSelect | LWait, LWait | LRet, LRet | LErr, LErr => true
  | _, _ => false
  end.

Definition st_eqb (a b : st) : bool :=
  lists_eqb list_eqb (mem a) (mem b) && slice_eqb (cur a) (cur b) && slice_eqb (nxt a) (nxt b) &&
  Bool.eqb (handling a) (handling b) && lists_eqb hg_eqb (hgs a) (hgs b) &&
  lphase_eqb (phase a) (phase b) && Bool.eqb (cancelled a) (cancelled b).

(* ---------------------------------------------------------------- trace inclusion *)

(* a search configuration: model state; sends started but not yet received; received but the
   producer has not yet logged completion; whether the return of Start has been observed *)
Record cfg := Cfg { c_st : st; c_pend : list ev; c_unack : list ev; c_ret : bool; c_nrecv : nat }.

Definition cfg_eqb (a b : cfg) : bool :=
  st_eqb (c_st a) (c_st b) && list_eqb (c_pend a) (c_pend b) && list_eqb (c_unack a) (c_unack b) &&
  Bool.eqb (c_ret a) (c_ret b) && Nat.eqb (c_nrecv a) (c_nrecv b).

Fixpoint memb (x : nat) (l : list nat) : bool :=
  match l with [] => false | y :: l' => if Nat.eqb x y then true else memb x l' end.

Fixpoint remove1 (x : nat) (l : list nat) : list nat :=
  match l with [] => [] | y :: l' => if Nat.eqb x y then l' else y :: remove1 x l' end.

(* insertion keeps the bookkeeping lists sorted so that equal sets compare equal *)
Fixpoint insert (x : nat) (l : list nat) : list nat :=
  match l with
  | [] => [x]
  | y :: l' => if Nat.leb x y then x :: l else y :: insert x l'
  end.

Definition with_st (c : cfg) (s : st) : cfg := Cfg s (c_pend c) (c_unack c) (c_ret c) (c_nrecv c).

Definition try_step (c : cfg) (l : label) : list cfg :=
  match step (c_st c) l with Some (s, _) => [with_st c s] | None => [] end.

(* The invisible actions enabled in c.  [order] = the delivered events in the order the log's batches
   show them (the log is known in full when the search runs).  Two prunings keep the search small
   without changing its answer:
   - an event that appears in some batch can only have been received when all events before it in
     [order] had been (the model hands events over in the order received, so any other choice is a
     run that cannot produce the logged batches);
   - an event that appears in no batch is never observed again, so it is received as the
     placeholder 0 (the harness uses ids >= 1): the k! orders of such events collapse. *)
Definition internal (order : list ev) (c : cfg) : list cfg :=
  flat_map (fun e =>
              if memb e order then
                if Nat.eqb (nth (c_nrecv c) order 0) e then
                  match step (c_st c) (LRecv e false) with
                  | Some (s, _) => [Cfg s (remove1 e (c_pend c)) (insert e (c_unack c)) (c_ret c) (S (c_nrecv c))]
                  | None => []
                  end
                else []
              else
                match step (c_st c) (LRecv 0 false) with
                | Some (s, _) => [Cfg s (remove1 e (c_pend c)) (insert e (c_unack c)) (c_ret c) (c_nrecv c)]
                | None => []
                end) (c_pend c)
  ++ flat_map (fun i => try_step c (LTakeDone i)) (seq 0 (length (hgs (c_st c))))
  ++ try_step c LSeeCancel.

Fixpoint cfg_mem (c : cfg) (l : list cfg) : bool :=
  match l with [] => false | d :: l' => if cfg_eqb c d then true else cfg_mem c l' end.

Fixpoint closure (order : list ev) (fuel : nat) (todo seen : list cfg) : list cfg :=
  match fuel with
  | 0 => seen
  | S f =>
      match todo with
      | [] => seen
      | c :: todo' =>
          if cfg_mem c seen then closure order f todo' seen
          else closure order f (internal order c ++ todo') (c :: seen)
      end
  end.

Definition closure_fuel := 200 * 100.

Definition begin_obs (c : cfg) (b : list ev) (is_end : bool) : list cfg :=
  flat_map (fun i =>
              match step (c_st c) (if is_end then LEnd i else LBegin i) with
              | Some (s, [EBegin b']) => if negb is_end && list_eqb b b' then [with_st c s] else []
              | Some (s, [EEnd b']) => if is_end && list_eqb b b' then [with_st c s] else []
              | _ => []
              end) (seq 0 (length (hgs (c_st c)))).

(* [dn] = the events whose send completed somewhere in the log.  A send that never completed was
   never taken by the loop (Go runs only the chosen case of the producer's select), so such an event
   is not a candidate for an invisible receive. *)
Definition consume (b0 : list ev) (fail : bool) (dn : list ev) (c : cfg) (o : oev) : list cfg :=
  match o with
  | OPrepare => try_step c (if fail then LPrepareFail else LPrepare b0)
  | OCancel => try_step c LCancel
  | OSendStart e => if memb e dn then [Cfg (c_st c) (insert e (c_pend c)) (c_unack c) (c_ret c) (c_nrecv c)] else [c]
  | OSendDone e => if memb e (c_unack c) then [Cfg (c_st c) (c_pend c) (remove1 e (c_unack c)) (c_ret c) (c_nrecv c)] else []
  | OSendAbort e =>
      (* a producer gives up only after the harness has seen Start return *)
      if negb (memb e dn) && c_ret c then [c] else []
  | OBegin b => begin_obs c b false
  | OEnd b => begin_obs c b true
  | OReturn err =>
      if negb (c_ret c) && lphase_eqb (phase (c_st c)) (if err then LErr else LRet)
      then [Cfg (c_st c) (c_pend c) (c_unack c) true (c_nrecv c)] else []
  | OQuiet => [c]
  | OStall _ => []      (* the model never gets stuck: see Props, progress theorems *)
  end.

Definition sim_step (b0 : list ev) (fail : bool) (dn order : list ev) (cs : list cfg) (o : oev) : list cfg :=
  match cs with
  | [] => []
  | _ => closure order closure_fuel (flat_map (fun c => consume b0 fail dn c o) cs) []
  end.

Definition incl_ok (c : case) : bool :=
  let dn := flat_map (fun o => match o with OSendDone e => [e] | _ => [] end) (k_log c) in
  let order := skipn (length (k_b0 c))
                     (concat (flat_map (fun o => match o with OBegin b => [b] | _ => [] end) (k_log c))) in
  match fold_left (sim_step (k_b0 c) (k_fail c) dn order) (k_log c)
                  (closure order closure_fuel [Cfg init [] [] false 0] []) with
  | [] => false
  | _ => true
  end.

(* ---------------------------------------------------------------- the property on the log *)

(* (1) structure: one call at a time; a call sees the same batch when it leaves as when it entered;
       the first call gets the start-up batch; Start returns only when no call is in progress and no
       call begins afterwards.  Written as a left-to-right automaton. *)
Record ost := OSt { o_depth : nat; o_last : list ev; o_ret : bool; o_nbeg : nat }.

Definition ostep (b0 : list ev) (s : ost) (o : oev) : option ost :=
  match o with
  | OBegin b =>
      if Nat.eqb (o_depth s) 0 && negb (o_ret s) && (if Nat.eqb (o_nbeg s) 0 then list_eqb b b0 else true)
      then Some (OSt 1 b false (S (o_nbeg s))) else None
  | OEnd b =>
      if Nat.eqb (o_depth s) 1 && list_eqb b (o_last s)
      then Some (OSt 0 (o_last s) (o_ret s) (o_nbeg s)) else None
  | OReturn _ =>
      if Nat.eqb (o_depth s) 0 && negb (o_ret s)
      then Some (OSt 0 (o_last s) true (o_nbeg s)) else None
  | _ => Some s
  end.

Fixpoint oracle_struct_from (b0 : list ev) (s : ost) (log : list oev) : bool :=
  match log with
  | [] => true
  | o :: log' => match ostep b0 s o with Some s' => oracle_struct_from b0 s' log' | None => false end
  end.

Definition oracle_struct (b0 : list ev) (log : list oev) : bool :=
  oracle_struct_from b0 (OSt 0 [] false 0) log.

(* (2) events *)
Fixpoint indexed {A} (i : nat) (l : list A) : list (nat * A) :=
  match l with [] => [] | x :: l' => (i, x) :: indexed (S i) l' end.

Definition pos_of (f : oev -> bool) (log : list oev) : option nat :=
  match find (fun p => f (snd p)) (indexed 0 log) with Some p => Some (fst p) | None => None end.

Definition is_start (e : ev) (o : oev) := match o with OSendStart x => Nat.eqb x e | _ => false end.
Definition is_done (e : ev) (o : oev) := match o with OSendDone x => Nat.eqb x e | _ => false end.
Definition is_abort (e : ev) (o : oev) := match o with OSendAbort x => Nat.eqb x e | _ => false end.

Definition begins_at (log : list oev) : list (nat * list ev) :=
  flat_map (fun p => match snd p with OBegin b => [(fst p, b)] | _ => [] end) (indexed 0 log).
Definition ends_at (log : list oev) : list nat :=
  flat_map (fun p => match snd p with OEnd _ => [fst p] | _ => [] end) (indexed 0 log).
Definition quiets_at (log : list oev) : list nat :=
  flat_map (fun p => match snd p with OQuiet => [fst p] | _ => [] end) (indexed 0 log).
Definition done_events (log : list oev) : list (nat * ev) :=
  flat_map (fun p => match snd p with OSendDone e => [(fst p, e)] | _ => [] end) (indexed 0 log).
Definition started_events (log : list oev) : list (nat * ev) :=
  flat_map (fun p => match snd p with OSendStart e => [(fst p, e)] | _ => [] end) (indexed 0 log).

Fixpoint nodupb (l : list nat) : bool :=
  match l with [] => true | x :: l' => if memb x l' then false else nodupb l' end.

Fixpoint is_prefix (a b : list nat) : bool :=
  match a, b with
  | [], _ => true
  | x :: a', y :: b' => if Nat.eqb x y then is_prefix a' b' else false
  | _, _ => false
  end.

Fixpoint index_of (x : nat) (l : list nat) : option nat :=
  match l with
  | [] => None
  | y :: l' => if Nat.eqb x y then Some 0 else match index_of x l' with Some i => Some (S i) | None => None end
  end.

Definition lt_opt (a b : option nat) : bool :=
  match a, b with Some x, Some y => Nat.ltb x y | _, _ => false end.

Definition has_stall (k : nat) (log : list oev) : bool :=
  existsb (fun o => match o with OStall j => Nat.eqb j k | _ => false end) log.

Definition oracle_events (b0 : list ev) (fail : bool) (log : list oev) : bool :=
  let bs := begins_at log in
  let all := concat (map snd bs) in
  let rest := skipn (length b0) all in
  let es := ends_at log in
  (* exactly once: what was passed to the handler is the start-up batch followed by delivered events,
     none twice *)
  (match bs with [] => true | _ => is_prefix b0 all end) &&
  nodupb all &&
  (* no invention: an event in a batch was offered before that batch began, and was not withdrawn *)
  forallb (fun pb =>
             forallb (fun e => if memb e b0 then true
                               else match pos_of (is_start e) log with
                                    | Some p => Nat.ltb p (fst pb) && negb (existsb (is_abort e) log)
                                    | None => false
                                    end) (snd pb)) bs &&
  (* delivery order, and nothing skipped: if a was delivered before b was even offered and b was
     handled, then a was handled, earlier *)
  forallb (fun da =>
             forallb (fun sb =>
                        if Nat.ltb (fst da) (fst sb) && memb (snd sb) rest
                        then lt_opt (index_of (snd da) rest) (index_of (snd sb) rest)
                        else true) (started_events log)) (done_events log) &&
  (* coalescing: everything delivered before call k returned is in a batch no later than k+1,
     once batch k+1 exists *)
  forallb (fun kq =>
             let k := fst kq in let q := snd kq in
             if Nat.ltb (S k) (length bs)
             then let upto := concat (map snd (firstn (S (S k)) bs)) in
                  forallb (fun de => if Nat.ltb (fst de) q then memb (snd de) upto else true) (done_events log)
             else true) (indexed 0 es) &&
  (* nothing waits: when the driver saw quiescence (all handlers released, nothing cancelled), every
     delivered event and the start-up batch had been handled by a call that had returned *)
  forallb (fun q =>
             let nend := length (filter (fun p => Nat.ltb p q) es) in
             let handled := concat (map snd (firstn nend bs)) in
             (fail || Nat.ltb 0 nend) &&
             forallb (fun de => if Nat.ltb (fst de) q then memb (snd de) handled else true) (done_events log))
          (quiets_at log) &&
  negb (has_stall 0 log).

Definition oracle (c : case) : bool :=
  oracle_struct (k_b0 c) (k_log c) && oracle_events (k_b0 c) (k_fail c) (k_log c).

Definition check_case (c : case) : list nat :=
  if oracle c then when (negb (incl_ok c)) code_mismatch else [code_violation].
