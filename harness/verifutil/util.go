//go:build verif

// Package verifutil is overlaid into /repo as internal/verifutil by /verif/bin/check.
// It holds what every correspondence harness shares: one PRNG (all random choices of a run derive
// from VERIF_SEED), printers of Coq terms, and the writer of cases_*.v shards + meta.json.
package verifutil

import (
	"encoding/json"
	"fmt"
	"os"
	"path/filepath"
	"sort"
	"strconv"
	"strings"
)

// ---------------------------------------------------------------- PRNG (splitmix64)

type Rng struct{ s uint64 }

// NewRng mixes the seed through the splitmix64 finaliser: neighbouring seeds must not give shifted copies
// of one stream (the state advances by a constant, so an unmixed seed k+1 would replay seed k one draw late).
func NewRng(seed uint64) *Rng {
	z := seed + 0x9E3779B97F4A7C15
	z = (z ^ (z >> 30)) * 0xBF58476D1CE4E5B9
	z = (z ^ (z >> 27)) * 0x94D049BB133111EB
	z ^= z >> 31
	return &Rng{s: z ^ 0x6A09E667F3BCC909}
}

func (r *Rng) Next() uint64 {
	r.s += 0x9E3779B97F4A7C15
	z := r.s
	z = (z ^ (z >> 30)) * 0xBF58476D1CE4E5B9
	z = (z ^ (z >> 27)) * 0x94D049BB133111EB
	return z ^ (z >> 31)
}

// Intn returns a number in [0,n).
func (r *Rng) Intn(n int) int {
	if n <= 0 {
		return 0
	}
	return int(r.Next() % uint64(n))
}

// Range returns a number in [lo,hi].
func (r *Rng) Range(lo, hi int) int { return lo + r.Intn(hi-lo+1) }

func (r *Rng) Bool() bool { return r.Next()&1 == 1 }

// Chance is true with probability num/den.
func (r *Rng) Chance(num, den int) bool { return r.Intn(den) < num }

// Fork derives an independent generator (so that one case's choices do not shift the next case's).
func (r *Rng) Fork() *Rng { return NewRng(r.Next()) }

// Perm returns a random permutation of 0..n-1.
func (r *Rng) Perm(n int) []int {
	p := make([]int, n)
	for i := range p {
		p[i] = i
	}
	r.Shuffle(n, func(i, j int) { p[i], p[j] = p[j], p[i] })
	return p
}

func (r *Rng) Shuffle(n int, swap func(i, j int)) {
	for i := n - 1; i > 0; i-- {
		j := r.Intn(i + 1)
		swap(i, j)
	}
}

// ---------------------------------------------------------------- Coq term printers

func Nat(n int) string { return strconv.Itoa(n) }

func Z(n int64) string {
	if n < 0 {
		return "(" + strconv.FormatInt(n, 10) + ")%Z"
	}
	return strconv.FormatInt(n, 10) + "%Z"
}

func N(n uint64) string { return strconv.FormatUint(n, 10) + "%N" }

func Bool(b bool) string {
	if b {
		return "true"
	}
	return "false"
}

// Str prints a Coq string literal; bytes outside printable ASCII are spliced in with ascii_of_nat.
func Str(s string) string {
	plain := true
	for i := 0; i < len(s); i++ {
		if s[i] < 32 || s[i] > 126 {
			plain = false
			break
		}
	}
	if plain {
		return "\"" + strings.ReplaceAll(s, "\"", "\"\"") + "\"%string"
	}
	var parts []string
	cur := strings.Builder{}
	flush := func() {
		if cur.Len() > 0 {
			parts = append(parts, "\""+strings.ReplaceAll(cur.String(), "\"", "\"\"")+"\"%string")
			cur.Reset()
		}
	}
	for i := 0; i < len(s); i++ {
		if s[i] < 32 || s[i] > 126 {
			flush()
			parts = append(parts, fmt.Sprintf("(String (Ascii.ascii_of_nat %d) EmptyString)", s[i]))
		} else {
			cur.WriteByte(s[i])
		}
	}
	flush()
	return "(String.concat EmptyString [" + strings.Join(parts, "; ") + "])"
}

func List(items []string) string { return "[" + strings.Join(items, "; ") + "]" }

func NatList(xs []int) string {
	it := make([]string, len(xs))
	for i, x := range xs {
		it[i] = Nat(x)
	}
	return List(it)
}

func StrList(xs []string) string {
	it := make([]string, len(xs))
	for i, x := range xs {
		it[i] = Str(x)
	}
	return List(it)
}

func Pair(a, b string) string { return "(" + a + ", " + b + ")" }

func Tuple(xs ...string) string { return "(" + strings.Join(xs, ", ") + ")" }

func Some(a string) string { return "(Some " + a + ")" }

func OptStr(s *string) string {
	if s == nil {
		return "None"
	}
	return Some(Str(*s))
}

// App prints a constructor or function application.
func App(f string, args ...string) string {
	if len(args) == 0 {
		return f
	}
	return "(" + f + " " + strings.Join(args, " ") + ")"
}

// ---------------------------------------------------------------- case output

type caseRec struct {
	term       string
	human      any
	nontrivial bool
	key        string
}

// Out collects the cases of one harness run and writes them as Coq shards.
type Out struct {
	Prop     string
	Dir      string
	Seed     uint64
	Tier     string
	Only     int // >= 0: replay mode, only this case index is kept
	cases    []caseRec
	hist     map[string]map[string]int
	extra    map[string]any
	shardLen int
}

// Open reads VERIF_OUT (directory), VERIF_SEED, VERIF_TIER, VERIF_ONLY.
func Open(prop string) *Out {
	o := &Out{Prop: prop, Dir: os.Getenv("VERIF_OUT"), Tier: os.Getenv("VERIF_TIER"), Only: -1,
		hist: map[string]map[string]int{}, extra: map[string]any{}, shardLen: 250}
	if o.Dir == "" {
		panic("VERIF_OUT not set")
	}
	if o.Tier == "" {
		o.Tier = "quick"
	}
	if s := os.Getenv("VERIF_SEED"); s != "" {
		v, err := strconv.ParseUint(s, 10, 64)
		if err == nil {
			o.Seed = v
		}
	}
	if s := os.Getenv("VERIF_ONLY"); s != "" {
		v, err := strconv.Atoi(s)
		if err == nil {
			o.Only = v
		}
	}
	return o
}

func (o *Out) Thorough() bool { return o.Tier == "thorough" }

// Count picks the number of generated cases per tier.
func (o *Out) Count(quick, thorough int) int {
	if o.Thorough() {
		return thorough
	}
	return quick
}

func (o *Out) ShardLen(n int) { o.shardLen = n }

// Case records one case: its Coq term (of the property's Check.case type), a human-readable form for
// replay files and evidence samples, whether it is non-trivial by the property's rule, and a
// canonical key used to count distinct cases.
func (o *Out) Case(term string, human any, nontrivial bool, key string) {
	o.cases = append(o.cases, caseRec{term, human, nontrivial, key})
}

// Tally adds to a named histogram (the input distribution printed into evidence).
func (o *Out) Tally(hist, bucket string) {
	m := o.hist[hist]
	if m == nil {
		m = map[string]int{}
		o.hist[hist] = m
	}
	m[bucket]++
}

func (o *Out) Extra(k string, v any) { o.extra[k] = v }

// Close writes cases_NNN.v shards, cases.json (human forms) and meta.json.
func (o *Out) Close(checkModule string, preamble string) {
	if err := os.MkdirAll(o.Dir, 0o755); err != nil {
		panic(err)
	}
	n := len(o.cases)
	shard := 0
	distinct := map[string]bool{}
	humans := make([]any, 0, n)
	for i := 0; i < n; i += o.shardLen {
		j := i + o.shardLen
		if j > n {
			j = n
		}
		var b strings.Builder
		b.WriteString("From Coq Require Import List String ZArith NArith Ascii.\n")
		b.WriteString("From NGF Require Import lib.CaseLib " + checkModule + ".\n")
		b.WriteString("Import ListNotations.\nLocal Open Scope nat_scope.\n")
		b.WriteString(preamble)
		b.WriteString("\nDefinition cases : list " + checkModule + ".case := [\n")
		for k := i; k < j; k++ {
			b.WriteString("  ")
			b.WriteString(o.cases[k].term)
			if k+1 < j {
				b.WriteString(";")
			}
			b.WriteString("\n")
		}
		b.WriteString("].\n")
		fmt.Fprintf(&b, "Definition report := Eval vm_compute in check_all %s.check_case %d cases.\n", checkModule, i)
		b.WriteString("Print report.\n")
		name := filepath.Join(o.Dir, fmt.Sprintf("cases_%03d.v", shard))
		if err := os.WriteFile(name, []byte(b.String()), 0o644); err != nil {
			panic(err)
		}
		shard++
	}
	nontrivial := 0
	for _, c := range o.cases {
		humans = append(humans, c.human)
		if c.nontrivial && !distinct[c.key] {
			nontrivial++
		}
		distinct[c.key] = true
	}
	hj, _ := json.Marshal(humans)
	if err := os.WriteFile(filepath.Join(o.Dir, "cases.json"), hj, 0o644); err != nil {
		panic(err)
	}
	hist := map[string]any{}
	for k, m := range o.hist {
		keys := make([]string, 0, len(m))
		for b := range m {
			keys = append(keys, b)
		}
		sort.Strings(keys)
		mm := map[string]int{}
		for _, b := range keys {
			mm[b] = m[b]
		}
		hist[k] = mm
	}
	meta := map[string]any{
		"property": o.Prop, "seed": o.Seed, "tier": o.Tier, "evaluations": n,
		"distinct": len(distinct), "distinct_nontrivial": nontrivial, "shards": shard,
		"distribution": hist, "extra": o.extra,
	}
	mj, _ := json.MarshalIndent(meta, "", " ")
	if err := os.WriteFile(filepath.Join(o.Dir, "meta.json"), mj, 0o644); err != nil {
		panic(err)
	}
}
