//go:build verif

package runnables

import (
	"bytes"
	"context"
	"go/ast"
	"go/parser"
	"go/printer"
	"go/token"
	"path"
	"strconv"
	"strings"
	"testing"

	"sigs.k8s.io/controller-runtime/pkg/cache"
	"sigs.k8s.io/controller-runtime/pkg/manager"
	"sigs.k8s.io/controller-runtime/pkg/webhook"

	"github.com/nginx/nginx-gateway-fabric/internal/framework/events"
	vu "github.com/nginx/nginx-gateway-fabric/internal/verifutil"
)

// C09, second part (coq/C09/Wire.v): the wiring of the leader-aware status updater in
// internal/mode/static/manager.go.
//
// Translator: manager.go of the tree under test is parsed and every mgr.Add(<expr>) is resolved,
// syntactically, into the chain of runnable types of <expr> (outermost first).
// Real evaluation: for every chain the REAL object is built from the real types of this package
// and asked (1) the rule by which controller-runtime's runnables.Add chooses the group and (2) how
// often one Start of it calls the enable function.
//
// Expression shapes the resolver understands (anything else is reported as not resolved, which
// coq/C09/Wire.v turns into code 1):
//   &runnables.Leader{Runnable: E}, &runnables.LeaderOrNonLeader{Runnable: E}   (keyed or single positional)
//   runnables.NewEnableAfterBecameLeader(A)       leaf, payload = printed A (an identifier A is replaced by its definition)
//   runnables.NewCronJob(...)                     leaf
//   f(...) with f a function declared in manager.go: the first result of its return statements (nil skipped), all must agree
//   pkg.F(...) / F(...) without a function literal among the arguments: opaque leaf "opaque:<import path>.F"
//   x                                             the right-hand sides assigned to x in the enclosing function before the use
//                                                 (x := E, x = E, x, err := f(...), var x = E); all must agree
//   (E)
// "runnables" means the package imported from c09wRunnablesPath under whatever local name.

const (
	c09wManagerGo     = "../../mode/static/manager.go"
	c09wModule        = "github.com/nginx/nginx-gateway-fabric/"
	c09wRunnablesPath = c09wModule + "internal/framework/runnables"
	c09wEventsPath    = c09wModule + "internal/framework/events"
	c09wManagerPath   = "sigs.k8s.io/controller-runtime/pkg/manager"
	c09wLeader        = "Leader"
	c09wLeaderOrNon   = "LeaderOrNonLeader"
	c09wEnable        = "EnableAfterBecameLeader"
	c09wCronJob       = "CronJob"
	c09wOpaque        = "opaque:"
	c09wEventLoop     = c09wOpaque + c09wEventsPath + ".NewEventLoop"
	c09wRunnableFunc  = c09wOpaque + c09wManagerPath + ".RunnableFunc"
)

// ---------------------------------------------------------------- translator

type c09wChain struct {
	elems   []string
	payload string
	known   bool
	why     string // first reason for known == false
}

func (c c09wChain) same(d c09wChain) bool {
	return c.known == d.known && c.payload == d.payload && strings.Join(c.elems, "\x00") == strings.Join(d.elems, "\x00")
}

type c09wResolver struct {
	fset     *token.FileSet
	file     *ast.File
	imports  map[string]string // local package name -> import path
	funcs    map[string]*ast.FuncDecl
	consumed map[ast.Node]bool // .Enable selectors that are the payload of a resolved registration
}

func c09wParse(t *testing.T, file string) *c09wResolver {
	fset := token.NewFileSet()
	f, err := parser.ParseFile(fset, file, nil, parser.SkipObjectResolution)
	if err != nil {
		t.Fatalf("C09 wiring: cannot parse %s: %v", file, err)
	}
	r := &c09wResolver{fset: fset, file: f, imports: map[string]string{}, funcs: map[string]*ast.FuncDecl{},
		consumed: map[ast.Node]bool{}}
	for _, im := range f.Imports {
		p, err := strconv.Unquote(im.Path.Value)
		if err != nil {
			t.Fatalf("C09 wiring: import path %s: %v", im.Path.Value, err)
		}
		name := path.Base(p)
		if im.Name != nil {
			name = im.Name.Name
		}
		r.imports[name] = p
	}
	for _, d := range f.Decls {
		if fd, ok := d.(*ast.FuncDecl); ok && fd.Recv == nil && fd.Body != nil {
			r.funcs[fd.Name.Name] = fd
		}
	}
	return r
}

func (r *c09wResolver) print(n ast.Node) string {
	var b bytes.Buffer
	if err := printer.Fprint(&b, r.fset, n); err != nil {
		return "<unprintable>"
	}
	s := strings.Join(strings.Fields(b.String()), " ")
	if len(s) > 240 {
		s = s[:240] + "..."
	}
	return s
}

// qual prints pkg.Name with the import path in place of the local package name.
func (r *c09wResolver) qual(e ast.Expr) string {
	if se, ok := e.(*ast.SelectorExpr); ok {
		if id, ok := se.X.(*ast.Ident); ok {
			if p, ok := r.imports[id.Name]; ok {
				return p + "." + se.Sel.Name
			}
		}
	}
	return r.print(e)
}

func c09wHasFuncLit(n ast.Node) bool {
	found := false
	ast.Inspect(n, func(m ast.Node) bool {
		if _, ok := m.(*ast.FuncLit); ok {
			found = true
		}
		return !found
	})
	return found
}

// defs returns the expressions assigned to the identifier name in fn before position use.
// ok is false when an assignment has a shape that cannot be attributed (x is not the first result
// of a multi-value call, ...).
func (r *c09wResolver) defs(fn *ast.FuncDecl, name string, use token.Pos) (out []ast.Expr, ok bool) {
	ok = true
	ast.Inspect(fn.Body, func(n ast.Node) bool {
		switch s := n.(type) {
		case *ast.AssignStmt:
			if s.Pos() >= use {
				return true
			}
			for i, l := range s.Lhs {
				id, isID := l.(*ast.Ident)
				if !isID || id.Name != name {
					continue
				}
				switch {
				case len(s.Rhs) == len(s.Lhs):
					out = append(out, s.Rhs[i])
				case len(s.Rhs) == 1 && i == 0:
					out = append(out, s.Rhs[0])
				default:
					ok = false
				}
			}
		case *ast.ValueSpec:
			if s.Pos() >= use {
				return true
			}
			for i, id := range s.Names {
				if id.Name != name {
					continue
				}
				switch {
				case len(s.Values) == len(s.Names):
					out = append(out, s.Values[i])
				case len(s.Values) == 1 && i == 0:
					out = append(out, s.Values[0])
				default:
					ok = false // declared without a value
				}
			}
		}
		return true
	})
	return out, ok
}

func c09wUnknown(prefix []string, why string) c09wChain {
	return c09wChain{elems: append(append([]string{}, prefix...), "unknown"), known: false, why: why}
}

func (r *c09wResolver) allAgree(cs []c09wChain, what string) c09wChain {
	if len(cs) == 0 {
		return c09wUnknown(nil, "no definition found for "+what)
	}
	for _, c := range cs[1:] {
		if !c.same(cs[0]) {
			return c09wUnknown(nil, "definitions of "+what+" disagree")
		}
	}
	return cs[0]
}

func (r *c09wResolver) resolve(e ast.Expr, fn *ast.FuncDecl, use token.Pos, depth int) c09wChain {
	if depth > 16 {
		return c09wUnknown(nil, "resolution too deep at "+r.print(e))
	}
	switch x := e.(type) {
	case *ast.ParenExpr:
		return r.resolve(x.X, fn, use, depth+1)
	case *ast.UnaryExpr:
		cl, ok := x.X.(*ast.CompositeLit)
		if x.Op != token.AND || !ok {
			break
		}
		q := r.qual(cl.Type)
		var name string
		switch q {
		case c09wRunnablesPath + "." + c09wLeader:
			name = c09wLeader
		case c09wRunnablesPath + "." + c09wLeaderOrNon:
			name = c09wLeaderOrNon
		default:
			return c09wUnknown(nil, "composite literal of type "+q)
		}
		var inner ast.Expr
		for _, el := range cl.Elts {
			if kv, ok := el.(*ast.KeyValueExpr); ok {
				if k, ok := kv.Key.(*ast.Ident); ok && k.Name == "Runnable" {
					inner = kv.Value
				}
			} else if len(cl.Elts) == 1 {
				inner = el
			}
		}
		if inner == nil {
			return c09wUnknown([]string{name}, "wrapper without a Runnable: "+r.print(e))
		}
		c := r.resolve(inner, fn, use, depth+1)
		c.elems = append([]string{name}, c.elems...)
		return c
	case *ast.CallExpr:
		q := r.qual(x.Fun)
		switch q {
		case c09wRunnablesPath + ".NewEnableAfterBecameLeader":
			if len(x.Args) != 1 {
				return c09wUnknown(nil, "NewEnableAfterBecameLeader with "+strconv.Itoa(len(x.Args))+" arguments")
			}
			return c09wChain{elems: []string{c09wEnable}, payload: r.payload(x.Args[0], fn, x.Pos()), known: true}
		case c09wRunnablesPath + ".NewCronJob":
			return c09wChain{elems: []string{c09wCronJob}, known: true}
		}
		if id, ok := x.Fun.(*ast.Ident); ok {
			if fd, ok := r.funcs[id.Name]; ok {
				var cs []c09wChain
				r.returns(fd.Body, func(rs *ast.ReturnStmt) {
					if len(rs.Results) == 0 {
						cs = append(cs, c09wUnknown(nil, "bare return in "+id.Name))
						return
					}
					if n, ok := rs.Results[0].(*ast.Ident); ok && n.Name == "nil" {
						return
					}
					cs = append(cs, r.resolve(rs.Results[0], fd, rs.Pos(), depth+1))
				})
				return r.allAgree(cs, "the result of "+id.Name)
			}
		}
		if c09wHasFuncLit(x) {
			return c09wUnknown(nil, "call with a function literal: "+r.print(e))
		}
		return c09wChain{elems: []string{c09wOpaque + q}, known: true}
	case *ast.Ident:
		if x.Name == "nil" {
			return c09wUnknown(nil, "nil")
		}
		ds, ok := r.defs(fn, x.Name, use)
		if !ok {
			return c09wUnknown(nil, "cannot attribute an assignment to "+x.Name)
		}
		var cs []c09wChain
		for _, d := range ds {
			cs = append(cs, r.resolve(d, fn, d.Pos(), depth+1))
		}
		return r.allAgree(cs, x.Name+" in "+fn.Name.Name)
	}
	return c09wUnknown(nil, "expression "+r.print(e))
}

// returns visits the return statements of a function body, not those of nested function literals.
func (r *c09wResolver) returns(body *ast.BlockStmt, f func(*ast.ReturnStmt)) {
	ast.Inspect(body, func(n ast.Node) bool {
		switch s := n.(type) {
		case *ast.FuncLit:
			return false
		case *ast.ReturnStmt:
			f(s)
		}
		return true
	})
}

// payload prints the argument of NewEnableAfterBecameLeader; a selector X.Enable is marked consumed.
func (r *c09wResolver) payload(a ast.Expr, fn *ast.FuncDecl, use token.Pos) string {
	if id, ok := a.(*ast.Ident); ok {
		if ds, ok := r.defs(fn, id.Name, use); ok && len(ds) == 1 {
			a = ds[0]
		}
	}
	if se, ok := a.(*ast.SelectorExpr); ok && se.Sel.Name == "Enable" {
		r.consumed[se] = true
	}
	return r.print(a)
}

type c09wReg struct {
	Src        string   `json:"source"`
	Func       string   `json:"in_function"`
	Chain      []string `json:"chain"`
	Payload    string   `json:"payload"`
	Known      bool     `json:"resolved"`
	Why        string   `json:"why_not_resolved,omitempty"`
	LeaderOnly bool     `json:"measured_leader_only"`
	Invokes    int      `json:"measured_enable_calls_per_start"`
}

type c09wStray struct {
	Receiver string `json:"receiver"`
	Ctor     string `json:"receiver_constructor"`
	Func     string `json:"in_function"`
}

type c09wWiring struct {
	Regs    []c09wReg   `json:"registrations"`
	SuFound bool        `json:"handler_status_updater_found"`
	SuIdent string      `json:"handler_status_updater"`
	SuCtor  string      `json:"defined_by"`
	SuArg   string      `json:"defined_by_argument"`
	SuNote  string      `json:"note,omitempty"`
	Strays  []c09wStray `json:"other_uses_of_Enable"`
}

// ctorOf: the function whose call defines identifier name in fn (qualified), and its first argument.
func (r *c09wResolver) ctorOf(fn *ast.FuncDecl, name string, use token.Pos) (ctor, arg string, ok bool) {
	ds, dok := r.defs(fn, name, use)
	if !dok || len(ds) != 1 {
		return "", "", false
	}
	call, isCall := ds[0].(*ast.CallExpr)
	if !isCall {
		return r.print(ds[0]), "", true
	}
	if len(call.Args) > 0 {
		arg = r.print(call.Args[0])
	}
	return r.qual(call.Fun), arg, true
}

func (r *c09wResolver) wiring() c09wWiring {
	w := c09wWiring{Regs: []c09wReg{}, Strays: []c09wStray{}}
	names := make([]*ast.FuncDecl, 0, len(r.funcs))
	for _, d := range r.file.Decls { // source order
		if fd, ok := d.(*ast.FuncDecl); ok && fd.Body != nil {
			names = append(names, fd)
		}
	}
	suLits := 0
	for _, fd := range names {
		ast.Inspect(fd.Body, func(n ast.Node) bool {
			switch x := n.(type) {
			case *ast.CallExpr:
				se, ok := x.Fun.(*ast.SelectorExpr)
				if !ok || se.Sel.Name != "Add" || len(x.Args) != 1 {
					return true
				}
				if id, ok := se.X.(*ast.Ident); !ok || id.Name != "mgr" {
					return true
				}
				c := r.resolve(x.Args[0], fd, x.Pos(), 0)
				w.Regs = append(w.Regs, c09wReg{Src: r.print(x.Args[0]), Func: fd.Name.Name, Chain: c.elems,
					Payload: c.payload, Known: c.known, Why: c.why})
			case *ast.CompositeLit:
				if id, ok := x.Type.(*ast.Ident); !ok || id.Name != "eventHandlerConfig" {
					return true
				}
				for _, el := range x.Elts {
					kv, ok := el.(*ast.KeyValueExpr)
					if !ok {
						continue
					}
					if k, ok := kv.Key.(*ast.Ident); !ok || k.Name != "statusUpdater" {
						continue
					}
					suLits++
					id, ok := kv.Value.(*ast.Ident)
					if !ok {
						w.SuNote = "statusUpdater: is not an identifier: " + r.print(kv.Value)
						continue
					}
					w.SuIdent = id.Name
					ctor, arg, ok := r.ctorOf(fd, id.Name, x.Pos())
					if !ok {
						w.SuNote = "no single definition of " + id.Name + " in " + fd.Name.Name
						continue
					}
					w.SuCtor, w.SuArg, w.SuFound = ctor, arg, true
				}
			}
			return true
		})
	}
	if suLits != 1 {
		w.SuFound = false
		w.SuNote = strconv.Itoa(suLits) + " eventHandlerConfig literals with a statusUpdater field"
	}
	// every other use of a selector .Enable (after the registrations have consumed theirs)
	for _, fd := range names {
		ast.Inspect(fd.Body, func(n ast.Node) bool {
			se, ok := n.(*ast.SelectorExpr)
			if !ok || se.Sel.Name != "Enable" || r.consumed[se] {
				return true
			}
			s := c09wStray{Receiver: r.print(se.X), Func: fd.Name.Name}
			if id, ok := se.X.(*ast.Ident); ok {
				s.Ctor, _, _ = r.ctorOf(fd, id.Name, se.Pos())
			}
			w.Strays = append(w.Strays, s)
			return true
		})
	}
	return w
}

// ---------------------------------------------------------------- real evaluation

// c09wBuild builds the real object of the given shape. typed is false when the outermost value is a
// stand-in for a type this package cannot name (then the group rule was not measured on the real type).
func c09wBuild(elems []string, enable func(context.Context)) (r manager.Runnable, typed bool, ok bool) {
	if len(elems) == 0 {
		return nil, false, false
	}
	leaf := elems[len(elems)-1]
	typed = true
	switch {
	case leaf == c09wEnable:
		r = NewEnableAfterBecameLeader(enable)
	case leaf == c09wCronJob:
		r = NewCronJob(CronJobConfig{Worker: enable})
	case leaf == c09wEventLoop:
		r = (*events.EventLoop)(nil)
	case leaf == c09wRunnableFunc:
		r = manager.RunnableFunc(func(context.Context) error { return nil })
	case strings.HasPrefix(leaf, c09wOpaque):
		r = manager.RunnableFunc(func(context.Context) error { return nil })
		typed = len(elems) > 1
	default:
		return nil, false, false
	}
	for i := len(elems) - 2; i >= 0; i-- {
		switch elems[i] {
		case c09wLeader:
			r = &Leader{Runnable: r}
		case c09wLeaderOrNon:
			r = &LeaderOrNonLeader{Runnable: r}
		default:
			return nil, false, false
		}
	}
	return r, typed, true
}

// c09wMeasure applies controller-runtime's grouping rule (pkg/manager/runnable_group.go, runnables.Add)
// to the real object and counts the calls of the enable function during one Start of it.
func c09wMeasure(elems []string) (leaderOnly bool, invokes int, measured bool) {
	n := 0
	// the context Start is given below; an invocation counts when the enable function receives THAT context (a context with a
	// deadline or a cancellation of its own could end the flush of the saved statuses before they are written)
	ctx, cancel := context.WithCancel(context.Background())
	r, typed, ok := c09wBuild(elems, func(c context.Context) {
		if c == ctx {
			n++
		}
	})
	if !ok {
		return true, 0, false
	}
	// the cases runnables.Add tests before LeaderElectionRunnable: none of the real types may match them
	if _, is := r.(*manager.Server); is {
		return true, 0, false
	}
	if _, is := r.(interface{ GetCache() cache.Cache }); is {
		return true, 0, false
	}
	if _, is := r.(webhook.Server); is {
		return true, 0, false
	}
	lr, isLR := r.(manager.LeaderElectionRunnable)
	leaderOnly = !isLR || lr.NeedLeaderElection()
	if elems[len(elems)-1] != c09wEventLoop { // the nil *EventLoop stands for its type only
		cancel() // a CronJob must not wait for its ready channel
		_ = r.Start(ctx)
	}
	cancel()
	return leaderOnly, n, typed
}

// ---------------------------------------------------------------- Coq terms

func c09wRegTerm(payload string, chain []string, leaderOnly bool, invokes int, known bool) string {
	return vu.App("Reg", vu.Str(payload), vu.StrList(chain), vu.Bool(leaderOnly), vu.Nat(invokes), vu.Bool(known))
}

func TestVerifC09Wire(t *testing.T) {
	out := vu.Open("C09")
	rng := vu.NewRng(out.Seed ^ 0xC09A11CE)

	// 1. the wiring of the tree under test
	res := c09wParse(t, c09wManagerGo)
	w := res.wiring()
	var regTerms []string
	for i := range w.Regs {
		g := &w.Regs[i]
		lo, inv, measured := c09wMeasure(g.Chain)
		g.LeaderOnly, g.Invokes = lo, inv
		if !measured && g.Known {
			g.Known = false
			g.Why = "the type that decides the group is not known to the harness: " + strings.Join(g.Chain, " > ")
		}
		regTerms = append(regTerms, c09wRegTerm(g.Payload, g.Chain, g.LeaderOnly, g.Invokes, g.Known))
		out.Tally("registration", strings.Join(g.Chain, ">"))
	}
	var strayTerms []string
	for _, s := range w.Strays {
		strayTerms = append(strayTerms, vu.Pair(vu.Str(s.Receiver), vu.Str(s.Ctor)))
	}
	term := vu.App("Real", vu.App("Wiring", vu.List(regTerms), vu.Bool(w.SuFound), vu.Str(w.SuIdent),
		vu.Str(w.SuCtor), vu.Str(w.SuArg), vu.List(strayTerms)))
	out.Case(term, map[string]any{"kind": "manager.go", "file": c09wManagerGo, "wiring": w}, true, term)
	out.Tally("kind", "manager.go")

	// 2. synthetic chains over the real types: every nesting of the wrappers up to depth 3 over every
	//    leaf, then random deeper ones
	leaves := []string{c09wEnable, c09wCronJob, c09wEventLoop, c09wRunnableFunc}
	wrappers := []string{c09wLeader, c09wLeaderOrNon}
	var chains [][]string
	var gen func(prefix []string, depth int)
	gen = func(prefix []string, depth int) {
		for _, l := range leaves {
			chains = append(chains, append(append([]string{}, prefix...), l))
		}
		if depth == 3 {
			return
		}
		for _, wr := range wrappers {
			gen(append(append([]string{}, prefix...), wr), depth+1)
		}
	}
	gen(nil, 0)
	for i, n := 0, out.Count(40, 400); i < n; i++ {
		cr := rng.Fork()
		var c []string
		for d := cr.Range(4, 9); d > 0; d-- {
			c = append(c, wrappers[cr.Intn(2)])
		}
		chains = append(chains, append(c, leaves[cr.Intn(len(leaves))]))
	}
	for _, c := range chains {
		lo, inv, measured := c09wMeasure(c)
		if !measured {
			t.Fatalf("C09 wiring: synthetic chain %v could not be built from the real types", c)
		}
		payload := ""
		if c[len(c)-1] == c09wEnable {
			payload = "synthetic.Enable"
		}
		st := vu.App("Synth", c09wRegTerm(payload, c, lo, inv, true))
		out.Case(st, map[string]any{"kind": "synthetic", "chain": c, "measured_leader_only": lo,
			"measured_enable_calls_per_start": inv}, len(c) >= 3, st)
		out.Tally("kind", "synthetic")
		out.Tally("synthetic depth", strconv.Itoa(len(c)-1))
		out.Tally("synthetic leader-only", vu.Bool(lo))
	}
	out.Close("C09.Wire", "")
}
