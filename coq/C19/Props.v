(* C19 — property theorems only.  Product telemetry discloses only counts, flag usage and directive names.
   Quantifiers: all snippet texts (arbitrary byte strings: quoted ';', tabs/newlines between tokens, comments,
   nested blocks, ill-formed text), all graphs/configurations (as the collector reads them), all flag sets.
   Spec.v holds the declarative side: [ngx_lex] (NGINX's tokenizer), [directive_names] (first word of every
   statement the snippet puts into its context), [spec_counts], [reduced].  Model.v mirrors the Go code with
   fixes/D22.patch applied ([parse_directives]) and as found ([parse_old]). *)
From Coq Require Import String List ZArith.
From NGF Require Import C19.Spec C19.Model C19.Proofs.
Import ListNotations.

(* Whatever the snippet text looks like, parseSnippetValueIntoDirectives returns exactly the (non-empty) directive
   names of the snippet, in order — never a word of an argument, of a comment or of a block body. *)
Theorem C19_snippet_names_only :
  forall s : string, parse_directives s = filter (fun w => negb (w =? "")%string) (directive_names s).
Proof. exact parse_directives_exact. Qed.

(* The same promise read without the lexer: write any directives down with every argument value — arbitrary bytes —
   in double quotes, a backslash before each double quote and backslash; exactly the names are returned. *)
Theorem C19_rendered_arguments_never_reported :
  forall ds : list (string * list string),
    forallb (fun d => bare_name (fst d)) ds = true -> parse_directives (render ds) = map fst ds.
Proof. exact render_names. Qed.

(* Every string of SnippetsFiltersDirectives is <name>-<context> where <name> is a directive name of a snippet that
   a SnippetsFilter of the graph has for that context; the two reported lists have the same length. *)
Theorem C19_report_names_only :
  forall (sfs : list sfilter) (e : string),
    In e (fst (collect_directives parse_directives sfs)) ->
    exists snippets ctx value name,
      In (Some snippets) sfs /\ In (ctx, value) snippets /\ In name (directive_names value) /\
      e = (name ++ "-" ++ ctx_label ctx)%string.
Proof. exact report_names_only. Qed.

(* Conversely nothing is dropped: every non-empty directive name of every snippet is reported with its context. *)
Theorem C19_report_complete :
  forall sfs snippets ctx value name,
    In (Some snippets) sfs -> In (ctx, value) snippets -> In name (directive_names value) -> name <> ""%string ->
    In (name ++ "-" ++ ctx_label ctx)%string (fst (collect_directives parse_directives sfs)).
Proof. exact report_complete. Qed.

(* The fifteen resource counts equal the numbers of resources in effect, each by the documented filter
   (routes by type, endpoints only of upstreams without error, ClientSettingsPolicies by what they attach to). *)
Theorem C19_counts_exact : forall g : gdesc, resource_counts g = spec_counts g.
Proof. exact resource_counts_spec. Qed.

(* parseFlags reports the flag names and, per flag, a reduction of its value: true/false for a boolean flag,
   default/user-defined otherwise — always one of the four words. *)
Theorem C19_flags_reduced :
  forall fs : list flagd, Forall flag_wf fs ->
    fst (parse_flags fs) = map f_name fs /\
    length (snd (parse_flags fs)) = length fs /\
    Forall2 (fun f v => reduced f v = true /\ In v ["true"; "false"; "default"; "user-defined"]%string)
            fs (snd (parse_flags fs)).
Proof. exact parse_flags_reduced. Qed.

(* ... and of a non-boolean flag nothing but "is it the default" can be learnt from the report. *)
Theorem C19_flags_nonbool_opaque :
  forall f1 f2 : flagd, f_bool f1 = false -> f_bool f2 = false ->
    (f_value f1 =? f_def f1)%string = (f_value f2 =? f_def f2)%string -> flag_value f1 = flag_value f2.
Proof. exact nonbool_reveals_only_defaultness. Qed.

(* D22, as found (split on ";" then on " "): for each of the four witness snippets — a quoted ';', a tab/newline
   between tokens, a comment, a block body — a string that is not a directive name is returned. *)
Theorem C19_D22_refuted :
  Forall (fun sw : string * string =>
            In (snd sw) (parse_old (fst sw)) /\ ~ In (snd sw) (directive_names (fst sw))) d22_witnesses.
Proof. exact d22_refuted. Qed.

Theorem C19_D22_report_refuted :
  exists (sfs : list sfilter) (e : string),
    In e (fst (collect_directives parse_old sfs)) /\ disclosed_ok sfs e = false.
Proof. exact d22_report_refuted. Qed.
