(* Oracle for TLS passthrough: the stream configuration the REAL pipeline generated for a Gateway with TLS passthrough (and
   HTTPS) listeners and TLSRoutes, evaluated for (port, SNI) requests by C02/Pass.v's [eval_pass], against what Gateway API
   prescribes ([expected_pass]). There is no separate model of the generator here: a difference is a violation (code 2). *)
From Coq Require Import List String ZArith Bool Ascii Arith.
From NGF Require Export lib.CaseLib lib.Str k8s.State k8s.Spec ngx.Lexer ngx.Eval C02.Check C02.Pass.
Import ListNotations.

Record case := PassCase {
  pk_listeners : list plistener;
  pk_routes : list proute;
  pk_stream : string;                   (* stream.conf as generated *)
  pk_requests : list (Z * string)       (* port, SNI *)
}.

Definition outcome_eqb (a b : pass_outcome) : bool :=
  match a, b with
  | PNoListener, PNoListener => true
  | PClosed, PClosed => true
  | PTerminate, PTerminate => true
  | PProxy u, PProxy v => seqb u v
  | _, _ => false
  end.

Definition known_D49 := 49.

(* class of finding D49: the port's map has one key twice, once for a Route and once as a listener's own name (closed) *)
Definition has_dup_key (conf : list dir) : bool :=
  existsb (fun m =>
    let es := filter (fun e => negb (seqb (d_name e) "hostnames")) (block_of m) in
    existsb (fun e =>
      has_suffix "connection-closed-server.sock" (first_arg e) &&
      existsb (fun e' => seqb (lower (d_name e')) (lower (d_name e)) && negb (has_suffix "connection-closed-server.sock" (first_arg e'))) es) es)
    (dirs_named "map" conf).

Definition check_case (c : case) : list nat :=
  match parse_conf (pk_stream c) with
  | None => [code_violation]
  | Some conf =>
      if forallb (fun q => outcome_eqb (expected_pass (pk_listeners c) (pk_routes c) (fst q) (snd q)) (eval_pass conf (fst q) (snd q)))
                 (pk_requests c)
      then []
      else if has_dup_key conf then [code_known known_D49] else [code_violation]
  end.
