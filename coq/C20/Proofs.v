From Coq Require Import String Ascii NArith ZArith Bool Arith List Lia.
From NGF Require Import C20.Model C20.Spec.
Import ListNotations.
