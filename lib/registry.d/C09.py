"""C09 check configuration."""


def setup(register, COMMON_TB):
    register(
        "C09", coq="C09", pkg="./internal/framework/status/", test="TestVerifC09",
        extra=[dict(pkg="./internal/framework/runnables/", test="TestVerifC09Wire"),
               dict(pkg="./internal/mode/static/", test="TestVerifC09Handler")],
        rule="sequential schedules (size ramps with the index) and concurrent schedules (2-3 submitter goroutines racing one "
             "Enable, randomly delayed client writes); non-trivial = has an Enable that flushed at least one saved request "
             "and at least 4 invocations; distinct = distinct (schedule, observed log). "
             "Second part (TestVerifC09Wire, evaluated by C09/Wire.v): one case for internal/mode/static/manager.go of the tree "
             "under test - every mgr.Add(e) in the file resolved into the chain of runnable types of e, the real object of that "
             "shape built from the real types of package runnables and asked controller-runtime's group rule "
             "(leader group unless it is a manager.LeaderElectionRunnable whose NeedLeaderElection() is false) and started once "
             "to count the calls of the enable function; plus which identifier eventHandlerConfig gets as statusUpdater, the "
             "function whose call defines it, and every other use of a selector .Enable in the file - and synthetic chains over "
             "the real types (every nesting of Leader/LeaderOrNonLeader up to depth 3 over EnableAfterBecameLeader, CronJob, "
             "*events.EventLoop, manager.RunnableFunc, then random nestings of depth 4-9) that exercise needs_leader/start_invokes; "
             "non-trivial there = the manager.go case and synthetic chains of at least 3 elements Third part (TestVerifC09Handler, evaluated by C09/HandlerCheck.v): the real event handler in front of the real LeaderAwareGroupUpdater over generated states (second Gateway of the class, NGF policies) and 0-3 follow-up batches (events for the Service in front of NGF, endpoint changes, an unrelated grant) - as a non-leader, then elected: nothing written before the election, and afterwards the statuses on the objects equal those of a replica that was leader from the start",
        trusted_base=COMMON_TB + [
            "modelled, not verified: sync.Mutex makes UpdateGroup/Enable atomic; the controller-runtime fake client stands for the API server",
            "modelled, not verified (coq/C09/Wire.v mstep): controller-runtime v0.20.1 starts the LeaderElection runnable group only "
            "from OnStartedLeading (or at Start when leader election is disabled, which the model treats as an immediate Elected), "
            "every other group from Start, and a lost lease ends the process; the group rule itself "
            "(pkg/manager/runnable_group.go runnables.Add: *Server, hasCache and webhook.Server first - the harness asserts the real "
            "objects are none of these - then LeaderElectionRunnable/NeedLeaderElection) is re-stated in the harness and applied to "
            "the real objects, not called (runnables.Add is unexported); no real manager is started",
            "translator in the trusted base: the go/ast resolver of zz_verif_c09wire_test.go over manager.go. It looks at calls "
            "mgr.Add(e) with the receiver spelled mgr, in any function of that one file, and understands exactly these shapes of e: "
            "&runnables.Leader{Runnable: E} and &runnables.LeaderOrNonLeader{Runnable: E} (keyed, or a single positional element); "
            "runnables.NewEnableAfterBecameLeader(A) (payload = printed A, an identifier A replaced by its single definition); "
            "runnables.NewCronJob(...); f(...) with f declared in manager.go (first result of its return statements, nil skipped, "
            "all must agree); any other call pkg.F(...) / F(...) without a function literal among its arguments = opaque leaf "
            "(its type is known to the harness only for events.NewEventLoop and manager.RunnableFunc; another opaque leaf is accepted "
            "only under a wrapper, where it cannot influence the group); an identifier = the right-hand sides assigned to it in the "
            "enclosing function before the use (x := E, x = E, x, err := f(...), var x = E; all must agree); parentheses. "
            "'runnables'/'status'/'events' are recognised by import path, not by local name. Any other shape (function literal, "
            "field or index expression, parameter, value instead of pointer literal, other composite types, disagreeing "
            "definitions, nesting deeper than 16) is reported as not resolved and C09/Wire.v answers code 1 - it is never skipped; "
            "so is an eventHandlerConfig literal that is missing, duplicated, or whose statusUpdater is not an identifier with a "
            "single definition, and any use of a selector .Enable outside a resolved registration whose receiver is the handler's "
            "identifier or is defined by status.NewLeaderAwareGroupUpdater",
            "not seen by the translator: aliases (y := groupStatusUpdater; y.Enable), Enable reached through other files or through "
            "reflection, runnables registered from other files, a manager variable not spelled mgr (then no registration of Enable "
            "is found and the oracle fails), and the body of handler.go: that the handler writes statuses only through "
            "cfg.statusUpdater.UpdateGroup is not checked here (the whole-pipeline harness zz_verif_pipe_test.go used by C01/C17 "
            "injects a recording updater through that field and sees the statuses there, which is evidence, not proof)",
        ],
        assumptions=[
            "mutex atomicity", "flush order over the Go map is an arbitrary permutation (theorem quantifies over it)",
            "wiring theorems: the manager is the state machine of coq/C09/Wire.v (events Start and Elected, Elected effective once and "
            "only after Start); C09_wiring_* quantify over every wiring that passes check_case, every event trace and every "
            "interleaving with UpdateGroup submissions; the current manager.go is tied to them by the evaluated case only",
        ],
    )
