(* C20 — correspondence checker and property oracle, evaluated on what the Go harness observed when it
   drove the real validators, the real static-mode command and the real mgmt.conf generator.

   [mismatch]: the model (repaired variant: the tree is expected to carry the D23 fix) and the
   implementation disagree on accept/reject, on a parsed value, on the stage a command line reaches or
   on the token stream of mgmt.conf  ->  code 1.
   [oracle]: the property stated on the observation alone, against Spec.v (never the model):
     documented  => accepted;   accepted => safe (one bare NGINX token, only bytes of the grammar, port
     in range, legal object name);   conflicting or invalid settings never reach the start;
     mgmt.conf tokenises to exactly the directives meant, with the value inside one argument.
   A failure is code 2, or 101 when the input lies in the class of D23 (an otherwise documented
   endpoint whose port is 32768..65535). *)
From Coq Require Import String Ascii NArith ZArith Bool Arith List.
From NGF Require Export lib.CaseLib C20.Model C20.Spec.
Import ListNotations.

Inductive input :=
| IEndpoint (s : string)          (* validateEndpoint *)
| IEndpointOpt (s : string)       (* stringValidatingValue{validateEndpointOptionalPort}.Set *)
| IResName (s : string)           (* validateResourceName *)
| INamespace (s : string)         (* validateNamespaceName *)
| INsName (s : string)            (* namespacedNameValue.Set *)
| IQualified (s : string)         (* validateQualifiedName *)
| ICtlrName (s : string)          (* validateGatewayControllerName *)
| IIP (s : string)                (* validateIP *)
| IPortFlag (s : string)          (* intValidatingValue{validatePort}.Set *)
| IMgmt (endpoint resolver : string) (skip ca client : bool)   (* Set on both flags, then Generate *)
| IStatic (a : static_args).      (* the static-mode command *)

Inductive observed :=
| OAccept (b : bool)
| ONsName (b : bool) (ns name : string)
| OPort (b : bool) (v : Z)
| OMgmt (ok_endpoint ok_resolver : bool) (text : option string)
| OStage (n : nat).

Definition case := (input * observed)%type.

Definition tree : variants := repaired.

(* ------------------------------------------------------------------ helpers *)

Definition tok_eqb (a b : tok) : bool :=
  match a, b with
  | TW x, TW y => str_eqb x y
  | TSemi, TSemi | TOpen, TOpen | TClose, TClose => true
  | _, _ => false
  end.

Fixpoint toks_eqb (a b : list tok) : bool :=
  match a, b with
  | [], [] => true
  | x :: a', y :: b' => tok_eqb x y && toks_eqb a' b'
  | _, _ => false
  end.

Definition otoks_eqb (a b : option (list tok)) : bool :=
  match a, b with
  | Some x, Some y => toks_eqb x y
  | None, None => true
  | _, _ => false
  end.

Definition stage_of (o : outcome) : nat :=
  match o with RejectedByFlags => 0 | RejectedByRun => 1 | Started _ => 2 end.

Definition opt_all (f : str -> bool) (o : option str) : bool :=
  match o with None => true | Some s => f s end.

(* ------------------------------------------------------------------ correspondence with the model *)

Definition mismatch (c : case) : bool :=
  match c with
  | (IEndpoint s, OAccept b) => negb (Bool.eqb (validate_endpoint tree (lit s)) b)
  | (IEndpointOpt s, OAccept b) => negb (Bool.eqb (validate_endpoint_optional_port tree (lit s)) b)
  | (IResName s, OAccept b) => negb (Bool.eqb (validate_resource_name (lit s)) b)
  | (INamespace s, OAccept b) => negb (Bool.eqb (validate_namespace_name (lit s)) b)
  | (INsName s, ONsName b ns n) =>
      match parse_namespaced_resource_name (lit s) with
      | Some (ns', n') => negb (b && str_eqb ns' (lit ns) && str_eqb n' (lit n))
      | None => b
      end
  | (IQualified s, OAccept b) => negb (Bool.eqb (validate_qualified_name (lit s)) b)
  | (ICtlrName s, OAccept b) => negb (Bool.eqb (validate_gateway_controller_name (lit s)) b)
  | (IIP s, OAccept b) => negb (Bool.eqb (validate_ip (lit s)) b)
  | (IPortFlag s, OPort b v) =>
      match port_flag_set (lit s) with
      | Some v' => negb (b && (v =? v')%Z)
      | None => b
      end
  | (IMgmt e r skip ca client, OMgmt oe orr text) =>
      let me := is_nil (lit e) || validate_endpoint_optional_port tree (lit e) in
      let mr := is_nil (lit r) || validate_endpoint_optional_port tree (lit r) in
      negb (Bool.eqb me oe) || negb (Bool.eqb mr orr) ||
      match text with
      | Some t =>
          negb (oe && orr) ||
          negb (otoks_eqb (lex (lit t))
                          (lex (render_mgmt {| m_endpoint := lit e; m_resolver := lit r; m_skip_verify := skip;
                                               m_ca := ca; m_client := client |})))
      | None => oe && orr
      end
  | (IStatic a, OStage n) => negb (stage_of (run_static tree a) =? n)
  | _ => true       (* an observation of the wrong shape *)
  end.

(* ------------------------------------------------------------------ the property on the observation *)

(* D23: an endpoint that is documented as valid and whose port numeral is 32768..65535 (given to one
   of the two endpoint validators directly, or as one of the endpoint settings of a command line) *)
Definition high_port_endpoint (s : str) : bool :=
  doc_endpoint s &&
  match split_last c_colon s with
  | Some (_, p) => dec_in 32768 65535 p
  | None => false
  end.

Definition class_D23 (i : input) : bool :=
  match i with
  | IEndpoint s => high_port_endpoint (lit s)
  | IEndpointOpt s => high_port_endpoint (lit s)
  | IMgmt e r _ _ _ => high_port_endpoint (lit e) || high_port_endpoint (lit r)
  | IStatic a =>
      high_port_endpoint (a_telemetry_endpoint a) ||
      match a_endpoint a with Some s => high_port_endpoint s | None => false end ||
      match a_resolver a with Some s => high_port_endpoint s | None => false end
  | _ => false
  end.

(* required flags present, every given value valid by the documented grammar, no conflict *)
Definition flag_port (dflt : Z) (o : option str) : option Z :=
  match o with
  | None => Some dflt
  | Some s => if doc_port_flag s then signed_value s else None
  end.

Definition static_documented (a : static_args) : bool :=
  opt_all doc_ctlr (a_ctlr a) &&
  match a_ctlr a, a_class a with Some _, Some _ => true | _, _ => false end &&
  opt_all subdomain_ok (a_class a) &&
  opt_all (fun s => match doc_nsname s with Some _ => true | None => false end) (a_gateway a) &&
  opt_all subdomain_ok (a_config a) && opt_all subdomain_ok (a_service a) && opt_all subdomain_ok (a_lock a) &&
  opt_all subdomain_ok (a_secret a) && opt_all subdomain_ok (a_client_secret a) && opt_all subdomain_ok (a_ca_secret a) &&
  opt_all doc_endpoint_opt (a_endpoint a) && opt_all doc_endpoint_opt (a_resolver a) &&
  (is_nil (a_telemetry_endpoint a) || doc_endpoint (a_telemetry_endpoint a)) &&
  match flag_port 9113 (a_metrics_port a), flag_port 8081 (a_health_port a) with
  | Some m, Some h => negb (m =? h)%Z
  | _, _ => false
  end.

(* something that must keep the command from starting *)
Definition lax_port (dflt : Z) (o : option str) : option Z :=
  match o with None => Some dflt | Some s => signed_value s end.

Definition static_must_refuse (a : static_args) : bool :=
  let bad_name (o : option str) := negb (opt_all subdomain_ok o) in
  let unsafe (o : option str) := negb (opt_all (endpoint_safe false) o) in
  match a_ctlr a, a_class a with Some _, Some _ => false | _, _ => true end ||
  negb (opt_all doc_ctlr (a_ctlr a)) ||
  bad_name (a_class a) || bad_name (a_config a) || bad_name (a_service a) || bad_name (a_lock a) ||
  bad_name (a_secret a) || bad_name (a_client_secret a) || bad_name (a_ca_secret a) ||
  negb (opt_all (fun s => match doc_nsname s with Some _ => true | None => false end) (a_gateway a)) ||
  unsafe (a_endpoint a) || unsafe (a_resolver a) ||
  (negb (is_nil (a_telemetry_endpoint a)) && negb (endpoint_safe true (a_telemetry_endpoint a))) ||
  match lax_port 9113 (a_metrics_port a), lax_port 8081 (a_health_port a) with
  | Some m, Some h =>
      (* equal ports conflict when both servers are enabled *)
      ((m =? h)%Z && negb (a_metrics_disable a) && negb (a_health_disable a)) ||
      (m <? 1024)%Z || (65535 <? m)%Z || (h <? 1024)%Z || (65535 <? h)%Z
  | _, _ => true
  end.

Definition oracle (c : case) : bool :=
  match c with
  | (IEndpoint s, OAccept b) =>
      implb (doc_endpoint (lit s)) b && implb b (endpoint_safe true (lit s))
  | (IEndpointOpt s, OAccept b) =>
      implb (doc_endpoint_opt (lit s)) b && implb b (endpoint_safe false (lit s))
  | (IResName s, OAccept b) =>
      Bool.eqb b (subdomain_ok (lit s)) && implb b (safe_token (lit s))
  | (INamespace s, OAccept b) =>
      Bool.eqb b (namespace_ok (lit s)) && implb b (safe_token (lit s))
  | (INsName s, ONsName b ns n) =>
      match doc_nsname (lit s) with
      | Some (ns', n') => b && str_eqb ns' (lit ns) && str_eqb n' (lit n)
      | None => negb b
      end
  | (IQualified s, OAccept b) => Bool.eqb b (doc_qualified (lit s))
  | (ICtlrName s, OAccept b) => Bool.eqb b (doc_ctlr (lit s))
  | (IIP s, OAccept b) => Bool.eqb b (ip_ok (lit s)) && implb b (safe_token (lit s))
  | (IPortFlag s, OPort b v) =>
      implb (doc_port_flag (lit s)) b &&
      implb b ((1024 <=? v)%Z && (v <=? 65535)%Z &&
               match signed_value (lit s) with Some v' => (v =? v')%Z | None => false end)
  | (IMgmt e r skip ca client, OMgmt oe orr text) =>
      implb (is_nil (lit e) || doc_endpoint_opt (lit e)) oe &&
      implb (is_nil (lit r) || doc_endpoint_opt (lit r)) orr &&
      match text with
      | Some t => otoks_eqb (lex (lit t)) (Some (mgmt_tokens (lit e) (lit r) skip ca client))
      | None => negb (oe && orr)
      end
  | (IStatic a, OStage n) =>
      implb (static_documented a) (n =? 2) && implb (static_must_refuse a) (n <? 2)
  | _ => false
  end.

Definition check_case (c : case) : list nat :=
  (if oracle c then [] else [if class_D23 (fst c) then code_known 1 else code_violation])
  ++ when (mismatch c) code_mismatch.
