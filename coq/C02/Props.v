(* C02 — property theorems (being extended; see Proofs.v). *)
From Coq Require Import List String.
From NGF Require Import lib.Str k8s.State k8s.Spec.
Import ListNotations.

(* placeholder kept honest: the winning gateway, when there is one, is a gateway of the class *)
Theorem C02_winner_is_of_class :
  forall cs g, winning_gateway cs = Some g -> In g (c_gateways cs) /\ seqb (g_class g) our_class = true.
Proof.
  intros cs g H. unfold winning_gateway in H. destruct (class_active cs); [|discriminate].
  unfold our_gateways in H.
  destruct (filter (fun g0 => seqb (g_class g0) our_class) (c_gateways cs)) as [|g0 l] eqn:Hf; [discriminate|].
  inversion H; subst; clear H.
  assert (Hall : forall x, In x (g0 :: l) -> In x (c_gateways cs) /\ seqb (g_class x) our_class = true).
  { intros x Hx. rewrite <- Hf in Hx. apply filter_In in Hx. exact Hx. }
  assert (Hin : In (min_gateway g0 l) (g0 :: l)).
  { clear. revert g0. induction l as [|x l IH]; intros g0; simpl; [tauto|].
    destruct (older _ _ _ _ _ _).
    - destruct (IH x) as [H|H]; [right; left; exact H|right; right; exact H].
    - destruct (IH g0) as [H|H]; [left; exact H|right; right; exact H]. }
  apply Hall. exact Hin.
Qed.
