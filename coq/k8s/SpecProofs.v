(* Theorems about the routing specification (k8s/Spec.v). *)
From Coq Require Import List String ZArith Bool Arith.
From NGF Require Import lib.Str k8s.State k8s.Spec.
Import ListNotations.

Definition add_route (cs : cluster) (r : route) : cluster :=
  {| c_classes := c_classes cs; c_gateways := c_gateways cs; c_routes := r :: c_routes cs;
     c_services := c_services cs; c_secrets := c_secrets cs; c_grants := c_grants cs;
     c_namespaces := c_namespaces cs; c_btps := c_btps cs; c_cms := c_cms cs |}.

Definition add_gateway (cs : cluster) (g : gateway) : cluster :=
  {| c_classes := c_classes cs; c_gateways := g :: c_gateways cs; c_routes := c_routes cs;
     c_services := c_services cs; c_secrets := c_secrets cs; c_grants := c_grants cs;
     c_namespaces := c_namespaces cs; c_btps := c_btps cs; c_cms := c_cms cs |}.

(* a Route none of whose parentRefs names gateway g *)
Definition route_ignores (g : gateway) (r : route) : bool :=
  forallb (fun p => negb (pref_targets g r p)) (rt_parents r).

Lemma winning_gateway_add_route cs r : winning_gateway (add_route cs r) = winning_gateway cs.
Proof. reflexivity. Qed.

Lemma listener_valid_add_route cs r g l : listener_valid (add_route cs r) g l = listener_valid cs g l.
Proof. reflexivity. Qed.

Lemma attached_hosts_add_route cs r g l r' : attached_hosts (add_route cs r) g l r' = attached_hosts cs g l r'.
Proof. reflexivity. Qed.

Lemma attached_hosts_ignored cs g l r : route_ignores g r = true -> attached_hosts cs g l r = [].
Proof.
  intros H. unfold attached_hosts.
  assert (Hex : existsb (fun p => pref_targets g r p && pref_supported p && section_ok p l) (rt_parents r) = false).
  { unfold route_ignores in H. induction (rt_parents r) as [|p ps IH]; simpl in *; [reflexivity|].
    apply andb_true_iff in H. destruct H as [Hp Hps]. apply negb_true_iff in Hp. rewrite Hp. simpl. apply IH. exact Hps. }
  rewrite Hex. rewrite andb_false_r. reflexivity.
Qed.

Lemma port_bindings_add_ignored cs g r port :
  route_ignores g r = true -> port_bindings (add_route cs r) g port = port_bindings cs g port.
Proof.
  intros H. unfold port_bindings. apply flat_map_ext. intros l.
  change (listener_valid (add_route cs r) g l) with (listener_valid cs g l).
  destruct ((l_port l =? port)%Z && listener_valid cs g l); [|reflexivity].
  change (c_routes (add_route cs r)) with (r :: c_routes cs).
  cbn [flat_map].
  change (attached_hosts (add_route cs r) g l r) with (attached_hosts cs g l r).
  rewrite (attached_hosts_ignored cs g l r H). cbn [map app].
  apply flat_map_ext. intros r'. reflexivity.
Qed.

Lemma valid_listeners_add_route cs g r port : valid_listeners_on (add_route cs r) g port = valid_listeners_on cs g port.
Proof. reflexivity. Qed.

Lemma https_names_add_ignored cs g r port :
  route_ignores g r = true -> https_listener_names (add_route cs r) g port = https_listener_names cs g port.
Proof.
  intros H. unfold https_listener_names.
  change (valid_listeners_on (add_route cs r) g port) with (valid_listeners_on cs g port).
  apply flat_map_ext. intros l. destruct (l_proto l); try reflexivity.
  change (c_routes (add_route cs r)) with (r :: c_routes cs).
  cbn [existsb].
  change (attached_hosts (add_route cs r) g l r) with (attached_hosts cs g l r).
  rewrite (attached_hosts_ignored cs g l r H). cbn [orb].
  reflexivity.
Qed.

Lemma rule_outcome_add_route cs r r' ru : rule_outcome (add_route cs r) r' ru = rule_outcome cs r' ru.
Proof. reflexivity. Qed.

(* Adding a Route that references none of the winning Gateway's... (any Gateway the decision could use)
   leaves the outcome of every request unchanged. *)
Theorem foreign_route_irrelevant cs r q :
  (forall g, winning_gateway cs = Some g -> route_ignores g r = true) ->
  decide (add_route cs r) q = decide cs q.
Proof.
  intros H. unfold decide. rewrite winning_gateway_add_route.
  destruct (winning_gateway cs) as [g|] eqn:Hw; [|reflexivity].
  specialize (H g eq_refl).
  rewrite valid_listeners_add_route.
  destruct (valid_listeners_on cs g (q_port q)) as [|l0 ls]; [reflexivity|].
  rewrite (port_bindings_add_ignored cs g r (q_port q) H).
  rewrite (https_names_add_ignored cs g r (q_port q) H).
  reflexivity.
Qed.

(* Adding a Gateway of another class changes nothing either. *)
Lemma our_gateways_add_foreign cs g : seqb (g_class g) our_class = false -> our_gateways (add_gateway cs g) = our_gateways cs.
Proof. intros H. unfold our_gateways. simpl. rewrite H. reflexivity. Qed.

Theorem foreign_gateway_irrelevant cs g q :
  seqb (g_class g) our_class = false -> decide (add_gateway cs g) q = decide cs q.
Proof.
  intros H. unfold decide.
  assert (Hw : winning_gateway (add_gateway cs g) = winning_gateway cs).
  { unfold winning_gateway. rewrite (our_gateways_add_foreign cs g H). reflexivity. }
  rewrite Hw. reflexivity.
Qed.
