(* C10 — lemmas.  The main result is [inv_run]: an invariant tying the loop's state (the two slice
   headers, the memory they point into, the handling flag, the live handler goroutines) to the trace
   emitted so far, for every label sequence.  The property theorems of Props.v are its corollaries. *)
From Coq Require Import List Arith Bool Lia.
From NGF Require Import C10.Model.
Import ListNotations.

(* ---------------------------------------------------------------- set_nth *)

Lemma set_nth_length {A} n (x : A) l : n <= length l -> length (set_nth n x l) = Nat.max (length l) (S n).
Proof.
  revert l; induction n as [|n IH]; intros [|y l] Hn; simpl in *; try lia.
  rewrite IH by lia. lia.
Qed.

Lemma nth_set_nth_eq {A} n (x d : A) l : n <= length l -> nth n (set_nth n x l) d = x.
Proof.
  revert l; induction n as [|n IH]; intros [|y l] Hn; simpl in *; try lia; try reflexivity.
  apply IH; lia.
Qed.

Lemma nth_set_nth_neq {A} i n (x d : A) l : n <= length l -> i <> n -> nth i (set_nth n x l) d = nth i l d.
Proof.
  revert i l; induction n as [|n IH]; intros i [|y l] Hn Hi; simpl in *; try lia.
  - destruct i as [|[|i]]; try lia; reflexivity.
  - destruct i; [lia|reflexivity].
  - destruct i; [reflexivity|]. apply IH; lia.
Qed.

Lemma firstn_set_nth_le {A} k n (x : A) l : n <= length l -> k <= n -> firstn k (set_nth n x l) = firstn k l.
Proof.
  revert k l; induction n as [|n IH]; intros k [|y l] Hn Hk; simpl in *; try lia.
  - assert (k = 0) by lia; subst; reflexivity.
  - assert (k = 0) by lia; subst; reflexivity.
  - destruct k; [reflexivity|]. simpl. f_equal. apply IH; lia.
Qed.

Lemma firstn_set_nth_S {A} n (x : A) l : n <= length l -> firstn (S n) (set_nth n x l) = firstn n l ++ [x].
Proof.
  revert l; induction n as [|n IH]; intros [|y l] Hn; simpl in *; try lia; try reflexivity.
  f_equal. apply IH; lia.
Qed.

(* ---------------------------------------------------------------- memory *)

Definition wf_slice (m : heap) (s : slice) : Prop :=
  s_buf s < length m /\ s_len s <= length (cells m (s_buf s)).

Lemma read_length m s : wf_slice m s -> length (read m s) = s_len s.
Proof. intros [_ H]. unfold read. apply firstn_length_le. exact H. Qed.

Lemma read_zero m b : read m (Sl b 0) = [].
Proof. reflexivity. Qed.

(* the appended slice reads the old contents followed by e *)
Lemma append_read r m n e m' n' :
  wf_slice m n -> append r m n e = (m', n') ->
  read m' n' = read m n ++ [e] /\ wf_slice m' n' /\ length m <= length m' /\
  (s_buf n' = s_buf n \/ s_buf n' = length m) /\ s_len n' = S (s_len n).
Proof.
  intros [Hb Hl] H. destruct r; simpl in H; inversion H; subst; clear H.
  - (* a new array *)
    assert (Hlen : length (read m n) = s_len n) by (apply read_length; split; assumption).
    assert (Hcell : cells (m ++ [read m n ++ [e]]) (length m) = read m n ++ [e]).
    { unfold cells. rewrite app_nth2 by lia. rewrite Nat.sub_diag. reflexivity. }
    unfold wf_slice. cbn [s_buf s_len]. unfold read at 1. cbn [s_buf s_len]. rewrite Hcell.
    rewrite !app_length. cbn [length]. rewrite Hlen.
    repeat split; try lia.
    apply firstn_all2. rewrite app_length. cbn [length]. lia.
  - (* in place *)
    set (c := set_nth (s_len n) e (cells m (s_buf n))).
    assert (Hcell : cells (set_nth (s_buf n) c m) (s_buf n) = c).
    { unfold cells. apply nth_set_nth_eq. lia. }
    assert (Hlm : length (set_nth (s_buf n) c m) = length m).
    { rewrite set_nth_length by lia. lia. }
    assert (Hlc : length c = Nat.max (length (cells m (s_buf n))) (S (s_len n))).
    { unfold c. apply set_nth_length. exact Hl. }
    unfold wf_slice. cbn [s_buf s_len]. unfold read at 1. cbn [s_buf s_len]. rewrite Hcell, Hlm, Hlc.
    repeat split; try lia.
    unfold c, read. apply firstn_set_nth_S. exact Hl.
Qed.

(* a slice over another array is not affected *)
Lemma append_other r m n e m' n' c :
  wf_slice m n -> append r m n e = (m', n') -> wf_slice m c -> s_buf c <> s_buf n ->
  read m' c = read m c /\ wf_slice m' c.
Proof.
  intros [Hb Hl] H [Hcb Hcl] Hne. destruct r; simpl in H; inversion H; subst; clear H.
  - assert (Hcell : cells (m ++ [read m n ++ [e]]) (s_buf c) = cells m (s_buf c)).
    { unfold cells. apply app_nth1. exact Hcb. }
    unfold read at 1, wf_slice. rewrite Hcell, app_length. cbn [length].
    split; [reflexivity|]. split; [lia|exact Hcl].
  - set (x := set_nth (s_len n) e (cells m (s_buf n))).
    assert (Hcell : cells (set_nth (s_buf n) x m) (s_buf c) = cells m (s_buf c)).
    { unfold cells. apply nth_set_nth_neq; lia. }
    unfold read at 1, wf_slice. rewrite Hcell, set_nth_length by lia.
    split; [reflexivity|]. split; [lia|exact Hcl].
Qed.

(* ---------------------------------------------------------------- trace functions distribute over ++ *)

Ltac trace_app a :=
  induction a as [|x a IH]; simpl; [reflexivity|]; destruct x; simpl; rewrite ?IH; try reflexivity.

Lemma prepared_app a b : prepared (a ++ b) = prepared a ++ prepared b.
Proof. trace_app a. rewrite app_assoc. reflexivity. Qed.
Lemma recvs_app a b : recvs (a ++ b) = recvs a ++ recvs b.
Proof. trace_app a. Qed.
Lemma launches_app a b : launches (a ++ b) = launches a ++ launches b.
Proof. trace_app a. Qed.
Lemma begins_app a b : begins (a ++ b) = begins a ++ begins b.
Proof. trace_app a. Qed.
Lemma ends_app a b : ends (a ++ b) = ends a ++ ends b.
Proof. trace_app a. Qed.
Lemma dones_app a b : dones (a ++ b) = dones a + dones b.
Proof. trace_app a. Qed.
Lemma returned_app a b : returned (a ++ b) = returned a || returned b.
Proof. trace_app a. Qed.
Lemma after_return_app a b :
  after_return (a ++ b) = if returned a then after_return a ++ b else after_return b.
Proof. trace_app a. Qed.

Lemma stream_app a b : prepared b = [] -> stream (a ++ b) = stream a ++ recvs b.
Proof.
  intros H. unfold stream. rewrite prepared_app, recvs_app, H, app_nil_r, app_assoc. reflexivity.
Qed.

(* ---------------------------------------------------------------- the invariant *)

(* what the handling flag means *)
Definition hpart (s : st) (tr : list event) : Prop :=
  if handling s then
    exists p, hgs s = [Hg (cur s) p] /\ S (dones tr) = length (launches tr) /\
      match p with
      | HLaunched => launches tr = begins tr ++ [read (mem s) (cur s)] /\ begins tr = ends tr
      | HRunning => launches tr = begins tr /\ begins tr = ends tr ++ [read (mem s) (cur s)]
      | HSending => launches tr = begins tr /\ begins tr = ends tr
      end
  else
    hgs s = [] /\ s_len (nxt s) = 0 /\
    launches tr = begins tr /\ begins tr = ends tr /\ dones tr = length (launches tr).

Definition live (s : st) (tr : list event) : Prop :=
  returned tr = false /\
  s_buf (cur s) <> s_buf (nxt s) /\ wf_slice (mem s) (cur s) /\ wf_slice (mem s) (nxt s) /\
  concat (launches tr) ++ read (mem s) (nxt s) = stream tr /\
  (exists rest, launches tr = prepared tr :: rest) /\
  hpart s tr /\
  (phase s = LWait -> handling s = true /\ cancelled s = true).

Definition fresh (s : st) (tr : list event) : Prop :=
  mem s = [[]; []] /\ cur s = Sl 0 0 /\ nxt s = Sl 1 0 /\ handling s = false /\ hgs s = [] /\
  launches tr = [] /\ begins tr = [] /\ ends tr = [] /\ dones tr = 0 /\ recvs tr = [] /\
  prepared tr = [] /\ returned tr = false.

Definition finished (s : st) (tr : list event) : Prop :=
  hgs s = [] /\ cancelled s = true /\ returned tr = true /\
  launches tr = begins tr /\ begins tr = ends tr /\ dones tr = length (launches tr) /\
  (exists pending, concat (launches tr) ++ pending = stream tr) /\
  (exists rest, launches tr = prepared tr :: rest) /\
  Forall (fun e => e = ECancel) (after_return tr).

Definition Inv (s : st) (tr : list event) : Prop :=
  match phase s with
  | LInit | LErr => fresh s tr
  | LSelect | LWait => live s tr
  | LRet => finished s tr
  end.

Lemma inv_init : Inv init [].
Proof. unfold Inv, fresh; simpl. repeat split; reflexivity. Qed.

Lemma in_phase_true s p : in_phase s p = true -> phase s = p.
Proof. unfold in_phase. destruct (phase s), p; intros H; try discriminate; reflexivity. Qed.

Lemma is_ph_true s i p :
  is_ph s i p = true -> exists g, nth_error (hgs s) i = Some g /\ h_ph g = p.
Proof.
  unfold is_ph, ph_at. destruct (nth_error (hgs s) i) as [g|]; [|discriminate].
  intros H. exists g. split; [reflexivity|]. destruct (h_ph g), p; try discriminate; reflexivity.
Qed.

(* with a single goroutine the index is 0 *)
Lemma single_nth (g g' : hg) i : nth_error [g] i = Some g' -> i = 0 /\ g' = g.
Proof. destruct i as [|[|i]]; simpl; intros H; inversion H; auto. Qed.

Ltac tr_simpl :=
  rewrite ?prepared_app, ?recvs_app, ?launches_app, ?begins_app, ?ends_app, ?dones_app, ?returned_app;
  simpl; rewrite ?app_nil_r, ?Nat.add_0_r, ?orb_false_r.

Lemma concat_snoc {A} (l : list (list A)) x : concat (l ++ [x]) = concat l ++ x.
Proof. rewrite concat_app. simpl. rewrite app_nil_r. reflexivity. Qed.

Ltac fin :=
  try assumption; try congruence; try lia;
  try (match goal with H : wf_slice _ _ |- _ => solve [destruct H; assumption | destruct H; simpl in *; lia] end).

Lemma step_inv s tr l s' evs : Inv s tr -> step s l = Some (s', evs) -> Inv s' (tr ++ evs).
Proof.
  intros HI Hs. destruct l; simpl in Hs.
  - (* LPrepare *)
    destruct (in_phase s LInit) eqn:Hp; [|discriminate]. apply in_phase_true in Hp.
    inversion Hs; subst; clear Hs. unfold Inv in *. rewrite Hp in HI. simpl.
    destruct HI as (Hm & Hc & Hn & Hh & Hg & Hl & Hb & He & Hd & Hr & Hpr & Hret).
    unfold live, hpart, stream; simpl. tr_simpl. rewrite Hm, Hn, Hg, Hl, Hb, He, Hd, Hr, Hpr, Hret. simpl.
    assert (Hrd : read [[]; []; b0] (Sl 2 (length b0)) = b0) by (unfold read, cells; simpl; apply firstn_all).
    rewrite Hrd. repeat split; simpl; fin.
    + unfold cells; simpl; lia.
    + rewrite !app_nil_r. reflexivity.
    + exists []. reflexivity.
    + exists HLaunched. repeat split; fin.
  - (* LPrepareFail *)
    destruct (in_phase s LInit) eqn:Hp; [|discriminate]. apply in_phase_true in Hp.
    inversion Hs; subst; clear Hs. unfold Inv in *. rewrite Hp in HI. simpl.
    unfold fresh in *; simpl. tr_simpl. exact HI.
  - (* LCancel *)
    inversion Hs; subst; clear Hs. unfold Inv in *; simpl.
    destruct (phase s) eqn:Hp.
    + unfold fresh in *; simpl. tr_simpl. exact HI.
    + unfold live, hpart, stream in *; simpl. tr_simpl.
      destruct HI as (H1 & H2 & H3 & H4 & H5 & H6 & H7 & H8).
      repeat split; fin.
    + unfold live, hpart, stream in *; simpl. tr_simpl.
      destruct HI as (H1 & H2 & H3 & H4 & H5 & H6 & H7 & H8).
      repeat split; fin. apply H8; exact Hp.
    + unfold finished, stream in *; simpl. tr_simpl.
      destruct HI as (H1 & H2 & H3 & H4 & H5 & H6 & H7 & H8 & H9).
      repeat split; fin.
      rewrite after_return_app, H3. apply Forall_app. split; [exact H9|]. constructor; [reflexivity|constructor].
    + unfold fresh in *; simpl. tr_simpl. exact HI.
  - (* LRecv *)
    destruct (in_phase s LSelect) eqn:Hp; [|discriminate]. apply in_phase_true in Hp.
    destruct (append realloc (mem s) (nxt s) e) as [m n] eqn:Ha.
    unfold Inv in HI. rewrite Hp in HI.
    destruct HI as (Hret & Hne & Hwc & Hwn & Hcat & Hfirst & Hh & Hw).
    destruct (append_read _ _ _ _ _ _ Hwn Ha) as (Hrd & Hwn' & Hlen & Hbuf & Hsl).
    assert (Hne' : s_buf (cur s) <> s_buf n) by (destruct Hwc; destruct Hbuf; lia).
    destruct (append_other _ _ _ _ _ _ (cur s) Hwn Ha Hwc Hne) as (Hrc & Hwc').
    unfold hpart in Hh. destruct (handling s) eqn:Hhd.
    + (* a batch is being handled: the event waits in nextBatch *)
      inversion Hs; subst; clear Hs. unfold Inv; simpl. rewrite ?Hp.
      unfold live, hpart, stream in *; simpl. rewrite ?Hhd. tr_simpl.
      repeat split; fin.
      * rewrite Hrd, app_assoc, Hcat, <- app_assoc. reflexivity.
      * destruct Hh as (p & Hg & Hd & Hx). exists p. rewrite Hrc. repeat split; assumption.
    + (* idle: swap and launch at once *)
      inversion Hs; subst; clear Hs. unfold Inv; simpl. rewrite ?Hp.
      destruct Hh as (Hg & Hz & Hlb & Hbe & Hd).
      assert (Hrn : read (mem s) (nxt s) = []) by (unfold read; rewrite Hz; reflexivity).
      unfold live, hpart, stream in *; simpl. tr_simpl.
      repeat split; simpl; fin.
      * rewrite concat_snoc, Hrd, Hrn. rewrite Hrn, app_nil_r in Hcat. rewrite Hcat. simpl.
        rewrite app_assoc. reflexivity.
      * destruct Hfirst as [rest Hf]. exists (rest ++ [read m n]). rewrite Hf. reflexivity.
      * exists HLaunched. rewrite Hg. repeat split; fin. rewrite app_length. simpl. lia.
  - (* LSeeCancel *)
    destruct (in_phase s LSelect) eqn:Hp; [|discriminate]. apply in_phase_true in Hp.
    destruct (cancelled s) eqn:Hc; [|discriminate]. simpl in Hs.
    unfold Inv in HI. rewrite Hp in HI.
    destruct HI as (Hret & Hne & Hwc & Hwn & Hcat & Hfirst & Hh & Hw).
    destruct (handling s) eqn:Hhd; inversion Hs; subst; clear Hs; unfold Inv; simpl.
    + unfold live, hpart, stream in *; simpl. rewrite ?Hhd in *. tr_simpl.
      refine (conj Hret (conj Hne (conj Hwc (conj Hwn (conj Hcat (conj Hfirst (conj Hh _))))))).
      intros _. split; reflexivity.
    + unfold hpart in Hh. rewrite Hhd in Hh. destruct Hh as (Hg & Hz & Hlb & Hbe & Hd).
      unfold finished, stream in *. simpl. tr_simpl. rewrite after_return_app, Hret. simpl.
      repeat split; fin.
      * exists (read (mem s) (nxt s)). exact Hcat.
      * constructor.
  - (* LTakeDone *)
    destruct (is_ph s i HSending) eqn:Hi; [|discriminate].
    apply is_ph_true in Hi. destruct Hi as (g & Hnth & Hph).
    destruct (in_phase s LSelect) eqn:Hp.
    + apply in_phase_true in Hp. unfold Inv in HI. rewrite Hp in HI.
      destruct HI as (Hret & Hne & Hwc & Hwn & Hcat & Hfirst & Hh & Hw).
      unfold hpart in Hh. destruct (handling s) eqn:Hhd.
      2: { destruct Hh as (Hg & _). rewrite Hg in Hnth. destruct i; discriminate. }
      destruct Hh as (p & Hg & Hd & Hx). rewrite Hg in Hnth.
      apply single_nth in Hnth. destruct Hnth as [-> ->]. simpl in Hph. subst p.
      destruct Hx as (Hlb & Hbe). rewrite Hg in Hs. simpl in Hs.
      destruct (Nat.ltb 0 (s_len (nxt s))) eqn:Hlt.
      * (* something is pending: swap and launch *)
        inversion Hs; subst; clear Hs. unfold Inv; simpl. rewrite ?Hp.
        unfold live, hpart, stream in *; simpl. tr_simpl.
        repeat split; simpl; fin.
        -- rewrite concat_snoc. exact Hcat.
        -- destruct Hfirst as [rest Hf]. exists (rest ++ [read (mem s) (nxt s)]). rewrite Hf. reflexivity.
        -- exists HLaunched. repeat split; fin. rewrite app_length. simpl. lia.
      * (* nothing pending: idle *)
        apply Nat.ltb_ge in Hlt.
        inversion Hs; subst; clear Hs. unfold Inv; simpl. rewrite ?Hp.
        unfold live, hpart, stream in *; simpl. tr_simpl.
        repeat split; simpl; fin.
    + destruct (in_phase s LWait) eqn:Hp2; [|discriminate]. apply in_phase_true in Hp2.
      unfold Inv in HI. rewrite Hp2 in HI.
      destruct HI as (Hret & Hne & Hwc & Hwn & Hcat & Hfirst & Hh & Hw).
      destruct (Hw Hp2) as [Hhd Hcc]. unfold hpart in Hh. rewrite Hhd in Hh.
      destruct Hh as (p & Hg & Hd & Hx). rewrite Hg in Hnth.
      apply single_nth in Hnth. destruct Hnth as [-> ->]. simpl in Hph. subst p.
      destruct Hx as (Hlb & Hbe). rewrite Hg in Hs. simpl in Hs.
      inversion Hs; subst; clear Hs. unfold Inv; simpl.
      unfold finished, stream in *; simpl. tr_simpl. rewrite after_return_app, Hret. simpl.
      repeat split; fin.
      * exists (read (mem s) (nxt s)). exact Hcat.
      * constructor.
  - (* LBegin *)
    destruct (is_ph s i HLaunched) eqn:Hi; [|discriminate].
    apply is_ph_true in Hi. destruct Hi as (g & Hnth & Hph).
    inversion Hs; subst; clear Hs. unfold Inv in *; simpl.
    assert (Hlive : live s tr ->
                    live (St (mem s) (cur s) (nxt s) (handling s) (set_ph i HRunning (hgs s)) (phase s) (cancelled s))
                         (tr ++ [EBegin (read (mem s) (slice_at s i))])).
    { intros (Hret & Hne & Hwc & Hwn & Hcat & Hfirst & Hh & Hw).
      unfold hpart in Hh. destruct (handling s) eqn:Hhd.
      2: { destruct Hh as (Hg & _). rewrite Hg in Hnth. destruct i; discriminate. }
      destruct Hh as (p & Hg & Hd & Hx). rewrite Hg in Hnth.
      apply single_nth in Hnth. destruct Hnth as [-> ->]. simpl in Hph. subst p.
      destruct Hx as (Hlb & Hbe).
      unfold live, hpart, stream, slice_at, set_ph in *; simpl. rewrite ?Hhd, Hg. simpl. tr_simpl.
      refine (conj Hret (conj Hne (conj Hwc (conj Hwn (conj Hcat (conj Hfirst (conj _ Hw))))))).
      exists HRunning. repeat split; fin. }
    destruct (phase s) eqn:Hp; try (apply Hlive; exact HI).
    + destruct HI as (_ & _ & _ & _ & Hg & _). rewrite Hg in Hnth. destruct i; discriminate.
    + destruct HI as (Hg & _). rewrite Hg in Hnth. destruct i; discriminate.
    + destruct HI as (_ & _ & _ & _ & Hg & _). rewrite Hg in Hnth. destruct i; discriminate.
  - (* LEnd *)
    destruct (is_ph s i HRunning) eqn:Hi; [|discriminate].
    apply is_ph_true in Hi. destruct Hi as (g & Hnth & Hph).
    inversion Hs; subst; clear Hs. unfold Inv in *; simpl.
    assert (Hlive : live s tr ->
                    live (St (mem s) (cur s) (nxt s) (handling s) (set_ph i HSending (hgs s)) (phase s) (cancelled s))
                         (tr ++ [EEnd (read (mem s) (slice_at s i))])).
    { intros (Hret & Hne & Hwc & Hwn & Hcat & Hfirst & Hh & Hw).
      unfold hpart in Hh. destruct (handling s) eqn:Hhd.
      2: { destruct Hh as (Hg & _). rewrite Hg in Hnth. destruct i; discriminate. }
      destruct Hh as (p & Hg & Hd & Hx). rewrite Hg in Hnth.
      apply single_nth in Hnth. destruct Hnth as [-> ->]. simpl in Hph. subst p.
      destruct Hx as (Hlb & Hbe).
      unfold live, hpart, stream, slice_at, set_ph in *; simpl. rewrite ?Hhd, Hg. simpl. tr_simpl.
      refine (conj Hret (conj Hne (conj Hwc (conj Hwn (conj Hcat (conj Hfirst (conj _ Hw))))))).
      exists HSending. repeat split; fin. }
    destruct (phase s) eqn:Hp; try (apply Hlive; exact HI).
    + destruct HI as (_ & _ & _ & _ & Hg & _). rewrite Hg in Hnth. destruct i; discriminate.
    + destruct HI as (Hg & _). rewrite Hg in Hnth. destruct i; discriminate.
    + destruct HI as (_ & _ & _ & _ & Hg & _). rewrite Hg in Hnth. destruct i; discriminate.
Qed.

Lemma run_inv ls : forall s tr0 s' tr, Inv s tr0 -> run s ls = Some (s', tr) -> Inv s' (tr0 ++ tr).
Proof.
  induction ls as [|l ls IH]; intros s tr0 s' tr HI Hr; simpl in Hr.
  - inversion Hr; subst. rewrite app_nil_r. exact HI.
  - destruct (step s l) as [[s1 evs]|] eqn:Hs; [|discriminate].
    destruct (run s1 ls) as [[s2 tr2]|] eqn:Hr2; [|discriminate].
    inversion Hr; subst. rewrite app_assoc. eapply IH; [|exact Hr2]. eapply step_inv; eassumption.
Qed.

Lemma inv_run ls s tr : run init ls = Some (s, tr) -> Inv s tr.
Proof. intros H. apply (run_inv ls init [] s tr inv_init H). Qed.

(* ---------------------------------------------------------------- consequences of the invariant *)

Lemma inv_cases s tr :
  Inv s tr -> fresh s tr \/ live s tr \/ finished s tr.
Proof. unfold Inv. destruct (phase s); auto. Qed.

Lemma live_hcases s tr :
  live s tr ->
  (launches tr = begins tr /\ (begins tr = ends tr \/ exists x, begins tr = ends tr ++ [x])) \/
  (exists x, launches tr = begins tr ++ [x] /\ begins tr = ends tr).
Proof.
  intros (_ & _ & _ & _ & _ & _ & Hh & _). unfold hpart in Hh. destruct (handling s).
  - destruct Hh as ([| |] & _ & _ & Hx).
    + right. eexists. exact Hx.
    + left. destruct Hx as [H1 H2]. split; [exact H1|]. right. eexists. exact H2.
    + left. destruct Hx as [H1 H2]. split; [exact H1|]. left. exact H2.
  - left. destruct Hh as (_ & _ & H1 & H2 & _). split; [exact H1|]. left. exact H2.
Qed.

Lemma exactly_once_inv s tr : Inv s tr -> exists pending, concat (begins tr) ++ pending = stream tr.
Proof.
  intros HI. destruct (inv_cases _ _ HI) as [HF|[HL|HF]].
  - destruct HF as (_ & _ & _ & _ & _ & _ & Hb & _ & _ & Hr & Hp & _).
    exists []. unfold stream. rewrite Hb, Hr, Hp. reflexivity.
  - pose proof HL as (_ & _ & _ & _ & Hcat & _).
    destruct (live_hcases _ _ HL) as [[H1 _]|[x [H1 _]]].
    + rewrite <- H1. eexists. exact Hcat.
    + rewrite H1, concat_snoc, <- app_assoc in Hcat. eexists. exact Hcat.
  - destruct HF as (_ & _ & _ & H1 & _ & _ & [pend Hp] & _). rewrite <- H1. exists pend. exact Hp.
Qed.

Lemma idle_inv s tr :
  Inv s tr -> returned tr = false -> dones tr = length (launches tr) ->
  concat (ends tr) = stream tr /\ hgs s = [].
Proof.
  intros HI Hret Hd. destruct (inv_cases _ _ HI) as [HF|[HL|HF]].
  - destruct HF as (_ & _ & _ & _ & Hg & _ & _ & He & _ & Hr & Hp & _).
    unfold stream. rewrite He, Hr, Hp. split; [reflexivity|exact Hg].
  - destruct HL as (_ & _ & _ & _ & Hcat & _ & Hh & _). unfold hpart in Hh. destruct (handling s).
    + destruct Hh as (p & _ & Hd' & _). lia.
    + destruct Hh as (Hg & Hz & H1 & H2 & _). unfold read in Hcat. rewrite Hz in Hcat. simpl in Hcat.
      rewrite app_nil_r, H1, H2 in Hcat. split; assumption.
  - destruct HF as (_ & _ & Hr & _). congruence.
Qed.

Lemma idle_state_inv s tr :
  Inv s tr -> phase s = LSelect -> handling s = false ->
  hgs s = [] /\ read (mem s) (nxt s) = [] /\ concat (ends tr) = stream tr.
Proof.
  intros HI Hp Hh. unfold Inv in HI. rewrite Hp in HI.
  destruct HI as (_ & _ & _ & _ & Hcat & _ & Hx & _). unfold hpart in Hx. rewrite Hh in Hx.
  destruct Hx as (Hg & Hz & H1 & H2 & _).
  assert (Hr : read (mem s) (nxt s) = []) by (unfold read; rewrite Hz; reflexivity).
  rewrite Hr, app_nil_r, H1, H2 in Hcat. auto.
Qed.

Lemma counts_inv s tr :
  Inv s tr ->
  length (hgs s) <= 1 /\
  length (ends tr) <= length (begins tr) /\ length (begins tr) <= S (length (ends tr)) /\
  length (begins tr) <= length (launches tr) /\ length (launches tr) <= S (dones tr) /\
  dones tr <= length (ends tr).
Proof.
  intros HI. destruct (inv_cases _ _ HI) as [HF|[HL|HF]].
  - destruct HF as (_ & _ & _ & _ & Hg & Hl & Hb & He & Hd & _). rewrite Hg, Hl, Hb, He, Hd. simpl. lia.
  - destruct HL as (_ & _ & _ & _ & _ & _ & Hh & _). unfold hpart in Hh. destruct (handling s).
    + destruct Hh as (p & Hg & Hd & Hx). rewrite Hg. simpl.
      destruct p; destruct Hx as [H1 H2]; rewrite H1 in *; rewrite H2 in *;
        rewrite ?app_length in *; simpl in *; lia.
    + destruct Hh as (Hg & _ & H1 & H2 & Hd). rewrite Hg, Hd, H1, H2. simpl. lia.
  - destruct HF as (Hg & _ & _ & H1 & H2 & Hd & _). rewrite Hg, Hd, H1, H2. simpl. lia.
Qed.

Lemma first_inv s tr :
  Inv s tr ->
  (forall b rest, begins tr = b :: rest -> b = prepared tr) /\
  (forall b rest, launches tr = b :: rest -> b = prepared tr) /\
  (launches tr = [] -> recvs tr = []).
Proof.
  intros HI. destruct (inv_cases _ _ HI) as [HF|[HL|HF]].
  - destruct HF as (_ & _ & _ & _ & _ & Hl & Hb & _ & _ & Hr & _). rewrite Hl, Hb.
    repeat split; try discriminate. intros _. exact Hr.
  - pose proof HL as (_ & _ & _ & _ & _ & [rest0 Hf] & _).
    assert (H2 : forall b rest, launches tr = b :: rest -> b = prepared tr).
    { intros b rest H. rewrite Hf in H. inversion H. reflexivity. }
    repeat split; [|exact H2|rewrite Hf; discriminate].
    intros b rest Hb. destruct (live_hcases _ _ HL) as [[H1 _]|[x [H1 _]]].
    + apply (H2 b rest). rewrite H1. exact Hb.
    + apply (H2 b (rest ++ [x])). rewrite H1, Hb. reflexivity.
  - destruct HF as (_ & _ & _ & H1 & _ & _ & _ & [rest0 Hf] & _).
    assert (H2 : forall b rest, launches tr = b :: rest -> b = prepared tr).
    { intros b rest H. rewrite Hf in H. inversion H. reflexivity. }
    repeat split; [|exact H2|rewrite Hf; discriminate].
    intros b rest Hb. apply (H2 b rest). rewrite H1. exact Hb.
Qed.

Lemma stable_inv s tr : Inv s tr -> ends tr = firstn (length (ends tr)) (begins tr).
Proof.
  intros HI.
  assert (H : begins tr = ends tr \/ exists x, begins tr = ends tr ++ [x]).
  { destruct (inv_cases _ _ HI) as [HF|[HL|HF]].
    - destruct HF as (_ & _ & _ & _ & _ & _ & Hb & He & _). left. congruence.
    - destruct (live_hcases _ _ HL) as [[_ H]|[x [_ H]]]; [exact H|left; exact H].
    - destruct HF as (_ & _ & _ & _ & H & _). left. exact H. }
  destruct H as [H|[x H]]; rewrite H.
  - symmetry. apply firstn_all.
  - rewrite firstn_app, Nat.sub_diag, firstn_all. simpl. rewrite app_nil_r. reflexivity.
Qed.

(* the array the loop appends into is never one a live handler goroutine reads *)
Lemma disjoint_inv s tr g :
  Inv s tr -> In g (hgs s) -> h_slice g = cur s /\ s_buf (h_slice g) <> s_buf (nxt s).
Proof.
  intros HI Hin. destruct (inv_cases _ _ HI) as [HF|[HL|HF]].
  - destruct HF as (_ & _ & _ & _ & Hg & _). rewrite Hg in Hin. destruct Hin.
  - destruct HL as (_ & Hne & _ & _ & _ & _ & Hh & _). unfold hpart in Hh. destruct (handling s).
    + destruct Hh as (p & Hg & _). rewrite Hg in Hin. destruct Hin as [<-|[]]. simpl. auto.
    + destruct Hh as (Hg & _). rewrite Hg in Hin. destruct Hin.
  - destruct HF as (Hg & _). rewrite Hg in Hin. destruct Hin.
Qed.

Lemma shutdown_inv s tr :
  Inv s tr -> returned tr = true ->
  hgs s = [] /\ cancelled s = true /\ launches tr = begins tr /\ begins tr = ends tr /\
  dones tr = length (launches tr) /\ Forall (fun e => e = ECancel) (after_return tr).
Proof.
  intros HI Hr. destruct (inv_cases _ _ HI) as [HF|[HL|HF]].
  - destruct HF as (_ & _ & _ & _ & _ & _ & _ & _ & _ & _ & _ & H). congruence.
  - destruct HL as (H & _). congruence.
  - destruct HF as (H1 & H2 & _ & H3 & H4 & H5 & _ & _ & H6). auto 10.
Qed.

(* a step that launches a handler leaves nothing behind: nextBatch is empty afterwards and all that
   was delivered so far has been handed to some handler goroutine *)
Lemma launch_takes_all s tr l s' evs :
  Inv s tr -> step s l = Some (s', evs) -> launches evs <> [] ->
  read (mem s') (nxt s') = [] /\ concat (launches (tr ++ evs)) = stream (tr ++ evs).
Proof.
  intros HI Hs Hl. pose proof (step_inv _ _ _ _ _ HI Hs) as HI'.
  assert (Hz : s_len (nxt s') = 0 /\ phase s' = LSelect).
  { destruct l; simpl in Hs.
    - destruct (in_phase s LInit) eqn:Hp; [|discriminate]. apply in_phase_true in Hp.
      unfold Inv in HI. rewrite Hp in HI. destruct HI as (_ & _ & Hn & _).
      inversion Hs; subst. simpl. rewrite Hn. auto.
    - destruct (in_phase s LInit); inversion Hs; subst. simpl in Hl. congruence.
    - inversion Hs; subst. simpl in Hl. congruence.
    - destruct (in_phase s LSelect) eqn:Hp; [|discriminate]. apply in_phase_true in Hp.
      destruct (append realloc (mem s) (nxt s) e) as [m n].
      destruct (handling s); inversion Hs; subst.
      + simpl in Hl. congruence.
      + simpl. auto.
    - destruct (in_phase s LSelect && cancelled s); [|discriminate].
      destruct (handling s); inversion Hs; subst; simpl in Hl; congruence.
    - destruct (is_ph s i HSending) eqn:Hi; [|discriminate].
      destruct (in_phase s LSelect) eqn:Hp.
      + apply in_phase_true in Hp. simpl in Hs.
        destruct (Nat.ltb 0 (s_len (nxt s))); inversion Hs; subst; [|simpl in Hl; congruence].
        simpl. auto.
      + destruct (in_phase s LWait); inversion Hs; subst. simpl in Hl. congruence.
    - destruct (is_ph s i HLaunched); inversion Hs; subst. simpl in Hl. congruence.
    - destruct (is_ph s i HRunning); inversion Hs; subst. simpl in Hl. congruence. }
  destruct Hz as (Hz & Hp).
  assert (Hr : read (mem s') (nxt s') = []) by (unfold read; rewrite Hz; reflexivity).
  split; [exact Hr|].
  unfold Inv in HI'. rewrite Hp in HI'. destruct HI' as (_ & _ & _ & _ & Hcat & _).
  rewrite Hr, app_nil_r in Hcat. exact Hcat.
Qed.

(* ---------------------------------------------------------------- progress (enabledness) *)

Lemma recv_enabled s e r : phase s = LSelect -> step s (LRecv e r) <> None.
Proof.
  intros Hp. simpl. unfold in_phase. rewrite Hp.
  destruct (append r (mem s) (nxt s) e). destruct (handling s); discriminate.
Qed.

Lemma see_cancel_enabled s : phase s = LSelect -> cancelled s = true -> step s LSeeCancel <> None.
Proof.
  intros Hp Hc. simpl. unfold in_phase. rewrite Hp, Hc. simpl. destruct (handling s); discriminate.
Qed.

(* while the flag is set there is a live handler goroutine, and whatever its stage its next action
   is enabled; the last of them is the loop's receipt of handlingDone, also in the wait after cancel *)
Lemma handler_progress s tr :
  Inv s tr -> (phase s = LSelect \/ phase s = LWait) -> handling s = true ->
  exists g, hgs s = [g] /\
    match h_ph g with
    | HLaunched => step s (LBegin 0) <> None
    | HRunning => step s (LEnd 0) <> None
    | HSending => step s (LTakeDone 0) <> None
    end.
Proof.
  intros HI Hp Hh.
  assert (HL : live s tr) by (unfold Inv in HI; destruct Hp as [Hp|Hp]; rewrite Hp in HI; exact HI).
  destruct HL as (_ & _ & _ & _ & _ & _ & Hx & _). unfold hpart in Hx. rewrite Hh in Hx.
  destruct Hx as (p & Hg & _). eexists. split; [exact Hg|]. simpl.
  destruct p; simpl; unfold is_ph, ph_at; rewrite Hg; simpl; try discriminate.
  unfold in_phase. destruct Hp as [Hp|Hp]; rewrite Hp; simpl.
  - destruct (Nat.ltb 0 (s_len (nxt s))); discriminate.
  - discriminate.
Qed.

Lemma wait_has_handler s tr : Inv s tr -> phase s = LWait -> handling s = true.
Proof.
  intros HI Hp. unfold Inv in HI. rewrite Hp in HI. destruct HI as (_ & _ & _ & _ & _ & _ & _ & Hw).
  apply Hw. exact Hp.
Qed.

(* ---------------------------------------------------------------- non-vacuity
   A concrete schedule: the start-up batch is being handled while three events arrive (the third
   append reallocates), they are coalesced; the arrays are reused twice; an event arrives while idle;
   cancellation arrives while the last batch is in flight and Start waits for it. *)
Definition ex_labels : list label :=
  [LPrepare [1; 2]; LBegin 0; LRecv 11 false; LRecv 12 false; LEnd 0; LRecv 13 true; LTakeDone 0;
   LBegin 0; LRecv 14 false; LEnd 0; LTakeDone 0; LBegin 0; LEnd 0; LTakeDone 0;
   LRecv 15 false; LBegin 0; LCancel; LRecv 16 false; LSeeCancel; LEnd 0; LTakeDone 0].

Example ex_run :
  exists s tr, run init ex_labels = Some (s, tr) /\
    begins tr = [[1; 2]; [11; 12; 13]; [14]; [15]] /\ ends tr = begins tr /\
    stream tr = [1; 2; 11; 12; 13; 14; 15; 16] /\ dones tr = 4 /\ returned tr = true /\ phase s = LRet.
Proof. eexists. eexists. split; [vm_compute; reflexivity|]. vm_compute. repeat split. Qed.

(* the hypotheses of the idle theorem are satisfiable with a non-trivial history *)
Example ex_idle :
  exists s tr, run init (firstn 14 ex_labels) = Some (s, tr) /\
    returned tr = false /\ dones tr = length (launches tr) /\ phase s = LSelect /\ handling s = false /\
    concat (ends tr) = [1; 2; 11; 12; 13; 14].
Proof. eexists. eexists. split; [vm_compute; reflexivity|]. vm_compute. repeat split. Qed.

(* a launching step exists (hypothesis of the coalescing theorem) with two events pending *)
Example ex_launch :
  exists s tr s' evs, run init (firstn 6 ex_labels) = Some (s, tr) /\
    step s (LTakeDone 0) = Some (s', evs) /\ launches evs = [[11; 12; 13]].
Proof. eexists. eexists. eexists. eexists. split; [vm_compute; reflexivity|]. vm_compute. split; reflexivity. Qed.

(* the wait after cancellation is reachable (hypothesis of the progress theorem) *)
Example ex_wait :
  exists s tr, run init (firstn 19 ex_labels) = Some (s, tr) /\ phase s = LWait /\ handling s = true.
Proof. eexists. eexists. split; [vm_compute; reflexivity|]. vm_compute. split; reflexivity. Qed.
