(* C12 with C11 underneath: the write stage of the handler model (C12/Model.v, flag b_write_ok) is the file manager of C11/Model.v.
   A batch of the handler is paired with the replacement the file manager performs for it (the generated file set and the outcomes of
   the file operations); the flag of the batch is what that replacement answers. Then statuses without the failure mark, after a
   reload was involved, mean BOTH that the reload was asked to verify the version that was written AND that the managed folders hold
   exactly the generated file set - for every history of earlier replacements, faults, crashes and restarts of the file manager. *)
From Coq Require Import List ZArith String Bool.
From NGF Require C11.Model C11.Proofs.
From NGF Require Import C12.Model C12.Proofs.
Import ListNotations.
Module F := NGF.C11.Model.

(* the flag of the batch is the answer of the file manager's replacement *)
Definition write_stage_is (w : F.world) (fm : F.state) (fs : list F.file) (os : list F.outcome) (b : batch) : Prop :=
  b_write_ok b = snd (F.step true w fm (F.Replace fs os)).

Lemma unmarked_statuses_mean_files_on_disk plus s b (w : F.world) (d0 : F.disk) (h : list F.event) (fs : list F.file) (os : list F.outcome) :
  let fm := F.run true w (F.boot d0) h in
  write_stage_is w fm fs os b ->
  ho_status (snd (hstep plus s b)) = Some false ->
  forall v, ho_reloaded (snd (hstep plus s b)) = Some v ->
    ho_written (snd (hstep plus s b)) = Some v /\
    F.exactly w (F.disk_of fm) (F.disk_of (fst (F.step true w fm (F.Replace fs os)))) fs.
Proof.
  intros fm Hw Hst v Hr.
  destruct (hstep_honest plus s b Hst) as [_ [_ Hv]].
  destruct (Hv v Hr) as [_ [Hwr [Hok _]]].
  split; [exact Hwr|].
  unfold write_stage_is in Hw. rewrite Hok in Hw.
  destruct (F.step true w fm (F.Replace fs os)) as [s' r] eqn:Hs. simpl in Hw. subst r.
  exact (proj1 (NGF.C11.Proofs.exact_after_any_history w d0 h fs os s' Hs)).
Qed.

(* the hypotheses are met by a concrete batch after a concrete history of the file manager *)
Example composed_hypotheses_met :
  let fm := F.run true NGF.C11.Proofs.ex_world (F.boot NGF.C11.Proofs.ex_d0) NGF.C11.Proofs.ex_history in
  let b := Batch false ClusterState true true true in
  write_stage_is NGF.C11.Proofs.ex_world fm NGF.C11.Proofs.ex_set2 [] b /\
  ho_status (snd (hstep false hinit b)) = Some false /\
  ho_reloaded (snd (hstep false hinit b)) = Some 1%Z.
Proof. vm_compute. repeat split. Qed.
