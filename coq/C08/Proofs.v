(* C08 — lemmas about the model of the status write path. *)
From Coq Require Import List String Ascii ZArith NArith Bool Arith Lia.
From NGF Require Import C08.Model.
Import ListNotations.

(* ================================================================ DeduplicateConditions *)

(* forward reading of the reverse scan: keep c iff its type is neither in [seen] nor later in the list *)
Fixpoint lw (seen : list string) (l : list pcond) : list pcond :=
  match l with
  | [] => []
  | c :: r => if mem (p_type c) seen || existsb (fun d => String.eqb (p_type d) (p_type c)) r
              then lw seen r else c :: lw seen r
  end.

Lemma lw_nil l : lw [] l = last_wins l.
Proof. induction l as [|c r IH]; simpl; [reflexivity|]. rewrite IH. reflexivity. Qed.

Lemma lw_snoc_seen seen l c :
  mem (p_type c) seen = true -> lw seen (l ++ [c]) = lw seen l.
Proof.
  intros Hm. induction l as [|a r IH]; simpl.
  - rewrite Hm. reflexivity.
  - rewrite existsb_app. simpl. rewrite IH.
    destruct (mem (p_type a) seen) eqn:Ea; simpl; [reflexivity|].
    destruct (existsb (fun d => (p_type d =? p_type a)%string) r); simpl; [reflexivity|].
    destruct (String.eqb_spec (p_type c) (p_type a)) as [Heq|]; simpl; [|reflexivity].
    rewrite Heq in Hm. congruence.
Qed.

Lemma lw_snoc_unseen seen l c :
  mem (p_type c) seen = false -> lw seen (l ++ [c]) = lw (p_type c :: seen) l ++ [c].
Proof.
  intros Hm. induction l as [|a r IH]; simpl.
  - rewrite Hm. reflexivity.
  - rewrite existsb_app. simpl. rewrite IH. rewrite (String.eqb_sym (p_type a) (p_type c)).
    destruct (mem (p_type a) seen), (existsb (fun d => (p_type d =? p_type a)%string) r),
      ((p_type c =? p_type a)%string); reflexivity.
Qed.

Lemma dedup_scan_lw l : forall seen, rev (dedup_scan seen (rev l)) = lw seen l.
Proof.
  induction l as [|c l IH] using rev_ind; intros seen; [reflexivity|].
  rewrite rev_app_distr. simpl. destruct (mem (p_type c) seen) eqn:Em.
  - rewrite IH, lw_snoc_seen by exact Em. reflexivity.
  - simpl. rewrite IH, lw_snoc_unseen by exact Em. reflexivity.
Qed.

(* the map-and-reverse-index loop of the Go code computes "the last condition of every type, in order" *)
Theorem dedup_last_wins l : dedup l = last_wins l.
Proof. unfold dedup. rewrite dedup_scan_lw. apply lw_nil. Qed.

Lemma last_wins_incl l c : In c (last_wins l) -> In c l.
Proof.
  induction l as [|a r IH]; simpl; [tauto|].
  destruct (existsb _ r); simpl; intros H; [right; auto|destruct H; [left; auto|right; auto]].
Qed.

Lemma existsb_type_false r a :
  existsb (fun d => (p_type d =? p_type a)%string) r = false <-> (forall d, In d r -> p_type d <> p_type a).
Proof.
  split.
  - intros H d Hd Heq. assert (existsb (fun d => (p_type d =? p_type a)%string) r = true).
    { apply existsb_exists. exists d. split; [exact Hd|apply String.eqb_eq; exact Heq]. }
    congruence.
  - intros H. destruct (existsb _ r) eqn:E; [|reflexivity].
    apply existsb_exists in E. destruct E as [d [Hd He]]. apply String.eqb_eq in He. exfalso. eapply H; eauto.
Qed.

Lemma last_wins_nodup l : NoDup (map p_type (last_wins l)).
Proof.
  induction l as [|a r IH]; simpl; [constructor|].
  destruct (existsb _ r) eqn:E; [exact IH|].
  simpl. constructor; [|exact IH].
  intros Hin. apply in_map_iff in Hin. destruct Hin as [d [Ht Hd]].
  apply last_wins_incl in Hd. rewrite existsb_type_false in E. exact (E d Hd Ht).
Qed.

(* a condition is kept iff it occurs in the input with no condition of its type after it *)
Lemma last_wins_in_iff l c :
  In c (last_wins l) <->
  exists l1 l2, l = l1 ++ c :: l2 /\ forall d, In d l2 -> p_type d <> p_type c.
Proof.
  induction l as [|a r IH]; simpl.
  - split; [tauto|]. intros (l1 & l2 & H & _). destruct l1; discriminate.
  - split.
    + destruct (existsb _ r) eqn:E.
      * intros H. apply IH in H. destruct H as (l1 & l2 & -> & Hl). exists (a :: l1), l2. auto.
      * intros [<-|H].
        -- exists [], r. split; [reflexivity|]. apply existsb_type_false. exact E.
        -- apply IH in H. destruct H as (l1 & l2 & -> & Hl). exists (a :: l1), l2. auto.
    + intros (l1 & l2 & Heq & Hl). destruct l1 as [|b l1]; simpl in Heq; inversion Heq; subst.
      * assert (E : existsb (fun d => (p_type d =? p_type c)%string) l2 = false) by (apply existsb_type_false; exact Hl).
        rewrite E. left. reflexivity.
      * assert (Hin : In c (last_wins (l1 ++ c :: l2))) by (apply IH; exists l1, l2; auto).
        destruct (existsb _ (l1 ++ c :: l2)); [exact Hin|right; exact Hin].
Qed.

(* every type of the input is represented *)
Lemma last_wins_types l : forall c, In c l -> exists d, In d (last_wins l) /\ p_type d = p_type c.
Proof.
  induction l as [|a r IH]; simpl; intros c; [tauto|].
  intros [<-|Hc].
  - destruct (existsb _ r) eqn:E.
    + apply existsb_exists in E. destruct E as [d [Hd He]]. apply String.eqb_eq in He.
      destruct (IH d Hd) as [d' [Hd' Ht]]. exists d'. split; [exact Hd'|congruence].
    + exists a. split; [left; reflexivity|reflexivity].
  - destruct (IH c Hc) as [d [Hd Ht]]. exists d. split; [|exact Ht].
    destruct (existsb _ r); [exact Hd|right; exact Hd].
Qed.

Lemma last_wins_count l K :
  (forall c, In c l -> In (p_type c) K) -> List.length (last_wins l) <= List.length K.
Proof.
  intros H. rewrite <- (map_length p_type). apply NoDup_incl_length; [apply last_wins_nodup|].
  intros t Ht. apply in_map_iff in Ht. destruct Ht as [d [<- Hd]]. apply H. apply last_wins_incl. exact Hd.
Qed.

(* ================================================================ ConvertConditions, mk_conds *)

Lemma convert_types v gen time l : map c_type (convert v gen time l) = map p_type l.
Proof. unfold convert. rewrite map_map. reflexivity. Qed.

Lemma mk_conds_nodup v gen time l : NoDup (map c_type (mk_conds v gen time l)).
Proof. unfold mk_conds. rewrite convert_types, dedup_last_wins. apply last_wins_nodup. Qed.

Lemma mk_conds_count v gen time l K :
  (forall c, In c l -> In (p_type c) K) -> List.length (mk_conds v gen time l) <= List.length K.
Proof.
  intros H. unfold mk_conds, convert. rewrite map_length, dedup_last_wins. apply last_wins_count. exact H.
Qed.

Lemma mk_conds_msg_bound gen time l c :
  In c (mk_conds repaired gen time l) -> (c_mlen c <= msg_cap)%N.
Proof.
  unfold mk_conds, convert. intros H. apply in_map_iff in H. destruct H as [p [<- _]]. simpl.
  unfold truncate. simpl. apply N.le_min_r.
Qed.

Lemma mk_conds_gen_time v gen time l c :
  In c (mk_conds v gen time l) -> c_gen c = gen /\ c_time c = time.
Proof.
  unfold mk_conds, convert. intros H. apply in_map_iff in H. destruct H as [p [<- _]]. simpl. auto.
Qed.

(* ================================================================ comparisons = equality after erasure *)

Lemma list_eqb_map {A B} (f : A -> A -> bool) (g : A -> B) :
  (forall x y, f x y = true <-> g x = g y) ->
  forall a b, list_eqb f a b = true <-> map g a = map g b.
Proof.
  intros Hf. induction a as [|x a IH]; destruct b as [|y b]; simpl; try (split; [discriminate|discriminate]); [tauto|].
  rewrite andb_true_iff, Hf, IH. split; [intros [-> ->]; reflexivity|intros H; inversion H; auto].
Qed.

Lemma cond_eqb_erase a b : cond_eqb a b = true <-> erase_cond a = erase_cond b.
Proof.
  destruct a, b. unfold cond_eqb, erase_cond. simpl.
  rewrite !andb_true_iff, Z.eqb_eq, !String.eqb_eq, Nat.eqb_eq, N.eqb_eq.
  split; [intros ((((-> & ->) & ->) & (-> & ->)) & ->); reflexivity|intros H; inversion H; subst; tauto].
Qed.

Lemma ptr_eqb_deref a b : ptr_eqb a b = true <-> Some (deref a) = Some (deref b).
Proof. unfold ptr_eqb. rewrite String.eqb_eq. split; [intros ->; reflexivity|intros H; inversion H; auto]. Qed.

Lemma entry_eqb_same a b : entry_eqb a b = true <-> same_entry a b.
Proof.
  destruct a, b. unfold entry_eqb, same_entry, erase_entry, conds_eqb. simpl.
  rewrite !andb_true_iff, String.eqb_eq,
    (list_eqb_map ptr_eqb (fun o => Some (deref o)) ptr_eqb_deref),
    (list_eqb_map cond_eqb erase_cond cond_eqb_erase).
  split; [intros ((-> & ->) & ->); reflexivity|intros H; inversion H; subst; tauto].
Qed.

Lemma same_entry_refl a : same_entry a a.
Proof. reflexivity. Qed.

Lemma same_entry_ctlr a b : same_entry a b -> e_ctlr a = e_ctlr b.
Proof. unfold same_entry. intros H. apply (f_equal e_ctlr) in H. exact H. Qed.

Lemma same_entry_own ctl a b : same_entry a b -> is_own ctl a = is_own ctl b.
Proof. intros H. unfold is_own. rewrite (same_entry_ctlr a b H). reflexivity. Qed.

(* ================================================================ merging *)

Definition all_own (ctl : string) (es : list entry) : Prop := forall e, In e es -> is_own ctl e = true.

Lemma filter_all {A} (f : A -> bool) l : (forall x, In x l -> f x = true) -> filter f l = l.
Proof.
  induction l as [|x l IH]; simpl; intros H; [reflexivity|].
  rewrite (H x (or_introl eq_refl)). f_equal. apply IH. intros y Hy. apply H. right. exact Hy.
Qed.

Lemma filter_none {A} (f : A -> bool) l : (forall x, In x l -> f x = false) -> filter f l = [].
Proof.
  induction l as [|x l IH]; simpl; intros H; [reflexivity|].
  rewrite (H x (or_introl eq_refl)). apply IH. intros y Hy. apply H. right. exact Hy.
Qed.

Lemma own_of_foreign ctl pe : own ctl (foreign ctl pe) = [].
Proof.
  unfold own, foreign. apply filter_none. intros x Hx. apply filter_In in Hx. destruct Hx as [_ Hx].
  destruct (is_own ctl x); [discriminate|reflexivity].
Qed.

Lemma foreign_of_foreign ctl pe : foreign ctl (foreign ctl pe) = foreign ctl pe.
Proof. unfold foreign. apply filter_all. intros x Hx. apply filter_In in Hx. tauto. Qed.

Lemma foreign_of_own ctl se : all_own ctl se -> foreign ctl se = [].
Proof. intros H. unfold foreign. apply filter_none. intros x Hx. rewrite (H x Hx). reflexivity. Qed.

Lemma own_of_own ctl se : all_own ctl se -> own ctl se = se.
Proof. intros H. unfold own. apply filter_all. exact H. Qed.

(* this controller's entries of the merged status are exactly the computed ones ... *)
Lemma own_app ctl a b : own ctl (a ++ b) = own ctl a ++ own ctl b.
Proof. unfold own. apply filter_app. Qed.

Lemma foreign_app ctl a b : foreign ctl (a ++ b) = foreign ctl a ++ foreign ctl b.
Proof. unfold foreign. apply filter_app. Qed.

Lemma own_merge k ctl se pe : all_own ctl se -> own ctl (merge k ctl se pe) = se.
Proof.
  intros H. pose proof (own_of_own ctl se H) as H1. pose proof (own_of_foreign ctl pe) as H2.
  unfold merge. destruct (appends k); rewrite own_app, H1, H2; [apply app_nil_r|reflexivity].
Qed.

(* ... and the entries of other controllers are exactly those read, in the same order, unaltered *)
Lemma foreign_merge k ctl se pe : all_own ctl se -> foreign ctl (merge k ctl se pe) = foreign ctl pe.
Proof.
  intros H. pose proof (foreign_of_own ctl se H) as H1. pose proof (foreign_of_foreign ctl pe) as H2.
  unfold merge. destruct (appends k); rewrite foreign_app, H1, H2; [reflexivity|apply app_nil_r].
Qed.

Lemma in_merge k ctl se pe y : In y (merge k ctl se pe) <-> In y se \/ In y (foreign ctl pe).
Proof. unfold merge. destruct (appends k); rewrite in_app_iff; tauto. Qed.

Lemma merge_length k ctl se pe : List.length (merge k ctl se pe) = List.length se + List.length (foreign ctl pe).
Proof. unfold merge. destruct (appends k); rewrite app_length; lia. Qed.

(* the comparison the setters make = "same set of own entries modulo transition time" *)
Lemma entries_eq_spec k ctl se pe :
  all_own ctl se ->
  (entries_eq ctl pe (merge k ctl se pe) = true <-> same_entry_set (own ctl pe) se).
Proof.
  intros Hown. unfold entries_eq, same_entry_set. rewrite (own_merge k ctl se pe Hown).
  rewrite !andb_true_iff, !forallb_forall, Nat.eqb_eq. split.
  - intros [[HL HA] HB]. split; [|exact HL]. split.
    + intros x Hx. apply filter_In in Hx. destruct Hx as [Hx Hox].
      specialize (HA x Hx). rewrite Hox in HA. apply existsb_exists in HA. destruct HA as [y [Hy He]].
      apply entry_eqb_same in He. apply in_merge in Hy. destruct Hy as [Hy|Hy]; [exists y; auto|].
      apply filter_In in Hy. destruct Hy as [_ Hy]. rewrite <- (same_entry_own ctl x y He), Hox in Hy. discriminate.
    + intros y Hy. assert (Hm : In y (merge k ctl se pe)) by (apply in_merge; left; exact Hy).
      specialize (HB y Hm). apply existsb_exists in HB. destruct HB as [x [Hx He]].
      apply entry_eqb_same in He. exists x. split; [|exact He].
      apply filter_In. split; [exact Hx|]. rewrite <- (same_entry_own ctl y x He). apply Hown. exact Hy.
  - intros [[H1 H2] HL]. split; [split; [exact HL|]|].
    + intros x Hx. destruct (is_own ctl x) eqn:Hox; [|reflexivity].
      destruct (H1 x) as [y [Hy He]]; [apply filter_In; auto|].
      apply existsb_exists. exists y. split; [apply in_merge; left; exact Hy|apply entry_eqb_same; exact He].
    + intros y Hy. apply in_merge in Hy. apply existsb_exists. destruct Hy as [Hy|Hy].
      * destruct (H2 y Hy) as [x [Hx He]]. apply filter_In in Hx. exists x. split; [tauto|apply entry_eqb_same; exact He].
      * apply filter_In in Hy. exists y. split; [tauto|apply entry_eqb_same; apply same_entry_refl].
Qed.

(* ================================================================ the repaired setter and the retry loop *)

Lemma setter_repaired_entries k ctl se pe :
  setter repaired k ctl (SEntries se) (SEntries pe) =
  if entries_eq ctl pe (merge k ctl se pe) then (SEntries se, SEntries pe, false)
  else (SEntries se, SEntries (merge k ctl se pe), true).
Proof. reflexivity. Qed.

(* what one attempt may do, stated without the code: [se] = the computed entries of this controller *)
Inductive outcome_ok (ctl : string) (se : list entry) : attempt -> option status -> Prop :=
| ok_notfound u : outcome_ok ctl se (Att GetNotFound u) None
| ok_geterr u : outcome_ok ctl se (Att GetErr u) None
| ok_illtyped a c l u : outcome_ok ctl se (Att (GetOK (SWhole a c l)) u) None
| ok_skip pe u :
    same_entry_set (own ctl pe) se ->
    outcome_ok ctl se (Att (GetOK (SEntries pe)) u) None
| ok_submit pe u o :
    ~ same_entry_set (own ctl pe) se ->
    foreign ctl o = foreign ctl pe ->
    own ctl o = se ->
    outcome_ok ctl se (Att (GetOK (SEntries pe)) u) (Some (SEntries o)).

Lemma retry_outcomes k ctl se :
  all_own ctl se ->
  forall steps atts i a x,
    nth_error atts i = Some a ->
    nth_error (retry repaired k ctl steps (SEntries se) atts) i = Some x ->
    outcome_ok ctl se a x.
Proof.
  intros Hown. induction steps as [|n IH]; intros atts i a x Ha Hx.
  - destruct atts; destruct i; discriminate.
  - destruct atts as [|a0 rest]; [destruct i; discriminate|].
    destruct a0 as [g u]. cbn [retry a_get a_upd] in Hx. destruct g as [p| |].
    + destruct p as [pe|pa pc pl].
      * rewrite setter_repaired_entries in Hx.
        pose proof (entries_eq_spec k ctl se pe Hown) as Hspec.
        destruct (entries_eq ctl pe (merge k ctl se pe)) eqn:E.
        -- destruct i; simpl in *; [|destruct i; discriminate]. inversion Ha; inversion Hx; subst.
           apply ok_skip. apply Hspec. reflexivity.
        -- assert (Hne : ~ same_entry_set (own ctl pe) se) by (intros Hs; apply Hspec in Hs; congruence).
           destruct u.
           ++ destruct i; simpl in *; [|destruct i; discriminate]. inversion Ha; inversion Hx; subst.
              apply ok_submit; [exact Hne|apply foreign_merge; exact Hown|apply own_merge; exact Hown].
           ++ destruct i; simpl in *.
              ** inversion Ha; inversion Hx; subst.
                 apply ok_submit; [exact Hne|apply foreign_merge; exact Hown|apply own_merge; exact Hown].
              ** eapply IH; eauto.
      * simpl in Hx. destruct i; simpl in *; [|destruct i; discriminate]. inversion Ha; inversion Hx; subst.
        apply ok_illtyped.
    + destruct i; simpl in *; [|destruct i; discriminate]. inversion Ha; inversion Hx; subst. apply ok_notfound.
    + destruct i; simpl in *.
      * inversion Ha; inversion Hx; subst. apply ok_geterr.
      * eapply IH; eauto.
Qed.

(* the loop protocol: at most [steps] attempts; an attempt that failed is followed by another one while the
   budget lasts; nothing follows an attempt that did not fail *)
Definition failed (a : attempt) (x : option status) : Prop :=
  a_get a = GetErr \/ (x <> None /\ a_upd a = UpdFail).

Lemma retry_length v k ctl steps s atts : List.length (retry v k ctl steps s atts) <= Nat.min steps (List.length atts).
Proof.
  revert s atts. induction steps as [|n IH]; intros s atts; [simpl; lia|].
  destruct atts as [|[g u] rest]; [simpl; lia|]. simpl.
  destruct g as [p| |]; simpl.
  - destruct (setter v k ctl s p) as [[s' o] set]. destruct set; [|simpl; lia].
    destruct u; simpl; [lia|]. specialize (IH s' rest). lia.
  - lia.
  - specialize (IH s rest). lia.
Qed.

Lemma retry_protocol v k ctl :
  forall steps s atts i a x,
    nth_error atts i = Some a ->
    nth_error (retry v k ctl steps s atts) i = Some x ->
    (failed a x -> S i < steps -> S i < List.length atts ->
     nth_error (retry v k ctl steps s atts) (S i) <> None) /\
    (~ failed a x -> List.length (retry v k ctl steps s atts) = S i).
Proof.
  induction steps as [|n IH]; intros s atts i a x Ha Hx.
  - destruct atts; destruct i; discriminate.
  - destruct atts as [|[g u] rest]; [destruct i; discriminate|]. cbn [retry a_get a_upd] in Hx |- *.
    destruct g as [p| |]; cbn [retry a_get a_upd] in Hx |- *.
    + destruct (setter v k ctl s p) as [[s' o] set]. destruct set.
      * destruct u.
        -- destruct i; simpl in *; [|destruct i; discriminate]. inversion Ha; inversion Hx; subst.
           split; [intros [H|[_ H]]; discriminate|reflexivity].
        -- destruct i; simpl in *.
           ++ inversion Ha; inversion Hx; subst. split.
              ** intros _ Hs Hl. destruct n; [lia|]. destruct rest as [|[g2 u2] rest2]; [simpl in Hl; lia|].
                 simpl. destruct g2; simpl; try discriminate.
                 destruct (setter v k ctl s' p0) as [[s2 o2] set2]. destruct set2; [destruct u2|]; discriminate.
              ** intros Hnf. exfalso. apply Hnf. right. split; [discriminate|reflexivity].
           ++ destruct (IH s' rest i a x Ha Hx) as [H1 H2]. split.
              ** intros Hf Hs Hl. apply H1; [exact Hf|lia|lia].
              ** intros Hnf. rewrite (H2 Hnf). reflexivity.
      * destruct i; simpl in *; [|destruct i; discriminate]. inversion Ha; inversion Hx; subst.
        split; [intros [H|[H _]]; [discriminate|congruence]|reflexivity].
    + destruct i; simpl in *; [|destruct i; discriminate]. inversion Ha; inversion Hx; subst.
      split; [intros [H|[H _]]; [discriminate|congruence]|reflexivity].
    + destruct i; simpl in *.
      * inversion Ha; inversion Hx; subst. split.
        -- intros _ Hs Hl. destruct n; [lia|]. destruct rest as [|[g2 u2] rest2]; [simpl in Hl; lia|].
           simpl. destruct g2; simpl; try discriminate.
           destruct (setter v k ctl s p) as [[s2 o2] set2]. destruct set2; [destruct u2|]; discriminate.
        -- intros Hnf. exfalso. apply Hnf. left. reflexivity.
      * destruct (IH s rest i a x Ha Hx) as [H1 H2]. split.
        -- intros Hf Hs Hl. apply H1; [exact Hf|lia|lia].
        -- intros Hnf. rewrite (H2 Hnf). reflexivity.
Qed.

(* writing again what has been written (a later batch computes the same entries with a new transition
   time) is a no-op, whatever the other controllers' entries are *)
Lemma cons_inj {A} (a b : A) l l' : a :: l = b :: l' -> a = b /\ l = l'.
Proof. intros H. inversion H. auto. Qed.

Lemma map_erase_set se se2 : map erase_entry se = map erase_entry se2 -> same_entry_set se se2.
Proof.
  revert se2. induction se as [|x se IH]; destruct se2 as [|y se2]; cbn [map]; intros H; try discriminate.
  - split; [split; intros ? []|reflexivity].
  - apply cons_inj in H. destruct H as [Hxy Hrest]. destruct (IH se2 Hrest) as [[H1 H2] HL].
    split; [|cbn [List.length]; rewrite HL; reflexivity]. split.
    + intros z [<-|Hz]; [exists y; split; [left; reflexivity|exact Hxy]|].
      destruct (H1 z Hz) as [w [Hw Hs]]. exists w. split; [right; exact Hw|exact Hs].
    + intros z [<-|Hz]; [exists x; split; [left; reflexivity|symmetry; exact Hxy]|].
      destruct (H2 z Hz) as [w [Hw Hs]]. exists w. split; [right; exact Hw|exact Hs].
Qed.

Lemma rewrite_is_noop k ctl se2 o :
  all_own ctl se2 -> map erase_entry (own ctl o) = map erase_entry se2 ->
  forall n u rest, retry repaired k ctl (S n) (SEntries se2) (Att (GetOK (SEntries o)) u :: rest) = [None].
Proof.
  intros Hown Hsame n u rest. simpl.
  assert (E : entries_eq ctl o (merge k ctl se2 o) = true).
  { apply entries_eq_spec; [exact Hown|]. apply map_erase_set. exact Hsame. }
  rewrite E. reflexivity.
Qed.

(* ================================================================ statuses owned entirely (GatewayClass, NginxGateway, Gateway) *)

Lemma setter_whole v k ctl a c l pa pc pl :
  setter v k ctl (SWhole a c l) (SWhole pa pc pl) =
  if whole_eq k (SWhole pa pc pl) (SWhole a c l) then (SWhole a c l, SWhole pa pc pl, false)
  else (SWhole a c l, SWhole a c l, true).
Proof. reflexivity. Qed.

Lemma conds_eqb_erase a b : conds_eqb a b = true <-> map erase_cond a = map erase_cond b.
Proof. apply list_eqb_map. exact cond_eqb_erase. Qed.

Definition erase_listener (l : listener) : listener :=
  Lst (l_name l) (l_attached l) (map (fun kg => (fst kg, Some (deref (snd kg)))) (l_kinds l)) (map erase_cond (l_conds l)).

Lemma listener_eqb_erase a b : listener_eqb a b = true <-> erase_listener a = erase_listener b.
Proof.
  destruct a, b. unfold listener_eqb, erase_listener, kinds_eqb. simpl.
  rewrite !andb_true_iff, String.eqb_eq, Z.eqb_eq, conds_eqb_erase.
  rewrite (list_eqb_map _ (fun kg : string * option string => (fst kg, Some (deref (snd kg))))).
  - split; [intros (((-> & ->) & ->) & ->); reflexivity|intros H; inversion H; subst; tauto].
  - intros [x1 x2] [y1 y2]. simpl. rewrite andb_true_iff, String.eqb_eq, ptr_eqb_deref.
    split; [intros [-> ->]; reflexivity|intros H; inversion H; subst; split; reflexivity].
Qed.

(* "equal but for the transition time" for a Gateway status *)
Definition erase_whole (s : status) : status :=
  match s with
  | SWhole a c l => SWhole (map (fun tv => (Some (deref (fst tv)), snd tv)) a) (map erase_cond c) (map erase_listener l)
  | SEntries es => SEntries (map erase_entry es)
  end.

Lemma whole_eq_gateway a c l pa pc pl :
  whole_eq KGateway (SWhole pa pc pl) (SWhole a c l) = true <->
  erase_whole (SWhole pa pc pl) = erase_whole (SWhole a c l).
Proof.
  simpl. unfold addrs_eqb. rewrite !andb_true_iff, conds_eqb_erase,
    (list_eqb_map listener_eqb erase_listener listener_eqb_erase).
  rewrite (list_eqb_map _ (fun tv : option string * string => (Some (deref (fst tv)), snd tv))).
  - split; [intros ((-> & ->) & ->); reflexivity|intros H; inversion H; subst; tauto].
  - intros [x1 x2] [y1 y2]. simpl. rewrite andb_true_iff, String.eqb_eq, ptr_eqb_deref.
    split; [intros [H ->]; inversion H; subst; rewrite H1; reflexivity|intros H; inversion H; subst; split; [rewrite H1|]; reflexivity].
Qed.

(* ================================================================ the ancestor limit *)

Lemma attach_all_bound nf ts : forall na,
  nf + na <= max_ancestors -> nf + attach_all nf na ts <= max_ancestors.
Proof.
  induction ts as [|t ts IH]; intros na H; simpl; [exact H|].
  unfold ancestors_full. destruct (max_ancestors <=? nf + na) eqn:E.
  - apply IH. exact H.
  - apply Nat.leb_gt in E. destruct t; apply IH; lia.
Qed.

(* ================================================================ the code as found violates the statements *)

Local Open Scope string_scope.

Definition ex_ctl := "gateway.nginx.org/nginx-gateway-controller".
Definition ex_cond (t : string) (time : Z) := Cond t "True" "Accepted" 1 10%N 2%Z time.
Definition ex_foreign := Entry "example.com/gateway" [Some "other-gw"; Some "default"; None] 0 [ex_cond "Accepted" 5%Z].
Definition ex_own (time : Z) := Entry ex_ctl [Some "gw"; Some "default"; None] 0 [ex_cond "Accepted" time; ex_cond "ResolvedRefs" time].
Definition ex_prev := SEntries [ex_foreign; ex_own 7%Z].
Definition ex_stale := SEntries [ex_foreign; Entry ex_ctl [Some "gw"; Some "default"; None] 0 [ex_cond "Accepted" 7%Z]].

(* D15: get ok, update conflict, retry: the second submission carries the foreign entry twice *)
Lemma d15_witness :
  retry as_found KHTTPRoute ex_ctl 4 (SEntries [ex_own 9%Z])
        [Att (GetOK ex_stale) UpdFail; Att (GetOK ex_stale) UpdOK] =
  [Some (SEntries [ex_own 9%Z; ex_foreign]); Some (SEntries [ex_own 9%Z; ex_foreign; ex_foreign])].
Proof. vm_compute. reflexivity. Qed.

(* the repaired setter on the same input *)
Lemma d15_witness_repaired :
  retry repaired KHTTPRoute ex_ctl 4 (SEntries [ex_own 9%Z])
        [Att (GetOK ex_stale) UpdFail; Att (GetOK ex_stale) UpdOK] =
  [Some (SEntries [ex_own 9%Z; ex_foreign]); Some (SEntries [ex_own 9%Z; ex_foreign])].
Proof. vm_compute. reflexivity. Qed.

Lemma d16_witness :
  map c_mlen (mk_conds as_found 1%Z 0%Z [PC "Accepted" "False" "UnsupportedValue" 1 40000%N]) = [40000%N].
Proof. vm_compute. reflexivity. Qed.

(* ================================================================ non-vacuity of the hypotheses *)

Example all_own_example : all_own ex_ctl [ex_own 9%Z].
Proof. intros e [<-|[]]. vm_compute. reflexivity. Qed.

(* a run with a failed get, a conflict and a success: two identical submissions; then a no-op *)
Example retry_example :
  retry repaired KHTTPRoute ex_ctl 4 (SEntries [ex_own 9%Z])
        [Att GetErr UpdOK; Att (GetOK ex_stale) UpdFail; Att (GetOK ex_stale) UpdOK; Att (GetOK ex_stale) UpdOK] =
  [None; Some (SEntries [ex_own 9%Z; ex_foreign]); Some (SEntries [ex_own 9%Z; ex_foreign])]
  /\ retry repaired KHTTPRoute ex_ctl 4 (SEntries [ex_own 11%Z]) [Att (GetOK (SEntries [ex_own 9%Z; ex_foreign])) UpdOK] = [None].
Proof. vm_compute. split; reflexivity. Qed.

Example skip_example : same_entry_set (own ex_ctl [ex_foreign; ex_own 7%Z]) [ex_own 9%Z].
Proof.
  vm_compute. split; [|reflexivity]. split; intros x [<-|[]]; eexists; (split; [left; reflexivity|reflexivity]).
Qed.

Example dedup_example :
  dedup [PC "Accepted" "True" "Accepted" 1 5%N; PC "ResolvedRefs" "True" "ResolvedRefs" 2 5%N;
         PC "Accepted" "False" "Invalid" 3 7%N] =
  [PC "ResolvedRefs" "True" "ResolvedRefs" 2 5%N; PC "Accepted" "False" "Invalid" 3 7%N].
Proof. vm_compute. reflexivity. Qed.

Example attach_example : attach_all 10 0 [true; true; false; true; true; true; true; true; true] = 6.
Proof. vm_compute. reflexivity. Qed.

(* ================================================================ statements as used in Props.v *)

Lemma dedup_spec l :
  NoDup (map p_type (dedup l)) /\
  (forall c, In c (dedup l) <->
             exists l1 l2, l = (l1 ++ c :: l2)%list /\ forall d, In d l2 -> p_type d <> p_type c).
Proof. rewrite dedup_last_wins. split; [apply last_wins_nodup|intros c; apply last_wins_in_iff]. Qed.

Lemma conditions_within_limits gen time l :
  NoDup (map c_type (mk_conds repaired gen time l)) /\
  (forall c, In c (mk_conds repaired gen time l) -> (c_mlen c <= msg_cap)%N /\ c_gen c = gen /\ c_time c = time) /\
  (forall K, (forall c, In c l -> In (p_type c) K) -> List.length (mk_conds repaired gen time l) <= List.length K).
Proof.
  split; [apply mk_conds_nodup|]. split.
  - intros c Hc. split; [eapply mk_conds_msg_bound; eauto|eapply mk_conds_gen_time; eauto].
  - intros K HK. apply mk_conds_count. exact HK.
Qed.

Lemma gateway_status_write v ctl a c l pa pc pl :
  let s := SWhole a c l in let p := SWhole pa pc pl in
  (erase_whole p = erase_whole s -> setter v KGateway ctl s p = (s, p, false)) /\
  (erase_whole p <> erase_whole s -> setter v KGateway ctl s p = (s, s, true)).
Proof.
  intros s p. unfold s, p. rewrite setter_whole. pose proof (whole_eq_gateway a c l pa pc pl) as H.
  destruct (whole_eq KGateway (SWhole pa pc pl) (SWhole a c l)).
  - split; [reflexivity|]. intros Hne. exfalso. apply Hne. apply H. reflexivity.
  - split; [|reflexivity]. intros He. apply H in He. discriminate.
Qed.

Lemma conditions_status_write v k ctl a c l pa pc pl :
  k = KGatewayClass \/ k = KNginxGateway ->
  let s := SWhole a c l in let p := SWhole pa pc pl in
  (map erase_cond pc = map erase_cond c -> setter v k ctl s p = (s, p, false)) /\
  (map erase_cond pc <> map erase_cond c -> setter v k ctl s p = (s, s, true)).
Proof.
  intros Hk s p. unfold s, p. rewrite setter_whole. pose proof (conds_eqb_erase pc c) as H.
  assert (E : whole_eq k (SWhole pa pc pl) (SWhole a c l) = conds_eqb pc c) by (destruct Hk; subst; reflexivity).
  rewrite E. destruct (conds_eqb pc c).
  - split; [reflexivity|]. intros Hne. exfalso. apply Hne. apply H. reflexivity.
  - split; [|reflexivity]. intros He. apply H in He. discriminate.
Qed.

Lemma ancestor_limit nf targets : nf <= max_ancestors -> nf + attach_all nf 0 targets <= max_ancestors.
Proof. intros H. apply attach_all_bound. lia. Qed.

Lemma d15_refuted :
  exists k ctl se atts i pe u o,
    all_own ctl se /\
    nth_error atts i = Some (Att (GetOK (SEntries pe)) u) /\
    nth_error (retry as_found k ctl 4 (SEntries se) atts) i = Some (Some (SEntries o)) /\
    foreign ctl o <> foreign ctl pe.
Proof.
  exists KHTTPRoute, ex_ctl, [ex_own 9%Z],
    [Att (GetOK ex_stale) UpdFail; Att (GetOK ex_stale) UpdOK], 1,
    [ex_foreign; Entry ex_ctl [Some "gw"; Some "default"; None] 0 [ex_cond "Accepted" 7%Z]], UpdOK,
    [ex_own 9%Z; ex_foreign; ex_foreign].
  split; [exact all_own_example|]. split; [reflexivity|]. split.
  - rewrite d15_witness. reflexivity.
  - vm_compute. discriminate.
Qed.

Lemma d16_refuted :
  exists gen time l c, In c (mk_conds as_found gen time l) /\ (msg_cap < c_mlen c)%N.
Proof.
  exists 1%Z, 0%Z, [PC "Accepted" "False" "UnsupportedValue" 1 40000%N],
    (Cond "Accepted" "False" "UnsupportedValue" 1 40000%N 1%Z 0%Z).
  split; [vm_compute; left; reflexivity|vm_compute; reflexivity].
Qed.
