"""C08 check configuration."""


def setup(register, COMMON_TB):
    register(
        "C08", coq="C08", pkg="./internal/mode/static/status/", test="TestVerifC08",
        rule="one resource of one of the nine kinds per case: the real Prepare*Requests build the request, the real setter runs "
             "inside the real NewRetryUpdateFunc under wait.ExponentialBackoffWithContext (4 steps) against a fault-injecting "
             "getter/updater; the first 256 generated cases enumerate every plan over {ok, get error, update conflict, not found}^4, "
             "the rest draw plans at random (also non-conflict update errors); every successful Get may serve a different previous "
             "status (own entries same/changed/missing/stale/shuffled/duplicated, 0..limit foreign entries, changed by a foreign "
             "writer between attempts); a second fault-free round with a later transition time (same or bumped generation) follows; "
             "fixed cases: D15 and D16 witnesses, one run of the real Updater (real back-off constants), one write per condition "
             "constructor of the repository (60). Non-trivial = at least two attempts performed and (a foreign entry served, or a "
             "wholly-owned status with a non-empty previous status); distinct = distinct Coq term",
        trusted_base=COMMON_TB + [
            "API server stand-in: a schema walker over the real CRD YAML (config/crd/bases, gateway-api config/crd/experimental of the "
            "module cache): type, required, items, min/maxItems, min/maxLength in runes, pattern, enum, date-time, list-map keys; "
            "CEL rules are not evaluated; nulls are rejected",
            "getter/updater fakes: Get overwrites the object like controller-runtime's cache reader (deep copy + reflect Set); "
            "conflict, other update errors, get errors and not-found are injected by plan",
            "projection: a message is identified by its first 128 bytes and its length in runes; reference fields the setters do not "
            "compare are interned to a number",
            "the harness states the order in which prepare_requests.go concatenates conditions (defaults, resource, attachment, reload); "
            "a different order in the code shows as a correspondence mismatch",
        ],
        assumptions=[
            "previous statuses are admissible (the API server stored them) and foreign entries + computed entries fit the CRD's entry "
            "limit (routes 32, policies and snippets filters 16)",
            "for NGF policies that bound comes from ngfPolicyAncestorsFull in graph/policy_ancestor.go: modelled (attach_all) and proved "
            "(C08_ancestor_limit_partial), not driven by this harness (unexported, other package); it holds for the foreign entries seen "
            "when the graph was built",
            "entries of this controller in a previous status carry the reference fields it writes, and for Routes in half of the cases also the CRD defaults an "
            "API server adds to a parentRef (group gateway.networking.k8s.io, kind Gateway); never a port",
            "the computed entries of one resource have pairwise different references (one per parentRef / ancestor)",
            "an absent optional reference field equals the empty string (helpers.EqualPointers); mirrored in the model and in erase_entry",
        ],
        timeout={"quick": 900, "thorough": 3600},
    )
