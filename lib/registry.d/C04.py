"""C04 check configuration."""
import gen



def setup(register, COMMON_TB):
    register(
        "C04", coq="C04", coq_extra=["gen", "ngx"], pkg="./internal/mode/static/", test="TestVerifC04", gen=gen.gen_c03,
        extra=[dict(pkg="./internal/mode/static/", test="TestVerifTmpl"),
               dict(pkg="./internal/mode/static/nginx/config/validation/", test="TestVerifValid"),
               dict(pkg="./cmd/crossplane/", test="TestVerifLexCross04", cwd="tests/framework/crossplane")],
        rule="one string leaf of a rich valid state (Gateway, HTTPRoute/GRPCRoute matches and filters, NginxProxy, ClientSettings/Observability/"
             "UpstreamSettings policies, BackendTLSPolicy: 56 leaves) is set to its valid value followed or interrupted by one of 19 hostile payloads "
             "(every payload carries the marker zqx); the real pipeline is run on the benign and on the hostile state and both outputs are parsed "
             "inside Coq; quick samples 3 payloads per leaf (chosen by the seed), thorough runs the full cross product; every case is non-trivial; distinct = (leaf, value). Third part (validators, evaluated by C04/ValidCheck.v): the real "
             "validators of nginx/config/validation on all words up to length 3 over eleven tokenizer-relevant characters and on 4000 (thorough 60000) strings built "
             "around valid cores; the model's verdict must equal the real one, and every ACCEPTED value must be absorbed whole by the position class of its "
             "validator (unquoted argument / double-quoted argument / plain)"
             " Second part (templates, evaluated by ngx/TmplCheck.v): every execution of every text/template of the generator inside the real pipeline is recorded (wrapper installed around the package variables); the model of the template engine (ngx/Tmpl.v) is run on the parse tree regenerated from the source (gen/Templates.v) and on the data obtained by reflection, and must reproduce the text byte for byte; user-controlled string leaves are holes (marked: the marker-carrying benign value of every leaf; spaced: one leaf followed by a space and a word; states: generated states, every plain string leaf of unnamed type that no template constant equals); the symbolic tokenizer run over the chunks must not hit a lexical error, a hole that needs quoting outside quotes, a hole in directive-name position, or an unfinished token Further part (TestVerifLexCross04, evaluated by ngx/LexCross.v): the files of the first 60 (quick) / 600 (thorough) hostile runs tokenized by nginx-go-crossplane v0.4.71 = the tokens of ngx/Lexer.v",
        trusted_base=COMMON_TB + [
            "validators part: gen/Validators.v is regenerated from the compiled regexps of nginx/config/validation (translator harness/verifutil/regex.go: "
            "byte-level full match; it stops on case folding, on inner anchors and on classes that contain some but not all non-ASCII runes; the number of "
            "regexp compilations in the package must equal the number registered); C04/Valid.v mirrors validatePath, validateEscapedString(NoVarExpansion), "
            "validateHeaderName (k8s IsHTTPHeaderName copied by hand) and the GenericValidator methods; which validator guards which field is not modelled "
            "(covered by the leaf x payload part)",
            "ngx/Tmpl.v: model of text/template execution for the subset the repository uses (truth, field access through pointers and string-keyed maps, "
            "printing of strings/integers/booleans, and/or/not/eq, variables with scopes, range/else, if/else); anything else is an error and shows as a mismatch",
            "translator harness/verifutil/tmpl.go (parse tree -> gen/Templates.v, panics on constructs outside the subset; the number of Parse calls in the "
            "sources below internal/ must equal the number of registered template variables) and reflection of template data into Tmpl.value",
            "add-only hook files zz_verif_tmpl.go (build tag verif, overlaid) exposing the addresses of the package-level template variables",
            "ngx/Lexer.v: NGINX tokenizer written from the NGINX source/documentation; which directive arguments NGINX interpolates (ngx/Wf.v interpolated_args)",
            "the list of string leaves is hand-enumerated (the fake API server admits any value, i.e. schema validation is bypassed)",
            "status 'reported' is decided by comparing all conditions of all objects between the benign and the hostile run",
        ],
        assumptions=["SnippetsFilter bodies are excluded (raw configuration by design)"],
        timeout={"quick": 900, "thorough": 3600},
    )
