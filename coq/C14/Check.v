(* C14 — oracle: the generated configuration (parsed; top-level blocks as multisets; match keys replaced
   by the match lists they denote) and the (object, type, status, reason) of every condition are a
   function of the cluster state only: the REAL pipeline is run several times on the same state with the
   events delivered in different orders and batchings (Go re-randomises map iteration in every run), and
   all runs must agree.  That the common result is the right one (oldest, then namespace/name wins) is
   what the C02/C07/C16 oracles check against the specification. *)
From Coq Require Import List String Ascii ZArith Bool Arith.
From NGF Require Export lib.CaseLib lib.Str k8s.State k8s.Spec ngx.Lexer ngx.Eval C04.Check C17.Check.
Import ListNotations.
Local Open Scope string_scope.
Local Open Scope list_scope.

Record run := Run { r_files : list (string * string); r_matches : matchtable; r_conds : list string }.

Record case := Case {
  k_cluster : cluster; k_runs : list run;
  k_tls : list (string * string * Z * list string * list string)    (* TLSRoutes of the state: namespace, name, age, hostnames, sectionNames ("" = none) *)
}.

Definition runs_agree (a b : run) : list (nat * string) :=
  (if files_equal (r_files a) (r_matches a) (r_files b) (r_matches b) then [] else [(code_violation, "configuration differs between two runs")]) ++
  (if str_list_eqb (r_conds a) (r_conds b) then [] else [(code_violation, "conditions differ between two runs")]).

(* "the losers are told so in status", BackendTLSPolicies on one Service. Stated on the observed conditions, in the
   one situation where it is certain that the competition was in front of the controller: the winner (oldest, then
   namespace/name) targets that Service only and carries an entry of one of our Gateways (so the Service is a backend of
   a Route the controller handles); a loser that targets that Service only must then carry an entry that is not Accepted. *)
Definition btp_entry_prefixes (cs : cluster) (b : btp) : list string :=
  map (fun g => ("BackendTLSPolicy/" ++ bt_ns b ++ "/" ++ bt_name b ++ "|ancestor " ++ g_name g ++ "|")%string) (c_gateways cs).
Definition btp_has_entry (cs : cluster) (conds : list string) (b : btp) : bool :=
  existsb (fun c => existsb (fun p => has_prefix p c) (btp_entry_prefixes cs b)) conds.
Definition btp_told_no (cs : cluster) (conds : list string) (b : btp) : bool :=
  existsb (fun c => existsb (fun p => has_prefix (p ++ "Accepted=False")%string c) (btp_entry_prefixes cs b)) conds.
Definition same_btp (a b : btp) : bool := seqb (bt_ns a) (bt_ns b) && seqb (bt_name a) (bt_name b).
Definition silent_losers (cs : cluster) (conds : list string) : list btp :=
  filter (fun b =>
    match bt_targets b with
    | [svc] =>
        match btp_for cs (bt_ns b) svc with
        | Some w => negb (same_btp w b) && (match bt_targets w with [_] => true | _ => false end) &&
                    btp_has_entry cs conds w && negb (btp_told_no cs conds b)
        | None => false
        end
    | _ => false
    end) (c_btps cs).

(* class of finding D49: a map of the stream configuration has one key twice (a TLS listener's own name and a Route's); the order of
   the two entries follows Go map iteration *)
Fixpoint dirs_deep (fuel : nat) (ds : list dir) : list dir :=
  match fuel with
  | 0 => ds
  | S f => ds ++ flat_map (fun d => match d_block d with Some b => dirs_deep f b | None => [] end) ds
  end.
Definition has_dup_map_key (files : list (string * string)) : bool :=
  match parse_all files with
  | Some pf =>
      existsb (fun d => seqb (d_name d) "map" &&
                 match d_block d with
                 | Some l => negb (Nat.eqb (List.length l) (List.length (nodup string_dec (map (fun e => lower (d_name e)) l))))
                 | None => false
                 end) (dirs_deep 3 (flat_map snd pf))
  | None => false
  end.

(* "TLSRoutes claiming one hostname ... the winner is the oldest ... and the losers are told so in status". Stated on the observed
   conditions for the plain case: a TLSRoute with one hostname and one parentRef naming a listener, while an older TLSRoute (age, then
   name) carries that hostname and is reported Accepted on that listener (names it): its entry must not be Accepted=True. *)
Definition tls_older (a b : string * string * Z * list string * list string) : bool :=
  let '(_, n1, t1, _, _) := a in let '(_, n2, t2, _, _) := b in older t1 "" n1 t2 "" n2.
Definition tls_accepted_on (conds : list string) (ns n s : string) : bool :=
  existsb (fun x => has_prefix ("TLSRoute/" ++ ns ++ "/" ++ n ++ "|")%string x && has_suffix "|Accepted=True:Accepted" x &&
                    existsb (fun part => has_prefix ("parent ")%string part && has_suffix ("/" ++ s ++ " by " ++ our_controller)%string part)
                            (split_on "|"%char x)) conds.
(* the older Route must itself be reported Accepted through a parentRef that names the listener: a Route the controller did not
   build (repeated parentRefs, say) holds no hostname *)
Definition unwarned_tls_losers (c : case) (conds : list string) : list string :=
  flat_map (fun r2 =>
    let '(ns2, n2, _, hs2, ss2) := r2 in
    match hs2, ss2 with
    | [h], [s] =>
        if negb (seqb s "") &&
           existsb (fun r1 => let '(ns1, n1, _, hs1, ss1) := r1 in
                              tls_older r1 r2 && mem_str h hs1 && mem_str s ss1 && tls_accepted_on conds ns1 n1 s) (k_tls c) &&
           tls_accepted_on conds ns2 n2 s
        then [n2] else []
    | _, _ => []
    end) (k_tls c).

Definition complaints (c : case) : list (nat * string) :=
  match k_runs c with
  | [] => []
  | r0 :: rest =>
      let cs := flat_map (runs_agree r0) rest in
      (match cs with
       | [] => []
       | _ => if has_mixed_group (k_cluster c) then [(code_known 33, "runs differ (finding D33/D19: HTTPRoute and GRPCRoute share host and path)")]
              else if has_dup_map_key (r_files r0) then [(code_known 49, "runs differ (finding D49: a stream map with one key twice, in map-iteration order)")]
              else cs
       end) ++
      (match unwarned_tls_losers c (r_conds r0) with
       | [] => []
       | _ => [(code_violation, "a TLSRoute that lost its hostname to an older TLSRoute is reported Accepted")]
       end) ++
      (match silent_losers (k_cluster c) (r_conds r0) with
       | [] => []
       | _ => [(code_known 46, "a BackendTLSPolicy that lost against an older policy on the same Service carries no status entry (finding D46)")]
       end)
  end.

Definition check_case (c : case) : list nat := dedup_nat (map fst (complaints c)).
