From Coq Require Import List String ZArith Bool.
From NGF Require Import C13.Model C13.Proofs.
Import ListNotations.
