(* Template execution does not depend on what the holes contain.

   [exec_fill]: if the template runs on data with holes and yields chunks, then for EVERY substitution of the holes by
   non-empty strings that avoid the template's string constants, the template runs on the filled-in data and yields
   exactly the filled-in chunks: same branches taken, same iterations, same literal text, the substituted strings
   appearing verbatim at the holes' positions and nowhere else. *)
From Coq Require Import List String Ascii ZArith Bool Arith Lia.
From NGF Require Import ngx.Tmpl.
Import ListNotations.
Local Open Scope string_scope.
Local Open Scope list_scope.

Section Fill.
  Variable sg : nat -> string.
  Variable tc : list string.
  Hypothesis sg_nonempty : forall id, sg id <> "".
  Hypothesis sg_avoids : forall id, mem_string (sg id) tc = false.

  Notation fillp := (fun p : string * value => (fst p, fill sg (snd p))).

  Lemma lookup_fill : forall fs f,
    lookup (map fillp fs) f = match lookup fs f with Some v => Some (fill sg v) | None => None end.
  Proof.
    induction fs as [|[k v] fs IH]; intros f; [reflexivity|].
    cbn [map lookup fst snd]. destruct (String.eqb k f); [reflexivity|apply IH].
  Qed.

  Lemma field_fill : forall v f r, field v f = Some r -> field (fill sg v) f = Some (fill sg r).
  Proof.
    induction v as [| | b | z | s | id | v' IH | l | fs | fs]; intros f r H; cbn [field fill] in *; try discriminate.
    - apply IH. exact H.
    - rewrite lookup_fill, H. reflexivity.
    - rewrite lookup_fill. destruct (lookup fs f) as [v|]; inversion H; subst; reflexivity.
  Qed.

  Lemma truth_fill : forall v, truth (fill sg v) = truth v.
  Proof.
    destruct v as [| | b | z | s | id | v' | l | fs | fs]; cbn [truth fill]; try reflexivity.
    - destruct (String.eqb (sg id) "") eqn:E; [|reflexivity].
      apply String.eqb_eq in E. exfalso. exact (sg_nonempty id E).
    - destruct l; reflexivity.
    - destruct fs; reflexivity.
  Qed.

  Lemma print_fill : forall v c, print v = Some c -> print (fill sg v) = Some (fill_chunk sg c).
  Proof.
    induction v as [| | b | z | s | id | v' IH | l | fs | fs]; intros c H; cbn [print fill] in *; try discriminate;
      try (inversion H; subst; reflexivity).
    apply IH. exact H.
  Qed.

  Lemma mem_string_true : forall s l, mem_string s l = true -> In s l.
  Proof.
    intros s l H. unfold mem_string in H. apply existsb_exists in H. destruct H as [x [Hin Hx]].
    apply String.eqb_eq in Hx. subst. exact Hin.
  Qed.

  Lemma avoid_neq : forall id y, mem_string y tc = true -> String.eqb (sg id) y = false.
  Proof.
    intros id y Hy. destruct (String.eqb (sg id) y) eqn:E; [|reflexivity].
    apply String.eqb_eq in E. subst y. rewrite sg_avoids in Hy. discriminate.
  Qed.

  Lemma veq_fill : forall a b r, veq tc a b = Some r -> veq tc (fill sg a) (fill sg b) = Some r.
  Proof.
    intros a b r H.
    destruct a as [| | ba | za | sa | ida | va | la | fa | fa]; destruct b as [| | bb | zb | sb | idb | vb | lb | fb | fb];
      cbn [veq fill] in *; try discriminate; try exact H.
    - (* string, hole *)
      destruct (mem_string sa tc) eqn:M; [|discriminate]. inversion H; subst.
      rewrite String.eqb_sym. rewrite avoid_neq by exact M. reflexivity.
    - (* hole, string *)
      destruct (mem_string sb tc) eqn:M; [|discriminate]. inversion H; subst.
      rewrite avoid_neq by exact M. reflexivity.
  Qed.

  Lemma lookup_fill_vars : forall vs x v, lookup vs x = Some v -> lookup (fill_vars sg vs) x = Some (fill sg v).
  Proof. intros vs x v H. unfold fill_vars. rewrite lookup_fill, H. reflexivity. Qed.

  Lemma assign_fill : forall vs x v vs', assign vs x v = Some vs' ->
    assign (fill_vars sg vs) x (fill sg v) = Some (fill_vars sg vs').
  Proof.
    induction vs as [|[k old] vs IH]; intros x v vs' H; cbn [assign fill_vars map fst snd] in *; [discriminate|].
    destruct (String.eqb k x).
    - inversion H; subst. reflexivity.
    - destruct (assign vs x v) as [r|] eqn:E; [|discriminate]. inversion H; subst.
      fold (fill_vars sg vs). rewrite (IH x v r E). reflexivity.
  Qed.

  Lemma andor_fill : forall (ev ev' : expr -> option value) want,
    (forall a v, ev a = Some v -> ev' a = Some (fill sg v)) ->
    forall args v, andor ev want args = Some v -> andor ev' want args = Some (fill sg v).
  Proof.
    intros ev ev' want Hev. induction args as [|a args IHa]; intros v H; cbn [andor] in *; [discriminate|].
    destruct (ev a) as [va|] eqn:Ea; [|discriminate].
    rewrite (Hev _ _ Ea).
    destruct args as [|a2 args].
    - inversion H; subst. reflexivity.
    - rewrite truth_fill. destruct (truth va) as [bb|]; [|discriminate].
      destruct (Bool.eqb bb want).
      + inversion H; subst. reflexivity.
      + apply IHa. exact H.
  Qed.

  Lemma eval_fill : forall f dot vs e v, eval tc f dot vs e = Some v ->
    eval tc f (fill sg dot) (fill_vars sg vs) e = Some (fill sg v).
  Proof.
    induction f as [|f IH]; intros dot vs e v H; [discriminate|].
    destruct e as [| x | e' fl | s | z | b | fn args]; cbn [eval] in *.
    - inversion H; subst. reflexivity.
    - apply lookup_fill_vars. exact H.
    - destruct (eval tc f dot vs e') as [v'|] eqn:E; [|discriminate].
      rewrite (IH _ _ _ _ E). apply field_fill. exact H.
    - inversion H; subst. reflexivity.
    - inversion H; subst. reflexivity.
    - inversion H; subst. reflexivity.
    - destruct (String.eqb fn "not").
      { destruct args as [|a [|a2 args]]; try discriminate.
        destruct (eval tc f dot vs a) as [va|] eqn:E; [|discriminate].
        rewrite (IH _ _ _ _ E), truth_fill. destruct (truth va) as [bb|]; [|discriminate].
        inversion H; subst. reflexivity. }
      destruct (String.eqb fn "eq").
      { destruct args as [|a [|b [|c args]]]; try discriminate.
        destruct (eval tc f dot vs a) as [va|] eqn:Ea; [|discriminate].
        destruct (eval tc f dot vs b) as [vb|] eqn:Eb; [|discriminate].
        rewrite (IH _ _ _ _ Ea), (IH _ _ _ _ Eb).
        destruct (veq tc va vb) as [r|] eqn:Er; [|discriminate].
        rewrite (veq_fill _ _ _ Er). inversion H; subst. reflexivity. }
      destruct (String.eqb fn "or" || String.eqb fn "and"); [|discriminate].
      apply (andor_fill (eval tc f dot vs)); [|exact H].
      intros a va Ea. apply IH. exact Ea.
  Qed.

  Lemma fill_vars_length : forall vs, List.length (fill_vars sg vs) = List.length vs.
  Proof. intros vs. unfold fill_vars. apply map_length. Qed.

  Lemma keep_last_fill : forall n vs, keep_last n (fill_vars sg vs) = fill_vars sg (keep_last n vs).
  Proof.
    intros n vs. unfold keep_last. rewrite fill_vars_length. unfold fill_vars. rewrite skipn_map. reflexivity.
  Qed.

  Notation fillc := (map (fill_chunk sg)).

  Lemma range_loop_fill : forall (rb rb' : value -> vars -> option (list chunk * vars)) x,
    (forall it inner o vs1, rb it inner = Some (o, vs1) ->
                            rb' (fill sg it) (fill_vars sg inner) = Some (fillc o, fill_vars sg vs1)) ->
    forall its cur o vsr, range_loop rb x its cur = Some (o, vsr) ->
      range_loop rb' x (map (fill sg) its) (fill_vars sg cur) = Some (fillc o, fill_vars sg vsr).
  Proof.
    intros rb rb' x Hrb. induction its as [|it its IHl]; intros cur o vsr Hl; cbn [range_loop map] in *; cbv zeta in *.
    - inversion Hl; subst. reflexivity.
    - destruct x as [xn|].
      + destruct (rb it ((xn, it) :: cur)) as [[o1 vs1]|] eqn:Eb; [|discriminate].
        change ((xn, fill sg it) :: fill_vars sg cur) with (fill_vars sg ((xn, it) :: cur)).
        rewrite (Hrb _ _ _ _ Eb), fill_vars_length, keep_last_fill.
        destruct (range_loop rb (Some xn) its (keep_last (List.length cur) vs1)) as [[o2 vs2]|] eqn:El; [|discriminate].
        rewrite (IHl _ _ _ El). inversion Hl; subst. rewrite map_app. reflexivity.
      + destruct (rb it cur) as [[o1 vs1]|] eqn:Eb; [|discriminate].
        rewrite (Hrb _ _ _ _ Eb), fill_vars_length, keep_last_fill.
        destruct (range_loop rb None its (keep_last (List.length cur) vs1)) as [[o2 vs2]|] eqn:El; [|discriminate].
        rewrite (IHl _ _ _ El). inversion Hl; subst. rewrite map_app. reflexivity.
  Qed.

  Theorem exec_fill : forall f dot vs ns out vs',
    exec tc f dot vs ns = Some (out, vs') ->
    exec tc f (fill sg dot) (fill_vars sg vs) ns = Some (fillc out, fill_vars sg vs').
  Proof.
    induction f as [|f IH]; intros dot vs ns out vs' H; [discriminate|].
    destruct ns as [|n rest]; cbn [exec] in *.
    { inversion H; subst. reflexivity. }
    (* the continuation: run the rest *)
    assert (K : forall r o1 vs1,
               r = Some (o1, vs1) ->
               match exec tc f dot vs1 rest with
               | Some (o2, vs2) => Some (o1 ++ o2, vs2)
               | None => None
               end = Some (out, vs') ->
               match exec tc f (fill sg dot) (fill_vars sg vs1) rest with
               | Some (o2, vs2) => Some (fillc o1 ++ o2, vs2)
               | None => None
               end = Some (fillc out, fill_vars sg vs')).
    { intros r o1 vs1 _ Hk. destruct (exec tc f dot vs1 rest) as [[o2 vs2]|] eqn:E; [|discriminate].
      rewrite (IH _ _ _ _ _ E). inversion Hk; subst. rewrite map_app. reflexivity. }
    destruct n as [s | e | c th el | x e body el | x e | x e].
    - (* text *)
      exact (K _ _ _ eq_refl H).
    - (* print *)
      destruct (eval tc f dot vs e) as [v|] eqn:Ev; [|discriminate].
      rewrite (eval_fill _ _ _ _ _ Ev).
      destruct (print v) as [c|] eqn:Ep; [|discriminate].
      rewrite (print_fill _ _ Ep). exact (K _ _ _ eq_refl H).
    - (* if *)
      destruct (eval tc f dot vs c) as [v|] eqn:Ev; [|discriminate].
      rewrite (eval_fill _ _ _ _ _ Ev), truth_fill.
      destruct (truth v) as [b|]; [|discriminate].
      destruct (exec tc f dot vs (if b then th else el)) as [[o vs1]|] eqn:Eb; [|discriminate].
      rewrite (IH _ _ _ _ _ Eb), fill_vars_length, keep_last_fill.
      exact (K _ _ _ eq_refl H).
    - (* range *)
      destruct (eval tc f dot vs e) as [v|] eqn:Ev; [|discriminate].
      rewrite (eval_fill _ _ _ _ _ Ev).
      destruct v as [| | | | | | | items | |]; try discriminate. cbn [fill].
      destruct items as [|it items].
      + cbn [map].
        destruct (exec tc f dot vs el) as [[o vs1]|] eqn:Eb; [|discriminate].
        rewrite (IH _ _ _ _ _ Eb), fill_vars_length, keep_last_fill.
        exact (K _ _ _ eq_refl H).
      + destruct (range_loop (fun it0 inner => exec tc f it0 inner body) x (it :: items) vs) as [[o vs1]|] eqn:El; [|discriminate].
        rewrite (range_loop_fill _ (fun it0 inner => exec tc f it0 inner body) x (fun it0 inner o1 vs2 Hb => IH _ _ _ _ _ Hb) _ _ _ _ El).
        exact (K _ _ _ eq_refl H).
    - (* declaration *)
      destruct (eval tc f dot vs e) as [v|] eqn:Ev; [|discriminate].
      rewrite (eval_fill _ _ _ _ _ Ev). exact (K _ _ _ eq_refl H).
    - (* assignment *)
      destruct (eval tc f dot vs e) as [v|] eqn:Ev; [|discriminate].
      rewrite (eval_fill _ _ _ _ _ Ev).
      destruct (assign vs x v) as [vs1|] eqn:Ea; [|discriminate].
      rewrite (assign_fill _ _ _ _ Ea). exact (K _ _ _ eq_refl H).
  Qed.

  (* rendering the chunks = the concrete text of the filled-in execution *)
  Lemma render_fill : forall cs, render sg cs = render (fun _ => "") (map (fill_chunk sg) cs).
  Proof.
    intros cs. unfold render. rewrite map_map. f_equal. apply map_ext. intros c. destruct c; reflexivity.
  Qed.
End Fill.
