"""C15 check configuration."""


def setup(register, COMMON_TB):
    register(
        "C15", coq="C15", coq_extra=["k8s", "ngx", "C02"], pkg="./internal/mode/static/nginx/config/", test="TestVerifC15",
        extra=[{"pkg": "./internal/mode/static/", "test": "TestVerifC15Pipe"}],
        rule="1-3 backend groups per case (lengths 0..20, mostly 2..16, ramping with the index), weights 0..10^6 from ten "
             "families (equal, extremes, exact shares W | w*10^4, uniform, small, dominant, canary, log-uniform, all zero; "
             "a zero last weight in a third of them), random validity patterns and repeated upstream names; "
             "non-trivial = a group with >= 2 backends and non-zero total that has an inexact share, a zero weight or an "
             "invalid backend; distinct = distinct (weights, validity, names) of all groups",
        trusted_base=COMMON_TB + [
            "modelled, not verified: how NGINX reads a split_clients block (coq/C15/Ngx.v, written from "
            "ngx_http_split_clients_module.c and ngx_atofp: percent grammar, zero and '-' rejected, total <= 100%, "
            "share of an active line = its percent; the 2^-32 hash granularity is ignored); no NGINX binary in the sandbox",
            "the text parser of coq/C15/Check.v (lines, words, '# P% V;' / 'P% V;' / 'split_clients $request_id $v {' / '}')",
            "the invalid-backend-ref upstream answering 500 (upstreams.go createInvalidBackendRefUpstream, nginx-500-server.sock) "
            "is not exercised here; weight defaulting/range validation (backend_refs.go) is outside this check: weights reach "
            "the generator already in 0..10^6",
        ],
        assumptions=[
            "Go int64 arithmetic does not overflow: total <= n*10^6 and w*10000 <= 10^10 (theorem C15_no_overflow bounds every intermediate value by 10^10 * n)",
            "'within 0.01 percentage points per backend' is read as: every backend but the one taking the remainder is within "
            "0.01 of 100*w/W (rounded down), the remainder backend is above its exact share by less than 0.01*(n-1)",
        ],
        timeout={"quick": 600, "thorough": 7200},
    )
