"""C17 check configuration."""


def setup(register, COMMON_TB):
    register(
        "C17", coq="C17", coq_extra=["k8s", "ngx", "gen", "C04", "C08", "C01"], pkg="./internal/mode/static/", test="TestVerifC17",
        extra=[dict(pkg="./internal/mode/static/status/", test="TestVerifC08"),
               dict(pkg="./internal/mode/static/", test="TestVerifC17Own"),
               dict(pkg="./internal/mode/static/state/graph/", test="TestVerifC17Parent")],
        rule="every generated cluster state (as C02) is run through the real handler twice: alone, and together with foreign objects that mimic the own "
             "ones (GatewayClass of another controller, an older Gateway of that class with the same listeners, copies of the own Routes attached to it, a "
             "mesh-style Route, a policy on the foreign Gateway); every Route starts with a status entry of another controller; non-trivial = at least 2 "
             "own routes; distinct = distinct own state. Second part (the C08 harness, evaluated by C08/Check.v): the real status setters under the real retry "
             "function with faults injected and foreign entries that another writer changes between a Get and the Update; the entries of other "
             "controllers in every submitted status must be exactly those of the object served by the last Get. Third part (TestVerifC17Own, evaluated by "
             "C01/Check.v): histories whose only changes are ownership changes (a Gateway handed over to / taken from another class, the configured class "
             "changing hands, Routes retargeted): configuration and statuses of the long-lived controller equal those of a fresh one Fourth part (TestVerifC17Parent, evaluated by C17/ParentCheck.v): the real buildSectionNameRefs on 0-4 generated parentRefs (kind/group absent, right or wrong; namespace absent, the Route's or another; names of our Gateways and look-alikes; sections; repeated pairs) and 0-3 Gateways of ours: the references kept equal the model's, and each names one of the Gateways handed in",
        trusted_base=COMMON_TB + [
            "ownership relation (C17/Check.v owned) over the abstract state",
            "configuration equality is decided on parsed files with top-level blocks as multisets and match keys replaced by the match lists they denote",
            "controller-runtime fake client as API server",
        ],
        assumptions=[],
        timeout={"quick": 900, "thorough": 7200},
    )
