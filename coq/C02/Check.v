(* C02 — the oracle: the routing decision the Gateway API prescribes for the abstract cluster state
   (k8s/Spec.v) against what NGINX does (ngx/Eval.v) under the files the REAL pipeline generated for the
   same state (handler -> graph -> configuration -> generator), for every generated request. *)
From Coq Require Import List String ZArith Bool Arith.
From NGF Require Export lib.CaseLib lib.Str k8s.State k8s.Spec ngx.Lexer ngx.Eval.
Import ListNotations.
Local Open Scope string_scope.

Record case := Case {
  k_cluster : cluster;
  k_http : string;                 (* /etc/nginx/conf.d/http.conf as generated *)
  k_matches : matchtable;          (* /etc/nginx/conf.d/matches.json as generated *)
  k_requests : list request
}.

(* shares agree within one hundredth of a percent per backend; entries are merged by upstream name and
   zero shares dropped (NGINX comments them out) *)
Fixpoint add_share (n : string) (s : Z) (l : list (string * Z)) : list (string * Z) :=
  match l with
  | [] => [(n, s)]
  | (m, t) :: l' => if seqb n m then (m, (t + s)%Z) :: l' else (m, t) :: add_share n s l'
  end.
Definition merge_shares (l : list (string * Z)) : list (string * Z) :=
  filter (fun e => negb (snd e =? 0)%Z) (fold_left (fun acc e => add_share (fst e) (snd e) acc) l []).

Definition shares_agree (spec impl : list (string * Z)) : bool :=
  let s := merge_shares spec in
  let i := merge_shares impl in
  let tol := Z.of_nat (List.length spec) in
  forallb (fun e => match find (fun f => seqb (fst f) (fst e)) i with
                    | Some f => (Z.abs (snd f - snd e) <=? tol)%Z
                    | None => (snd e <=? tol)%Z
                    end) s &&
  forallb (fun f => match find (fun e => seqb (fst f) (fst e)) s with
                    | Some _ => true
                    | None => (snd f <=? tol)%Z
                    end) i &&
  (fold_left (fun a e => (a + snd e)%Z) impl 0 =? 10000)%Z.

Definition opt_Z_eqb (a b : option Z) : bool :=
  match a, b with None, None => true | Some x, Some y => (x =? y)%Z | _, _ => false end.

(* redirect: NGF elides a well-known port (80 for http, 443 for https) and, when the filter sets no
   port, uses the listener port unless the scheme is set (Gateway API: port derives from the scheme). *)
Definition redirect_agree (q : request) (sc : option string) (ho : option string) (po : option Z)
           (isc : option string) (iho : option string) (ipo : option Z) : bool :=
  opt_str_eqb sc isc && opt_str_eqb ho iho &&
  let expected_port :=
    match po with
    | Some p =>
        match sc with
        | Some s => if (seqb s "http" && (p =? 80)%Z) || (seqb s "https" && (p =? 443)%Z) then None else Some p
        | None => Some p
        end
    | None =>
        match sc with
        | Some _ => None
        | None => Some (q_port q)
        end
    end in
  opt_Z_eqb expected_port ipo.

Definition outcome_agree (q : request) (spec impl : outcome) : bool :=
  match spec, impl with
  | ONoListener, ONoListener => true
  | OTLSReject, OTLSReject => true
  | OStatus a, OStatus b => (a =? b)%Z
  | ORedirect c sc ho po _, ORedirect c' sc' ho' po' _ => (c =? c')%Z && redirect_agree q sc ho po sc' ho' po'
  | OProxy g bs _ t, OProxy g' bs' _ t' => Bool.eqb g g' && shares_agree bs bs' &&
      (* TLS verification settings matter only if some real backend receives traffic *)
      (opt_pair_eqb t t' || forallb (fun e => seqb (fst e) invalid_backend || (snd e =? 0)%Z) bs')
  | _, _ => false
  end.

Definition known_D24 := 24.
Definition known_D33 := 33.
Definition known_D34 := 34.

Definition flip_grpc (o : outcome) : outcome :=
  match o with OProxy g bs fs t => OProxy (negb g) bs fs t | _ => o end.

Definition check_request (cs : cluster) (conf : list dir) (tbl : matchtable) (q : request) : list nat :=
  let impl := eval_http conf tbl q in
  match decide cs q with
  | DOutcome o mixed =>
      if outcome_agree q o impl then []
      else if mixed && outcome_agree q (flip_grpc o) impl then [code_known known_D33]
      else match impl with
           | OTLSReject => if class_D34 cs q then [code_known known_D34] else [code_violation]
           | _ => [code_violation]
           end
  | DNoMatch fallback =>
      match impl with
      | OStatus 404 => if fallback then [code_known known_D24] else []
      | OTLSReject => if class_D34 cs q then [code_known known_D34] else [code_violation]
      | _ => if fallback then [] else [code_violation]
      end
  end.

Fixpoint dedup_nat (l : list nat) : list nat :=
  match l with [] => [] | x :: l' => if existsb (Nat.eqb x) l' then dedup_nat l' else x :: dedup_nat l' end.

Definition check_case (c : case) : list nat :=
  match parse_conf (k_http c) with
  | None => [code_violation]
  | Some conf => dedup_nat (flat_map (check_request (k_cluster c) conf (k_matches c)) (k_requests c))
  end.

(* for replay files: which requests disagree *)
Definition failing_requests (c : case) : list nat :=
  match parse_conf (k_http c) with
  | None => []
  | Some conf =>
      map fst (filter (fun iq => match check_request (k_cluster c) conf (k_matches c) (snd iq) with [] => false | _ => true end)
                      (index_from 0 (k_requests c)))
  end.
