(* C06 — executable model of the ReferenceGrant resolver and of every call site that dereferences
   across namespaces in internal/mode/static/state/graph:

     reference_grant.go   newReferenceGrantResolver, refAllowed, toSecret/toService, from*  -> new_resolver, ref_allowed
     backend_refs.go      validateBackendRef, createBackendRef, addBackendRefsToRules,
                          getRefGrantFromResourceForRoute                                   -> validate_backend_ref, create_backend_ref, build_l7
     tlsroute.go          buildTLSRoute (backend part), validateBackendRefTLSRoute          -> build_tls
     route_common.go      buildL4RoutesForGateways (from = fromTLSRoute route.Namespace)    -> from_route KTLS
     gateway_listener.go  createHTTPSListenerValidator (certificateRef part),
                          createExternalReferencesForTLSSecretsResolver                     -> https_validate, configure_listener
     secret.go            secretResolver.resolve / getResolvedSecrets                       -> resolve_secret, ref_secrets
     service.go           buildReferencedServices                                           -> ref_services

   Same case splits, same order of checks, same early returns as the Go code.  What is abstracted
   (and kept out of the generated inputs, see the harness): route-level validation (hostnames,
   matches, rule-level filters: routes are valid), BackendTLSPolicies (none), NginxProxy IP family
   (none), listener port/hostname/protocol conflicts (none), tls.X509KeyPair (a Secret carries a
   flag "is a well-formed kubernetes.io/tls secret").  No proofs in this file. *)
From Coq Require Import List String Bool ZArith.
Import ListNotations.
Local Open Scope string_scope.

Definition nsname := (string * string)%type.          (* (namespace, name), as types.NamespacedName *)
Definition ns_of (n : nsname) := fst n.
Definition name_of (n : nsname) := snd n.
Definition nsname_eqb (a b : nsname) : bool := (fst a =? fst b) && (snd a =? snd b).
Definition empty_nsname : nsname := ("", "").

(* ------------------------------------------------------------------ ReferenceGrant objects *)

Record grant_from := GF { gf_group : string; gf_kind : string; gf_ns : string }.
Record grant_to := GT { gt_group : string; gt_kind : string; gt_name : option string }.
Record grant := Grant { g_ns : string; g_name : string; g_from : list grant_from; g_to : list grant_to }.

(* ------------------------------------------------------------------ reference_grant.go *)

Record to_res := TR { tr_group : string; tr_kind : string; tr_name : string; tr_ns : string }.
Record from_res := FR { fr_group : string; fr_kind : string; fr_ns : string }.
Definition allowed_ref := (to_res * from_res)%type.

Definition to_res_eqb (a b : to_res) : bool :=
  (tr_group a =? tr_group b) && (tr_kind a =? tr_kind b) && (tr_name a =? tr_name b) && (tr_ns a =? tr_ns b).
Definition from_res_eqb (a b : from_res) : bool :=
  (fr_group a =? fr_group b) && (fr_kind a =? fr_kind b) && (fr_ns a =? fr_ns b).
Definition allowed_ref_eqb (a b : allowed_ref) : bool :=
  to_res_eqb (fst a) (fst b) && from_res_eqb (snd a) (snd b).

Definition gateway_group := "gateway.networking.k8s.io".

Definition to_secret (n : nsname) : to_res := TR "" "Secret" (name_of n) (ns_of n).
Definition to_service (n : nsname) : to_res := TR "" "Service" (name_of n) (ns_of n).
Definition from_gateway (ns : string) : from_res := FR gateway_group "Gateway" ns.
Definition from_httproute (ns : string) : from_res := FR gateway_group "HTTPRoute" ns.
Definition from_grpcroute (ns : string) : from_res := FR gateway_group "GRPCRoute" ns.
Definition from_tlsroute (ns : string) : from_res := FR gateway_group "TLSRoute" ns.

Definition norm_core (g : string) : string := if g =? "core" then "" else g.
Definition name_or_empty (n : option string) : string := match n with Some s => s | None => "" end.

(* the entries one grant adds to the [allowed] map: for each to, for each from *)
Definition grant_entries (g : grant) : list allowed_ref :=
  flat_map (fun t =>
              map (fun f => (TR (norm_core (gt_group t)) (gt_kind t) (name_or_empty (gt_name t)) (g_ns g),
                             FR (gf_group f) (gf_kind f) (gf_ns f)))
                  (g_from g))
           (g_to g).

(* the map is used as a set; its content does not depend on the iteration order over the grants *)
Definition new_resolver (gs : list grant) : list allowed_ref := flat_map grant_entries gs.

Definition in_allowed (key : allowed_ref) (r : list allowed_ref) : bool := existsb (allowed_ref_eqb key) r.

Definition ref_allowed (r : list allowed_ref) (to : to_res) (from : from_res) : bool :=
  let specific_key := (to, from) in
  let all_in_namespace_key := (TR "" (tr_kind to) "" (tr_ns to), from) in
  existsb (fun key => in_allowed key r) [specific_key; all_in_namespace_key].

(* ------------------------------------------------------------------ conditions (type, status, reason) *)

Definition cond := (string * string * string)%type.
Definition cond_eqb (a b : cond) : bool :=
  (fst (fst a) =? fst (fst b)) && (snd (fst a) =? snd (fst b)) && (snd a =? snd b).

Definition c_route_invalid_kind : cond := ("ResolvedRefs", "False", "InvalidKind").
Definition c_route_ref_not_permitted : cond := ("ResolvedRefs", "False", "RefNotPermitted").
Definition c_route_backend_not_found : cond := ("ResolvedRefs", "False", "BackendNotFound").
Definition c_route_unsupported_value : cond := ("ResolvedRefs", "False", "UnsupportedValue").

Definition c_listener_not_programmed : cond := ("Programmed", "False", "Invalid").
Definition cs_listener_unsupported_value : list cond :=
  [("Accepted", "False", "UnsupportedValue"); c_listener_not_programmed].
Definition cs_listener_invalid_cert_ref : list cond :=
  [("Accepted", "False", "InvalidCertificateRef"); ("ResolvedRefs", "False", "InvalidCertificateRef");
   c_listener_not_programmed].
Definition cs_listener_ref_not_permitted : list cond :=
  [("Accepted", "False", "RefNotPermitted"); ("ResolvedRefs", "False", "RefNotPermitted");
   c_listener_not_programmed].

(* ------------------------------------------------------------------ backend_refs.go *)

Record backend_ref := BR {
  br_group : option string; br_kind : option string; br_name : string; br_ns : option string;
  br_port : option Z; br_weight : option Z;
  br_filters : bool }.                    (* the HTTP/GRPC backendRef carries filters (never for a TLSRoute) *)

(* the internal BackendRef, projected: Valid, SvcNsName, ServicePort.Port, Weight *)
Record bref_out := BO { bo_valid : bool; bo_svc : nsname; bo_port : Z; bo_weight : Z }.

Definition weight_ok (w : Z) : bool := (0 <=? w)%Z && (w <=? 1000000)%Z.

Definition validate_backend_ref (allowed : to_res -> bool) (route_ns : string) (r : backend_ref) : option cond :=
  if match br_group r with Some g => negb ((g =? "core") || (g =? "")) | None => false end
  then Some c_route_invalid_kind
  else if match br_kind r with Some k => negb (k =? "Service") | None => false end
  then Some c_route_invalid_kind
  else if match br_ns r with
          | Some ns => if ns =? route_ns then false else negb (allowed (to_service (ns, br_name r)))
          | None => false
          end
  then Some c_route_ref_not_permitted
  else match br_port r with
       | None => Some c_route_unsupported_value
       | Some _ =>
           if match br_weight r with Some w => negb (weight_ok w) | None => false end
           then Some c_route_unsupported_value
           else None
       end.

(* validateRouteBackendRef (HTTPRoute / GRPCRoute): backendRef filters are not supported, checked first *)
Definition validate_route_backend_ref (allowed : to_res -> bool) (route_ns : string) (r : backend_ref) : option cond :=
  if br_filters r then Some c_route_unsupported_value else validate_backend_ref allowed route_ns r.

Definition svc := (nsname * list Z)%type.     (* a Service and the numbers of its ports *)

Definition find_service (svcs : list svc) (n : nsname) : option (list Z) :=
  match find (fun s => nsname_eqb (fst s) n) svcs with Some s => Some (snd s) | None => None end.

(* getIPFamilyAndPortFromRef + getServicePort: the Service must exist and have the port *)
Definition service_port (svcs : list svc) (n : nsname) (port : option Z) : option Z :=
  match find_service svcs n, port with
  | Some ports, Some p => if existsb (Z.eqb p) ports then Some p else None
  | _, _ => None
  end.

Definition ref_target (route_ns : string) (r : backend_ref) : nsname :=
  (match br_ns r with Some ns => ns | None => route_ns end, br_name r).

Definition l7_weight (r : backend_ref) : Z :=
  match br_weight r with
  | None => 1%Z
  | Some w => if weight_ok w then w else 0%Z
  end.

(* createBackendRef (HTTPRoute / GRPCRoute) *)
Definition create_backend_ref (allowed : to_res -> bool) (svcs : list svc) (route_ns : string)
           (r : backend_ref) : bref_out * option cond :=
  let weight := l7_weight r in
  match validate_route_backend_ref allowed route_ns r with
  | Some c => (BO false empty_nsname 0%Z weight, Some c)
  | None =>
      let n := ref_target route_ns r in
      match service_port svcs n (br_port r) with
      | None => (BO false n 0%Z weight, Some c_route_backend_not_found)
      | Some p => (BO true n p weight, None)
      end
  end.

(* validateBackendRefTLSRoute *)
Definition create_backend_ref_tls (allowed : to_res -> bool) (svcs : list svc) (route_ns : string)
           (r : backend_ref) : bref_out * option cond :=
  match validate_backend_ref allowed route_ns r with
  | Some c => (BO false empty_nsname 0%Z 0%Z, Some c)
  | None =>
      let n := ref_target route_ns r in
      match service_port svcs n (br_port r) with
      | None => (BO false n 0%Z 0%Z, Some c_route_backend_not_found)
      | Some p => (BO true n p 0%Z, None)
      end
  end.

Inductive route_kind := KHTTP | KGRPC | KTLS.

(* getRefGrantFromResourceForRoute / buildL4RoutesForGateways *)
Definition from_route (k : route_kind) (ns : string) : from_res :=
  match k with
  | KHTTP => from_httproute ns
  | KGRPC => from_grpcroute ns
  | KTLS => from_tlsroute ns
  end.

Record route_in := RI { ri_kind : route_kind; ri_ns : string; ri_name : string; ri_rules : list (list backend_ref) }.
Record route_out := RO { ro_valid : bool; ro_refs : list (list bref_out); ro_conds : list cond }.

Definition opt_list {A} (o : option A) : list A := match o with Some a => [a] | None => [] end.

(* addBackendRefsToRules on a valid route with valid rules *)
Definition build_l7 (allowed : to_res -> bool) (svcs : list svc) (ns : string) (rules : list (list backend_ref)) : route_out :=
  RO true
     (map (map (fun r => fst (create_backend_ref allowed svcs ns r))) rules)
     (flat_map (flat_map (fun r => opt_list (snd (create_backend_ref allowed svcs ns r)))) rules).

Definition zero_bref : bref_out := BO false empty_nsname 0%Z 0%Z.

(* buildTLSRoute from "exactly one Rule and BackendRef" on *)
Definition build_tls (allowed : to_res -> bool) (svcs : list svc) (ns : string) (rules : list (list backend_ref)) : route_out :=
  match rules with
  | [[r]] =>
      let res := create_backend_ref_tls allowed svcs ns r in
      RO true [[fst res]] (opt_list (snd res))
  | _ => RO false [[zero_bref]] [c_route_unsupported_value]
  end.

Definition build_route (res : list allowed_ref) (svcs : list svc) (r : route_in) : route_out :=
  let allowed := fun to => ref_allowed res to (from_route (ri_kind r) (ri_ns r)) in
  match ri_kind r with
  | KTLS => build_tls allowed svcs (ri_ns r) (ri_rules r)
  | _ => build_l7 allowed svcs (ri_ns r) (ri_rules r)
  end.

(* ------------------------------------------------------------------ gateway_listener.go, secret.go *)

Record cert_ref := CR { cr_group : option string; cr_kind : option string; cr_name : string; cr_ns : option string }.
Inductive protocol := PHTTP | PHTTPS | PTLS.
Record listener_in := LI { li_name : string; li_proto : protocol; li_certs : list cert_ref }.
Record lis_out := LO { lo_name : string; lo_valid : bool; lo_secret : option nsname; lo_conds : list cond }.

(* a Secret of the cluster and whether it is a well-formed kubernetes.io/tls secret *)
Definition secret := (nsname * bool)%type.

(* createHTTPSListenerValidator, the certificateRefs part (port, mode, options are fine in the frame) *)
Definition https_validate (certs : list cert_ref) : list cond :=
  match certs with
  | [] => cs_listener_invalid_cert_ref
  | c :: _ =>
      (if match cr_kind c with Some k => negb (k =? "Secret") | None => false end
       then cs_listener_invalid_cert_ref else []) ++
      (if match cr_group c with Some g => negb (g =? "") | None => false end
       then cs_listener_invalid_cert_ref else []) ++
      (if (1 <? List.length certs)%nat then cs_listener_unsupported_value else [])
  end.

Definition cert_target (gw_ns : string) (c : cert_ref) : nsname :=
  (match cr_ns c with Some ns => ns | None => gw_ns end, cr_name c).

(* secretResolver.resolve: nil error iff the Secret exists and is a valid TLS secret *)
Definition resolve_secret (secrets : list secret) (n : nsname) : bool :=
  match find (fun s => nsname_eqb (fst s) n) secrets with
  | Some s => snd s
  | None => false
  end.

(* what a listener does with its first certificateRef: the listener, and the Secret it asked the resolver for *)
Definition configure_listener (res : list allowed_ref) (secrets : list secret) (gw_ns : string)
           (l : listener_in) : lis_out * option nsname :=
  match li_proto l with
  | PHTTPS =>
      let conds := https_validate (li_certs l) in
      match conds, li_certs l with
      | [], c :: _ =>
          let n := cert_target gw_ns c in
          if (if ns_of n =? gw_ns then false else negb (ref_allowed res (to_secret n) (from_gateway gw_ns)))
          then (LO (li_name l) false None cs_listener_ref_not_permitted, None)
          else if resolve_secret secrets n
               then (LO (li_name l) true (Some n) [], Some n)
               else (LO (li_name l) false None cs_listener_invalid_cert_ref, Some n)
      | _, _ => (LO (li_name l) false None conds, None)
      end
  | _ => (LO (li_name l) true None [], None)
  end.

(* ------------------------------------------------------------------ the part of BuildGraph that C06 is about *)

Record world := World {
  w_gw_ns : string; w_listeners : list listener_in; w_routes : list route_in;
  w_services : list svc; w_secrets : list secret }.

Record observed := Obs {
  ob_listeners : list lis_out;
  ob_routes : list route_out;
  ob_ref_secrets : list nsname;       (* keys of Graph.ReferencedSecrets *)
  ob_ref_services : list nsname }.    (* keys of Graph.ReferencedServices *)

Definition nonempty_nsname (n : nsname) : bool := negb (nsname_eqb n empty_nsname).

(* buildReferencedServices: SvcNsName of every BackendRef (valid or not) of every valid route *)
Definition ref_services (outs : list route_out) : list nsname :=
  flat_map (fun o => if ro_valid o
                     then filter nonempty_nsname (map bo_svc (List.concat (ro_refs o)))
                     else []) outs.

Definition build (w : world) (gs : list grant) : observed :=
  let res := new_resolver gs in
  let ls := map (configure_listener res (w_secrets w) (w_gw_ns w)) (w_listeners w) in
  let routes := map (build_route res (w_services w)) (w_routes w) in
  Obs (map fst ls) routes (flat_map (fun x => opt_list (snd x)) ls) (ref_services routes).

(* ------------------------------------------------------------------ histories of the ReferenceGrant store *)

(* the store is a map keyed by (namespace, name): upsert replaces, delete removes *)
Inductive grant_op := Upsert (g : grant) | Delete (n : nsname).

Definition grant_key (g : grant) : nsname := (g_ns g, g_name g).

Definition apply_op (store : list grant) (o : grant_op) : list grant :=
  match o with
  | Upsert g => g :: filter (fun g' => negb (nsname_eqb (grant_key g') (grant_key g))) store
  | Delete n => filter (fun g' => negb (nsname_eqb (grant_key g') n)) store
  end.

Definition apply_ops (store : list grant) (ops : list grant_op) : list grant := fold_left apply_op ops store.

(* the graph after every reconciliation of a history (one rebuild per operation) *)
Fixpoint reconcile (w : world) (store : list grant) (ops : list grant_op) : list observed :=
  match ops with
  | [] => []
  | o :: ops' => let store' := apply_op store o in build w store' :: reconcile w store' ops'
  end.
