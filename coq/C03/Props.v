(* C03 — property theorems. The generated configuration is lexically valid NGINX whatever the user-controlled
   strings contain (within the character classes the validators admit); the structural rules (contexts, arities,
   uniqueness, definedness) are decided per generated file set by ngx/Wf.v on the real generator's output. *)
From Coq Require Import List String Ascii Bool.
From NGF Require Import lib.Str ngx.Lexer ngx.Tmpl ngx.SymLex ngx.SymLexProofs ngx.TmplProofs ngx.TmplTheorems C03.Overlap C03.OverlapProofs.
Import ListNotations.

(* The text/template engine (model of the subset the repository's templates use; the parse trees are regenerated from
   the source on every run and the model is compared with the real engine on every recorded execution): the branches
   taken and the literal text do not depend on the contents of the holes. *)
Theorem C03_template_execution_independent_of_contents :
  forall (sg : nat -> string) (tc : list string),
    (forall id, sg id <> ""%string) -> (forall id, mem_string (sg id) tc = false) ->
    forall fuel dot vs ns out vs',
      exec tc fuel dot vs ns = Some (out, vs') ->
      exec tc fuel (fill sg dot) (fill_vars sg vs) ns = Some (map (fill_chunk sg) out, fill_vars sg vs').
Proof. exact exec_fill. Qed.

(* NGINX's tokenizer on text with holes: every admissible filling is tokenized exactly as the symbolic run says. *)
Theorem C03_tokenizer_run_for_all_contents :
  forall (sg : nat -> list ascii) xs s, forallb (sym_ok sg) xs = true ->
    match slrun s xs with
    | RDone s' out => lrun (inst_st sg s) (expand sg xs) = Some (inst_st sg s', map (inst_tok sg) out)
    | RErr => lrun (inst_st sg s) (expand sg xs) = None
    | RUnsupported => True
    end.
Proof. exact slrun_sound. Qed.

(* Both layers: lexical validity of a generated fragment is decided once for all contents of its holes. *)
Theorem C03_fragment_valid_for_all_contents :
  forall t d cls chunks, run t d = Some chunks ->
    slrun SLStart (syms_cls cls chunks) <> RUnsupported ->
    forall sg1 sg2 : nat -> string,
      forallb (sym_ok (fun id => chars_of (sg1 id))) (syms_cls cls chunks) = true ->
      forallb (sym_ok (fun id => chars_of (sg2 id))) (syms_cls cls chunks) = true ->
      match lex (render sg1 chunks), lex (render sg2 chunks) with
      | Some t1, Some t2 => map tok_kind t1 = map tok_kind t2
      | None, None => True
      | _, _ => False
      end.
Proof. exact template_skeleton_independent. Qed.

(* ---- no location collects the include files of policies by accident (model of checkTargetRoutesForOverlap, C03/Overlap.v; compared
   with the real BuildGraph on every run). A location is (hostname, port of the listener, path); [keys ls r] are the locations Route r
   has a match on. If a policy passed the check and targets a Route with a match on location k, it targets EVERY Route with a match on
   k - for all listeners, bindings, paths and policies. *)
Theorem C03_policy_reaches_a_location_only_with_all_its_routes :
  forall ls routes p k t r,
    overlap_free ls routes p = true -> In t routes -> In r routes -> targets_route p t = true ->
    In k (keys ls t) -> In k (keys ls r) -> targets_route p r = true.
Proof. exact location_routes_all_targeted. Qed.

(* Two policies that both reach a location therefore both target every Route of it: they share a target, which is exactly when conflict
   resolution between policies of one kind applies (C14_policy_survivors_do_not_conflict): two policy files in one location never repeat
   a directive. *)
Theorem C03_policies_in_one_location_share_every_route :
  forall ls routes p q k tp tq,
    overlap_free ls routes p = true -> overlap_free ls routes q = true ->
    In tp routes -> In tq routes -> targets_route p tp = true -> targets_route q tq = true ->
    In k (keys ls tp) -> In k (keys ls tq) ->
    forall r, In r routes -> In k (keys ls r) -> targets_route p r = true /\ targets_route q r = true.
Proof. exact policies_of_a_location_share_every_route. Qed.

(* The two computations of the location keys the code used before the repairs of D42 (the list of hostnames formatted as one) and D44
   (one port per parentRef) admit two policies with different targets into one location. *)
Theorem C03_listwise_hostname_keys_refuted :
  exists ls routes p q k tp tq,
    overlap_free_with (keys_listwise ls) routes p = true /\ overlap_free_with (keys_listwise ls) routes q = true /\
    In tp routes /\ In tq routes /\ targets_route p tp = true /\ targets_route q tq = true /\
    In k (keys ls tp) /\ In k (keys ls tq) /\ targets_route p tq = false.
Proof. exact listwise_keys_refuted. Qed.

Theorem C03_one_port_per_parentref_keys_refuted :
  exists ls routes p q k tp tq,
    overlap_free_with (keys_one_port ls) routes p = true /\ overlap_free_with (keys_one_port ls) routes q = true /\
    In tp routes /\ In tq routes /\ targets_route p tp = true /\ targets_route q tq = true /\
    In k (keys ls tp) /\ In k (keys ls tq) /\ targets_route p tq = false.
Proof. exact one_port_keys_refuted. Qed.
