//go:build verif

package static

import (
	"context"
	"fmt"
	"sort"
	"strconv"
	"strings"
	"testing"

	apiv1 "k8s.io/api/core/v1"
	metav1 "k8s.io/apimachinery/pkg/apis/meta/v1"
	"sigs.k8s.io/controller-runtime/pkg/client"
	gatewayv1 "sigs.k8s.io/gateway-api/apis/v1"
	"sigs.k8s.io/gateway-api/apis/v1alpha2"
	"sigs.k8s.io/gateway-api/apis/v1alpha3"

	ngfAPIv1alpha1 "github.com/nginx/nginx-gateway-fabric/apis/v1alpha1"
	ngfAPIv1alpha2 "github.com/nginx/nginx-gateway-fabric/apis/v1alpha2"
	"github.com/nginx/nginx-gateway-fabric/internal/framework/helpers"
	vu "github.com/nginx/nginx-gateway-fabric/internal/verifutil"
)

// C04: plant a hostile value into one string leaf at a time (schema validation bypassed: the fake API
// server admits anything) and compare the real pipeline's output with the run on the benign twin.

// c04Base is a rich valid state touching every insertion point of the templates.
func c04Base() *vsCluster {
	get := "GET"
	return &vsCluster{
		Classes:    []vsClass{{Name: vpClassName, TS: 1, Controller: vpCtlrName}},
		Namespaces: []vsNamespace{{Name: "default"}},
		Services:   []vsService{{NS: "default", Name: "svc-a", Ports: []int32{80}}, {NS: "default", Name: "svc-b", Ports: []int32{80}}},
		Secrets:    []vsSecret{{NS: "default", Name: "cert-a", OK: true}},
		Gateways: []vsGateway{{NS: "default", Name: "gw", TS: 1, Class: vpClassName, Listeners: []vsListener{
			{Name: "http", Host: vsPtr("*.example.com"), Port: 80, Proto: "HTTP", From: "Same"},
			{Name: "https", Host: vsPtr("secure.example.com"), Port: 443, Proto: "HTTPS", From: "Same", Cert: &vsCertRef{Name: "cert-a"}},
		}}},
		Routes: []vsRoute{
			{NS: "default", Name: "r1", TS: 1, Parents: []vsParentRef{{Name: "gw"}}, Hosts: []string{"foo.example.com"}, Rules: []vsRule{
				{Matches: []vsMatch{{Path: "/a", Method: &get, Headers: [][2]string{{"X-A", "1"}}, Query: [][2]string{{"k", "v"}}}, {Path: "/a"}},
					Filters: []vsFilter{{Kind: "reqhdr", Set: [][2]string{{"X-Set", "s"}}, Add: [][2]string{{"X-Add", "a"}}, Remove: []string{"X-Rm"}},
						{Kind: "resphdr", Set: [][2]string{{"X-RSet", "s"}}, Add: [][2]string{{"X-RAdd", "a"}}, Remove: []string{"X-RRm"}},
						{Kind: "rewrite", Host: vsPtr("rw.example.org"), Path: &vsPathMod{Full: false, Val: "/new"}}},
					Backends: []vsBackend{{Name: "svc-a", Port: 80, Weight: 3}, {Name: "svc-b", Port: 80, Weight: 1}}},
				{Matches: []vsMatch{{Path: "/full", Exact: true}},
					Filters:  []vsFilter{{Kind: "rewrite", Path: &vsPathMod{Full: true, Val: "/replaced"}}},
					Backends: []vsBackend{{Name: "svc-a", Port: 80, Weight: 1}}},
			}},
			{NS: "default", Name: "r2", TS: 2, Parents: []vsParentRef{{Name: "gw", Section: vsPtr("https")}}, Hosts: []string{"secure.example.com"}, Rules: []vsRule{
				{Matches: []vsMatch{{Path: "/redir"}},
					Filters: []vsFilter{{Kind: "redirect", Scheme: vsPtr("https"), Host: vsPtr("redir.example.org"), Path: &vsPathMod{Full: true, Val: "/to"}}}},
				{Matches: []vsMatch{{Path: "/redirp"}},
					Filters: []vsFilter{{Kind: "redirect", Path: &vsPathMod{Full: false, Val: "/pre"}}}},
			}},
			{GRPC: true, NS: "default", Name: "g1", TS: 3, Parents: []vsParentRef{{Name: "gw", Section: vsPtr("http")}}, Hosts: []string{"grpc.example.com"}, Rules: []vsRule{
				{Matches: []vsMatch{{Exact: true, Path: "/pkg.Svc/Get", Headers: [][2]string{{"X-G", "1"}}}},
					Backends: []vsBackend{{Name: "svc-b", Port: 80, Weight: 1}}},
			}},
		},
	}
}

// c04Extra builds the NGF-specific objects (NginxProxy via parametersRef, policies, BackendTLSPolicy).
type c04Extras struct {
	np  *ngfAPIv1alpha1.NginxProxy
	csp *ngfAPIv1alpha1.ClientSettingsPolicy
	op  *ngfAPIv1alpha2.ObservabilityPolicy
	usp *ngfAPIv1alpha1.UpstreamSettingsPolicy
	btp *v1alpha3.BackendTLSPolicy
	cm  *apiv1.ConfigMap
}

func c04BaseExtras() *c04Extras {
	gwRef := v1alpha2.LocalPolicyTargetReference{Group: gatewayv1.GroupName, Kind: "Gateway", Name: "gw"}
	rtRef := v1alpha2.LocalPolicyTargetReference{Group: gatewayv1.GroupName, Kind: "HTTPRoute", Name: "r1"}
	svcRef := v1alpha2.LocalPolicyTargetReference{Group: "", Kind: "Service", Name: "svc-a"}
	xff := ngfAPIv1alpha1.RewriteClientIPModeXForwardedFor
	lvl := ngfAPIv1alpha1.NginxErrorLogLevel("info")
	fam := ngfAPIv1alpha1.Dual
	ctxExtract := ngfAPIv1alpha2.TraceContextExtract
	return &c04Extras{
		np: &ngfAPIv1alpha1.NginxProxy{ObjectMeta: metav1.ObjectMeta{Name: "np", Generation: 1}, Spec: ngfAPIv1alpha1.NginxProxySpec{
			IPFamily: &fam,
			Telemetry: &ngfAPIv1alpha1.Telemetry{
				Exporter:       &ngfAPIv1alpha1.TelemetryExporter{Endpoint: "otel.example.com:4317", Interval: helpers.GetPointer(ngfAPIv1alpha1.Duration("5s"))},
				ServiceName:    helpers.GetPointer("my-svc"),
				SpanAttributes: []ngfAPIv1alpha1.SpanAttribute{{Key: "k1", Value: "v1"}},
			},
			RewriteClientIP: &ngfAPIv1alpha1.RewriteClientIP{Mode: &xff, SetIPRecursively: helpers.GetPointer(true),
				TrustedAddresses: []ngfAPIv1alpha1.Address{{Type: ngfAPIv1alpha1.CIDRAddressType, Value: "10.0.0.0/8"}}},
			Logging: &ngfAPIv1alpha1.NginxLogging{ErrorLevel: &lvl},
		}},
		csp: &ngfAPIv1alpha1.ClientSettingsPolicy{ObjectMeta: metav1.ObjectMeta{Namespace: "default", Name: "csp", Generation: 1},
			Spec: ngfAPIv1alpha1.ClientSettingsPolicySpec{TargetRef: gwRef,
				Body:      &ngfAPIv1alpha1.ClientBody{MaxSize: helpers.GetPointer(ngfAPIv1alpha1.Size("10m")), Timeout: helpers.GetPointer(ngfAPIv1alpha1.Duration("30s"))},
				KeepAlive: &ngfAPIv1alpha1.ClientKeepAlive{Time: helpers.GetPointer(ngfAPIv1alpha1.Duration("1h")), Timeout: &ngfAPIv1alpha1.ClientKeepAliveTimeout{Server: helpers.GetPointer(ngfAPIv1alpha1.Duration("60s")), Header: helpers.GetPointer(ngfAPIv1alpha1.Duration("70s"))}}}},
		op: &ngfAPIv1alpha2.ObservabilityPolicy{ObjectMeta: metav1.ObjectMeta{Namespace: "default", Name: "op", Generation: 1},
			Spec: ngfAPIv1alpha2.ObservabilityPolicySpec{TargetRefs: []v1alpha2.LocalPolicyTargetReference{rtRef},
				Tracing: &ngfAPIv1alpha2.Tracing{Strategy: ngfAPIv1alpha2.TraceStrategyRatio, Ratio: helpers.GetPointer[int32](50), Context: &ctxExtract,
					SpanName: helpers.GetPointer("span-one"), SpanAttributes: []ngfAPIv1alpha1.SpanAttribute{{Key: "sk", Value: "sv"}}}}},
		usp: &ngfAPIv1alpha1.UpstreamSettingsPolicy{ObjectMeta: metav1.ObjectMeta{Namespace: "default", Name: "usp", Generation: 1},
			Spec: ngfAPIv1alpha1.UpstreamSettingsPolicySpec{TargetRefs: []v1alpha2.LocalPolicyTargetReference{svcRef},
				ZoneSize:  helpers.GetPointer(ngfAPIv1alpha1.Size("1m")),
				KeepAlive: &ngfAPIv1alpha1.UpstreamKeepAlive{Connections: helpers.GetPointer[int32](8), Time: helpers.GetPointer(ngfAPIv1alpha1.Duration("1h")), Timeout: helpers.GetPointer(ngfAPIv1alpha1.Duration("60s"))}}},
		btp: &v1alpha3.BackendTLSPolicy{ObjectMeta: metav1.ObjectMeta{Namespace: "default", Name: "btp", Generation: 1},
			Spec: v1alpha3.BackendTLSPolicySpec{
				TargetRefs: []v1alpha2.LocalPolicyTargetReferenceWithSectionName{{LocalPolicyTargetReference: v1alpha2.LocalPolicyTargetReference{Group: "", Kind: "Service", Name: "svc-b"}}},
				Validation: v1alpha3.BackendTLSPolicyValidation{Hostname: "backend.example.com",
					CACertificateRefs: []gatewayv1.LocalObjectReference{{Group: "", Kind: "ConfigMap", Name: "ca"}}}}},
		cm: &apiv1.ConfigMap{ObjectMeta: metav1.ObjectMeta{Namespace: "default", Name: "ca"}, Data: map[string]string{"ca.crt": string(vsKeyPair[0])}},
	}
}

func (e *c04Extras) objects() []client.Object {
	return []client.Object{e.np, e.cm, e.csp, e.op, e.usp, e.btp}
}

// c04Leaf: one string field, with its benign value (contains the marker zqx) and how to plant a value.
type c04Leaf struct {
	name       string
	benign     string
	mustReport bool
	set        func(c *vsCluster, e *c04Extras, v string)
}

func c04Leaves() []c04Leaf {
	return []c04Leaf{
		{"Gateway.listener.hostname", "ok.example.com", true, func(c *vsCluster, _ *c04Extras, v string) { c.Gateways[0].Listeners[0].Host = &v }},
		{"HTTPRoute.hostname", "ok.example.com", true, func(c *vsCluster, _ *c04Extras, v string) { c.Routes[0].Hosts = []string{v} }},
		{"HTTPRoute.match.path", "/ok", true, func(c *vsCluster, _ *c04Extras, v string) { c.Routes[0].Rules[0].Matches[1].Path = v }},
		{"HTTPRoute.match.pathExact", "/ok", true, func(c *vsCluster, _ *c04Extras, v string) { c.Routes[0].Rules[1].Matches[0].Path = v }},
		{"HTTPRoute.match.method", "GET", true, func(c *vsCluster, _ *c04Extras, v string) { c.Routes[0].Rules[0].Matches[0].Method = &v }},
		{"HTTPRoute.match.header.name", "X-Ok", true, func(c *vsCluster, _ *c04Extras, v string) { c.Routes[0].Rules[0].Matches[0].Headers[0][0] = v }},
		{"HTTPRoute.match.header.value", "okv", true, func(c *vsCluster, _ *c04Extras, v string) { c.Routes[0].Rules[0].Matches[0].Headers[0][1] = v }},
		{"HTTPRoute.match.query.name", "okq", true, func(c *vsCluster, _ *c04Extras, v string) { c.Routes[0].Rules[0].Matches[0].Query[0][0] = v }},
		{"HTTPRoute.match.query.value", "okv", true, func(c *vsCluster, _ *c04Extras, v string) { c.Routes[0].Rules[0].Matches[0].Query[0][1] = v }},
		{"HTTPRoute.filter.reqhdr.set.name", "X-Ok", true, func(c *vsCluster, _ *c04Extras, v string) { c.Routes[0].Rules[0].Filters[0].Set[0][0] = v }},
		{"HTTPRoute.filter.reqhdr.set.value", "okv", true, func(c *vsCluster, _ *c04Extras, v string) { c.Routes[0].Rules[0].Filters[0].Set[0][1] = v }},
		{"HTTPRoute.filter.reqhdr.add.name", "X-Ok", true, func(c *vsCluster, _ *c04Extras, v string) { c.Routes[0].Rules[0].Filters[0].Add[0][0] = v }},
		{"HTTPRoute.filter.reqhdr.add.value", "okv", true, func(c *vsCluster, _ *c04Extras, v string) { c.Routes[0].Rules[0].Filters[0].Add[0][1] = v }},
		{"HTTPRoute.filter.reqhdr.remove", "X-Ok", true, func(c *vsCluster, _ *c04Extras, v string) { c.Routes[0].Rules[0].Filters[0].Remove[0] = v }},
		{"HTTPRoute.filter.resphdr.set.name", "X-Ok", true, func(c *vsCluster, _ *c04Extras, v string) { c.Routes[0].Rules[0].Filters[1].Set[0][0] = v }},
		{"HTTPRoute.filter.resphdr.set.value", "okv", true, func(c *vsCluster, _ *c04Extras, v string) { c.Routes[0].Rules[0].Filters[1].Set[0][1] = v }},
		{"HTTPRoute.filter.resphdr.add.value", "okv", true, func(c *vsCluster, _ *c04Extras, v string) { c.Routes[0].Rules[0].Filters[1].Add[0][1] = v }},
		{"HTTPRoute.filter.resphdr.remove", "X-Ok", true, func(c *vsCluster, _ *c04Extras, v string) { c.Routes[0].Rules[0].Filters[1].Remove[0] = v }},
		{"HTTPRoute.filter.rewrite.hostname", "ok.example.org", true, func(c *vsCluster, _ *c04Extras, v string) { c.Routes[0].Rules[0].Filters[2].Host = &v }},
		{"HTTPRoute.filter.rewrite.replacePrefixMatch", "/ok", true, func(c *vsCluster, _ *c04Extras, v string) { c.Routes[0].Rules[0].Filters[2].Path.Val = v }},
		{"HTTPRoute.filter.rewrite.replaceFullPath", "/ok", true, func(c *vsCluster, _ *c04Extras, v string) { c.Routes[0].Rules[1].Filters[0].Path.Val = v }},
		{"HTTPRoute.filter.redirect.scheme", "https", true, func(c *vsCluster, _ *c04Extras, v string) { c.Routes[1].Rules[0].Filters[0].Scheme = &v }},
		{"HTTPRoute.filter.redirect.hostname", "ok.example.org", true, func(c *vsCluster, _ *c04Extras, v string) { c.Routes[1].Rules[0].Filters[0].Host = &v }},
		{"HTTPRoute.filter.redirect.replaceFullPath", "/ok", true, func(c *vsCluster, _ *c04Extras, v string) { c.Routes[1].Rules[0].Filters[0].Path.Val = v }},
		{"HTTPRoute.filter.redirect.replacePrefixMatch", "/ok", true, func(c *vsCluster, _ *c04Extras, v string) { c.Routes[1].Rules[1].Filters[0].Path.Val = v }},
		{"HTTPRoute.backendRef.name", "svc-a", false, func(c *vsCluster, _ *c04Extras, v string) { c.Routes[0].Rules[0].Backends[0].Name = v }},
		{"HTTPRoute.backendRef.namespace", "default", false, func(c *vsCluster, _ *c04Extras, v string) { c.Routes[0].Rules[0].Backends[0].NS = &v }},
		{"HTTPRoute.parentRef.sectionName", "http", false, func(c *vsCluster, _ *c04Extras, v string) { c.Routes[0].Parents[0].Section = &v }},
		{"GRPCRoute.hostname", "ok.example.com", true, func(c *vsCluster, _ *c04Extras, v string) { c.Routes[2].Hosts = []string{v} }},
		{"GRPCRoute.match.method.service+method", "/ok.Svc/Get", true, func(c *vsCluster, _ *c04Extras, v string) { c.Routes[2].Rules[0].Matches[0].Path = v }},
		{"GRPCRoute.match.header.name", "X-Ok", true, func(c *vsCluster, _ *c04Extras, v string) { c.Routes[2].Rules[0].Matches[0].Headers[0][0] = v }},
		{"GRPCRoute.match.header.value", "okv", true, func(c *vsCluster, _ *c04Extras, v string) { c.Routes[2].Rules[0].Matches[0].Headers[0][1] = v }},
		{"Gateway.listener.tls.certificateRef.name", "cert-a", false, func(c *vsCluster, _ *c04Extras, v string) { c.Gateways[0].Listeners[1].Cert.Name = v }},
		{"NginxProxy.telemetry.exporter.endpoint", "ok.example.com:4317", true, func(_ *vsCluster, e *c04Extras, v string) { e.np.Spec.Telemetry.Exporter.Endpoint = v }},
		{"NginxProxy.telemetry.exporter.interval", "5s", true, func(_ *vsCluster, e *c04Extras, v string) {
			e.np.Spec.Telemetry.Exporter.Interval = helpers.GetPointer(ngfAPIv1alpha1.Duration(v))
		}},
		{"NginxProxy.telemetry.serviceName", "ok-svc", true, func(_ *vsCluster, e *c04Extras, v string) { e.np.Spec.Telemetry.ServiceName = &v }},
		{"NginxProxy.telemetry.spanAttributes.key", "okk", true, func(_ *vsCluster, e *c04Extras, v string) { e.np.Spec.Telemetry.SpanAttributes[0].Key = v }},
		{"NginxProxy.telemetry.spanAttributes.value", "okv", true, func(_ *vsCluster, e *c04Extras, v string) { e.np.Spec.Telemetry.SpanAttributes[0].Value = v }},
		{"NginxProxy.rewriteClientIP.trustedAddresses.value", "10.9.0.0/16", true, func(_ *vsCluster, e *c04Extras, v string) {
			e.np.Spec.RewriteClientIP.TrustedAddresses[0].Value = v
		}},
		{"NginxProxy.rewriteClientIP.mode", "XForwardedFor", true, func(_ *vsCluster, e *c04Extras, v string) {
			e.np.Spec.RewriteClientIP.Mode = helpers.GetPointer(ngfAPIv1alpha1.RewriteClientIPModeType(v))
		}},
		{"NginxProxy.logging.errorLevel", "info", true, func(_ *vsCluster, e *c04Extras, v string) {
			e.np.Spec.Logging.ErrorLevel = helpers.GetPointer(ngfAPIv1alpha1.NginxErrorLogLevel(v))
		}},
		{"NginxProxy.ipFamily", "dual", true, func(_ *vsCluster, e *c04Extras, v string) { e.np.Spec.IPFamily = helpers.GetPointer(ngfAPIv1alpha1.IPFamilyType(v)) }},
		{"ClientSettingsPolicy.body.maxSize", "10m", true, func(_ *vsCluster, e *c04Extras, v string) { e.csp.Spec.Body.MaxSize = helpers.GetPointer(ngfAPIv1alpha1.Size(v)) }},
		{"ClientSettingsPolicy.body.timeout", "30s", true, func(_ *vsCluster, e *c04Extras, v string) { e.csp.Spec.Body.Timeout = helpers.GetPointer(ngfAPIv1alpha1.Duration(v)) }},
		{"ClientSettingsPolicy.keepAlive.time", "1h", true, func(_ *vsCluster, e *c04Extras, v string) { e.csp.Spec.KeepAlive.Time = helpers.GetPointer(ngfAPIv1alpha1.Duration(v)) }},
		{"ClientSettingsPolicy.keepAlive.timeout.server", "60s", true, func(_ *vsCluster, e *c04Extras, v string) {
			e.csp.Spec.KeepAlive.Timeout.Server = helpers.GetPointer(ngfAPIv1alpha1.Duration(v))
		}},
		{"ClientSettingsPolicy.keepAlive.timeout.header", "70s", true, func(_ *vsCluster, e *c04Extras, v string) {
			e.csp.Spec.KeepAlive.Timeout.Header = helpers.GetPointer(ngfAPIv1alpha1.Duration(v))
		}},
		{"ObservabilityPolicy.tracing.spanName", "ok-span", true, func(_ *vsCluster, e *c04Extras, v string) { e.op.Spec.Tracing.SpanName = &v }},
		{"ObservabilityPolicy.tracing.spanAttributes.key", "okk", true, func(_ *vsCluster, e *c04Extras, v string) { e.op.Spec.Tracing.SpanAttributes[0].Key = v }},
		{"ObservabilityPolicy.tracing.spanAttributes.value", "okv", true, func(_ *vsCluster, e *c04Extras, v string) { e.op.Spec.Tracing.SpanAttributes[0].Value = v }},
		{"ObservabilityPolicy.tracing.strategy", "ratio", true, func(_ *vsCluster, e *c04Extras, v string) { e.op.Spec.Tracing.Strategy = ngfAPIv1alpha2.TraceStrategy(v) }},
		{"ObservabilityPolicy.tracing.context", "extract", true, func(_ *vsCluster, e *c04Extras, v string) {
			e.op.Spec.Tracing.Context = helpers.GetPointer(ngfAPIv1alpha2.TraceContext(v))
		}},
		{"UpstreamSettingsPolicy.zoneSize", "1m", true, func(_ *vsCluster, e *c04Extras, v string) { e.usp.Spec.ZoneSize = helpers.GetPointer(ngfAPIv1alpha1.Size(v)) }},
		{"UpstreamSettingsPolicy.keepAlive.time", "1h", true, func(_ *vsCluster, e *c04Extras, v string) { e.usp.Spec.KeepAlive.Time = helpers.GetPointer(ngfAPIv1alpha1.Duration(v)) }},
		{"UpstreamSettingsPolicy.keepAlive.timeout", "60s", true, func(_ *vsCluster, e *c04Extras, v string) {
			e.usp.Spec.KeepAlive.Timeout = helpers.GetPointer(ngfAPIv1alpha1.Duration(v))
		}},
		{"BackendTLSPolicy.validation.hostname", "ok.example.com", true, func(_ *vsCluster, e *c04Extras, v string) { e.btp.Spec.Validation.Hostname = gatewayv1.PreciseHostname(v) }},
	}
}

// every payload carries the marker zqx, so that a planted value can be found again in the output
var c04Payloads = []string{
	";zqx", "{zqx", "}zqx", "\"zqx", "'zqx", "zqx\\", "\nzqx", "#zqx", " #zqx", "$zqx", "${zqx}", "; zqx on;", "\"; zqx on; #", "' zqx", "\\\"zqx",
	"}\nzqx{", " zqx", "\tzqx",
}

// c04Run runs the real pipeline and returns the .conf files, whether the marker is in other generated
// files, and the status conditions of every object.
func c04Run(c *vsCluster, e *c04Extras) (confs [][2]string, jsonMarker bool, conds []string) {
	w := vpNewWorld(false)
	evs := vpBaseEvents()
	// GatewayClass with parametersRef -> NginxProxy
	for _, o := range c.Objects() {
		if gc, ok := o.(*gatewayv1.GatewayClass); ok {
			gc.Spec.ParametersRef = &gatewayv1.ParametersReference{Group: ngfAPIv1alpha1.GroupName, Kind: "NginxProxy", Name: "np"}
		}
		evs = append(evs, w.Apply(o))
	}
	for _, o := range e.objects() {
		evs = append(evs, w.Apply(o))
	}
	w.Batch(evs)
	files := w.Files()
	for _, p := range vpSortedKeys(files) {
		if strings.HasSuffix(p, ".conf") {
			confs = append(confs, [2]string{p, files[p]})
		} else if strings.Contains(strings.ToLower(files[p]), "zqx") && !strings.HasSuffix(p, ".pem") && !strings.HasSuffix(p, ".crt") {
			jsonMarker = true
		}
	}
	return confs, jsonMarker, vpAllConditions(w)
}

// vpAllConditions lists (kind/ns/name | scope | type=status:reason) for every object of the cluster.
func vpAllConditions(w *vpWorld) []string {
	ctx := context.Background()
	var out []string
	add := func(obj, scope string, conds []metav1.Condition) {
		for _, c := range conds {
			out = append(out, fmt.Sprintf("%s|%s|%s=%s:%s", obj, scope, c.Type, c.Status, c.Reason))
		}
	}
	var gcs gatewayv1.GatewayClassList
	_ = w.k8s.List(ctx, &gcs)
	for _, o := range gcs.Items {
		add("GatewayClass/"+o.Name, "", o.Status.Conditions)
	}
	var gws gatewayv1.GatewayList
	_ = w.k8s.List(ctx, &gws)
	for _, o := range gws.Items {
		add("Gateway/"+o.Namespace+"/"+o.Name, "", o.Status.Conditions)
		for _, l := range o.Status.Listeners {
			add("Gateway/"+o.Namespace+"/"+o.Name, "listener "+string(l.Name)+" attached="+strconv.Itoa(int(l.AttachedRoutes)), l.Conditions)
		}
	}
	parents := func(obj string, ps []gatewayv1.RouteParentStatus) {
		for _, p := range ps {
			sec := ""
			if p.ParentRef.SectionName != nil {
				sec = string(*p.ParentRef.SectionName)
			}
			add(obj, "parent "+string(p.ParentRef.Name)+"/"+sec+" by "+string(p.ControllerName), p.Conditions)
		}
	}
	var hrs gatewayv1.HTTPRouteList
	_ = w.k8s.List(ctx, &hrs)
	for _, o := range hrs.Items {
		parents("HTTPRoute/"+o.Namespace+"/"+o.Name, o.Status.Parents)
	}
	var grs gatewayv1.GRPCRouteList
	_ = w.k8s.List(ctx, &grs)
	for _, o := range grs.Items {
		parents("GRPCRoute/"+o.Namespace+"/"+o.Name, o.Status.Parents)
	}
	anc := func(obj string, as []v1alpha2.PolicyAncestorStatus) {
		for _, a := range as {
			add(obj, "ancestor "+string(a.AncestorRef.Name), a.Conditions)
		}
	}
	var csps ngfAPIv1alpha1.ClientSettingsPolicyList
	_ = w.k8s.List(ctx, &csps)
	for _, o := range csps.Items {
		anc("ClientSettingsPolicy/"+o.Namespace+"/"+o.Name, o.Status.Ancestors)
	}
	var ops ngfAPIv1alpha2.ObservabilityPolicyList
	_ = w.k8s.List(ctx, &ops)
	for _, o := range ops.Items {
		anc("ObservabilityPolicy/"+o.Namespace+"/"+o.Name, o.Status.Ancestors)
	}
	var usps ngfAPIv1alpha1.UpstreamSettingsPolicyList
	_ = w.k8s.List(ctx, &usps)
	for _, o := range usps.Items {
		anc("UpstreamSettingsPolicy/"+o.Namespace+"/"+o.Name, o.Status.Ancestors)
	}
	var btps v1alpha3.BackendTLSPolicyList
	_ = w.k8s.List(ctx, &btps)
	for _, o := range btps.Items {
		anc("BackendTLSPolicy/"+o.Namespace+"/"+o.Name, o.Status.Ancestors)
	}
	sort.Strings(out)
	return out
}

func c04Texts(confs [][2]string) string {
	var it []string
	for _, c := range confs {
		it = append(it, vu.Pair(vu.Str(c[0]), vu.Str(c[1])))
	}
	return vu.List(it)
}

func TestVerifC04(t *testing.T) {
	out := vu.Open("C04")
	out.ShardLen(8)
	rng := vu.NewRng(out.Seed ^ 0xC04)
	leaves := c04Leaves()
	type job struct {
		leaf    c04Leaf
		payload string
	}
	var jobs []job
	for _, l := range leaves {
		for _, p := range c04Payloads {
			jobs = append(jobs, job{l, p})
		}
	}
	// quick: a seeded sample (3 payloads per leaf, rotating with the seed); thorough: the full cross product
	if !out.Thorough() {
		rng.Shuffle(len(jobs), func(i, j int) { jobs[i], jobs[j] = jobs[j], jobs[i] })
		per := map[string]int{}
		var sel []job
		for _, j := range jobs {
			if per[j.leaf.name] < 3 {
				per[j.leaf.name]++
				sel = append(sel, j)
			}
		}
		jobs = sel
	}
	baseline := map[string][3]any{}
	for _, j := range jobs {
		bl, ok := baseline[j.leaf.name]
		if !ok {
			c, e := c04Base(), c04BaseExtras()
			j.leaf.set(c, e, j.leaf.benign)
			confs, _, conds := c04Run(c, e)
			bl = [3]any{confs, conds, nil}
			baseline[j.leaf.name] = bl
		}
		c, e := c04Base(), c04BaseExtras()
		// the payload goes in the middle and at the end of the value
		hostile := j.leaf.benign + j.payload
		if rng.Chance(1, 3) && len(j.leaf.benign) > 3 {
			k := len(j.leaf.benign) - 2
			hostile = j.leaf.benign[:k] + j.payload + j.leaf.benign[k:]
		}
		j.leaf.set(c, e, hostile)
		confs, jsonMarker, conds := c04Run(c, e)
		bconfs := bl[0].([][2]string)
		reported := strings.Join(conds, "\n") != strings.Join(bl[1].([]string), "\n")
		dollar := strings.Contains(j.payload, "$")
		term := vu.App("Case", vu.Str(j.leaf.name), c04Texts(bconfs), c04Texts(confs), vu.Bool(jsonMarker), vu.Bool(reported), vu.Bool(dollar), vu.Bool(j.leaf.mustReport))
		human := map[string]any{"leaf": j.leaf.name, "benign": j.leaf.benign, "hostile": hostile, "reported": reported, "hostile_files": confs, "conditions": conds}
		out.Case(term, human, true, j.leaf.name+"|"+hostile)
		out.Tally("leaf", j.leaf.name)
		out.Tally("payload", strconv.Quote(j.payload))
		out.Tally("reported", strconv.FormatBool(reported))
	}
	out.Extra("leaves", len(leaves))
	out.Extra("payloads", len(c04Payloads))
	out.Close("C04.Check", "")
}
