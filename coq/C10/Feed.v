(* C10, second part — the producers of the event channel composed with the loop.

   internal/framework/controller/reconciler.go: one Reconciler per resource kind (register.go).
   Reconciler.Reconcile(ctx, req):
       if NamespacedNameFilter != nil && !filter(req.NamespacedName) { return nil }      (reconciler.go:83-88)
       obj := mustCreateNewObject(ObjectType)                    -- a FRESH object per call (reconciler.go:90)
       err := Getter.Get(ctx, req.NamespacedName, obj)
       err != nil && !IsNotFound(err)  -> return err            -- nothing is sent (controller-runtime requeues)
       IsNotFound(err)                 -> e = &DeleteEvent{Type: ObjectType, NamespacedName: req.NamespacedName}
       otherwise                       -> e = &UpsertEvent{Resource: obj}
       select { case <-ctx.Done(): return nil          -- the event is dropped: the process is exiting
                case EventCh <- e: }                   -- blocks until the loop takes it

   This file has three sections.
   1. [reconcile]: the function from (kind, filter, store, request, Get fault) to the event sent, if any.
   2. The composition: a labelled transition system whose state is the store, the reconcilers blocked
      in the channel send, a heap of event objects and the state of the EXISTING loop model
      (C10.Model.st).  What travels through the loop model is the identity of an event (its index in
      the heap = the pointer in Go); its content is looked up in the heap.  The loop model is reused
      unchanged: a send is the loop's [LRecv], every other loop action is passed through.
   3. The checker for the logs of the Go harness (real Reconcilers feeding the real EventLoop):
      [check_case] = the comparison with [reconcile] (code 1) and the property oracle stated on the log
      alone (code 2). *)
From Coq Require Import List Arith Bool.
From NGF Require Export lib.CaseLib C10.Model.
Import ListNotations.

(* ---------------------------------------------------------------- 1. reconcile *)

(* what the handler can see of an event: kind of resource, name (the harness numbers the
   namespaced names), and for an upsert the marker of the write that produced the content *)
Inductive fev :=
| EUp (kind name marker : nat)     (* *events.UpsertEvent{Resource: object of that kind} *)
| EDel (kind name : nat)           (* *events.DeleteEvent{Type: kind, NamespacedName: name} *)
| EBad.                            (* anything else *)

(* the API server as the Getter sees it: (kind, name) -> marker of the last write *)
Definition store := list (nat * nat * nat).

Fixpoint lookup (st : store) (r k : nat) : option nat :=
  match st with
  | [] => None
  | (r', k', m) :: st' => if Nat.eqb r r' && Nat.eqb k k' then Some m else lookup st' r k
  end.

Fixpoint sdel (st : store) (r k : nat) : store :=
  match st with
  | [] => []
  | (r', k', m) :: st' => if Nat.eqb r r' && Nat.eqb k k' then sdel st' r k else (r', k', m) :: sdel st' r k
  end.

Definition sput (st : store) (r k : nat) (v : option nat) : store :=
  match v with Some m => (r, k, m) :: sdel st r k | None => sdel st r k end.

Fixpoint fmemb (x : nat) (l : list nat) : bool :=
  match l with [] => false | y :: l' => if Nat.eqb x y then true else fmemb x l' end.

(* [filt] = the names the NamespacedNameFilter rejects ([] for a nil filter);
   [fault] = Getter.Get returns an error that is not NotFound *)
Definition reconcile (kind : nat) (filt : list nat) (st : store) (k : nat) (fault : bool) : option fev :=
  if fmemb k filt then None
  else if fault then None
  else match lookup st kind k with
       | None => Some (EDel kind k)
       | Some m => Some (EUp kind k m)
       end.

(* does Reconcile return an error (then controller-runtime requeues the request) *)
Definition reconcile_err (filt : list nat) (k : nat) (fault : bool) : bool :=
  if fmemb k filt then false else fault.

(* ---------------------------------------------------------------- 2. the composition with the loop *)

Record fstate := FSt {
  f_store : store;
  f_pend : list (nat * fev);    (* reconcilers blocked in the select of the send: (reconciler, event) *)
  f_heap : list fev;            (* event objects received by the loop; an event's id is its index *)
  f_loop : st                   (* C10.Model *)
}.

Definition finit : fstate := FSt [] [] [] init.

Definition content (h : list fev) (id : nat) : fev := nth id h EBad.

Definition pend_of (r : nat) (p : list (nat * fev)) : list fev :=
  flat_map (fun x => if Nat.eqb (fst x) r then [snd x] else []) p.

Definition pend_remove (r : nat) (p : list (nat * fev)) : list (nat * fev) :=
  filter (fun x => negb (Nat.eqb (fst x) r)) p.

Inductive flabel :=
| FLWrite (r k : nat) (v : option nat)       (* somebody creates/updates/deletes an object *)
| FLReconcile (r k : nat) (fault : bool)     (* reconciler r: filter, Get, build the event; it then blocks in the select *)
| FLSend (r : nat) (realloc : bool)          (* the loop takes the event of r from the channel (loop label LRecv) *)
| FLDrop (r : nat)                           (* the select of r takes ctx.Done *)
| FLPrepare (es : list fev)                  (* the preparer returns the start-up batch (loop label LPrepare) *)
| FLLoop (l : label).                        (* any other action of the loop, the handler or the context *)

Inductive ftev :=
| TLoop (e : event)                                      (* the loop model's own trace *)
| TRec (r k : nat) (obs : option nat) (fault : bool)     (* a Reconcile call and what its Get found *)
| TEmit (r : nat) (e : fev)                              (* the event of r entered the channel *)
| TDrop (r : nat) (e : fev)
| TFirst (es : list fev)
| TSeen (b : list fev).                                  (* what the handler read, when it was entered *)

Definition opt_list {A} (o : option A) : list A := match o with Some a => [a] | None => [] end.

Definition seen_of (h : list fev) (evs : list event) : list ftev :=
  flat_map (fun e => match e with EBegin b => [TSeen (map (content h) b)] | _ => [] end) evs.

Definition with_loop (s : fstate) (l : st) : fstate := FSt (f_store s) (f_pend s) (f_heap s) l.

(* [fl] = per reconciler the names its filter rejects.  A reconciler has one worker
   (MaxConcurrentReconciles = 1): FLReconcile r is enabled only when r is not blocked in a send. *)
Definition fstep (fl : list (list nat)) (s : fstate) (l : flabel) : option (fstate * list ftev) :=
  match l with
  | FLWrite r k v => Some (FSt (sput (f_store s) r k v) (f_pend s) (f_heap s) (f_loop s), [])
  | FLReconcile r k fault =>
      match pend_of r (f_pend s) with
      | [] =>
          let out := reconcile r (nth r fl []) (f_store s) k fault in
          Some (FSt (f_store s) (f_pend s ++ map (fun e => (r, e)) (opt_list out)) (f_heap s) (f_loop s),
                [TRec r k (lookup (f_store s) r k) fault])
      | _ :: _ => None
      end
  | FLSend r realloc =>
      match pend_of r (f_pend s) with
      | e :: _ =>
          match step (f_loop s) (LRecv (length (f_heap s)) realloc) with
          | Some (s1, evs) =>
              Some (FSt (f_store s) (pend_remove r (f_pend s)) (f_heap s ++ [e]) s1, TEmit r e :: map TLoop evs)
          | None => None
          end
      | [] => None
      end
  | FLDrop r =>
      match pend_of r (f_pend s) with
      | e :: _ =>
          if cancelled (f_loop s)
          then Some (FSt (f_store s) (pend_remove r (f_pend s)) (f_heap s) (f_loop s), [TDrop r e])
          else None
      | [] => None
      end
  | FLPrepare es =>
      match step (f_loop s) (LPrepare (seq (length (f_heap s)) (length es))) with
      | Some (s1, evs) => Some (FSt (f_store s) (f_pend s) (f_heap s ++ es) s1, TFirst es :: map TLoop evs)
      | None => None
      end
  | FLLoop l =>
      match l with
      | LRecv _ _ | LPrepare _ => None
      | _ =>
          match step (f_loop s) l with
          | Some (s1, evs) => Some (with_loop s s1, map TLoop evs ++ seen_of (f_heap s) evs)
          | None => None
          end
      end
  end.

Fixpoint frun (fl : list (list nat)) (s : fstate) (ls : list flabel) : option (fstate * list ftev) :=
  match ls with
  | [] => Some (s, [])
  | l :: ls' =>
      match fstep fl s l with
      | None => None
      | Some (s1, evs) =>
          match frun fl s1 ls' with
          | None => None
          | Some (s2, tr) => Some (s2, evs ++ tr)
          end
      end
  end.

(* functions of the trace *)
Definition loop_tr (tr : list ftev) : list event :=
  flat_map (fun t => match t with TLoop e => [e] | _ => [] end) tr.
Definition first_batch (tr : list ftev) : list fev :=
  flat_map (fun t => match t with TFirst es => es | _ => [] end) tr.
Definition emitted (tr : list ftev) : list fev :=
  flat_map (fun t => match t with TEmit _ e => [e] | _ => [] end) tr.
Definition emitted_by (r : nat) (tr : list ftev) : list fev :=
  flat_map (fun t => match t with TEmit r' e => if Nat.eqb r' r then [e] else [] | _ => [] end) tr.
Definition dropped (tr : list ftev) : list fev :=
  flat_map (fun t => match t with TDrop _ e => [e] | _ => [] end) tr.
Definition seen (tr : list ftev) : list fev :=
  flat_map (fun t => match t with TSeen b => b | _ => [] end) tr.

(* the declarative list of what reconciler r owes the handler, from the Reconcile calls alone:
   one event per call whose name passes the filter and whose Get did not fail; an upsert with the
   marker the store held when Get ran, a delete with the requested name when it held nothing *)
Definition owed (r : nat) (fl : list (list nat)) (tr : list ftev) : list fev :=
  flat_map (fun t => match t with
                     | TRec r' k obs fault =>
                         if Nat.eqb r' r then
                           if fmemb k (nth r fl []) || fault then []
                           else [match obs with Some m => EUp r k m | None => EDel r k end]
                         else []
                     | _ => []
                     end) tr.

(* ---------------------------------------------------------------- heap model of the aliasing defect
   An UpsertEvent holds a POINTER to the object Get filled.  [cells] are objects; the handler's
   batches hold pointers.  [alloc_fresh]: reflect.New per Reconcile.  [alloc_reuse c]: one object
   allocated in NewReconciler and overwritten by every Get. *)
Definition cells := list fev.
Definition deref (h : cells) (ptrs : list nat) : list fev := map (content h) ptrs.

Definition alloc_fresh (h : cells) (e : fev) : cells * nat := (h ++ [e], length h).
Definition alloc_reuse (c : nat) (h : cells) (e : fev) : cells * nat := (set_nth c e h, c).

(* a sequence of Reconciles; returns the heap and the pointers sent, in order *)
Fixpoint reconciles (alloc : cells -> fev -> cells * nat) (h : cells) (es : list fev) : cells * list nat :=
  match es with
  | [] => (h, [])
  | e :: es' =>
      let '(h1, p) := alloc h e in
      let '(h2, ps) := reconciles alloc h1 es' in (h2, p :: ps)
  end.

(* ---------------------------------------------------------------- 3. the log of the Go harness

   One log, totally ordered by one mutex that the fake Getter and the recording handler also hold:
     GSet r k m / GDel r k   the script writes / deletes object k of kind r in the fake store
     GReq r k fault          worker r is about to call Reconcile for k (fault: its Get will fail)
     GGet r k obs err        the Getter of r was asked for k: the store held obs; it returned an error (not NotFound) iff err
     GRet r err              that Reconcile call returned (err: it returned an error)
     GPrepare                the fake preparer was called (it returns the start-up batch k_b0)
     GBegin b                HandleEventBatch entered; b = projection of every event of the batch, read now
     GEnd b                  it is about to return; the same batch read again
     GRecheck b              every event handed to the handler so far, read again (the real handler keeps
                             the objects: ChangeProcessor.CaptureUpsertChange stores the pointer)
     GCancel / GReturn       cancel() called / EventLoop.Start returned
     GQuiet                  handler free, every call ended, as many events handled as Reconciles sent
     GStall k                a bounded wait expired (0 quiescence, 1 Start did not return, 2 a Reconcile hung) *)
Inductive glog :=
| GSet (r k m : nat)
| GDel (r k : nat)
| GReq (r k : nat) (fault : bool)
| GGet (r k : nat) (obs : option nat) (err : bool)
| GRet (r : nat) (err : bool)
| GPrepare
| GBegin (b : list fev)
| GEnd (b : list fev)
| GRecheck (b : list fev)
| GCancel
| GReturn
| GQuiet
| GStall (k : nat).

Record case := Case { k_filter : list (list nat); k_b0 : list fev; k_log : list glog }.

Definition fev_eqb (a b : fev) : bool :=
  match a, b with
  | EUp k n m, EUp k' n' m' => Nat.eqb k k' && Nat.eqb n n' && Nat.eqb m m'
  | EDel k n, EDel k' n' => Nat.eqb k k' && Nat.eqb n n'
  | EBad, EBad => true
  | _, _ => false
  end.

Fixpoint fevs_eqb (a b : list fev) : bool :=
  match a, b with
  | [], [] => true
  | x :: a', y :: b' => if fev_eqb x y then fevs_eqb a' b' else false
  | _, _ => false
  end.

Definition onat_eqb (a b : option nat) : bool :=
  match a, b with Some x, Some y => Nat.eqb x y | None, None => true | _, _ => false end.

Fixpoint findexed {A} (i : nat) (l : list A) : list (nat * A) :=
  match l with [] => [] | x :: l' => (i, x) :: findexed (S i) l' end.

(* --- the Reconcile calls, cut out of the log *)
Record call := Call {
  c_r : nat; c_k : nat; c_fault : bool;
  c_req : nat;                                       (* position of GReq *)
  c_st : store;                                      (* the script's store at that position *)
  c_gets : list (nat * option nat * bool * store);   (* key asked, observed, error, the script's store at that position *)
  c_ret : option (nat * bool)                        (* position of GRet, error *)
}.

Record pst := PSt { p_store : store; p_open : list call; p_done : list call; p_bad : bool }.

Fixpoint take_open (r : nat) (l : list call) : option (call * list call) :=
  match l with
  | [] => None
  | c :: l' =>
      if Nat.eqb (c_r c) r then Some (c, l')
      else match take_open r l' with Some (d, rest) => Some (d, c :: rest) | None => None end
  end.

Definition pstep (s : pst) (pg : nat * glog) : pst :=
  let pos := fst pg in
  match snd pg with
  | GSet r k m => PSt (sput (p_store s) r k (Some m)) (p_open s) (p_done s) (p_bad s)
  | GDel r k => PSt (sput (p_store s) r k None) (p_open s) (p_done s) (p_bad s)
  | GReq r k fault =>
      match take_open r (p_open s) with
      | Some _ => PSt (p_store s) (p_open s) (p_done s) true      (* two calls of one reconciler overlap *)
      | None => PSt (p_store s) (p_open s ++ [Call r k fault pos (p_store s) [] None]) (p_done s) (p_bad s)
      end
  | GGet r k obs err =>
      match take_open r (p_open s) with
      | Some (c, rest) =>
          PSt (p_store s)
              (rest ++ [Call (c_r c) (c_k c) (c_fault c) (c_req c) (c_st c)
                             (c_gets c ++ [(k, obs, err, p_store s)]) None])
              (p_done s) (p_bad s)
      | None => PSt (p_store s) (p_open s) (p_done s) true        (* a Get outside any Reconcile call *)
      end
  | GRet r err =>
      match take_open r (p_open s) with
      | Some (c, rest) =>
          PSt (p_store s) rest
              (Call (c_r c) (c_k c) (c_fault c) (c_req c) (c_st c) (c_gets c) (Some (pos, err)) :: p_done s)
              (p_bad s)
      | None => PSt (p_store s) (p_open s) (p_done s) true
      end
  | _ => s
  end.

Definition parse (log : list glog) : pst := fold_left pstep (findexed 0 log) (PSt [] [] [] false).

(* all calls in the order of their GReq (per reconciler that is the order of the calls) *)
Fixpoint insert_call (c : call) (l : list call) : list call :=
  match l with
  | [] => [c]
  | d :: l' => if Nat.leb (c_req c) (c_req d) then c :: l else d :: insert_call c l'
  end.
Definition calls_of (p : pst) : list call := fold_right insert_call [] (p_done p ++ p_open p).

(* --- what a call owes: position of the request, position of the return, the event *)
Record xev := X { x_req : nat; x_ret : option nat; x_ev : option fev }.

Definition ret_pos (c : call) : option nat := match c_ret c with Some (p, _) => Some p | None => None end.

(* the model: [reconcile] on the script's store as it was when Get ran *)
Definition model_store (c : call) : store :=
  match c_gets c with (_, _, _, st) :: _ => st | [] => c_st c end.

Definition model_xev (fl : list (list nat)) (c : call) : xev :=
  X (c_req c) (ret_pos c) (reconcile (c_r c) (nth (c_r c) fl []) (model_store c) (c_k c) (c_fault c)).

(* the model's Get calls and return value against the observed ones *)
Definition model_call_ok (fl : list (list nat)) (c : call) : bool :=
  let filt := nth (c_r c) fl [] in
  (if fmemb (c_k c) filt then match c_gets c with [] => true | _ => false end
   else match c_gets c with
        | [(k, obs, err, st)] =>
            Nat.eqb k (c_k c) && onat_eqb obs (lookup st (c_r c) (c_k c)) && Bool.eqb err (c_fault c)
        | _ => false
        end) &&
  match c_ret c with
  | Some (_, err) => Bool.eqb err (reconcile_err filt (c_k c) (c_fault c))
  | None => true
  end.

(* the oracle: from the log's own Get observation, without [reconcile] and without the script's store.
   None = the call itself breaks the property.  [pc] = position of cancel() (length of the log if none):
   a call that returned nil before it had no excuse for not sending. *)
Definition returned_nil_before (pc : nat) (c : call) : bool :=
  match c_ret c with Some (p, false) => Nat.ltb p pc | _ => false end.

Definition oracle_xev (fl : list (list nat)) (pc : nat) (c : call) : option xev :=
  let mk := X (c_req c) (ret_pos c) in
  if fmemb (c_k c) (nth (c_r c) fl []) then Some (mk None)
  else match last (map Some (c_gets c)) None with
       | None =>
           (* no Get at all: the watch event is lost unless the call failed (it is requeued) *)
           if returned_nil_before pc c then None else Some (mk None)
       | Some (k, obs, err, _) =>
           if Nat.eqb k (c_k c) then
             if err then
               (* a failed Get must fail the call, or the watch event is lost for good *)
               if returned_nil_before pc c then None else Some (mk None)
             else Some (mk (Some match obs with
                                 | Some m => EUp (c_r c) (c_k c) m
                                 | None => EDel (c_r c) (c_k c)
                                 end))
           else None
       end.

Fixpoint all_some {A} (l : list (option A)) : option (list A) :=
  match l with
  | [] => Some []
  | None :: _ => None
  | Some a :: l' => match all_some l' with Some r => Some (a :: r) | None => None end
  end.

Definition per_reconciler (n : nat) (cs : list call) (xs : list xev) : list (list xev) :=
  map (fun r => flat_map (fun cx => if Nat.eqb (c_r (fst cx)) r then [snd cx] else []) (combine cs xs)) (seq 0 n).

(* --- handled events against owed events *)

(* the first owed event of a queue equal to h; what is skipped is gone (order within a reconciler) *)
Fixpoint take_match (h : fev) (q : list xev) : option (xev * list xev) :=
  match q with
  | [] => None
  | x :: q' =>
      match x_ev x with
      | Some e => if fev_eqb e h then Some (x, q') else take_match h q'
      | None => take_match h q'
      end
  end.

(* is [hs] an interleaving of sub-sequences of the queues?  Returns the owed events in handled order.
   Every alternative sits in a match branch: vm_compute evaluates it only when the previous one failed. *)
Fixpoint msearch (hs : list fev) (qs : list (list xev)) (acc : list xev) : option (list xev) :=
  match hs with
  | [] => Some (rev acc)
  | h :: hs' =>
      (fix try (rs : list nat) : option (list xev) :=
         match rs with
         | [] => None
         | r :: rs' =>
             match take_match h (nth r qs []) with
             | Some (x, rest) =>
                 match msearch hs' (set_nth r rest qs) (x :: acc) with
                 | Some res => Some res
                 | None => try rs'
                 end
             | None => try rs'
             end
         end) (seq 0 (length qs))
  end.

(* y's Reconcile had returned before x's was even called *)
Definition ret_before_req (y x : xev) : bool :=
  match x_ret y with Some p => Nat.ltb p (x_req x) | None => false end.

(* real-time order: nothing is handled before an event that entered the channel strictly earlier *)
Fixpoint order_ok (ms : list xev) : bool :=
  match ms with
  | [] => true
  | x :: ms' => if forallb (fun y => negb (ret_before_req y x)) ms' then order_ok ms' else false
  end.

Definition fbegins_at (ilog : list (nat * glog)) : list (nat * list fev) :=
  flat_map (fun p => match snd p with GBegin b => [(fst p, b)] | _ => [] end) ilog.
Definition fquiets_at (ilog : list (nat * glog)) : list nat :=
  flat_map (fun p => match snd p with GQuiet => [fst p] | _ => [] end) ilog.
Definition cancel_pos (ilog : list (nat * glog)) (dflt : nat) : nat :=
  match find (fun p => match snd p with GCancel => true | _ => false end) ilog with
  | Some p => fst p
  | None => dflt
  end.

(* the Reconcile returned before cancel() was called: its select can only have taken the send *)
Definition is_must (pc : nat) (x : xev) : bool :=
  match x_ret x with Some p => Nat.ltb p pc | None => false end.

(* [exps] = per reconciler, in call order, what each call owes.  The handled events (start-up batch
   first) must be, per reconciler, exactly those owed events, in order, once each, where
   - a call that had not returned when cancel() was called may have dropped its event,
   - Start drops what is still queued when it returns after cancel(): an owed event may be missing
     only if nothing that entered the channel after it was handled,
   - at every quiescent instant before cancel() everything sent so far has been handled. *)
Definition conforms (b0 : list fev) (log : list glog) (exps : list (list xev)) : bool :=
  let ilog := findexed 0 log in
  let bs := fbegins_at ilog in
  let all := concat (map snd bs) in
  let rest := skipn (length b0) all in
  let pc := cancel_pos ilog (length log) in
  let was_cancelled := Nat.ltb pc (length log) in
  let owed_all := concat exps in
  (match bs with [] => true | b :: _ => fevs_eqb (snd b) b0 end) &&
  match msearch rest exps [] with
  | None => false
  | Some ms =>
      let hreqs := map x_req ms in
      let skipped := filter (fun x => match x_ev x with
                                      | Some _ => negb (fmemb (x_req x) hreqs)
                                      | None => false
                                      end) owed_all in
      order_ok ms &&
      forallb (fun x => if is_must pc x
                        then was_cancelled && forallb (fun y => negb (ret_before_req x y)) ms
                        else true) skipped &&
      forallb (fun q =>
                 if Nat.ltb q pc then
                   let n := length (concat (map snd (filter (fun b => Nat.ltb (fst b) q) bs))) - length b0 in
                   let hq := map x_req (firstn n ms) in
                   forallb (fun x => match x_ev x, x_ret x with
                                     | Some _, Some p => if Nat.ltb p q then fmemb (x_req x) hq else true
                                     | _, _ => true
                                     end) owed_all
                 else true) (fquiets_at ilog)
  end.

(* --- (b) nothing handed to the handler changes afterwards *)
Fixpoint alias_ok (sofar cur : list fev) (log : list glog) : bool :=
  match log with
  | [] => true
  | GBegin b :: l => alias_ok (sofar ++ b) b l
  | GEnd b :: l => if fevs_eqb b cur then alias_ok sofar cur l else false
  | GRecheck b :: l => if fevs_eqb b sofar then alias_ok sofar cur l else false
  | _ :: l => alias_ok sofar cur l
  end.

(* --- (c) one call at a time; Start returns only when no call is in progress, none begins afterwards *)
Fixpoint struct_ok (depth : nat) (ret : bool) (log : list glog) : bool :=
  match log with
  | [] => true
  | GBegin _ :: l => if Nat.eqb depth 0 && negb ret then struct_ok 1 ret l else false
  | GEnd _ :: l => if Nat.eqb depth 1 then struct_ok 0 ret l else false
  | GReturn :: l => if Nat.eqb depth 0 && negb ret then struct_ok 0 true l else false
  | _ :: l => struct_ok depth ret l
  end.

Definition no_stall (log : list glog) : bool :=
  forallb (fun g => match g with GStall _ => false | _ => true end) log.

Definition n_reconcilers (c : case) : nat := length (k_filter c).

Definition oracle (c : case) : bool :=
  let p := parse (k_log c) in
  let cs := calls_of p in
  struct_ok 0 false (k_log c) && alias_ok [] [] (k_log c) && no_stall (k_log c) && negb (p_bad p) &&
  match all_some (map (oracle_xev (k_filter c) (cancel_pos (findexed 0 (k_log c)) (length (k_log c)))) cs) with
  | None => false
  | Some xs => conforms (k_b0 c) (k_log c) (per_reconciler (n_reconcilers c) cs xs)
  end.

Definition model_ok (c : case) : bool :=
  let p := parse (k_log c) in
  let cs := calls_of p in
  negb (p_bad p) &&
  forallb (fun d => Nat.ltb (c_r d) (n_reconcilers c)) cs &&
  forallb (model_call_ok (k_filter c)) cs &&
  conforms (k_b0 c) (k_log c) (per_reconciler (n_reconcilers c) cs (map (model_xev (k_filter c)) cs)).

Definition check_case (c : case) : list nat :=
  if oracle c then when (negb (model_ok c)) code_mismatch else [code_violation].
