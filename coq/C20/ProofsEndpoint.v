(* C20 — lemmas, part 2: the shape of what net.SplitHostPort accepts; every endpoint accepted by
   validateEndpoint / validateEndpointOptionalPort is one safe token over the endpoint bytes whose
   port (where the notation shows one) is a number in 1..65535. *)
From Coq Require Import String Ascii NArith ZArith Bool Arith List Lia.
From NGF Require Import C20.Model C20.Spec C20.ProofsSafe.
Import ListNotations.

Lemma has_false_first : forall c x r, has c (x :: r) = false -> Ascii.eqb x c = false.
Proof. intros c x r H. simpl in H. apply orb_false_iff in H. destruct H as [H _]. rewrite eqb_sym'. exact H. Qed.

Lemma shp_shape : forall s h p, split_host_port s = SHP_ok h p ->
  has c_colon p = false /\
  ((s = h ++ c_colon :: p /\ has c_colon h = false /\ has c_lbr s = false /\ has c_rbr s = false) \/
   (s = c_lbr :: h ++ c_rbr :: c_colon :: p /\ has c_lbr h = false /\ has c_rbr h = false)).
Proof.
  intros s h p H. unfold split_host_port in H.
  destruct (split_last c_colon s) as [[a port]|] eqn:E; [|discriminate].
  destruct (split_last_spec _ _ _ _ E) as [Es Hp].
  destruct s as [|c af]; [discriminate|].
  destruct (Ascii.eqb c c_lbr) eqn:Ec.
  - destruct (split_first c_rbr (c :: af)) as [[pre post]|] eqn:Ef; [|discriminate].
    destruct (is_nil post); [discriminate|].
    destruct (Nat.eqb (S (length pre)) (length a)) eqn:El.
    + destruct (has c_lbr af) eqn:Hl; [discriminate|]. destruct (has c_rbr post) eqn:Hr; [discriminate|].
      inversion H; subst h p. split; [exact Hp|right].
      destruct (split_first_spec _ _ _ _ Ef) as [Ef' Hpre].
      apply Nat.eqb_eq in El.
      assert (Hx : (pre ++ [c_rbr]) ++ post = a ++ c_colon :: port).
      { rewrite <- app_assoc. simpl. rewrite <- Ef'. exact Es. }
      assert (HL : length (pre ++ [c_rbr]) = length a) by (rewrite app_length; simpl; lia).
      destruct (app_eq_length _ _ _ _ Hx HL) as [Ha Hpost].
      apply eqb_eq' in Ec. subst c.
      destruct pre as [|x pre'].
      { simpl in Ef'. inversion Ef'. }
      simpl in Ef'. inversion Ef' as [[Hx1 Haf]]. subst x. simpl tl.
      split; [|split].
      * rewrite Hpost. reflexivity.
      * rewrite Haf in Hl. rewrite has_app in Hl. apply orb_false_iff in Hl. exact (proj1 Hl).
      * simpl in Hpre. exact Hpre.
    + destruct (Ascii.eqb (hd c_dot post) c_colon); discriminate.
  - destruct (has c_colon a) eqn:Ha; [discriminate|].
    destruct (has c_lbr (c :: af)) eqn:Hl; [discriminate|]. destruct (has c_rbr (c :: af)) eqn:Hr; [discriminate|].
    inversion H; subst h p. split; [exact Hp|left]. repeat split; assumption.
Qed.

(* ------------------------------------------------------------------ counting colons *)

Lemma count_app : forall c a b, count_char c (a ++ b) = count_char c a + count_char c b.
Proof. intros c a b. induction a as [|x a IH]; simpl; [reflexivity|]. rewrite IH. lia. Qed.

Lemma has_false_count : forall c s, has c s = false -> count_char c s = 0.
Proof.
  intros c s. induction s as [|x s IH]; simpl; intro H; [reflexivity|].
  apply orb_false_iff in H. destruct H as [H1 H2]. rewrite eqb_sym', H1, (IH H2). reflexivity.
Qed.

Lemma count_zero_has : forall c s, count_char c s = 0 -> has c s = false.
Proof.
  intros c s. induction s as [|x s IH]; simpl; intro H; [reflexivity|].
  destruct (Ascii.eqb x c) eqn:E; [discriminate|]. rewrite eqb_sym', E. simpl. apply IH. exact H.
Qed.

Lemma one_colon_splits : forall s, count_char c_colon s = 1 -> has c_lbr s = false -> has c_rbr s = false ->
  exists h p, split_host_port s = SHP_ok h p.
Proof.
  intros s Hc Hl Hr. unfold split_host_port.
  destruct (split_last c_colon s) as [[a p]|] eqn:E.
  - destruct (split_last_spec _ _ _ _ E) as [Es Hp].
    assert (Ha : has c_colon a = false).
    { apply count_zero_has. rewrite Es, count_app in Hc. simpl in Hc. try rewrite Ascii.eqb_refl in Hc.
      rewrite (has_false_count _ _ Hp) in Hc. lia. }
    destruct s as [|c af]; [discriminate|].
    rewrite (has_false_first _ _ _ Hl). rewrite Ha, Hl, Hr. exists a, p. reflexivity.
  - apply split_last_none in E. rewrite (has_false_count _ _ E) in Hc. discriminate.
Qed.

(* ------------------------------------------------------------------ accepted endpoints *)

Lemma range_signed : forall p pv, signed_value p = Some pv -> port_in_range pv = true -> signed_in 1 65535 p = true.
Proof.
  intros p pv Hs Hr. unfold signed_in. rewrite Hs. unfold port_in_range in Hr.
  apply negb_true_iff in Hr. apply orb_false_iff in Hr. destruct Hr as [H1 H2].
  apply Z.ltb_ge in H1. apply Z.ltb_ge in H2. apply andb_true_iff. split; apply Z.leb_le; lia.
Qed.

Lemma colon_ok : safe_char c_colon = true /\ endpoint_char c_colon = true. Proof. split; reflexivity. Qed.
Lemma lbr_ok : safe_char c_lbr = true /\ endpoint_char c_lbr = true. Proof. split; reflexivity. Qed.
Lemma rbr_ok : safe_char c_rbr = true /\ endpoint_char c_rbr = true. Proof. split; reflexivity. Qed.

Lemma host_forall : forall h, forallb host_char h = true ->
  forallb safe_char h = true /\ forallb endpoint_char h = true /\ has c_lbr h = false /\ has c_rbr h = false.
Proof.
  intros h H. repeat split.
  - apply (forallb_imp host_char); [|exact H]. intros c Hc. exact (proj1 (host_char_safe _ Hc)).
  - apply (forallb_imp host_char); [|exact H]. intros c Hc. exact (proj1 (proj2 (host_char_safe _ Hc))).
  - apply (has_false_forall _ host_char); [|exact H]. intros c Hc. rewrite eqb_sym'.
    exact (proj1 (proj2 (proj2 (host_char_safe _ Hc)))).
  - apply (has_false_forall _ host_char); [|exact H]. intros c Hc. rewrite eqb_sym'.
    exact (proj2 (proj2 (proj2 (host_char_safe _ Hc)))).
Qed.

Lemma num_forall : forall p, forallb num_char p = true -> forallb safe_char p = true /\ forallb endpoint_char p = true.
Proof.
  intros p H. split; apply (forallb_imp num_char); try exact H; intros c Hc.
  - exact (proj1 (num_char_safe _ Hc)). - exact (proj2 (num_char_safe _ Hc)).
Qed.

(* the two shapes: bytes, and the port text read back by the oracle *)
Lemma shape_sound : forall s h p (req : bool),
  has c_colon p = false ->
  ((s = h ++ c_colon :: p /\ has c_colon h = false /\ has c_lbr s = false /\ has c_rbr s = false) \/
   (s = c_lbr :: h ++ c_rbr :: c_colon :: p /\ has c_lbr h = false /\ has c_rbr h = false)) ->
  forallb host_char h = true ->
  forallb num_char p = true ->
  (if is_nil p then negb req else signed_in 1 65535 p) = true ->
  endpoint_sound req s = true.
Proof.
  intros s h p req Hp Hshape Hh Hn Hport.
  destruct (host_forall _ Hh) as (Hs1 & Hs2 & _ & _). destruct (num_forall _ Hn) as [Hn1 Hn2].
  unfold endpoint_sound, safe_token.
  destruct Hshape as [(Es & Hhc & Hl & Hr)|(Es & Hl & Hr)].
  - assert (Hcount : count_char c_colon s = 1).
    { rewrite Es, count_app. simpl. rewrite (has_false_count _ _ Hhc), (has_false_count _ _ Hp). reflexivity. }
    assert (Hsl : split_last c_colon s = Some (h, p)) by (rewrite Es; apply split_last_app; exact Hp).
    assert (Hpt : port_text s = Some p).
    { unfold port_text. destruct s as [|c r]; [destruct h; discriminate|].
      rewrite (has_false_first _ _ _ Hl), Hcount, Hsl. reflexivity. }
    rewrite Hpt. subst s. rewrite !forallb_app. simpl forallb. rewrite Hs1, Hs2, Hn1, Hn2.
    destruct colon_ok as [C1 C2]. rewrite ?C1, ?C2. simpl.
    assert (Hne : is_nil (h ++ c_colon :: p) = false) by (destruct h; reflexivity). rewrite Hne. simpl. exact Hport.
  - assert (Hpt : port_text s = Some p).
    { unfold port_text. rewrite Es. rewrite Ascii.eqb_refl. simpl orb.
      change (c_lbr :: h ++ c_rbr :: c_colon :: p) with ((c_lbr :: h) ++ c_rbr :: c_colon :: p).
      replace ((c_lbr :: h) ++ c_rbr :: c_colon :: p) with (((c_lbr :: h) ++ [c_rbr]) ++ c_colon :: p)
        by (rewrite <- app_assoc; reflexivity).
      rewrite (split_last_app _ _ _ Hp). reflexivity. }
    rewrite Hpt. subst s. simpl forallb. rewrite !forallb_app. simpl forallb. rewrite Hs1, Hs2, Hn1, Hn2.
    destruct colon_ok as [C1 C2]. destruct lbr_ok as [L1 L2]. destruct rbr_ok as [R1 R2].
    rewrite ?C1, ?C2, ?L1, ?L2, ?R1, ?R2. simpl. exact Hport.
Qed.

Lemma validate_endpoint_sound : forall v s, validate_endpoint v s = true -> endpoint_sound true s = true.
Proof.
  intros v s H. unfold validate_endpoint in H.
  destruct (split_host_port s) as [h p| | |] eqn:E; try discriminate.
  destruct (parse_int (v_port_bits v) p) as [pv|] eqn:Ep; [|discriminate].
  destruct (port_in_range pv) eqn:Er; [|discriminate]. simpl in H.
  destruct (parse_int_shape _ _ _ Ep) as (Hn & Hne & Hsv).
  destruct (host_chars _ H) as [_ Hh].
  destruct (shp_shape _ _ _ E) as [Hp Hshape].
  apply (shape_sound s h p true Hp Hshape Hh Hn).
  destruct p; [congruence|]. simpl is_nil. cbv iota. exact (range_signed _ _ Hsv Er).
Qed.

Lemma whole_host_sound : forall s, s <> [] -> forallb host_char s = true ->
  (forall h p, split_host_port s <> SHP_ok h p) -> endpoint_sound false s = true.
Proof.
  intros s Hne Hh Hno. destruct (host_forall _ Hh) as (Hs1 & Hs2 & Hl & Hr).
  assert (Hpt : port_text s = None).
  { unfold port_text. destruct s as [|c r]; [reflexivity|]. rewrite (has_false_first _ _ _ Hl). cbn [orb].
    destruct (count_char c_colon (c :: r) =? 1) eqn:Ec; [|reflexivity].
    apply Nat.eqb_eq in Ec. destruct (one_colon_splits _ Ec Hl Hr) as (h & p & E). exfalso. exact (Hno _ _ E). }
  unfold endpoint_sound, safe_token. rewrite Hpt, Hs1, Hs2. destruct s; [congruence|]. reflexivity.
Qed.

Lemma validate_endpoint_optional_port_sound : forall v s,
  validate_endpoint_optional_port v s = true -> endpoint_sound false s = true.
Proof.
  intros v s H. unfold validate_endpoint_optional_port in H.
  destruct (is_nil s) eqn:Enil; [discriminate|].
  assert (Hsne : s <> []) by (intro; subst; discriminate).
  destruct (split_host_port s) as [h p| | |] eqn:E.
  - (* host and port found *)
    simpl in H.
    destruct (shp_shape _ _ _ E) as [Hp Hshape].
    assert (Hport : forallb num_char p = true /\ (if is_nil p then negb false else signed_in 1 65535 p) = true).
    { destruct p as [|c p']; [split; reflexivity|]. simpl is_nil in *. cbv iota in *.
      destruct (parse_int (v_port_bits v) (c :: p')) as [pv|] eqn:Ep; [|discriminate].
      destruct (parse_int_shape _ _ _ Ep) as (Hn & _ & Hsv). split; [exact Hn|].
      destruct (port_in_range pv) eqn:Er; [|discriminate]. exact (range_signed _ _ Hsv Er). }
    destruct Hport as [Hn Hport].
    assert (Hok : (if is_nil p then true
                   else match parse_int (v_port_bits v) p with Some p0 => port_in_range p0 | None => false end) = true).
    { destruct (if is_nil p then true else match parse_int (v_port_bits v) p with Some p0 => port_in_range p0 | None => false end);
        [reflexivity|discriminate]. }
    rewrite Hok in H. simpl in H.
    destruct h as [|hc h'].
    + (* empty host: the whole value is validated as the host *)
      simpl is_nil in H. cbv iota in H. destruct (host_chars _ H) as [_ Hh].
      destruct (host_forall _ Hh) as (_ & _ & Hl & Hr).
      destruct Hshape as [(Es & _ & _ & _)|(Es & _ & _)].
      * apply (shape_sound s [] p false Hp); auto.
      * rewrite Es in Hl. simpl in Hl. discriminate.
    + simpl is_nil in H. cbv iota in H. destruct (host_chars _ H) as [_ Hh].
      apply (shape_sound s (hc :: h') p false Hp Hshape Hh Hn Hport).
  - simpl in H. try rewrite Enil in H. destruct (host_chars _ H) as [_ Hh].
    apply whole_host_sound; auto. intros h p E'. congruence.
  - simpl in H. try rewrite Enil in H. destruct (host_chars _ H) as [_ Hh].
    apply whole_host_sound; auto. intros h p E'. congruence.
  - simpl in H.
    match type of H with (if negb ?b then false else _) = true => destruct b; [|discriminate] end.
    simpl in H. try rewrite Enil in H. destruct (host_chars _ H) as [_ Hh].
    apply whole_host_sound; auto. intros h p E'. congruence.
Qed.

(* the token-level consequence used for mgmt.conf *)
Lemma endpoint_sound_safe : forall req s, endpoint_sound req s = true -> safe_token s = true.
Proof.
  intros req s H. unfold endpoint_sound in H. apply andb_true_iff in H. destruct H as [H _].
  apply andb_true_iff in H. exact (proj1 H).
Qed.
