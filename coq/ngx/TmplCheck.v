(* Correspondence and oracle for single template executions of the REAL generator.

   A case is one execution recorded by the harness: the template's name, its data (by reflection, with the
   user-controlled string leaves as holes), the contents of the holes, and the text the real text/template engine
   produced. Checked:
     code 1  the model (ngx/Tmpl.v run on the regenerated parse tree gen/Templates.v) does not reproduce the text,
             or cannot execute (construct outside the subset, a hole inspected by the template);
     code 2  the symbolic tokenizer run (ngx/SymLex.v) over the chunks finds: a lexical error (for every content of
             the holes), a hole whose content needs quoting outside a quoted token, a hole inside a directive name,
             or a fragment that ends inside a token.
   By ngx/TmplProofs.v and ngx/SymLexProofs.v a case that passes stands for all contents of its holes within their
   classes. *)
From Coq Require Import List String Ascii Bool Arith.
From NGF Require Export lib.CaseLib ngx.Lexer ngx.Tmpl ngx.SymLex gen.Templates.
Import ListNotations.
Local Open Scope string_scope.
Local Open Scope list_scope.

Record case := TCase {
  t_name : string;
  t_data : value;
  t_subst : list string;
  t_out : string
}.

Fixpoint find_template (l : list (string * list node)) (n : string) : option (list node) :=
  match l with
  | [] => None
  | (k, t) :: l' => if String.eqb k n then Some t else find_template l' n
  end.

(* A hole's symbol is chosen by its content AND by the tokenizer state it is met in: plain content fits everywhere;
   otherwise a bare-safe string fits at a token boundary or inside an unquoted token, a double-quote-safe or
   quoted-plain string inside a quoted token. Whatever is chosen, [sym_ok] of the chosen symbol is checked below, so
   the soundness theorem applies to the run. Class 2 = none of the classes, or equal to a string constant of the
   template (which the contents of a hole must avoid). *)
Definition candidates (id : nat) (s : string) : list sym :=
  let cs := chars_of s in
  (match cs with [] => [] | _ => if all_plain cs then [SH id] else [] end) ++
  (if bare_ok cs then [SB id] else []) ++
  (if dq_ok cs then [SD id] else []) ++
  (if all_qplain cs then [SQ id] else []).

Definition hole_class (tc : list string) (s : string) : nat :=
  if mem_string s tc then 2 else match candidates 0 s with [] => 2 | _ => 0 end.

Definition step_state (st : slst) (x : sym) : option slst :=
  match slstep st x with SOk st' _ => Some st' | _ => None end.

Fixpoint run_state (st : slst) (xs : list sym) : option slst :=
  match xs with
  | [] => Some st
  | x :: xs' => match step_state st x with Some st' => run_state st' xs' | None => None end
  end.

Fixpoint pick (st : slst) (cands : list sym) : option sym :=
  match cands with
  | [] => None
  | x :: rest => match slstep st x with SUnsupported => pick st rest | _ => Some x end
  end.

(* chunks to symbols, threading the symbolic state (None once the run has stopped: the rest is converted with the
   first candidate and the run reports the stop) *)
Fixpoint resolve (sg : list string) (st : option slst) (cs : list chunk) : list sym :=
  match cs with
  | [] => []
  | CText s :: cs' =>
      let xs := syms_of_string s in
      xs ++ resolve sg (match st with Some st0 => run_state st0 xs | None => None end) cs'
  | CHole id :: cs' =>
      let cands := candidates id (nth id sg "") in
      let x := match st with
               | Some st0 => match pick st0 cands with Some x => x | None => hd (SQ id) cands end
               | None => hd (SQ id) cands
               end in
      x :: resolve sg (match st with Some st0 => step_state st0 x | None => None end) cs'
  end.

Definition syms_of (sg : list string) (cs : list chunk) : list sym := resolve sg (Some SLStart) cs.

Definition has_hole (raw : list sym) : bool :=
  existsb (fun x => match x with SC _ => false | _ => true end) raw.

(* A word directly after the start, a semicolon or a brace is a directive name, except inside the data blocks of
   map, split_clients, types, geo, match, upstream-less blocks whose entries are data. [stack] holds, per open block, whether it is a
   data block; [cur] is the name of the directive being read (None when it holds a hole). *)
Definition word_text (raw : list sym) : option string :=
  if has_hole raw then None
  else Some (string_of (flat_map (fun x => match x with SC c => [c] | _ => [] end) raw)).

Definition data_block_name (n : option string) : bool :=
  match n with
  | Some s => String.eqb s "map" || String.eqb s "split_clients" || String.eqb s "types" || String.eqb s "geo" ||
              String.eqb s "match" || String.eqb s "charset_map"
  | None => false
  end.

Fixpoint name_hole (at_start : bool) (cur : option string) (stack : list bool) (ts : list stok) : bool :=
  match ts with
  | [] => false
  | SWord _ raw :: ts' =>
      if at_start then
        let in_data := match stack with d :: _ => d | [] => false end in
        (negb in_data && has_hole raw) || name_hole false (word_text raw) stack ts'
      else name_hole false cur stack ts'
  | SOpen :: ts' => name_hole true None (data_block_name cur :: stack) ts'
  | SClose :: ts' => name_hole true None (tl stack) ts'
  | SSemi :: ts' => name_hole true None stack ts'
  end.

Definition hole_ids (cs : list chunk) : list nat :=
  flat_map (fun c => match c with CHole id => [id] | _ => [] end) cs.


Definition sfinal_ok_b (s : slst) : bool := match s with SLStart | SLComment => true | _ => false end.

Definition complaints (c : case) : list (nat * string) :=
  match find_template templates (t_name c) with
  | None => [(code_mismatch, "template not in gen/Templates.v")]
  | Some t =>
      match run t (t_data c) with
      | None => [(code_mismatch, "the model cannot execute the template on this data")]
      | Some chunks =>
          if negb (String.eqb (render (subst_of (t_subst c)) chunks) (t_out c)) then
            [(code_mismatch, "the model's text differs from the real engine's")]
          else if existsb (fun s => Nat.eqb (hole_class (consts_of t) s) 2) (t_subst c) then
            [(code_mismatch, "a hole holds characters outside both classes (not a case for this part)")]
          else
            if negb (forallb (sym_ok (fun id => chars_of (nth id (t_subst c) ""))) (syms_of (t_subst c) chunks)) then
              [(code_violation, "a value that fits no class of the position it is rendered in")]
            else
            match slrun SLStart (syms_of (t_subst c) chunks) with
            | RErr => [(code_violation, "lexical error whatever the holes contain")]
            | RUnsupported => [(code_violation, "a value that needs quoting is rendered outside a quoted token")]
            | RDone s toks =>
                (if sfinal_ok_b s then [] else [(code_violation, "the fragment ends inside a token")]) ++
                (if name_hole true None [] toks then [(code_violation, "a user-controlled value in directive-name position")] else [])
            end
      end
  end.

Fixpoint dedup_nat (l : list nat) : list nat :=
  match l with [] => [] | x :: l' => if existsb (Nat.eqb x) l' then dedup_nat l' else x :: dedup_nat l' end.

Definition check_case (c : case) : list nat := dedup_nat (map fst (complaints c)).
