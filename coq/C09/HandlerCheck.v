(* Oracle for the handler in front of the leader-aware updater: the statuses on the objects (object, entry, type, status, reason;
   sorted) after a replica that was not the leader handled its batches and was then elected, against those of a replica that was
   leader from the start and handled the same batches. Code 2: a condition was on an object before the election (a non-leader
   wrote), or the two differ (the newest status of some group was lost, or something older was written). *)
From Coq Require Import List String Bool Arith.
From NGF Require Export lib.CaseLib lib.Str.
Import ListNotations.

Record case := HCase {
  h_leader : list string;          (* statuses after the same batches as leader from the start *)
  h_elected : list string;         (* statuses after election *)
  h_before : nat                   (* conditions on the objects just before the election *)
}.

Fixpoint strs_eqb (a b : list string) : bool :=
  match a, b with
  | [], [] => true
  | x :: a', y :: b' => seqb x y && strs_eqb a' b'
  | _, _ => false
  end.

Definition check_case (c : case) : list nat :=
  if Nat.eqb (h_before c) 0 && strs_eqb (h_leader c) (h_elected c) then [] else [code_violation].
