//go:build verif

package graph

import (
	"sort"
	"strconv"
	"testing"

	metav1 "k8s.io/apimachinery/pkg/apis/meta/v1"
	"k8s.io/apimachinery/pkg/runtime/schema"
	"k8s.io/apimachinery/pkg/types"
	gatewayv1 "sigs.k8s.io/gateway-api/apis/v1"
	"sigs.k8s.io/gateway-api/apis/v1alpha2"

	ngfAPIv1alpha2 "github.com/nginx/nginx-gateway-fabric/apis/v1alpha2"
	"github.com/nginx/nginx-gateway-fabric/internal/framework/helpers"
	"github.com/nginx/nginx-gateway-fabric/internal/mode/static/nginx/config/policies"
	"github.com/nginx/nginx-gateway-fabric/internal/mode/static/state/validation"
	"github.com/nginx/nginx-gateway-fabric/internal/mode/static/state/validation/validationfakes"
	vu "github.com/nginx/nginx-gateway-fabric/internal/verifutil"
)

// TestVerifC03Overlap: second part of the C03 check. Which policies may be attached so that no location ever includes
// two policy files by accident is decided by checkTargetRoutesForOverlap on hostname:port/path combinations. The real
// BuildGraph runs on a Gateway with two to four listeners (several ports, exact / wildcard / no hostnames, so that a
// parentRef without a sectionName binds to several listeners with different ports and different accepted hostnames),
// two to four HTTPRoutes and one to three ObservabilityPolicies with one or two targets. Observed: the listeners with
// their ports, the accepted hostnames per listener of every parentRef of every Route as the graph holds them, the paths,
// and per policy the targets and whether it got the TargetConflict condition. C03/OverlapCheck.v compares with the model
// and applies the oracle.
func TestVerifC03Overlap(t *testing.T) {
	out := vu.Open("C03")
	out.ShardLen(100)
	rng := vu.NewRng(out.Seed ^ 0xC030B)
	n := out.Count(500, 20000)
	hostPool := []string{"", "example.com", "*.example.com", "a.example.com", "*.a.example.com", "b.a.example.com", "*.org"}
	pathPool := []string{"/", "/a", "/b", "/a/b"}
	ports := []int32{80, 8080, 8443}
	for i := 0; i < n; i++ {
		r := rng.Fork()
		st := ClusterState{
			GatewayClasses: map[types.NamespacedName]*gatewayv1.GatewayClass{{Name: c06Class}: {ObjectMeta: metav1.ObjectMeta{Name: c06Class}, Spec: gatewayv1.GatewayClassSpec{ControllerName: c06Controller}}},
			Gateways:       map[types.NamespacedName]*gatewayv1.Gateway{},
			HTTPRoutes:     map[types.NamespacedName]*gatewayv1.HTTPRoute{},
			NGFPolicies:    map[PolicyKey]policies.Policy{},
		}
		gw := &gatewayv1.Gateway{ObjectMeta: metav1.ObjectMeta{Namespace: "default", Name: "gw"}, Spec: gatewayv1.GatewaySpec{GatewayClassName: c06Class}}
		nl := 2 + r.Intn(3)
		for k := 0; k < nl; k++ {
			l := gatewayv1.Listener{Name: gatewayv1.SectionName("l" + strconv.Itoa(k)), Port: gatewayv1.PortNumber(ports[r.Intn(1+r.Intn(3))]), Protocol: gatewayv1.HTTPProtocolType}
			if h := hostPool[r.Intn(len(hostPool))]; h != "" {
				l.Hostname = helpers.GetPointer(gatewayv1.Hostname(h))
			}
			gw.Spec.Listeners = append(gw.Spec.Listeners, l)
		}
		st.Gateways[types.NamespacedName{Namespace: "default", Name: "gw"}] = gw
		nr := 2 + r.Intn(3)
		var routeNames []string
		for k := 0; k < nr; k++ {
			name := "r" + strconv.Itoa(k)
			routeNames = append(routeNames, name)
			hr := &gatewayv1.HTTPRoute{ObjectMeta: metav1.ObjectMeta{Namespace: "default", Name: name}}
			for p, np := 0, 1+r.Intn(2); p < np; p++ {
				ref := gatewayv1.ParentReference{Name: "gw"}
				if r.Chance(1, 3) {
					ref.SectionName = helpers.GetPointer(gatewayv1.SectionName("l" + strconv.Itoa(r.Intn(nl))))
				}
				hr.Spec.ParentRefs = append(hr.Spec.ParentRefs, ref)
			}
			for h, nh := 0, r.Intn(3); h < nh; h++ {
				if x := hostPool[1+r.Intn(len(hostPool)-1)]; true {
					hr.Spec.Hostnames = append(hr.Spec.Hostnames, gatewayv1.Hostname(x))
				}
			}
			for ru, nru := 0, 1+r.Intn(2); ru < nru; ru++ {
				ty := gatewayv1.PathMatchPathPrefix
				if r.Chance(1, 3) {
					ty = gatewayv1.PathMatchExact
				}
				hr.Spec.Rules = append(hr.Spec.Rules, gatewayv1.HTTPRouteRule{Matches: []gatewayv1.HTTPRouteMatch{{Path: &gatewayv1.HTTPPathMatch{Type: helpers.GetPointer(ty), Value: helpers.GetPointer(pathPool[r.Intn(len(pathPool))])}}}})
			}
			st.HTTPRoutes[types.NamespacedName{Namespace: "default", Name: name}] = hr
		}
		opGVK := schema.GroupVersionKind{Group: ngfAPIv1alpha2.GroupName, Version: "v1alpha2", Kind: "ObservabilityPolicy"}
		npol := 1 + r.Intn(3)
		type polSpec struct {
			name    string
			targets []string
		}
		var pols []polSpec
		for k := 0; k < npol; k++ {
			ps := polSpec{name: "op" + strconv.Itoa(k)}
			for _, x := range r.Perm(nr)[:1+r.Intn(2)] {
				ps.targets = append(ps.targets, routeNames[x])
			}
			if r.Chance(1, 8) {
				ps.targets = append(ps.targets, "missing")
			}
			sort.Strings(ps.targets)
			p := &ngfAPIv1alpha2.ObservabilityPolicy{ObjectMeta: metav1.ObjectMeta{Namespace: "default", Name: ps.name},
				Spec: ngfAPIv1alpha2.ObservabilityPolicySpec{Tracing: &ngfAPIv1alpha2.Tracing{Strategy: ngfAPIv1alpha2.TraceStrategyParent}}}
			p.SetGroupVersionKind(opGVK)
			for _, tg := range ps.targets {
				p.Spec.TargetRefs = append(p.Spec.TargetRefs, v1alpha2.LocalPolicyTargetReference{Group: gatewayv1.GroupName, Kind: "HTTPRoute", Name: gatewayv1.ObjectName(tg)})
			}
			st.NGFPolicies[PolicyKey{NsName: types.NamespacedName{Namespace: "default", Name: ps.name}, GVK: opGVK}] = p
			pols = append(pols, ps)
		}
		g := BuildGraph(st, c06Controller, c06Class, nil, validation.Validators{
			HTTPFieldsValidator: &validationfakes.FakeHTTPFieldsValidator{},
			GenericValidator:    &validationfakes.FakeGenericValidator{},
			PolicyValidator:     &validationfakes.FakePolicyValidator{},
		}, ProtectedPorts{})
		if g.Gateway == nil {
			t.Fatalf("no gateway in the graph")
		}
		var lTerms, rTerms, pTerms []string
		for _, l := range gw.Spec.Listeners {
			lTerms = append(lTerms, vu.Pair(vu.Str(string(l.Name)), vu.Z(int64(l.Port))))
		}
		shared := false
		for _, name := range routeNames {
			rt := g.Routes[RouteKey{NamespacedName: types.NamespacedName{Namespace: "default", Name: name}, RouteType: RouteTypeHTTP}]
			var att []string
			if rt != nil {
				for _, ref := range rt.ParentRefs {
					if ref.Attachment == nil {
						continue
					}
					var ls []string
					for l := range ref.Attachment.AcceptedHostnames {
						ls = append(ls, l)
					}
					sort.Strings(ls)
					if len(ls) > 1 {
						shared = true
					}
					for _, l := range ls {
						att = append(att, vu.Pair(vu.Str(l), vu.StrList(ref.Attachment.AcceptedHostnames[l])))
					}
				}
			}
			var paths []string
			for _, ru := range st.HTTPRoutes[types.NamespacedName{Namespace: "default", Name: name}].Spec.Rules {
				for _, m := range ru.Matches {
					paths = append(paths, *m.Path.Value)
				}
			}
			rTerms = append(rTerms, vu.App("ORoute", vu.Str(name), vu.List(att), vu.StrList(paths)))
		}
		for _, ps := range pols {
			p := g.NGFPolicies[PolicyKey{NsName: types.NamespacedName{Namespace: "default", Name: ps.name}, GVK: opGVK}]
			present, conflict, valid := p != nil, false, false
			if p != nil {
				valid = p.Valid
				for _, c := range p.Conditions {
					if c.Reason == "TargetConflict" {
						conflict = true
					}
				}
			}
			pTerms = append(pTerms, vu.App("OPol", vu.Str(ps.name), vu.StrList(ps.targets), vu.Bool(present), vu.Bool(valid), vu.Bool(conflict)))
		}
		out.Case(vu.App("OCase", vu.List(lTerms), vu.List(rTerms), vu.List(pTerms)),
			map[string]any{"listeners (name, port)": lTerms, "routes (name, accepted hostnames per listener, paths)": rTerms, "policies (name, targets, in graph, valid, TargetConflict)": pTerms},
			shared && npol >= 2, vu.List(lTerms)+vu.List(rTerms)+vu.List(pTerms))
		out.Tally("listeners", strconv.Itoa(nl))
		out.Tally("policies", strconv.Itoa(npol))
		out.Tally("parentRef_on_several_listeners", strconv.FormatBool(shared))
	}
	out.Close("C03.OverlapCheck", "")
}
