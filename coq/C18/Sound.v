(* C18 — the oracle of Check.v is tied to the theorems: on the model's own behaviour (repaired D20; outside class
   D21), rendered the way the harness observes the cluster, the oracle raises no code, for every history, every
   iteration order and every batch boundary. *)
From Coq Require Import List String Ascii ZArith NArith Bool Arith Lia Permutation.
From NGF Require Import C18.Model C18.Proofs C18.Check.
Import ListNotations.
Local Open Scope string_scope.
Local Open Scope list_scope.

(* ---------------------------------------------------------------- rendering a model state as an observation *)

Definition render_dep (d : dep) : odep :=
  ODep "nginx-gateway" (dep_name (d_id d)) [("app", dep_name (d_id d))] [("app", dep_name (d_id d))]
       [gateway_arg (d_gw d); lock_arg (d_gw d)].

Definition render_cond (c : cond) : ocond :=
  OCond (c_type c) (if c_status c then "True" else "False") (c_reason c) (c_gen c).

Definition render_gc (p : string * (Z * list cond)) : ogc :=
  OGc (fst p) (fst (snd p)) (map render_cond (snd (snd p))).

Definition render_snap (s : state) : snap :=
  Snap (st_crashed s) (map render_dep (cl_deps s)) (map render_gc (cl_gcs s)).

Fixpoint trace_from (v : variants) (gc sup : string) (rk : nat -> key -> N) (i : nat) (s : state)
         (h : list (list event)) : list state :=
  match h with
  | [] => []
  | b :: h' => let s' := step v gc sup (rk i) s b in s' :: trace_from v gc sup rk (S i) s' h'
  end.

(* ---------------------------------------------------------------- perm_match *)

Lemma remove_first_perm {B} (p : B -> bool) ys ys' :
  remove_first p ys = Some ys' -> exists y, p y = true /\ Permutation ys (y :: ys').
Proof.
  revert ys'. induction ys as [|y ys IH]; simpl; intros ys' H; [discriminate|].
  destruct (p y) eqn:P.
  - inversion H; subst. exists y. auto.
  - destruct (remove_first p ys) as [r|]; [|discriminate]. inversion H; subst.
    destruct (IH r eq_refl) as [y0 [P0 Pm]]. exists y0. split; auto.
    eapply perm_trans; [apply perm_skip; exact Pm|]. apply perm_swap.
Qed.

Lemma remove_first_some {B} (p : B -> bool) ys : (exists y, In y ys /\ p y = true) -> remove_first p ys <> None.
Proof.
  induction ys as [|y ys IH]; simpl; intros [y0 [Hin P]]; [tauto|].
  destruct (p y) eqn:Py; [discriminate|].
  destruct Hin as [->|Hin]; [congruence|].
  destruct (remove_first p ys); [discriminate|]. apply IH. eauto.
Qed.

Lemma perm_match_by_value {A B} (f : A -> string) (g : B -> string) xs : forall ys,
  Permutation (map f xs) (map g ys) ->
  perm_match (fun x y => String.eqb (g y) (f x)) xs ys = true.
Proof.
  induction xs as [|x xs IH]; simpl; intros ys P.
  - apply Permutation_nil in P. destruct ys; [auto|discriminate].
  - destruct (remove_first (fun y => String.eqb (g y) (f x)) ys) as [ys'|] eqn:R.
    + destruct (remove_first_perm _ _ _ R) as [y [Py Pm]]. apply String.eqb_eq in Py.
      apply IH. apply (Permutation_cons_inv (a := f x)).
      eapply perm_trans; [exact P|]. rewrite <- Py.
      change (g y :: map g ys') with (map g (y :: ys')). apply Permutation_map. exact Pm.
    + exfalso. revert R. apply remove_first_some.
      assert (Hin : In (f x) (map g ys)) by (eapply Permutation_in; [exact P|simpl; auto]).
      apply in_map_iff in Hin. destruct Hin as [y [E Hy]]. exists y. split; auto. rewrite E. apply String.eqb_refl.
Qed.

Lemma perm_match_ext {A B} (m m' : A -> B -> bool) xs : forall ys,
  (forall x y, m x y = m' x y) -> perm_match m xs ys = perm_match m' xs ys.
Proof.
  induction xs as [|x xs IH]; simpl; intros ys E; auto.
  assert (R : remove_first (m x) ys = remove_first (m' x) ys).
  { clear IH. induction ys as [|y ys IHy]; simpl; auto. rewrite E, IHy. auto. }
  rewrite R. destruct (remove_first (m' x) ys); auto.
Qed.

(* ---------------------------------------------------------------- keys mentioned in the history *)

Lemma keys_of_in evs k : In k (keys_of evs) <-> exists e, In e evs /\ about_gw k e = true.
Proof.
  induction evs as [|e evs IH]; simpl.
  - split; [tauto|]. intros [e [[] _]].
  - assert (G : forall ns n, (match e with UpGW a b _ | DelGW a b => (a, b) = (ns, n) | _ => False end) ->
                 (In k (if existsb (key_eqb (ns, n)) (keys_of evs) then keys_of evs else (ns, n) :: keys_of evs) <->
                  exists e0, (e = e0 \/ In e0 evs) /\ about_gw k e0 = true)).
    { intros ns n He. split.
      - intros Hin. destruct (existsb (key_eqb (ns, n)) (keys_of evs)) eqn:X.
        + apply IH in Hin. destruct Hin as [e0 [H1 H2]]. eauto.
        + destruct Hin as [<-|Hin].
          * exists e. split; auto. destruct e; try tauto; inversion He; subst; simpl;
              destruct (key_eqb_spec (ns, n) (ns, n)); congruence.
          * apply IH in Hin. destruct Hin as [e0 [H1 H2]]. eauto.
      - intros [e0 [[<-|Hin] Ha]].
        + assert (k = (ns, n)).
          { destruct e; try tauto; inversion He; subst; simpl in Ha;
              destruct (key_eqb_spec k (ns, n)); congruence. }
          subst k. destruct (existsb (key_eqb (ns, n)) (keys_of evs)) eqn:X.
          * apply existsb_key in X. auto.
          * simpl; auto.
        + assert (In k (keys_of evs)) by (apply IH; eauto).
          destruct (existsb (key_eqb (ns, n)) (keys_of evs)); simpl; auto. }
    destruct e; try (apply G; reflexivity).
    all: rewrite IH; split; [intros [e0 [H1 H2]]; eauto|];
      intros [e0 [[<-|H1] H2]]; [simpl in H2; discriminate|eauto].
Qed.

Lemma keys_of_nodup evs : NoDup (keys_of evs).
Proof.
  induction evs as [|e evs IH]; simpl; [constructor|].
  destruct e; auto.
  all: destruct (existsb (key_eqb (ns, name)) (keys_of evs)) eqn:X; auto;
    constructor; auto; intros Hin; apply existsb_key in Hin; congruence.
Qed.

Lemma gw_class_mentioned revs k c : gw_class revs k = Some c -> In k (keys_of revs).
Proof.
  unfold gw_class. intros H. destruct (find (about_gw k) revs) as [e|] eqn:F; [|discriminate].
  apply find_some in F. apply keys_of_in. exists e. tauto.
Qed.

Lemma opt_str_eqb_spec a b : opt_str_eqb a b = true <-> a = b.
Proof.
  destruct a, b; simpl; split; try congruence; try discriminate.
  - intros H. apply String.eqb_eq in H. congruence.
  - intros H. inversion H. apply String.eqb_refl.
Qed.

Lemma wanted_spec gc revs k : In k (wanted gc revs) <-> gw_class revs k = Some gc.
Proof.
  unfold wanted. rewrite filter_In, opt_str_eqb_spec. split; [tauto|].
  intros H. split; auto. eapply gw_class_mentioned; eauto.
Qed.

Lemma wanted_nodup gc revs : NoDup (wanted gc revs).
Proof. unfold wanted. apply NoDup_filter. apply keys_of_nodup. Qed.

(* ---------------------------------------------------------------- the Deployment part of the oracle *)

Lemma gw_args_render d : gw_args (render_dep d) = [gateway_arg (d_gw d)].
Proof.
  unfold gw_args, render_dep, gateway_arg, lock_arg. cbn [o_args].
  generalize (key_string (d_gw d)). intros x. simpl. destruct x; reflexivity.
Qed.

Lemma distinct_render ds : NoDup (map d_id ds) -> distinct_deps (map render_dep ds) = true.
Proof.
  induction ds as [|d ds IH]; simpl; intros H; auto.
  inversion H; subst. rewrite IH by auto. rewrite andb_true_r. apply negb_true_iff.
  apply not_true_iff_false. intros X. apply existsb_exists in X. destruct X as [o [Hin S]].
  apply in_map_iff in Hin. destruct Hin as [d' [<- Hd']].
  unfold same_dep in S. simpl in S. apply String.eqb_eq in S. first [apply dep_name_inj in S | apply dec_inj in S].
  apply H2. rewrite S. apply in_map; auto.
Qed.

Lemma selectors_render ds :
  forallb (fun d => forallb (fun d' => Bool.eqb (selects (o_sel d) (o_lbl d')) (same_dep d d'))
                            (map render_dep ds)) (map render_dep ds) = true.
Proof.
  apply forallb_forall. intros o Ho. apply forallb_forall. intros o' Ho'.
  apply in_map_iff in Ho, Ho'. destruct Ho as [d [<- _]], Ho' as [d' [<- _]].
  unfold selects, same_dep. simpl. rewrite andb_true_r.
  rewrite (String.eqb_sym (dec (d_id d')) (dec (d_id d))). apply eqb_reflx.
Qed.

Lemma deps_ok_render gc revs ds :
  NoDup (map d_gw ds) -> NoDup (map d_id ds) ->
  (forall k, In k (map d_gw ds) <-> gw_class revs k = Some gc) ->
  deps_ok (wanted gc revs) (map render_dep ds) = true.
Proof.
  intros G I X. unfold deps_ok. rewrite distinct_render, selectors_render by auto. rewrite !andb_true_r.
  rewrite (perm_match_ext _ (fun k o => String.eqb (match gw_args o with [a] => a | _ => "" end) (gateway_arg k))).
  - apply (perm_match_by_value gateway_arg (fun o => match gw_args o with [a] => a | _ => "" end)).
    replace (map (fun o => match gw_args o with [a] => a | _ => "" end) (map render_dep ds))
      with (map gateway_arg (map d_gw ds))
      by (rewrite !map_map; apply map_ext; intros d; rewrite gw_args_render; reflexivity).
    apply Permutation_map.
    apply NoDup_Permutation; auto. { apply wanted_nodup. }
    intros k. rewrite wanted_spec. symmetry. apply X.
  - intros k o. destruct (gw_args o) as [|a [|a' l]] eqn:E; simpl; auto.
    + apply andb_true_r.
    + apply andb_false_r.
Qed.

(* ---------------------------------------------------------------- the status part of the oracle *)

Lemma accepted_render cs :
  existsb (fun c => is_accepted_type c && String.eqb (oc_status c) "True") (map render_cond cs) = accepted cs.
Proof.
  unfold accepted. induction cs as [|c cs IH]; simpl; auto. rewrite IH. f_equal.
  unfold is_accepted_type. simpl. destruct (c_status c); reflexivity.
Qed.

Lemma n_accepted_render cs :
  List.length (filter is_accepted_type (map render_cond cs)) = n_accepted_conds cs.
Proof.
  unfold n_accepted_conds. induction cs as [|c cs IH]; simpl; auto.
  unfold is_accepted_type at 1. simpl. change "Accepted" with tAccepted.
  destruct (String.eqb (c_type c) tAccepted); simpl; auto.
Qed.

Lemma inv_gc_facts v gc sup s revs n g cs :
  inv v gc sup s revs -> In (n, (g, cs)) (cl_gcs s) ->
  n_accepted_conds cs <= 1 /\
  accepted cs = String.eqb n gc && gc_present gc revs && negb (crd_unsupported sup revs).
Proof.
  intros [S _ T _ _] Hin. rewrite (T n g cs Hin). rewrite (so_gcs _ _ S).
  destruct (gc_present n revs) eqn:P.
  - rewrite accepted_gc_conds, one_accepted_cond, (unsupported_flag_spec sup s revs S). split; [lia|].
    destruct (String.eqb_spec n gc) as [->|N]; simpl; auto. rewrite P. auto.
  - split; [unfold n_accepted_conds; simpl; lia|]. simpl.
    destruct (String.eqb_spec n gc) as [->|N]; simpl; auto. rewrite P. auto.
Qed.

Lemma gcs_ok_render v gc sup s revs :
  inv v gc sup s revs -> gcs_ok gc sup revs (map render_gc (cl_gcs s)) = true.
Proof.
  intros I. unfold gcs_ok. apply forallb_forall. intros o Ho. apply in_map_iff in Ho.
  destruct Ho as [[n [g cs]] [<- Hin]]. destruct (inv_gc_facts v gc sup s revs n g cs I Hin) as [A B].
  unfold accepted_true, render_gc. simpl. rewrite n_accepted_render, accepted_render, B.
  rewrite eqb_reflx, andb_true_r. apply Nat.leb_le. exact A.
Qed.

Lemma inv_dep_facts v gc sup s revs :
  inv v gc sup s revs -> v_d20 v = false ->
  NoDup (map d_gw (cl_deps s)) /\ NoDup (map d_id (cl_deps s)) /\
  (forall k, In k (map d_gw (cl_deps s)) <-> gw_class revs k = Some gc).
Proof.
  intros [S [U1 U2 U3 U4] _ _ X] Hv. rewrite U4, !map_map. simpl. split; [|split]; auto.
  intros k. rewrite <- (has_class_spec gc s revs k S), <- (X Hv k). symmetry. apply (amem_in _ key_eqb_spec).
Qed.

(* ---------------------------------------------------------------- soundness of the oracle *)

Lemma oracle_sound_from v gc sup rk h : forall i s revs,
  v_d20 v = false -> inv v gc sup s revs ->
  v_d21 v = false \/ never_absent gc revs h ->
  oracle_from gc sup revs h (map render_snap (trace_from v gc sup rk i s h)) = [].
Proof.
  induction h as [|b h IH]; intros i s revs Hv I Hd; [reflexivity|].
  assert (I' : inv v gc sup (step v gc sup (rk i) s b) (rev_append b revs)).
  { apply step_ok; auto. destruct Hd as [Hd|Hd]; auto. right.
    specialize (Hd [] b h eq_refl). simpl in Hd. rewrite app_nil_r in Hd. rewrite rev_append_rev. exact Hd. }
  cbn [trace_from map oracle_from].
  set (s' := step v gc sup (rk i) s b) in *.
  cbn [render_snap sn_panic sn_gcs sn_deps].
  rewrite (i_alive _ _ _ _ _ I').
  rewrite (gcs_ok_render v gc sup s' _ I'). cbn [negb].
  destruct (inv_dep_facts v gc sup s' _ I' Hv) as [G [J X]].
  rewrite (deps_ok_render gc _ (cl_deps s') G J X).
  apply IH; auto.
  destruct Hd as [Hd|Hd]; auto. right. intros pre b' post E.
  specialize (Hd (b :: pre) b' post). simpl in Hd. rewrite E in Hd. specialize (Hd eq_refl).
  rewrite rev_append_rev. rewrite rev_app_distr, <- app_assoc in Hd. exact Hd.
Qed.

Theorem oracle_sound v gc sup foreign rk h :
  v_d20 v = false -> (v_d21 v = false \/ ~ Proofs.class_D21 gc h) ->
  oracle_from gc sup [] h (map render_snap (trace_from v gc sup rk 0 (init foreign) h)) = [].
Proof.
  intros Hv Hd. apply oracle_sound_from; auto.
  - apply inv_init.
  - destruct Hd; auto. right. apply not_class_never_absent; auto.
Qed.

(* and the oracle is not vacuous: on the D20 witness run by the handler as found it raises the D20 code, on the
   D21 witness the D21 code *)
Example oracle_rejects_D20 :
  oracle_from "nginx" sup121 [] witness_D20
    (map render_snap (trace_from (V true true) "nginx" sup121 rk0 0 (init []) witness_D20)) = [code_D20].
Proof. vm_compute. reflexivity. Qed.

Example oracle_rejects_D21 :
  oracle_from "nginx" sup121 [] witness_D21
    (map render_snap (trace_from (V false true) "nginx" sup121 rk0 0 (init []) witness_D21)) = [code_D21].
Proof. vm_compute. reflexivity. Qed.
