(* C15 — executable model of internal/mode/static/nginx/config/split_clients.go (+ the template
   split_clients_template.go and createProxyPass of servers.go), REPAIRED behaviour (fixes/D8.patch):
   shares are computed in integer hundredths of a percent, rounded down, and the remainder goes to
   the last backend with a non-zero weight.  [shares_asfound] keeps the as-found rule ("the last
   backend takes the remainder") in exact arithmetic for the refuted theorem (D9); the additional
   floating-point noise of the as-found code (D8, "-0.00") is not modelled, its witness is replayed
   on the implementation by the harness.

   No proofs here.  Data numbers are Z; nat only for list positions. *)
From Coq Require Import List ZArith String Ascii Bool Arith DecimalString.
Import ListNotations.
Local Open Scope Z_scope.

(* ------------------------------------------------------------------------------------ input *)

(* dataplane.Backend (VerifyTLS plays no role here) *)
Record backend := Backend { b_name : string; b_weight : Z; b_valid : bool }.

(* dataplane.BackendGroup: Source namespace/name, RuleIdx, Backends *)
Record group := Group { g_ns : string; g_name : string; g_rule : Z; g_backends : list backend }.

Definition invalid_backend_ref : string := "invalid-backend-ref".

(* 100% in hundredths of a percent (maxPercentHundredths) *)
Definition max_hundredths : Z := 10000.

(* ------------------------------------------------------------------------------------ numbers *)

Fixpoint zsum (l : list Z) : Z := match l with [] => 0 | x :: t => x + zsum t end.

(* for i, b := range backends { if b.Weight > 0 { remainderIdx = i } }   (initially 0) *)
Fixpoint remainder_idx_from (i r : nat) (ws : list Z) : nat :=
  match ws with
  | [] => r
  | w :: t => remainder_idx_from (S i) (if 0 <? w then i else r) t
  end.
Definition remainder_idx (ws : list Z) : nat := remainder_idx_from 0 0 ws.

(* percentHundredthsOf: int64(weight) * 10000 / totalWeight — Go's / truncates toward zero *)
Definition hundredths_of (w W : Z) : Z := Z.quot (w * max_hundredths) W.

(* the distribution loop: before the remainder index floor and subtract, at it the rest, after it 0 *)
Fixpoint shares_from (W : Z) (r i : nat) (avail : Z) (ws : list Z) : list Z :=
  match ws with
  | [] => []
  | w :: t =>
      if (i <? r)%nat then
        let h := hundredths_of w W in h :: shares_from W r (S i) (avail - h) t
      else if (i =? r)%nat then avail :: shares_from W r (S i) avail t
      else 0 :: shares_from W r (S i) avail t
  end.

(* shares in hundredths of a percent, for a weight vector with non-zero total *)
Definition shares (ws : list Z) : list Z :=
  shares_from (zsum ws) (remainder_idx ws) 0 max_hundredths ws.

(* as found (exact-arithmetic idealisation of the float code): every backend but the last is
   floored, the LAST backend takes the remainder whatever its weight *)
Definition shares_asfound (ws : list Z) : list Z :=
  shares_from (zsum ws) (Nat.pred (List.length ws)) 0 max_hundredths ws.

(* ------------------------------------------------------------------------------------ text *)

Definition dec (z : Z) : string := NilZero.string_of_int (Z.to_int z).

(* fmt.Sprintf("%d.%02d", h/100, h%100)  for h >= 0 *)
Definition fmt_pct (h : Z) : string :=
  let q := Z.quot h 100 in
  let r := Z.rem h 100 in
  let pad := r <? 10 in
  (dec q ++ "." ++ (if pad then "0" ++ dec r else dec r))%string.

Definition split_value (b : backend) : string :=
  if b_valid b then b_name b else invalid_backend_ref.

(* http.SplitClientDistribution {Percent, Value} *)
Definition dist := (string * string)%type.

Definition needs_split (bs : list backend) : bool := (1 <? List.length bs)%nat.

(* createSplitClientDistributions; None = nil *)
Definition distributions (bs : list backend) : option (list dist) :=
  if negb (needs_split bs) then None
  else
    let ws := map b_weight bs in
    if zsum ws =? 0 then Some [("100"%string, invalid_backend_ref)]
    else Some (combine (map fmt_pct (shares ws)) (map split_value bs)).

(* BackendGroup.Name and convertStringToSafeVariableName *)
Definition group_name (g : group) : string :=
  ("group_" ++ g_ns g ++ "__" ++ g_name g ++ "_rule" ++ dec (g_rule g))%string.

Definition dash : ascii := "-"%char.
Definition underscore : ascii := "_"%char.

Fixpoint safe_var (s : string) : string :=
  match s with
  | EmptyString => EmptyString
  | String c t => String (if Ascii.eqb c dash then underscore else c) (safe_var t)
  end.

(* http.SplitClient {VariableName, Distributions} *)
Definition split_client := (string * list dist)%type.

(* createSplitClients (nil and empty are both the empty list here) *)
Fixpoint split_clients (gs : list group) : list split_client :=
  match gs with
  | [] => []
  | g :: t =>
      match distributions (g_backends g) with
      | None => split_clients t
      | Some ds => (safe_var (group_name g), ds) :: split_clients t
      end
  end.

(* backendGroupName *)
Definition backend_group_name (g : group) : string :=
  match g_backends g with
  | [] => invalid_backend_ref
  | [b] => if (b_weight b =? 0) || negb (b_valid b) then invalid_backend_ref else b_name b
  | _ => group_name g
  end.

(* createProxyPass(group, nil, "http", false) *)
Definition proxy_pass (g : group) : string :=
  if needs_split (g_backends g)
  then ("http://$" ++ safe_var (backend_group_name g) ++ "$request_uri")%string
  else ("http://" ++ backend_group_name g ++ "$request_uri")%string.

(* ------------------------------------------------------------------------------------ template *)

(* one line of a rendered split_clients block: "P% V;" or, commented out, "# P% V;" *)
Record line := Line { l_active : bool; l_percent : string; l_value : string }.

(* {{ if eq $d.Percent "0.00" }} # P% V; {{ else }} P% V; {{ end }} *)
Definition line_of_dist (d : dist) : line :=
  Line (negb (String.eqb (fst d) "0.00")) (fst d) (snd d).

Record block := Block { bl_var : string; bl_lines : list line }.

Definition block_of (sc : split_client) : block := Block (fst sc) (map line_of_dist (snd sc)).

Definition render (gs : list group) : list block := map block_of (split_clients gs).
