//go:build verif

package validation

import (
	"strconv"
	"testing"

	vu "github.com/nginx/nginx-gateway-fabric/internal/verifutil"
)

// TestVerifValid runs the real validators on generated strings: words over an alphabet rich in the characters that
// matter to NGINX's tokenizer, around valid cores, with boundary lengths; exhaustively over all strings up to length
// 3 of a small alphabet first.
func TestVerifValid(t *testing.T) {
	out := vu.Open("C04")
	out.ShardLen(400)
	rng := vu.NewRng(out.Seed ^ 0x7A11D)
	gv := GenericValidator{}
	verdict := func(kind int, s string) bool {
		switch kind {
		case 0:
			return validatePath(s) == nil
		case 1:
			return validateEscapedStringNoVarExpansion(s, nil) == nil
		case 2:
			return validateHeaderName(s) == nil
		case 3:
			return gv.ValidateServiceName(s) == nil
		case 4:
			return gv.ValidateNginxDuration(s) == nil
		case 5:
			return gv.ValidateNginxSize(s) == nil
		case 6:
			return gv.ValidateEndpoint(s) == nil
		case 7:
			return validateEscapedString(s, nil) == nil
		// the exported validators the graph calls (what guards the fields)
		case 8:
			return HTTPHeaderValidator{}.ValidateFilterHeaderValue(s) == nil
		case 9:
			return HTTPHeaderValidator{}.ValidateFilterHeaderName(s) == nil
		case 10:
			return HTTPRedirectValidator{}.ValidateHostname(s) == nil
		case 11:
			return HTTPPathValidator{}.ValidatePath(s) == nil
		default:
			return gv.ValidateEscapedStringNoVarExpansion(s) == nil
		}
	}
	emit := func(kind int, s string) {
		acc := verdict(kind, s)
		out.Case(vu.App("VCase", vu.Nat(kind), vu.Str(s), vu.Bool(acc)), map[string]any{"validator": kind, "value": s, "accepted": acc},
			acc && len(s) > 1, strconv.Itoa(kind)+"|"+s)
		out.Tally("validator", strconv.Itoa(kind))
		out.Tally("accepted", strconv.Itoa(kind)+":"+strconv.FormatBool(acc))
	}
	small := []string{"/", "\\", "\"", "$", ";", "{", " ", "a", "'", "#", "\n"}
	var words []string
	var gen func(prefix string, n int)
	gen = func(prefix string, n int) {
		words = append(words, prefix)
		if n == 0 {
			return
		}
		for _, c := range small {
			gen(prefix+c, n-1)
		}
	}
	gen("", 3)
	for _, kind := range []int{0, 8} {
		for _, w := range words {
			emit(kind, w)
		}
	}
	alphabet := []string{"/", "\\", "\"", "'", "$", ";", "{", "}", "#", " ", "\t", "\n", "\r", "a", "Z", "0", "9", "-", "_", ".", ":", "k", "m", "s", "h", "g",
		"é", "\x00", "\x7f", "(", ")", "=", "~", "*", "%", "host", "Host", "upgrade", "connection", "http://", "ms"}
	cores := map[int][]string{
		0: {"/", "/coffee", "/a/b", "/a\\b", "/a\\\\", "/a%20b", "/~x", "/a\"b", "/a'b", "/a#b", "/é"},
		1: {"", "value", "a b", "a\\\"b", "x\\\\", "it's", "a;b{c}", "é", "a\\nb"},
		2: {"X-Header", "host", "Host", "HOST", "Upgrade", "connection", "x", "X_Y"},
		3: {"svc1", "svc-1", "svc_1", "a"},
		4: {"5ms", "10s", "500m", "1000h", "0", "9999", "12345"},
		5: {"1024", "8k", "20m", "1g", "0"},
		6: {"my-endpoint", "my.endpoint:5678", "http://my-endpoint", "htt://x", "a:1", "a.b.c:65535", "x:123456"},
		7: {"", "a$b", "x\\$", "a\\\"", "$"},
	}
	cores[8], cores[10], cores[12] = append(cores[1], "USD\\$amount", "\\${total}"), cores[1], cores[1]
	cores[9], cores[11] = cores[2], cores[0]
	n := out.Count(3000, 60000)
	for i := 0; i < n; i++ {
		r := rng.Fork()
		kind := r.Intn(13)
		s := cores[kind][r.Intn(len(cores[kind]))]
		switch r.Intn(5) {
		case 0: // a random word
			s = ""
			for k, nk := 0, r.Intn(6); k < nk; k++ {
				s += alphabet[r.Intn(len(alphabet))]
			}
		case 1: // core + suffix
			s += alphabet[r.Intn(len(alphabet))]
		case 2: // prefix + core
			s = alphabet[r.Intn(len(alphabet))] + s
		case 3: // insertion
			if len(s) > 1 {
				k := 1 + r.Intn(len(s)-1)
				s = s[:k] + alphabet[r.Intn(len(alphabet))] + s[k:]
			}
		}
		if kind == 2 && r.Chance(1, 20) { // header-name length limit
			s = ""
			for k, nk := 0, 250+r.Intn(12); k < nk; k++ {
				s += "a"
			}
		}
		emit(kind, s)
	}
	out.Close("C04.ValidCheck", "")
}
