(* Abstract cluster state: exactly the fields the routing/attachment semantics read.  The Go
   harness prints one [cluster] per generated state (harness/pkg/internal/mode/static/zz_verif_state_test.go)
   and builds the typed Kubernetes objects from the same description. Collections are lists in
   arbitrary order (Go maps are arbitrary-order too): every function below must be insensitive to it. *)
From Coq Require Import List String ZArith Bool.
Import ListNotations.

Inductive protocol := PHTTP | PHTTPS | PTLS | POther.

Inductive nsfrom :=
| FromSame
| FromAll
| FromSelector (match_labels : list (string * string)).

Record certref := { cr_ns : option string; cr_name : string }.

Record listener := {
  l_name : string;
  l_host : option string;            (* None or Some "" = all hostnames *)
  l_port : Z;
  l_proto : protocol;
  l_cert : option certref;           (* first certificateRef of an HTTPS listener *)
  l_from : nsfrom;
  l_kinds : option (list string)     (* allowedRoutes.kinds (kind names, gateway group); None = default *)
}.

Record gateway := { g_ns : string; g_name : string; g_ts : Z; g_class : string; g_listeners : list listener }.

Record gclass := { gc_name : string; gc_ts : Z; gc_controller : string }.

Record parentref := { p_ns : option string; p_name : string; p_section : option string; p_port : option Z }.

Inductive pathm := PathExact (p : string) | PathPrefix (p : string).

Record hmatch := {
  hm_path : pathm;
  hm_method : option string;
  hm_headers : list (string * string);
  hm_query : list (string * string)
}.

Record backend := { b_ns : option string; b_name : string; b_port : Z; b_weight : Z }.

Inductive pathmod := ReplaceFull (s : string) | ReplacePrefix (s : string).

Inductive rfilter :=
| FRedirect (scheme : option string) (host : option string) (port : option Z) (code : option Z) (path : option pathmod)
| FRewrite (host : option string) (path : option pathmod)
| FReqHeaders (set add : list (string * string)) (remove : list string)
| FRespHeaders (set add : list (string * string)) (remove : list string)
| FUnsupported.                      (* a filter type NGF rejects (e.g. RequestMirror): the rule answers 500 *)

Record rule := { r_matches : list hmatch; r_filters : list rfilter; r_backends : list backend }.

Inductive rkind := KHTTP | KGRPC.

Record route := {
  rt_kind : rkind; rt_ns : string; rt_name : string; rt_ts : Z;
  rt_parents : list parentref; rt_hosts : list string; rt_rules : list rule
}.

Record service := { s_ns : string; s_name : string; s_ports : list Z }.
Record secret := { sec_ns : string; sec_name : string; sec_ok : bool (* kubernetes.io/tls with a parsable pair *) }.
Record grantfrom := { gf_group : string; gf_kind : string; gf_ns : string }.
Record grantto := { gt_group : string; gt_kind : string; gt_name : option string }.
Record grant := { gr_ns : string; gr_from : list grantfrom; gr_to : list grantto }.
Record nsobj := { n_name : string; n_labels : list (string * string) }.
(* BackendTLSPolicy: targets are Service names of the policy's namespace *)
Record btp := {
  bt_ns : string; bt_name : string; bt_ts : Z; bt_targets : list string; bt_host : string;
  bt_ca : option string;            (* caCertificateRefs[0]: ConfigMap name in the policy's namespace *)
  bt_wellknown : bool;              (* wellKnownCACertificates: System *)
  bt_full : bool                    (* status.ancestors already holds 16 entries of other controllers: NGF must ignore it *)
}.
Record cmap := { cm_ns : string; cm_name : string; cm_ok : bool (* has a usable ca.crt *) }.

Record cluster := {
  c_classes : list gclass;
  c_gateways : list gateway;
  c_routes : list route;
  c_services : list service;
  c_secrets : list secret;
  c_grants : list grant;
  c_namespaces : list nsobj;
  c_btps : list btp;
  c_cms : list cmap
}.

(* a request as NGINX sees it *)
Record request := {
  q_port : Z;
  q_tls : bool;
  q_sni : option string;      (* server name indication (TLS only) *)
  q_host : string;            (* Host header, lower case, without port *)
  q_path : string;            (* path without query *)
  q_method : string;
  q_headers : list (string * string);   (* name, full value (may hold commas) *)
  q_query : list (string * string)      (* in order of appearance *)
}.

(* what happens to a request *)
Inductive outcome :=
| ONoListener                          (* nothing listens on that port *)
| OTLSReject                           (* TLS handshake rejected *)
| OStatus (code : Z)                   (* locally generated status: 404, 421, 500 *)
| ORedirect (code : Z) (scheme : option string) (host : option string) (port : option Z) (path : option pathmod)
| OProxy (grpc : bool)
         (backends : list (string * Z))    (* upstream name or "invalid-backend-ref", share in hundredths of a percent *)
         (filters : list rfilter)           (* header / rewrite filters in effect *)
         (tls : option (string * string)).  (* upstream TLS verification: expected server name, trusted CA file *)
