//go:build verif

package static

import (
	"fmt"
	"strconv"
	"strings"
	"testing"
	"time"

	apiv1 "k8s.io/api/core/v1"
	discoveryV1 "k8s.io/api/discovery/v1"
	metav1 "k8s.io/apimachinery/pkg/apis/meta/v1"
	"sigs.k8s.io/controller-runtime/pkg/client"
	gatewayv1 "sigs.k8s.io/gateway-api/apis/v1"
	"sigs.k8s.io/gateway-api/apis/v1alpha2"
	"sigs.k8s.io/gateway-api/apis/v1alpha3"

	ngfAPIv1alpha1 "github.com/nginx/nginx-gateway-fabric/apis/v1alpha1"
	ngfAPIv1alpha2 "github.com/nginx/nginx-gateway-fabric/apis/v1alpha2"
	"github.com/nginx/nginx-gateway-fabric/internal/framework/helpers"
	vu "github.com/nginx/nginx-gateway-fabric/internal/verifutil"
)

// c05Exotic: an admissible object exercising a rarely used optional field, with the flag the Coq side sees.
type c05Exotic struct {
	flag string
	obj  client.Object
}

func c05Catalogue(gwNS string, plus bool) []c05Exotic {
	gwParent := []gatewayv1.ParentReference{{Name: "gw", Namespace: helpers.GetPointer(gatewayv1.Namespace(gwNS))}}
	pp := gatewayv1.PathMatchPathPrefix
	re := gatewayv1.PathMatchRegularExpression
	hre := gatewayv1.HeaderMatchRegularExpression
	qre := gatewayv1.QueryParamMatchRegularExpression
	hex := gatewayv1.HeaderMatchExact
	be := func(name string, port int32) gatewayv1.HTTPBackendRef {
		return gatewayv1.HTTPBackendRef{BackendRef: vsBackendObj(vsBackend{Name: name, Port: port, Weight: 1})}
	}
	meta := func(ns, name string) metav1.ObjectMeta {
		return metav1.ObjectMeta{Namespace: ns, Name: name, Generation: 1, CreationTimestamp: vsTime(1)}
	}
	passthrough := gatewayv1.TLSModePassthrough
	term := gatewayv1.TLSModeTerminate
	fromSel := gatewayv1.NamespacesFromSelector
	grpcExact := gatewayv1.GRPCMethodMatchExact
	grpcRe := gatewayv1.GRPCMethodMatchRegularExpression
	gwRef := v1alpha2.LocalPolicyTargetReference{Group: gatewayv1.GroupName, Kind: "Gateway", Name: "gw"}
	svcRef := func(n string) v1alpha2.LocalPolicyTargetReferenceWithSectionName {
		return v1alpha2.LocalPolicyTargetReferenceWithSectionName{LocalPolicyTargetReference: v1alpha2.LocalPolicyTargetReference{Group: "", Kind: "Service", Name: gatewayv1.ObjectName(n)}}
	}
	wellKnown := v1alpha3.WellKnownCACertificatesSystem
	tcp := apiv1.ProtocolTCP
	cat := []c05Exotic{
		{"route-backendref-filter", &gatewayv1.HTTPRoute{ObjectMeta: meta(gwNS, "x-beff"), Spec: gatewayv1.HTTPRouteSpec{
			CommonRouteSpec: gatewayv1.CommonRouteSpec{ParentRefs: gwParent},
			Rules: []gatewayv1.HTTPRouteRule{{BackendRefs: []gatewayv1.HTTPBackendRef{{BackendRef: vsBackendObj(vsBackend{Name: "svc-a", Port: 80, Weight: 1}),
				Filters: []gatewayv1.HTTPRouteFilter{{Type: gatewayv1.HTTPRouteFilterRequestHeaderModifier,
					RequestHeaderModifier: &gatewayv1.HTTPHeaderFilter{Set: []gatewayv1.HTTPHeader{{Name: "X", Value: "y"}}}}}}}}}}}},
		{"route-no-rules", &gatewayv1.HTTPRoute{ObjectMeta: meta(gwNS, "x-norules"), Spec: gatewayv1.HTTPRouteSpec{
			CommonRouteSpec: gatewayv1.CommonRouteSpec{ParentRefs: gwParent}}}},
		{"route-empty-rule", &gatewayv1.HTTPRoute{ObjectMeta: meta(gwNS, "x-emptyrule"), Spec: gatewayv1.HTTPRouteSpec{
			CommonRouteSpec: gatewayv1.CommonRouteSpec{ParentRefs: gwParent}, Rules: []gatewayv1.HTTPRouteRule{{}}}}},
		{"route-regex-matches", &gatewayv1.HTTPRoute{ObjectMeta: meta(gwNS, "x-regex"), Spec: gatewayv1.HTTPRouteSpec{
			CommonRouteSpec: gatewayv1.CommonRouteSpec{ParentRefs: gwParent},
			Rules: []gatewayv1.HTTPRouteRule{{Matches: []gatewayv1.HTTPRouteMatch{
				{Path: &gatewayv1.HTTPPathMatch{Type: &re, Value: helpers.GetPointer("/a.*")}},
				{Path: &gatewayv1.HTTPPathMatch{Type: &pp, Value: helpers.GetPointer("/h")}, Headers: []gatewayv1.HTTPHeaderMatch{{Type: &hre, Name: "X", Value: ".*"}}},
				{Path: &gatewayv1.HTTPPathMatch{Type: &pp, Value: helpers.GetPointer("/q")}, QueryParams: []gatewayv1.HTTPQueryParamMatch{{Type: &qre, Name: "q", Value: ".*"}}},
				{Path: &gatewayv1.HTTPPathMatch{Type: &pp, Value: helpers.GetPointer("/m")}, Method: helpers.GetPointer(gatewayv1.HTTPMethodConnect)},
			}, BackendRefs: []gatewayv1.HTTPBackendRef{be("svc-a", 80)}},
				{Matches: []gatewayv1.HTTPRouteMatch{{Path: &gatewayv1.HTTPPathMatch{Type: &pp, Value: helpers.GetPointer("/ok")},
					Headers: []gatewayv1.HTTPHeaderMatch{{Type: &hex, Name: "X", Value: "1"}}}}, BackendRefs: []gatewayv1.HTTPBackendRef{be("svc-a", 80)}}}}}},
		{"route-extensionref-and-mirror", &gatewayv1.HTTPRoute{ObjectMeta: meta(gwNS, "x-ext"), Spec: gatewayv1.HTTPRouteSpec{
			CommonRouteSpec: gatewayv1.CommonRouteSpec{ParentRefs: gwParent},
			Rules: []gatewayv1.HTTPRouteRule{{Filters: []gatewayv1.HTTPRouteFilter{
				{Type: gatewayv1.HTTPRouteFilterExtensionRef, ExtensionRef: &gatewayv1.LocalObjectReference{Group: ngfAPIv1alpha1.GroupName, Kind: "SnippetsFilter", Name: "sf"}},
				{Type: gatewayv1.HTTPRouteFilterExtensionRef, ExtensionRef: &gatewayv1.LocalObjectReference{Group: ngfAPIv1alpha1.GroupName, Kind: "SnippetsFilter", Name: "missing"}},
				{Type: gatewayv1.HTTPRouteFilterRequestMirror, RequestMirror: &gatewayv1.HTTPRequestMirrorFilter{BackendRef: gatewayv1.BackendObjectReference{Name: "svc-a", Port: helpers.GetPointer[gatewayv1.PortNumber](80)}}},
			}, BackendRefs: []gatewayv1.HTTPBackendRef{be("svc-a", 80)}},
				{Filters: []gatewayv1.HTTPRouteFilter{
					{Type: gatewayv1.HTTPRouteFilterURLRewrite, URLRewrite: &gatewayv1.HTTPURLRewriteFilter{Hostname: helpers.GetPointer[gatewayv1.PreciseHostname]("x.example.com")}},
					{Type: gatewayv1.HTTPRouteFilterRequestRedirect, RequestRedirect: &gatewayv1.HTTPRequestRedirectFilter{StatusCode: helpers.GetPointer(301)}}}}}}}},
		// one path as PathPrefix with conditions, as Exact and as PathPrefix with a trailing slash, on one hostname: the
		// PathPrefix rule then contributes no external location of its own
		{"route-path-triple", &gatewayv1.HTTPRoute{ObjectMeta: meta(gwNS, "x-triple"), Spec: gatewayv1.HTTPRouteSpec{
			CommonRouteSpec: gatewayv1.CommonRouteSpec{ParentRefs: []gatewayv1.ParentReference{{Name: "gw"}}},
			Rules: []gatewayv1.HTTPRouteRule{
				{Matches: []gatewayv1.HTTPRouteMatch{{Path: &gatewayv1.HTTPPathMatch{Type: helpers.GetPointer(gatewayv1.PathMatchPathPrefix), Value: helpers.GetPointer("/triple")},
					Method: helpers.GetPointer(gatewayv1.HTTPMethodPost)}}, BackendRefs: []gatewayv1.HTTPBackendRef{be("svc-a", 80)}},
				{Matches: []gatewayv1.HTTPRouteMatch{{Path: &gatewayv1.HTTPPathMatch{Type: helpers.GetPointer(gatewayv1.PathMatchExact), Value: helpers.GetPointer("/triple")}}},
					BackendRefs: []gatewayv1.HTTPBackendRef{be("svc-a", 80)}},
				{Matches: []gatewayv1.HTTPRouteMatch{{Path: &gatewayv1.HTTPPathMatch{Type: helpers.GetPointer(gatewayv1.PathMatchPathPrefix), Value: helpers.GetPointer("/triple/")}}},
					BackendRefs: []gatewayv1.HTTPBackendRef{be("svc-a", 80)}},
			}}}},
		// a rule whose FIRST match is of an unsupported kind (RegularExpression path, admitted by the CRD) and whose last match is fine
		{"route-unsupported-then-supported-match", &gatewayv1.HTTPRoute{ObjectMeta: meta(gwNS, "x-mixed-matches"), Spec: gatewayv1.HTTPRouteSpec{
			CommonRouteSpec: gatewayv1.CommonRouteSpec{ParentRefs: []gatewayv1.ParentReference{{Name: "gw"}}},
			Rules: []gatewayv1.HTTPRouteRule{{Matches: []gatewayv1.HTTPRouteMatch{
				{Path: &gatewayv1.HTTPPathMatch{Type: helpers.GetPointer(gatewayv1.PathMatchRegularExpression), Value: helpers.GetPointer("/re/.*")}},
				{Headers: []gatewayv1.HTTPHeaderMatch{{Type: helpers.GetPointer(gatewayv1.HeaderMatchRegularExpression), Name: "X-Re", Value: "a.*"}},
					Path: &gatewayv1.HTTPPathMatch{Type: helpers.GetPointer(gatewayv1.PathMatchPathPrefix), Value: helpers.GetPointer("/mixed-h")}},
				{Path: &gatewayv1.HTTPPathMatch{Type: helpers.GetPointer(gatewayv1.PathMatchPathPrefix), Value: helpers.GetPointer("/mixed")}},
			}, BackendRefs: []gatewayv1.HTTPBackendRef{be("svc-a", 80)}}}}}},
		{"snippetsfilter", &ngfAPIv1alpha1.SnippetsFilter{ObjectMeta: meta(gwNS, "sf"), Spec: ngfAPIv1alpha1.SnippetsFilterSpec{Snippets: []ngfAPIv1alpha1.Snippet{
			{Context: ngfAPIv1alpha1.NginxContextHTTPServerLocation, Value: "add_header X-S 1;"},
			{Context: ngfAPIv1alpha1.NginxContextHTTPServer, Value: "client_body_buffer_size 8k;"},
			{Context: ngfAPIv1alpha1.NginxContextHTTP, Value: "aio on;"}, {Context: ngfAPIv1alpha1.NginxContextMain, Value: "worker_priority 0;"}}}}},
		{"route-many-parentrefs", &gatewayv1.HTTPRoute{ObjectMeta: meta(gwNS, "x-parents"), Spec: gatewayv1.HTTPRouteSpec{
			CommonRouteSpec: gatewayv1.CommonRouteSpec{ParentRefs: []gatewayv1.ParentReference{
				{Name: "gw", SectionName: helpers.GetPointer[gatewayv1.SectionName]("l0")},
				{Name: "gw", SectionName: helpers.GetPointer[gatewayv1.SectionName]("l1")},
				{Name: "gw", SectionName: helpers.GetPointer[gatewayv1.SectionName]("nosuch"), Port: helpers.GetPointer[gatewayv1.PortNumber](80)},
				{Name: "other-gw", Namespace: helpers.GetPointer[gatewayv1.Namespace]("elsewhere")},
				{Group: helpers.GetPointer[gatewayv1.Group](""), Kind: helpers.GetPointer[gatewayv1.Kind]("Service"), Name: "mesh"}}},
			Hostnames: []gatewayv1.Hostname{"a.example.com", "*.example.com"},
			Rules:     []gatewayv1.HTTPRouteRule{{BackendRefs: []gatewayv1.HTTPBackendRef{be("svc-a", 80), be("svc-b", 8080), be("missing", 80)}}}}}},
		{"grpcroute-variants", &gatewayv1.GRPCRoute{ObjectMeta: meta(gwNS, "x-grpc"), Spec: gatewayv1.GRPCRouteSpec{
			CommonRouteSpec: gatewayv1.CommonRouteSpec{ParentRefs: gwParent},
			Rules: []gatewayv1.GRPCRouteRule{
				{Matches: []gatewayv1.GRPCRouteMatch{{Method: &gatewayv1.GRPCMethodMatch{Type: &grpcExact, Service: helpers.GetPointer("only.Service")}},
					{Method: &gatewayv1.GRPCMethodMatch{Type: &grpcExact, Method: helpers.GetPointer("OnlyMethod")}},
					{Method: &gatewayv1.GRPCMethodMatch{Type: &grpcRe, Service: helpers.GetPointer("re.*"), Method: helpers.GetPointer("M")}}, {}},
					BackendRefs: []gatewayv1.GRPCBackendRef{{BackendRef: vsBackendObj(vsBackend{Name: "svc-a", Port: 80, Weight: 1}),
						Filters: []gatewayv1.GRPCRouteFilter{{Type: gatewayv1.GRPCRouteFilterRequestHeaderModifier,
							RequestHeaderModifier: &gatewayv1.HTTPHeaderFilter{Remove: []string{"X"}}}}}}},
				{}}}}},
		{"tlsroute", &v1alpha2.TLSRoute{ObjectMeta: meta(gwNS, "x-tls"), Spec: v1alpha2.TLSRouteSpec{
			CommonRouteSpec: v1alpha2.CommonRouteSpec{ParentRefs: gwParent}, Hostnames: []v1alpha2.Hostname{"tls.example.com"},
			Rules: []v1alpha2.TLSRouteRule{{BackendRefs: []v1alpha2.BackendRef{vsBackendObj(vsBackend{Name: "svc-a", Port: 80, Weight: 1})}}}}}},
		{"tlsroute-two-backends", &v1alpha2.TLSRoute{ObjectMeta: meta(gwNS, "x-tls2"), Spec: v1alpha2.TLSRouteSpec{
			CommonRouteSpec: v1alpha2.CommonRouteSpec{ParentRefs: gwParent},
			Rules:           []v1alpha2.TLSRouteRule{{BackendRefs: []v1alpha2.BackendRef{vsBackendObj(vsBackend{Name: "svc-a", Port: 80, Weight: 1}), vsBackendObj(vsBackend{Name: "missing", Port: 80, Weight: 1})}}}}}},
		{"gateway-exotic-listeners", &gatewayv1.Gateway{ObjectMeta: meta(gwNS, "gw-exotic"), Spec: gatewayv1.GatewaySpec{GatewayClassName: vpClassName,
			Addresses: []gatewayv1.GatewayAddress{{Value: "10.1.1.1"}},
			Listeners: []gatewayv1.Listener{
				{Name: "tcp", Port: 9000, Protocol: gatewayv1.TCPProtocolType},
				{Name: "udp", Port: 9001, Protocol: gatewayv1.UDPProtocolType},
				{Name: "tlspass", Port: 8443, Protocol: gatewayv1.TLSProtocolType, Hostname: helpers.GetPointer[gatewayv1.Hostname]("*.example.com"), TLS: &gatewayv1.GatewayTLSConfig{Mode: &passthrough}},
				{Name: "tlsterm", Port: 8444, Protocol: gatewayv1.TLSProtocolType, TLS: &gatewayv1.GatewayTLSConfig{Mode: &term}},
				{Name: "httpsopts", Port: 8445, Protocol: gatewayv1.HTTPSProtocolType, TLS: &gatewayv1.GatewayTLSConfig{Mode: &term,
					Options:         map[gatewayv1.AnnotationKey]gatewayv1.AnnotationValue{"k": "v"},
					CertificateRefs: []gatewayv1.SecretObjectReference{{Name: "cert-a"}, {Name: "cert-b"}}}},
				{Name: "httpsnone", Port: 8446, Protocol: gatewayv1.HTTPSProtocolType, TLS: &gatewayv1.GatewayTLSConfig{Mode: &term}},
				{Name: "selnil", Port: 8081, Protocol: gatewayv1.HTTPProtocolType, AllowedRoutes: &gatewayv1.AllowedRoutes{Namespaces: &gatewayv1.RouteNamespaces{From: &fromSel},
					Kinds: []gatewayv1.RouteGroupKind{{Group: helpers.GetPointer[gatewayv1.Group]("example.com"), Kind: "Foo"}}}},
			}}}},
		{"service-externalname-noports", &apiv1.Service{ObjectMeta: meta(gwNS, "svc-ext"), Spec: apiv1.ServiceSpec{Type: apiv1.ServiceTypeExternalName, ExternalName: "x.example.com"}}},
		{"service-ipv6", &apiv1.Service{ObjectMeta: meta(gwNS, "svc-v6"), Spec: apiv1.ServiceSpec{IPFamilies: []apiv1.IPFamily{apiv1.IPv6Protocol}, Ports: []apiv1.ServicePort{{Port: 80}}}}},
		{"endpointslice", &discoveryV1.EndpointSlice{ObjectMeta: metav1.ObjectMeta{Namespace: gwNS, Name: "svc-a-x", Labels: map[string]string{"kubernetes.io/service-name": "svc-a"}},
			AddressType: discoveryV1.AddressTypeIPv4, Ports: []discoveryV1.EndpointPort{{Port: helpers.GetPointer[int32](8080), Protocol: &tcp}, {Name: helpers.GetPointer("p80")}},
			Endpoints: []discoveryV1.Endpoint{{Addresses: []string{"10.0.0.5"}}, {Addresses: []string{"10.0.0.6"}, Conditions: discoveryV1.EndpointConditions{Ready: helpers.GetPointer(false)}}}}},
		{"endpointslice-fqdn-nolabel", &discoveryV1.EndpointSlice{ObjectMeta: metav1.ObjectMeta{Namespace: gwNS, Name: "orphan"}, AddressType: discoveryV1.AddressTypeFQDN}},
		{"secret-opaque", &apiv1.Secret{ObjectMeta: meta(gwNS, "cert-opaque"), Type: apiv1.SecretTypeOpaque, Data: map[string][]byte{"x": []byte("y")}}},
		{"secret-tls-missing-key", &apiv1.Secret{ObjectMeta: meta(gwNS, "cert-nokey"), Type: apiv1.SecretTypeTLS, Data: map[string][]byte{apiv1.TLSCertKey: vsKeyPair[0]}}},
		{"configmap-binary", &apiv1.ConfigMap{ObjectMeta: meta(gwNS, "ca-bin"), BinaryData: map[string][]byte{"ca.crt": vsKeyPair[0]}}},
		{"btp-empty-ca-list", &v1alpha3.BackendTLSPolicy{ObjectMeta: meta(gwNS, "x-btp-empty"), Spec: v1alpha3.BackendTLSPolicySpec{TargetRefs: []v1alpha2.LocalPolicyTargetReferenceWithSectionName{svcRef("svc-a")},
			Validation: v1alpha3.BackendTLSPolicyValidation{Hostname: "b.example.com", CACertificateRefs: []gatewayv1.LocalObjectReference{}, WellKnownCACertificates: &wellKnown}}}},
		{"btp-both-and-neither", &v1alpha3.BackendTLSPolicy{ObjectMeta: meta(gwNS, "x-btp-both"), Spec: v1alpha3.BackendTLSPolicySpec{TargetRefs: []v1alpha2.LocalPolicyTargetReferenceWithSectionName{svcRef("svc-b"), svcRef("svc-c")},
			Validation: v1alpha3.BackendTLSPolicyValidation{Hostname: "b.example.com", CACertificateRefs: []gatewayv1.LocalObjectReference{{Kind: "ConfigMap", Name: "ca-bin"}}, WellKnownCACertificates: &wellKnown}}}},
		{"btp-neither", &v1alpha3.BackendTLSPolicy{ObjectMeta: meta(gwNS, "x-btp-neither"), Spec: v1alpha3.BackendTLSPolicySpec{TargetRefs: []v1alpha2.LocalPolicyTargetReferenceWithSectionName{svcRef("svc-b")},
			Validation: v1alpha3.BackendTLSPolicyValidation{Hostname: "b.example.com"}}}},
		{"btp-secret-ca-kind", &v1alpha3.BackendTLSPolicy{ObjectMeta: meta(gwNS, "x-btp-kind"), Spec: v1alpha3.BackendTLSPolicySpec{TargetRefs: []v1alpha2.LocalPolicyTargetReferenceWithSectionName{svcRef("svc-c")},
			Validation: v1alpha3.BackendTLSPolicyValidation{Hostname: "b.example.com", CACertificateRefs: []gatewayv1.LocalObjectReference{{Kind: "Secret", Name: "cert-a"}, {Kind: "ConfigMap", Name: "ca-bin"}}}}}},
		{"clientsettings-on-gateway-and-route", &ngfAPIv1alpha1.ClientSettingsPolicy{ObjectMeta: meta(gwNS, "x-csp"), Spec: ngfAPIv1alpha1.ClientSettingsPolicySpec{TargetRef: gwRef,
			Body: &ngfAPIv1alpha1.ClientBody{MaxSize: helpers.GetPointer(ngfAPIv1alpha1.Size("1m"))}, KeepAlive: &ngfAPIv1alpha1.ClientKeepAlive{Requests: helpers.GetPointer[int32](10)}}}},
		{"clientsettings-conflict", &ngfAPIv1alpha1.ClientSettingsPolicy{ObjectMeta: meta(gwNS, "x-csp2"), Spec: ngfAPIv1alpha1.ClientSettingsPolicySpec{TargetRef: gwRef,
			Body: &ngfAPIv1alpha1.ClientBody{MaxSize: helpers.GetPointer(ngfAPIv1alpha1.Size("2m"))}}}},
		{"clientsettings-missing-target", &ngfAPIv1alpha1.ClientSettingsPolicy{ObjectMeta: meta(gwNS, "x-csp3"), Spec: ngfAPIv1alpha1.ClientSettingsPolicySpec{
			TargetRef: v1alpha2.LocalPolicyTargetReference{Group: gatewayv1.GroupName, Kind: "HTTPRoute", Name: "nosuch"}}}},
		{"observability-nil-tracing", &ngfAPIv1alpha2.ObservabilityPolicy{ObjectMeta: meta(gwNS, "x-op"), Spec: ngfAPIv1alpha2.ObservabilityPolicySpec{
			TargetRefs: []v1alpha2.LocalPolicyTargetReference{{Group: gatewayv1.GroupName, Kind: "HTTPRoute", Name: "x-parents"}, {Group: gatewayv1.GroupName, Kind: "GRPCRoute", Name: "x-grpc"}}}}},
		{"observability-tracing", &ngfAPIv1alpha2.ObservabilityPolicy{ObjectMeta: meta(gwNS, "x-op2"), Spec: ngfAPIv1alpha2.ObservabilityPolicySpec{
			TargetRefs: []v1alpha2.LocalPolicyTargetReference{{Group: gatewayv1.GroupName, Kind: "HTTPRoute", Name: "x-parents"}},
			Tracing:    &ngfAPIv1alpha2.Tracing{Strategy: ngfAPIv1alpha2.TraceStrategyParent}}}},
		{"upstreamsettings", &ngfAPIv1alpha1.UpstreamSettingsPolicy{ObjectMeta: meta(gwNS, "x-usp"), Spec: ngfAPIv1alpha1.UpstreamSettingsPolicySpec{
			TargetRefs: []v1alpha2.LocalPolicyTargetReference{{Group: "", Kind: "Service", Name: "svc-a"}, {Group: "", Kind: "Service", Name: "missing"}},
			KeepAlive:  &ngfAPIv1alpha1.UpstreamKeepAlive{Connections: helpers.GetPointer[int32](4)}}}},
		{"nginxproxy-full", &ngfAPIv1alpha1.NginxProxy{ObjectMeta: metav1.ObjectMeta{Name: "np", Generation: 1}, Spec: c04BaseExtras().np.Spec}},
		{"nginxproxy-disable-http2", &ngfAPIv1alpha1.NginxProxy{ObjectMeta: metav1.ObjectMeta{Name: "np-nohttp2", Generation: 1}, Spec: ngfAPIv1alpha1.NginxProxySpec{DisableHTTP2: true}}},
		{"gateway-selector-invalid-label-value", &gatewayv1.Gateway{ObjectMeta: meta(gwNS, "gw-badsel"), Spec: gatewayv1.GatewaySpec{GatewayClassName: vpClassName,
			Listeners: []gatewayv1.Listener{{Name: "sel", Port: 8082, Protocol: gatewayv1.HTTPProtocolType, AllowedRoutes: &gatewayv1.AllowedRoutes{
				Namespaces: &gatewayv1.RouteNamespaces{From: &fromSel, Selector: &metav1.LabelSelector{MatchLabels: map[string]string{"team": "not a valid label value!"}}}}}}}}},
		{"route-to-gw-badsel", &gatewayv1.HTTPRoute{ObjectMeta: meta(gwNS, "x-badsel"), Spec: gatewayv1.HTTPRouteSpec{
			CommonRouteSpec: gatewayv1.CommonRouteSpec{ParentRefs: []gatewayv1.ParentReference{{Name: "gw-badsel"}}},
			Rules:           []gatewayv1.HTTPRouteRule{{BackendRefs: []gatewayv1.HTTPBackendRef{be("svc-a", 80)}}}}}},
		{"grpcroute-plain", &gatewayv1.GRPCRoute{ObjectMeta: meta(gwNS, "x-grpc-plain"), Spec: gatewayv1.GRPCRouteSpec{
			CommonRouteSpec: gatewayv1.CommonRouteSpec{ParentRefs: gwParent},
			Rules:           []gatewayv1.GRPCRouteRule{{BackendRefs: []gatewayv1.GRPCBackendRef{{BackendRef: vsBackendObj(vsBackend{Name: "svc-a", Port: 80, Weight: 1})}}}}}}},
		{"clientsettings-on-route", &ngfAPIv1alpha1.ClientSettingsPolicy{ObjectMeta: meta(gwNS, "x-csp-route"), Spec: ngfAPIv1alpha1.ClientSettingsPolicySpec{
			TargetRef: v1alpha2.LocalPolicyTargetReference{Group: gatewayv1.GroupName, Kind: "HTTPRoute", Name: "x-parents"},
			Body:      &ngfAPIv1alpha1.ClientBody{MaxSize: helpers.GetPointer(ngfAPIv1alpha1.Size("3m"))}}}},
		{"btp-ancestors-full", func() client.Object {
			b := &v1alpha3.BackendTLSPolicy{ObjectMeta: meta(gwNS, "x-btp-full"), Spec: v1alpha3.BackendTLSPolicySpec{TargetRefs: []v1alpha2.LocalPolicyTargetReferenceWithSectionName{svcRef("svc-a")},
				Validation: v1alpha3.BackendTLSPolicyValidation{Hostname: "b.example.com", WellKnownCACertificates: &wellKnown}}}
			for k := 0; k < 16; k++ {
				b.Status.Ancestors = append(b.Status.Ancestors, v1alpha2.PolicyAncestorStatus{ControllerName: "example.com/other",
					AncestorRef: gatewayv1.ParentReference{Name: gatewayv1.ObjectName("other-gw-" + strconv.Itoa(k))}})
			}
			return b
		}()},
		{"nginxproxy-empty", &ngfAPIv1alpha1.NginxProxy{ObjectMeta: metav1.ObjectMeta{Name: "np-empty", Generation: 1}}},
		{"crd-old-version", &metav1.PartialObjectMetadata{TypeMeta: metav1.TypeMeta{Kind: "CustomResourceDefinition", APIVersion: "apiextensions.k8s.io/v1"},
			ObjectMeta: metav1.ObjectMeta{Name: "tlsroutes.gateway.networking.k8s.io", Annotations: map[string]string{"gateway.networking.k8s.io/bundle-version": "v0.9.0"}}}},
	}
	// the control-plane configuration of this controller with its optional parts left out (the schema defaults logging.level only
	// when spec.logging is there); only the resource of the configured name is watched (WithNamespacedNameFilter)
	debug := ngfAPIv1alpha1.ControllerLogLevelDebug
	cat = append(cat,
		c05Exotic{"nginxgateway-empty-spec", &ngfAPIv1alpha1.NginxGateway{ObjectMeta: metav1.ObjectMeta{Namespace: vpPodNS, Name: "nginx-gateway-config", Generation: 1}}},
		c05Exotic{"nginxgateway-logging-without-level", &ngfAPIv1alpha1.NginxGateway{ObjectMeta: metav1.ObjectMeta{Namespace: vpPodNS, Name: "nginx-gateway-config", Generation: 2},
			Spec: ngfAPIv1alpha1.NginxGatewaySpec{Logging: &ngfAPIv1alpha1.Logging{}}}},
		c05Exotic{"nginxgateway-debug", &ngfAPIv1alpha1.NginxGateway{ObjectMeta: metav1.ObjectMeta{Namespace: vpPodNS, Name: "nginx-gateway-config", Generation: 3},
			Spec: ngfAPIv1alpha1.NginxGatewaySpec{Logging: &ngfAPIv1alpha1.Logging{Level: &debug}}}})
	if plus {
		cat = append(cat, c05Exotic{"usage-secret-without-key", &apiv1.Secret{ObjectMeta: metav1.ObjectMeta{Namespace: vpPodNS, Name: "nplus-license"},
			Data: map[string][]byte{"other": []byte("x")}}})
	}
	return cat
}

// c05Snapshot builds the abstract cluster of the objects delivered so far.
func c05Snapshot(full *vsCluster, delivered map[string]bool) *vsCluster {
	s := &vsCluster{}
	for _, x := range full.Classes {
		if delivered["GatewayClass//"+x.Name] {
			s.Classes = append(s.Classes, x)
		}
	}
	for _, x := range full.Gateways {
		if delivered["Gateway/"+x.NS+"/"+x.Name] {
			s.Gateways = append(s.Gateways, x)
		}
	}
	for _, x := range full.Routes {
		k := "HTTPRoute/"
		if x.GRPC {
			k = "GRPCRoute/"
		}
		if delivered[k+x.NS+"/"+x.Name] {
			s.Routes = append(s.Routes, x)
		}
	}
	for _, x := range full.Services {
		if delivered["Service/"+x.NS+"/"+x.Name] {
			s.Services = append(s.Services, x)
		}
	}
	for _, x := range full.Secrets {
		if delivered["Secret/"+x.NS+"/"+x.Name] {
			s.Secrets = append(s.Secrets, x)
		}
	}
	for _, x := range full.Grants {
		if delivered["ReferenceGrant/"+x.NS+"/"+x.Name] {
			s.Grants = append(s.Grants, x)
		}
	}
	for _, x := range full.Namespaces {
		if delivered["Namespace//"+x.Name] {
			s.Namespaces = append(s.Namespaces, x)
		}
	}
	for _, x := range full.BTPs {
		if delivered["BackendTLSPolicy/"+x.NS+"/"+x.Name] {
			s.BTPs = append(s.BTPs, x)
		}
	}
	for _, x := range full.ConfigMaps {
		if delivered["ConfigMap/"+x.NS+"/"+x.Name] {
			s.ConfigMaps = append(s.ConfigMaps, x)
		}
	}
	return s
}

func c05Key(o client.Object) string {
	k := fmt.Sprintf("%T", o)
	k = k[strings.LastIndex(k, ".")+1:]
	return k + "/" + o.GetNamespace() + "/" + o.GetName()
}

func TestVerifC05(t *testing.T) {
	out := vu.Open("C05")
	out.ShardLen(40)
	rng := vu.NewRng(out.Seed ^ 0xC05)
	n := out.Count(250, 8000)
	for i := 0; i < n; i++ {
		r := rng.Fork()
		c := vsGen(r, (i*6)/n)
		plus := r.Chance(1, 5)
		// catalogue objects refer to Gateway "gw" in the first gateway's namespace
		cat := c05Catalogue(c.Gateways[0].NS, plus)
		r.Shuffle(len(cat), func(a, b int) { cat[a], cat[b] = cat[b], cat[a] })
		cat = cat[:r.Intn(len(cat)+1)]
		// NginxProxy is referenced from the class in half of the cases
		objs := c.Objects()
		if r.Bool() {
			for _, o := range objs {
				if gc, ok := o.(*gatewayv1.GatewayClass); ok && gc.Name == vpClassName {
					gc.Spec.ParametersRef = &gatewayv1.ParametersReference{Group: ngfAPIv1alpha1.GroupName, Kind: "NginxProxy", Name: []string{"np", "np-empty", "np-missing", "np-nohttp2", "np-nohttp2"}[r.Intn(5)]}
				}
			}
		}
		flagOf := map[int]string{}
		for _, e := range cat {
			flagOf[len(objs)] = e.flag
			objs = append(objs, e.obj)
		}
		order := make([]int, len(objs))
		for j := range order {
			order[j] = j
		}
		// dependents may precede what they depend on: any order, any batching
		r.Shuffle(len(order), func(a, b int) { order[a], order[b] = order[b], order[a] })
		w := vpNewWorld(plus)
		delivered := map[string]bool{}
		var flags []string
		var snaps, flagTerms []string
		var humanBatches [][]string
		batch := append(vpBaseEvents(), w.vpPlusEvents()...)
		var cur []string
		panicAt, hangAt := -1, -1
		panicMsg := ""
		runBatch := func() bool {
			bi := len(snaps)
			snaps = append(snaps, c05Snapshot(c, delivered).Coq())
			flagTerms = append(flagTerms, vu.StrList(flags))
			humanBatches = append(humanBatches, cur)
			cur = nil
			done := make(chan string, 1)
			evs := batch
			batch = nil
			go func() {
				defer func() {
					if p := recover(); p != nil {
						done <- fmt.Sprint(p)
						return
					}
					done <- ""
				}()
				w.Batch(evs)
			}()
			select {
			case msg := <-done:
				if msg != "" {
					panicAt, panicMsg = bi, msg
					return false
				}
			case <-time.After(20 * time.Second):
				hangAt = bi
				return false
			}
			return true
		}
		ok := true
		for k, j := range order {
			o := objs[j]
			batch = append(batch, w.Apply(o))
			delivered[c05Key(o)] = true
			cur = append(cur, c05Key(o))
			if f, isExotic := flagOf[j]; isExotic {
				flags = append(flags, f)
			}
			if r.Chance(1, 5) || k == len(order)-1 {
				if ok = runBatch(); !ok {
					break
				}
			}
		}
		// then delete a few objects again, in any order
		if ok {
			for k := 0; k < 4 && k < len(order); k++ {
				o := objs[order[r.Intn(len(order))]]
				if _, isCRD := o.(*metav1.PartialObjectMetadata); isCRD {
					continue
				}
				batch = append(batch, w.Remove(o))
				delete(delivered, c05Key(o))
				cur = append(cur, "delete "+c05Key(o))
				if r.Bool() || k == 3 {
					if ok = runBatch(); !ok {
						break
					}
				}
			}
			if ok && len(batch) > 0 {
				runBatch()
			}
		}
		pTerm, hTerm := "None", "None"
		if panicAt >= 0 {
			pTerm = vu.Some(vu.Pair(vu.Nat(panicAt), vu.Str(panicMsg)))
		}
		if hangAt >= 0 {
			hTerm = vu.Some(vu.Nat(hangAt))
		}
		term := vu.App("Case", vu.Bool(plus), vu.List(snaps), vu.List(flagTerms), pTerm, hTerm)
		human := map[string]any{"plus": plus, "cluster": c, "batches": humanBatches, "panic_batch": panicAt, "panic": panicMsg, "hang_batch": hangAt}
		out.Case(term, human, len(cat) >= 3 && len(snaps) >= 3, strings.Join(flags, ",")+c.Coq())
		out.Tally("batches", strconv.Itoa(len(snaps)))
		out.Tally("catalogue_objects", strconv.Itoa(len(cat)))
		out.Tally("plus", strconv.FormatBool(plus))
		if panicAt >= 0 {
			out.Tally("panic", panicMsg[:min(len(panicMsg), 60)])
		}
	}
	out.Close("C05.Check", "")
}
