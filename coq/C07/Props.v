(* C07 — property theorems (being extended). *)
From Coq Require Import List String Bool.
From NGF Require Import lib.Str k8s.State k8s.Spec C07.Check.
Import ListNotations.

(* a Route that is programmed through a parentRef is bound to a listener by that parentRef:
   "served" implies "attached" in the counting relation used for attachedRoutes *)
Theorem C07_programmed_implies_bound :
  forall cs g r p, programmed cs g r p = true ->
  exists l, In l (g_listeners g) /\ listener_valid cs g l = true /\ section_ok p l = true.
Proof.
  intros cs g r p H. unfold programmed in H.
  apply andb_true_iff in H. destruct H as [_ H].
  apply existsb_exists in H. destruct H as [l [Hin Hl]].
  exists l. split; [exact Hin|].
  apply andb_true_iff in Hl. destruct Hl as [Hl _].
  apply andb_true_iff in Hl. destruct Hl as [Hl _].
  apply andb_true_iff in Hl. destruct Hl as [Hl _].
  apply andb_true_iff in Hl. destruct Hl as [Hs Hv]. split; assumption.
Qed.
