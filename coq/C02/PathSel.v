(* C02 — from path rules to NGINX locations, and back.

   Model of the naming scheme of createLocations / initializeExternalLocations (nginx/config/servers.go): an Exact
   rule becomes an exact location; a PathPrefix rule whose path ends in a slash becomes one prefix location; a
   PathPrefix rule /p without trailing slash becomes the prefix location /p/ and the exact location /p, each only
   if no other rule of the server already provides it; a default prefix location / is added when no rule has the
   path /. NGINX then selects: an exact location whose path equals the request path, else the longest matching
   prefix location (ngx/Eval.v select_location).

   The theorems of C02/PathSelProofs.v show that this composition implements path matching by whole path elements
   with precedence Exact > longest PathPrefix. The harness compares [all_locs] with the location set of every server
   the real generator emits (C02/Check.v). *)
From Coq Require Import List Ascii Bool Arith.
Import ListNotations.

Definition chars := list ascii.
Definition slash : ascii := "/"%char.

Fixpoint ceqb (a b : chars) : bool :=
  match a, b with
  | [], [] => true
  | x :: a', y :: b' => Ascii.eqb x y && ceqb a' b'
  | _, _ => false
  end.

Fixpoint prefixb (p s : chars) : bool :=
  match p, s with
  | [], _ => true
  | x :: p', y :: s' => Ascii.eqb x y && prefixb p' s'
  | _, _ => false
  end.

Definition ends_slash (p : chars) : bool :=
  match rev p with c :: _ => Ascii.eqb c slash | [] => false end.

Record prule := PR { pr_exact : bool; pr_path : chars }.

Definition has (rs : list prule) (e : bool) (p : chars) : bool :=
  existsb (fun r => Bool.eqb (pr_exact r) e && ceqb (pr_path r) p) rs.

Record loc := L { l_exact : bool; l_path : chars; l_owner : option nat }.

Definition ext_locs (rs : list prule) (i : nat) (r : prule) : list loc :=
  if negb (pr_exact r) && negb (ends_slash (pr_path r)) then
    (if has rs false (pr_path r ++ [slash]) then [] else [L false (pr_path r ++ [slash]) (Some i)]) ++
    (if has rs true (pr_path r) then [] else [L true (pr_path r) (Some i)])
  else [L (pr_exact r) (pr_path r) (Some i)].

Fixpoint locs_from (rs : list prule) (i : nat) (l : list prule) : list loc :=
  match l with
  | [] => []
  | r :: l' => ext_locs rs i r ++ locs_from rs (S i) l'
  end.

Definition has_root (rs : list prule) : bool := existsb (fun r => ceqb (pr_path r) [slash]) rs.

Definition all_locs (rs : list prule) : list loc :=
  locs_from rs 0 rs ++ (if has_root rs then [] else [L false [slash] None]).

(* ---------------------------------------------------------------- NGINX's choice (as ngx/Eval.v) *)

Fixpoint longest (best : option loc) (ls : list loc) (u : chars) : option loc :=
  match ls with
  | [] => best
  | d :: rest =>
      if negb (l_exact d) && prefixb (l_path d) u then
        match best with
        | Some b => if Nat.ltb (length (l_path b)) (length (l_path d))
                    then longest (Some d) rest u else longest best rest u
        | None => longest (Some d) rest u
        end
      else longest best rest u
  end.

Definition select (ls : list loc) (u : chars) : option loc :=
  match find (fun d => l_exact d && ceqb (l_path d) u) ls with
  | Some d => Some d
  | None => longest None ls u
  end.

(* ---------------------------------------------------------------- what a rule matches *)

(* Exact: the whole path. PathPrefix: whole path elements (the path itself, or the path followed by a slash and more);
   a PathPrefix path that ends in a slash matches what starts with it. *)
Definition rule_matches (r : prule) (u : chars) : bool :=
  if pr_exact r then ceqb (pr_path r) u
  else if ends_slash (pr_path r) then prefixb (pr_path r) u
  else ceqb (pr_path r) u || prefixb (pr_path r ++ [slash]) u.

(* the rules of one server have pairwise different (type, path) keys *)
Fixpoint keys_nodup (rs : list prule) : bool :=
  match rs with
  | [] => true
  | r :: rs' => negb (has rs' (pr_exact r) (pr_path r)) && keys_nodup rs'
  end.
