(* Correspondence and oracle for the overlap check: the REAL BuildGraph on generated Gateways, Routes and policies.
   Code 1: a policy carries TargetConflict although the model accepts it, or the reverse; a policy with an existing
   target is missing from the graph. Code 2 (oracle, on the observed verdicts and the observed bindings only): two
   policies without TargetConflict reach one location (hostname, port of the listener, path) through Routes that they
   do not both target. *)
From Coq Require Import List String ZArith Bool Arith.
From NGF Require Export lib.CaseLib lib.Str C03.Overlap.
Import ListNotations.

Record case := OCase { oc_listeners : list (string * Z); oc_routes : list oroute; oc_pols : list opol }.

Definition model_agrees (c : case) (p : opol) : bool :=
  if has_target (oc_routes c) p then
    op_present p && Bool.eqb (op_conflict p) (negb (overlap_free (oc_listeners c) (oc_routes c) p)) &&
    Bool.eqb (op_valid p) (negb (op_conflict p))
  else negb (op_present p).

Definition accepted (p : opol) : bool := op_present p && negb (op_conflict p).

Definition oracle (c : case) : bool :=
  let ls := oc_listeners c in
  forallb (fun p => negb (accepted p) ||
    forallb (fun t => negb (targets_route p t) ||
      forallb (fun r => negb (overlaps ls t r) || targets_route p r) (oc_routes c)) (oc_routes c)) (oc_pols c).

Definition check_case (c : case) : list nat :=
  (if forallb (model_agrees c) (oc_pols c) then [] else [code_mismatch]) ++
  (if oracle c then [] else [code_violation]).
