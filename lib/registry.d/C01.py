"""C01 check configuration."""


def setup(register, COMMON_TB):
    register(
        "C01", coq="C01", coq_extra=["k8s", "ngx", "gen", "C04", "C17"], pkg="./internal/mode/static/", test="TestVerifC01",
        rule="a generated cluster state A and a mutated copy B (routes, services, secrets, grants, namespace labels, listener hostnames, ConfigMaps, "
             "BackendTLSPolicies changed/removed/added) plus EndpointSlices per Service; a random subset of A exists before start-up; the history creates "
             "the rest, moves to B by upserts and deletes in random order, deletes and re-creates a few objects, and is filtered by the registered watch "
             "predicates (generation / ports / labels / resourceVersion), delivered in random batches with occasional restarts (new incarnation, "
             "start-up listing); in a third of the histories the endpoint changes come last; at the end the long-lived result is compared with a "
             "controller freshly started on a copy of the final cluster; non-trivial = at least 15 operations",
        trusted_base=COMMON_TB + [
            "the watch filters are read from the source of registerControllers (manager.go) on every run and rebuilt from the real predicate types by a small "
            "interpreter in the harness (zz_verif_watch_test.go: And/Or/Not and the literal predicates in use; anything else stops the harness); the API "
            "server stand-in maintains metadata.generation for every kind except Service, Secret, ConfigMap and Namespace",
            "metadata.generation is bumped by the harness when the spec changes (API server behaviour)",
            "canonical comparison of generated files (C17/Check.v files_equal); statuses compared on the objects the fresh controller writes "
            "(statuses of objects that stopped being handled are never cleared: documented limitation of the updater)",
            "controller-runtime fake client as API server and informer cache",
        ],
        assumptions=["theorems are generic in the graph builder under the frame hypothesis; the hypothesis itself is validated, not proved"],
        timeout={"quick": 900, "thorough": 7200},
    )
