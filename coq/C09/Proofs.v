From Coq Require Import List Arith Bool Permutation Lia.
From NGF Require Import C09.Model.
Import ListNotations.

Lemma remove_key_not_in g l : ~ In g (map fst (remove_key g l)).
Proof.
  induction l as [|[g' rs] l IH]; simpl; [tauto|].
  destruct (Nat.eqb_spec g g') as [->|Hne]; [exact IH|].
  simpl. intros [H|H]; [congruence|tauto].
Qed.

Lemma remove_key_in g g' rs l :
  In (g', rs) (remove_key g l) <-> g' <> g /\ In (g', rs) l.
Proof.
  induction l as [|[g2 rs2] l IH]; simpl; [tauto|].
  destruct (Nat.eqb_spec g g2) as [->|Hne].
  - rewrite IH. split; [intros [H1 H2]; tauto|].
    intros [H1 [H2|H2]]; [inversion H2; subst; congruence|tauto].
  - simpl. rewrite IH. split.
    + intros [H|[H1 H2]]; [inversion H; subst; split; [congruence|tauto]|tauto].
    + intros [H1 [H2|H2]]; tauto.
Qed.

Lemma remove_key_nodup g l : NoDup (map fst l) -> NoDup (map fst (remove_key g l)).
Proof.
  induction l as [|[g' rs] l IH]; simpl; intros H; [constructor|].
  inversion H as [|? ? Hn Hd]; subst.
  destruct (Nat.eqb_spec g g'); [auto|].
  simpl. constructor; [|auto].
  intros Hin. apply Hn. apply in_map_iff in Hin. destruct Hin as [[g2 rs2] [Heq Hin]].
  simpl in Heq; subst. apply remove_key_in in Hin. apply in_map_iff. exists (g', rs2). tauto.
Qed.

Lemma nodup_app_single (A : Type) (l : list A) (x : A) : NoDup l -> ~ In x l -> NoDup (l ++ [x]).
Proof.
  intros Hl Hx. induction l as [|y l IH]; simpl; [constructor; [tauto|constructor]|].
  inversion Hl; subst. constructor.
  - rewrite in_app_iff. simpl. intros [H|[H|[]]]; [tauto|]. subst. apply Hx. left. reflexivity.
  - apply IH; [assumption|]. intros H. apply Hx. right. exact H.
Qed.

Lemma set_key_nodup g rs l : NoDup (map fst l) -> NoDup (map fst (set_key g rs l)).
Proof.
  intros H. unfold set_key. rewrite map_app. simpl.
  apply nodup_app_single; [apply remove_key_nodup; exact H|apply remove_key_not_in].
Qed.

Lemma set_key_in g rs g' rs' l :
  In (g', rs') (set_key g rs l) <-> (g' = g /\ rs' = rs) \/ (g' <> g /\ In (g', rs') l).
Proof.
  unfold set_key. rewrite in_app_iff, remove_key_in. simpl. split.
  - intros [H|[H|[]]]; [tauto|]. inversion H; subst. tauto.
  - intros [[-> ->]|H]; tauto.
Qed.

(* ---------------------------------------------------------------- invariant of the not-yet-leader phase *)

Section Proofs.
  Variable pi : list (group * list req) -> list (group * list req).
  Hypothesis pi_perm : forall l, Permutation (pi l) l.

  (* state reached by a prefix without Enable *)
  Definition SavedSpec (ops : list op) (s : st) : Prop :=
    enabled s = false /\ panicked s = false /\ NoDup (map fst (saved s)) /\
    forall g rs, In (g, rs) (saved s) <-> owed ops g rs.

  Lemma latest_app_update g ops g' rs :
    latest g (ops ++ [Update g' rs]) = if Nat.eqb g g' then Some rs else latest g ops.
  Proof.
    induction ops as [|o ops IH]; simpl.
    - destruct (Nat.eqb g g'); reflexivity.
    - rewrite IH. destruct (Nat.eqb g g'); [reflexivity|]. reflexivity.
  Qed.

  Lemma saved_spec_init : SavedSpec [] init.
  Proof.
    unfold SavedSpec, owed; simpl. split; [reflexivity|]. split; [reflexivity|].
    split; [constructor|]. intros g rs. split; [intros []|intros [H _]; discriminate].
  Qed.

  Lemma saved_spec_step ops s g rs :
    SavedSpec ops s ->
    SavedSpec (ops ++ [Update g rs]) (fst (step pi s (Update g rs))) /\
    snd (step pi s (Update g rs)) = [].
  Proof.
    intros (He & Hp & Hnd & Hin). unfold step. rewrite Hp, He.
    destruct rs as [|r rs].
    - split; [|reflexivity]. unfold SavedSpec; simpl.
      split; [reflexivity|]. split; [reflexivity|]. split; [apply remove_key_nodup; exact Hnd|].
      intros g0 rs0. unfold owed. rewrite latest_app_update, remove_key_in, Hin. unfold owed.
      destruct (Nat.eqb_spec g0 g) as [->|Hne].
      + split; [intros [Hc _]; congruence|intros [Hl Hnz]; inversion Hl; subst; congruence].
      + tauto.
    - split; [|reflexivity]. unfold SavedSpec; simpl.
      split; [reflexivity|]. split; [reflexivity|]. split; [apply set_key_nodup; exact Hnd|].
      intros g0 rs0. unfold owed. rewrite latest_app_update, set_key_in, Hin. unfold owed.
      destruct (Nat.eqb_spec g0 g) as [->|Hne].
      + split.
        * intros [[_ ->]|[Hc _]]; [split; [reflexivity|discriminate]|congruence].
        * intros [Hl Hnz]. left. inversion Hl; auto.
      + split; [intros [[Hc _]|[_ H]]; [congruence|exact H]|intros H; right; tauto].
  Qed.

  Definition all_updates (ops : list op) : Prop := forall o, In o ops -> is_enable o = false.

  Lemma run_app s ops1 ops2 :
    run pi s (ops1 ++ ops2) =
    let '(s1, w1) := run pi s ops1 in let '(s2, w2) := run pi s1 ops2 in (s2, w1 ++ w2).
  Proof.
    revert s. induction ops1 as [|o ops1 IH]; intros s; simpl.
    - destruct (run pi s ops2); reflexivity.
    - destruct (step pi s o) as [s1 w]. rewrite IH.
      destruct (run pi s1 ops1) as [s2 ws]. destruct (run pi s2 ops2). reflexivity.
  Qed.

  (* Phase 1: while not leader nothing is written, and the saved map is exactly what is owed. *)
  Lemma before_enable ops :
    all_updates ops ->
    SavedSpec ops (fst (run pi init ops)) /\
    forall w, In w (snd (run pi init ops)) -> w = [].
  Proof.
    induction ops as [|o ops IH] using rev_ind; intros Hall.
    - simpl. split; [apply saved_spec_init|intros w []].
    - assert (Hall' : all_updates ops) by (intros o' Ho'; apply Hall; apply in_or_app; tauto).
      destruct (IH Hall') as [Hs Hw].
      assert (Ho : is_enable o = false) by (apply Hall; apply in_or_app; simpl; tauto).
      destruct o as [g rs|]; [|discriminate].
      rewrite run_app. destruct (run pi init ops) as [s1 w1] eqn:Hr. simpl in *.
      destruct (saved_spec_step ops s1 g rs Hs) as [Hs' Hout].
      destruct (step pi s1 (Update g rs)) as [s2 w2]. simpl in *. subst w2.
      split; [exact Hs'|]. intros w Hin. apply in_app_or in Hin. destruct Hin as [Hin|[<-|[]]]; auto.
  Qed.

  (* Phase 2: acquiring leadership writes, in some group order, exactly what is owed. *)
  Lemma at_enable ops s :
    SavedSpec ops s ->
    exists l, snd (step pi s Enable) = flush_out l /\ NoDup (map fst l) /\
              (forall g rs, In (g, rs) l <-> owed ops g rs) /\
              enabled (fst (step pi s Enable)) = true /\ panicked (fst (step pi s Enable)) = false.
  Proof.
    intros (He & Hp & Hnd & Hin). unfold step. rewrite Hp, He. simpl.
    exists (pi (saved s)). split; [reflexivity|]. split.
    - eapply Permutation_NoDup; [apply Permutation_map; apply Permutation_sym; apply pi_perm|exact Hnd].
    - split; [|split; reflexivity]. intros g rs. rewrite <- Hin. split; intros H.
      + eapply Permutation_in; [apply pi_perm|exact H].
      + eapply Permutation_in; [apply Permutation_sym; apply pi_perm|exact H].
  Qed.

  (* Phase 3: a leader writes every submission immediately, in order, and keeps nothing. *)
  Lemma after_enable s ops :
    enabled s = true -> panicked s = false -> all_updates ops ->
    snd (run pi s ops) = map update_out ops /\
    enabled (fst (run pi s ops)) = true /\ panicked (fst (run pi s ops)) = false.
  Proof.
    revert s. induction ops as [|o ops IH]; intros s He Hp Hall; [simpl; auto|].
    assert (Ho : is_enable o = false) by (apply Hall; simpl; tauto).
    destruct o as [g rs|]; [|discriminate].
    assert (Hstep : step pi s (Update g rs) = (s, rs)) by (unfold step; rewrite Hp, He; reflexivity).
    assert (Hall' : all_updates ops) by (intros o' Ho'; apply Hall; simpl; tauto).
    destruct (IH s He Hp Hall') as (Hw & He' & Hp').
    simpl. rewrite Hstep.
    destruct (run pi s ops) as [s2 ws]. simpl in *. subst ws. auto.
  Qed.

  (* The whole life of a replica that acquires leadership once. *)
  Theorem leader_history ops1 ops2 :
    all_updates ops1 -> all_updates ops2 ->
    exists l,
      NoDup (map fst l) /\ (forall g rs, In (g, rs) l <-> owed ops1 g rs) /\
      snd (run pi init (ops1 ++ Enable :: ops2)) =
        map (fun _ => []) ops1 ++ flush_out l :: map update_out ops2.
  Proof.
    intros H1 H2. destruct (before_enable ops1 H1) as [Hs Hw].
    rewrite run_app. destruct (run pi init ops1) as [s1 w1] eqn:Hr1. simpl in Hs, Hw.
    destruct (at_enable ops1 s1 Hs) as (l & Hout & Hnd & Hin & He & Hp).
    exists l. split; [exact Hnd|]. split; [exact Hin|].
    simpl. destruct (step pi s1 Enable) as [s2 w2]. simpl in *. subst w2.
    destruct (after_enable s2 ops2 He Hp H2) as (Hw2 & _ & _).
    destruct (run pi s2 ops2) as [s3 w3]. simpl in *. subst w3. f_equal.
    assert (Hlen : length w1 = length ops1).
    { clear -Hr1. revert w1 s1 Hr1. generalize init. induction ops1 as [|o ops IH]; intros s0 w1 s1 Hr; simpl in *.
      - inversion Hr; reflexivity.
      - destruct (step pi s0 o) as [sa wa]. destruct (run pi sa ops) as [sb wb] eqn:Hb.
        inversion Hr; subst. simpl. f_equal. eapply IH. exact Hb. }
    clear -Hw Hlen. revert ops1 Hlen. induction w1 as [|w w1 IH]; intros [|o ops1] Hlen; simpl in *; try discriminate; [reflexivity|].
    f_equal; [apply Hw; left; reflexivity|]. apply IH; [intros w' Hin; apply Hw; right; exact Hin|lia].
  Qed.

  (* Never the leader: never a write. *)
  Theorem never_leader_never_writes ops :
    all_updates ops -> forall w, In w (snd (run pi init ops)) -> w = [].
  Proof. intros H. apply (before_enable ops H). Qed.

End Proofs.
