(* C08 — ties between the oracle of Check.v and the theorems: the clause "entries of other controllers: none
   lost, duplicated or altered" is implied by the equality the theorem gives, and the whole checker accepts
   the repaired model's own output on a concrete run with a conflict, a retry and a second (no-op) round. *)
From Coq Require Import List String Ascii ZArith NArith Bool Arith.
From NGF Require Import C08.Model C08.Proofs C08.Check.
Import ListNotations.

Lemma list_eqb_refl {A} (f : A -> A -> bool) : (forall x, f x x = true) -> forall l, list_eqb f l l = true.
Proof. intros H. induction l as [|x l IH]; simpl; [reflexivity|]. rewrite H, IH. reflexivity. Qed.

Lemma cond_full_eqb_refl c : cond_full_eqb c c = true.
Proof.
  unfold cond_full_eqb, cond_eqb. rewrite !Z.eqb_refl, !String.eqb_refl, Nat.eqb_refl, N.eqb_refl. reflexivity.
Qed.

Lemma entry_full_eqb_refl e : entry_full_eqb e e = true.
Proof.
  unfold entry_full_eqb. rewrite String.eqb_refl, Nat.eqb_refl.
  rewrite (list_eqb_refl (opt_eqb String.eqb)), (list_eqb_refl cond_full_eqb); [reflexivity| |].
  - exact cond_full_eqb_refl.
  - intros [x|]; simpl; [apply String.eqb_refl|reflexivity].
Qed.

Lemma match_all_refl l : match_all entry_full_eqb l l = true.
Proof. induction l as [|e l IH]; simpl; [reflexivity|]. rewrite entry_full_eqb_refl. exact IH. Qed.

(* what C08_every_attempt_preserves_foreign_and_replaces_own gives for a submission makes the oracle's
   foreign-entries clause true *)
Lemma foreign_clause_sound ctl pe o :
  foreign ctl o = foreign ctl pe ->
  match_all entry_full_eqb (foreign_of ctl (SEntries pe)) (foreign_of ctl (SEntries o)) = true.
Proof. simpl. intros ->. apply match_all_refl. Qed.

Local Open Scope string_scope.

Definition ex_lim := Lim 32 8 32768%N 1024%N 0 0 0.
Definition ex_comp := CEntries [PE [Some "gw"; Some "default"; None]
   [PC "Accepted" "True" "Accepted" 1 10%N; PC "ResolvedRefs" "True" "ResolvedRefs" 2 12%N;
    PC "Accepted" "False" "Invalid" 3 50000%N]].
Definition ex_atts := [Att GetErr UpdOK; Att (GetOK ex_stale) UpdFail; Att (GetOK ex_stale) UpdOK; Att (GetOK ex_stale) UpdOK].

Definition with_crd (o : option status) : option (status * bool) :=
  match o with Some s => Some (s, true) | None => None end.

Definition ex_round1 :=
  Round 2%Z 9%Z ex_comp ex_atts (map with_crd (run_round repaired KHTTPRoute ex_ctl 4 2%Z 9%Z ex_comp ex_atts)).
Definition ex_final := SEntries [Entry ex_ctl [Some "gw"; Some "default"; None] 0
   [Cond "ResolvedRefs" "True" "ResolvedRefs" 2 12%N 2%Z 9%Z; Cond "Accepted" "False" "Invalid" 3 32768%N 2%Z 9%Z]; ex_foreign].
Definition ex_round2 :=
  Round 2%Z 11%Z ex_comp [Att (GetOK ex_final) UpdOK]
        (map with_crd (run_round repaired KHTTPRoute ex_ctl 4 2%Z 11%Z ex_comp [Att (GetOK ex_final) UpdOK])).

(* the checker accepts the repaired model's behaviour (retry after a conflict, truncated message, no-op) ... *)
Example checker_accepts_model :
  check_case (Case KHTTPRoute ex_ctl ex_lim 4 [ex_round1; ex_round2]) = []
  /\ map (fun o => match o with Some _ => true | None => false end) (r_obs ex_round1) = [false; true; true]
  /\ r_obs ex_round2 = [None].
Proof. vm_compute. repeat split; reflexivity. Qed.

(* ... and rejects the as-found one on the same input, naming both findings *)
Example checker_rejects_as_found :
  check_case (Case KHTTPRoute ex_ctl ex_lim 4
    [Round 2%Z 9%Z ex_comp ex_atts (map with_crd (run_round as_found KHTTPRoute ex_ctl 4 2%Z 9%Z ex_comp ex_atts))])
  = [code_D15; code_D16].
Proof. vm_compute. reflexivity. Qed.
