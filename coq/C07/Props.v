(* C07 — property theorems (being extended). *)
From Coq Require Import List String Bool.
From NGF Require Import lib.Str k8s.State k8s.Spec C07.Check.
Import ListNotations.

(* a Route that is programmed through a parentRef is bound to a listener by that parentRef:
   "served" implies "attached" in the counting relation used for attachedRoutes *)
Theorem C07_programmed_implies_bound :
  forall cs g r p, programmed cs g r p = true ->
  exists l, In l (g_listeners g) /\ listener_valid cs g l = true /\ section_ok p l = true.
Proof.
  intros cs g r p H. unfold programmed in H.
  apply andb_true_iff in H. destruct H as [_ H].
  apply existsb_exists in H. destruct H as [l [Hin Hl]].
  exists l. split; [exact Hin|].
  apply andb_true_iff in Hl. destruct Hl as [Hl _].
  apply andb_true_iff in Hl. destruct Hl as [Hl _].
  apply andb_true_iff in Hl. destruct Hl as [Hl _].
  apply andb_true_iff in Hl. destruct Hl as [Hs Hv]. split; assumption.
Qed.

(* ====================================================================================================================
   Second part: the status-assembly code itself (internal/mode/static/status/prepare_requests.go: prepareRouteStatus,
   prepareGatewayRequest, PrepareGatewayRequests for ignored Gateways; conditions.DeduplicateConditions).
   Model: C07/Prep.v; vocabulary of the statements (of_type, last_of_type, reports, route_expected …): C07/PrepCheck.v;
   the model is tied to the real functions on every run by TestVerifC07Prep (code 1 of C07/PrepCheck.v).
   All statements hold for ALL lists of conditions, all attachment states, both reload outcomes, all listener lists. *)
From Coq Require Import ZArith.
From NGF Require Import C07.Prep C07.PrepCheck C07.PrepProofs.
Local Open Scope string_scope.
Local Open Scope list_scope.

(* DeduplicateConditions: of every type exactly the LAST condition of the input is kept (and nothing else of that type);
   the result has pairwise distinct types; a type occurs in the result iff it occurs in the input; the survivors keep
   the order of the input. *)
Theorem C07_dedup_last_wins_distinct_complete : forall l,
  (forall t, of_type t (dedup l) = opt_list (last_of_type t l)) /\
  NoDup (types_of (dedup l)) /\
  (forall t, In t (types_of l) <-> In t (types_of (dedup l))) /\
  subseq (dedup l) l.
Proof. exact dedup_summary. Qed.

(* what "the last condition of type t" means: nothing of type t comes after it *)
Theorem C07_last_of_type_is_the_last : forall t l c,
  last_of_type t l = Some c <-> exists a b, l = a ++ c :: b /\ pc_type c = t /\ has_type t b = false.
Proof. exact last_of_type_spec. Qed.

(* (a) Routes: after a failed reload EVERY parent entry — whatever the Route's own conditions and whatever the attachment
   state — carries exactly one Accepted condition, Accepted=False/GatewayNotProgrammed; none says Accepted=True. *)
Theorem C07_route_not_accepted_after_failed_reload : forall conds parents e,
  In e (prepare_route_status conds parents true) ->
  of_type "Accepted" e = [PC "Accepted" "False" "GatewayNotProgrammed"] /\ reports e "Accepted" "True" = false.
Proof. exact route_reload_failed_all. Qed.

(* (b) Routes: the entry of a parentRef whose attachment failed carries the failed condition as its only condition of
   that type — not the default, not a Route-level condition (unless the reload failed and the type is Accepted: (a)). *)
Theorem C07_failed_attachment_is_reported : forall conds parents reload_failed i fc,
  nth_error parents i = Some (Some (Att false fc)) ->
  reload_failed = false \/ pc_type fc <> "Accepted" ->
  exists e, nth_error (prepare_route_status conds parents reload_failed) i = Some e /\ of_type (pc_type fc) e = [fc].
Proof. exact route_failed_attachment_all. Qed.

(* (g) Routes: entry i belongs to parentRef i, and for EVERY condition type the entry carries exactly what the precedence
   failed reload > failed attachment > last Route-level condition > default (Accepted=True, ResolvedRefs=True) selects. *)
Theorem C07_route_entry_precedence : forall conds parents reload_failed i t,
  nth_error (prepare_route_status conds parents reload_failed) i =
    option_map (route_parent_conds conds reload_failed) (nth_error parents i) /\
  forall a, of_type t (route_parent_conds conds reload_failed a) = opt_list (route_expected conds reload_failed a t).
Proof. exact route_entry_precedence. Qed.

(* (c) Routes: one entry per parentRef, and no condition type twice within an entry. *)
Theorem C07_route_entries_have_distinct_types : forall conds parents reload_failed,
  List.length (prepare_route_status conds parents reload_failed) = List.length parents /\
  forall e, In e (prepare_route_status conds parents reload_failed) -> NoDup (types_of e).
Proof. exact route_status_shape. Qed.

(* (d) Gateway conditions reflect listener validity. For a valid Gateway with n valid listeners:
   n = 0 (also: no listeners at all): Accepted=False/ListenersNotValid, never Accepted=True, Programmed=False/Invalid;
   0 < n < all: Accepted=True/ListenersNotValid;  n = all > 0: Accepted=True/Accepted;
   n > 0 and the reload succeeded: Programmed=True;  only the types Accepted and Programmed, each once (c). *)
Theorem C07_gateway_accepted_reflects_listener_validity : forall g reload_failed,
  pg_valid g = true ->
  let n := List.length (filter pl_valid (pg_listeners g)) in
  let e := go_conds (prepare_gateway g reload_failed) in
  (n = 0 -> of_type "Accepted" e = [PC "Accepted" "False" "ListenersNotValid"] /\
            reports e "Accepted" "True" = false /\
            of_type "Programmed" e = [PC "Programmed" "False" "Invalid"]) /\
  (0 < n -> n < List.length (pg_listeners g) -> of_type "Accepted" e = [PC "Accepted" "True" "ListenersNotValid"]) /\
  (0 < n -> n = List.length (pg_listeners g) -> of_type "Accepted" e = [PC "Accepted" "True" "Accepted"]) /\
  (0 < n -> reload_failed = false -> of_type "Programmed" e = [PC "Programmed" "True" "Programmed"]) /\
  (forall c, In c e -> pc_type c = "Accepted" \/ pc_type c = "Programmed") /\
  NoDup (types_of e).
Proof. exact gateway_accepted_reflects_listeners. Qed.

(* (a) Gateways: after a failed reload a valid Gateway and EVERY listener (valid or not, whatever its own conditions)
   carry exactly one Programmed condition, Programmed=False/Invalid; none says Programmed=True. *)
Theorem C07_nothing_programmed_after_failed_reload : forall g,
  pg_valid g = true ->
  of_type "Programmed" (go_conds (prepare_gateway g true)) = [PC "Programmed" "False" "Invalid"] /\
  reports (go_conds (prepare_gateway g true)) "Programmed" "True" = false /\
  List.length (go_listeners (prepare_gateway g true)) = List.length (pg_listeners g) /\
  forall o, In o (go_listeners (prepare_gateway g true)) ->
            of_type "Programmed" (lo_conds o) = [PC "Programmed" "False" "Invalid"] /\
            reports (lo_conds o) "Programmed" "True" = false.
Proof. exact gateway_reload_failed. Qed.

(* (e) one listener status per listener, in order, under its name, attachedRoutes = L7 routes + L4 routes; (c) for listeners *)
Theorem C07_attached_routes_is_the_sum : forall g reload_failed,
  pg_valid g = true ->
  map (fun o => (lo_name o, lo_attached o)) (go_listeners (prepare_gateway g reload_failed)) =
  map (fun l => (pl_name l, Z.of_nat (pl_routes l + pl_l4routes l))) (pg_listeners g) /\
  forall o, In o (go_listeners (prepare_gateway g reload_failed)) -> NoDup (types_of (lo_conds o)).
Proof. exact gateway_listener_statuses. Qed.

(* (g) listener conditions reflect listener validity: a valid listener gets the defaults (Accepted, Programmed, ResolvedRefs
   True, Conflicted False) when the reload succeeded; an invalid listener gets, per type, the last of its OWN conditions and
   no default (apart from Programmed after a failed reload, (a)). *)
Theorem C07_listener_conditions_reflect_validity : forall g reload_failed i l,
  pg_valid g = true -> nth_error (pg_listeners g) i = Some l ->
  exists o, nth_error (go_listeners (prepare_gateway g reload_failed)) i = Some o /\
            (pl_valid l = true -> reload_failed = false -> lo_conds o = default_listener_conds) /\
            (forall t, pl_valid l = false -> reload_failed = false \/ t <> "Programmed" ->
                       of_type t (lo_conds o) = opt_list (last_of_type t (pl_conds l))).
Proof. exact gateway_listener_conditions. Qed.

(* (h) an invalid Gateway: no listener statuses; per type the last of its own conditions; distinct types *)
Theorem C07_invalid_gateway_reports_its_own_conditions : forall g reload_failed,
  pg_valid g = false ->
  go_listeners (prepare_gateway g reload_failed) = [] /\
  (forall t, of_type t (go_conds (prepare_gateway g reload_failed)) = opt_list (last_of_type t (pg_conds g))) /\
  NoDup (types_of (go_conds (prepare_gateway g reload_failed))).
Proof. exact gateway_invalid_own. Qed.

(* (f) every ignored Gateway: Accepted=False and Programmed=False with reason GatewayConflict, nothing else, no listeners *)
Theorem C07_ignored_gateway_conflict : forall g n_ignored reload_failed,
  List.length (snd (prepare_gateways g n_ignored reload_failed)) = n_ignored /\
  forall o, In o (snd (prepare_gateways g n_ignored reload_failed)) ->
    go_conds o = [PC "Accepted" "False" "GatewayConflict"; PC "Programmed" "False" "GatewayConflict"] /\
    go_listeners o = [].
Proof. exact ignored_gateways. Qed.

(* ORACLE SOUNDNESS for the model: for all inputs, the case whose "observed" part is the model's own output gets no code:
   the oracle (a)–(h) of C07/PrepCheck.v (stated without the model) accepts everything the model produces. Hence a code 2 on
   the real functions' output is a disagreement with the model or a violated clause, never an artefact of the oracle. *)
Theorem C07_prep_oracle_sound :
  (forall conds parents reload_failed,
     check_case (RouteCase conds parents reload_failed (prepare_route_status conds parents reload_failed)) = []) /\
  (forall g n_ignored reload_failed,
     check_case (GatewaysCase g n_ignored reload_failed (fst (prepare_gateways g n_ignored reload_failed))
                              (snd (prepare_gateways g n_ignored reload_failed))) = []) /\
  check_case (CtorCase ctor_table) = [].
Proof. exact check_case_model. Qed.
