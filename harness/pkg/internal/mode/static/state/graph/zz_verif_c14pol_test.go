//go:build verif

package graph

import (
	"sort"
	"strconv"
	"testing"
	"time"

	metav1 "k8s.io/apimachinery/pkg/apis/meta/v1"
	"k8s.io/apimachinery/pkg/runtime/schema"
	"k8s.io/apimachinery/pkg/types"
	v1 "sigs.k8s.io/gateway-api/apis/v1"

	"github.com/nginx/nginx-gateway-fabric/internal/framework/kinds"
	"github.com/nginx/nginx-gateway-fabric/internal/mode/static/nginx/config/policies"
	"github.com/nginx/nginx-gateway-fabric/internal/mode/static/nginx/config/policies/policiesfakes"
	vu "github.com/nginx/nginx-gateway-fabric/internal/verifutil"
)

// TestVerifC14Pol: third part of the C14 check. The real markConflictedPolicies on generated sets of policies - one or
// two kinds, one to three targets each out of four (so that chains through policies with several targets are common),
// few distinct timestamps and namespaces, some invalid from the start, a generated conflict relation - called several
// times on freshly built maps (Go re-randomises map iteration every time). The verdicts of every run go to
// C14/PolConflictCheck.v.
func TestVerifC14Pol(t *testing.T) {
	out := vu.Open("C14")
	out.ShardLen(100)
	rng := vu.NewRng(out.Seed ^ 0xC14B0)
	n := out.Count(400, 20000)
	runs := out.Count(6, 12)
	base := time.Date(2024, 1, 1, 0, 0, 0, 0, time.UTC)
	gvks := []schema.GroupVersionKind{{Group: "g", Version: "v1", Kind: "OrangePolicy"}, {Group: "g", Version: "v1", Kind: "ApplePolicy"}}
	targets := []PolicyTargetRef{
		{Kind: kinds.HTTPRoute, Group: v1.GroupName, Nsname: types.NamespacedName{Namespace: "a", Name: "r0"}},
		{Kind: kinds.HTTPRoute, Group: v1.GroupName, Nsname: types.NamespacedName{Namespace: "a", Name: "r1"}},
		{Kind: kinds.GRPCRoute, Group: v1.GroupName, Nsname: types.NamespacedName{Namespace: "a", Name: "r1"}},
		{Kind: kinds.Gateway, Group: v1.GroupName, Nsname: types.NamespacedName{Namespace: "b", Name: "gw"}},
	}
	type spec struct {
		ts       int64
		ns, name string
		kind     int
		targets  []int
		valid    bool
		tag      int
	}
	for i := 0; i < n; i++ {
		r := rng.Fork()
		np := 2 + r.Intn(2+(i*6)/n)
		nkinds := 1 + r.Intn(2)
		var specs []spec
		for k := 0; k < np; k++ {
			s := spec{ts: int64(r.Intn(3)), ns: []string{"a", "b"}[r.Intn(2)], name: "p" + strconv.Itoa(r.Intn(3)) + "-" + strconv.Itoa(k),
				kind: r.Intn(nkinds), valid: !r.Chance(1, 8), tag: k}
			for _, x := range r.Perm(len(targets))[:1+r.Intn(3)] {
				s.targets = append(s.targets, x)
			}
			sort.Ints(s.targets)
			specs = append(specs, s)
		}
		// conflict relation over tags; symmetric as the real validators are, except in a few cases (the fake allows it)
		conf := map[[2]int]bool{}
		dens := 1 + r.Intn(3)
		for a := 0; a < np; a++ {
			for b := a + 1; b < np; b++ {
				if r.Chance(dens, 4) {
					conf[[2]int{a, b}] = true
					if !r.Chance(1, 10) {
						conf[[2]int{b, a}] = true
					}
				}
			}
		}
		var polTerms, confTerms, runTerms []string
		for _, s := range specs {
			polTerms = append(polTerms, vu.App("Pol", vu.Tuple(vu.Z(s.ts), vu.Str(s.ns), vu.Str(s.name)), vu.Nat(s.kind), vu.NatList(s.targets), vu.Bool(s.valid), vu.Nat(s.tag)))
		}
		var confKeys [][2]int
		for k := range conf {
			confKeys = append(confKeys, k)
		}
		sort.Slice(confKeys, func(a, b int) bool {
			return confKeys[a][0] < confKeys[b][0] || (confKeys[a][0] == confKeys[b][0] && confKeys[a][1] < confKeys[b][1])
		})
		for _, k := range confKeys {
			confTerms = append(confTerms, vu.Pair(vu.Nat(k[0]), vu.Nat(k[1])))
		}
		var humans [][]bool
		for run := 0; run < runs; run++ {
			tagOf := map[policies.Policy]int{}
			pols := map[PolicyKey]*Policy{}
			byTag := make([]*Policy, np)
			for _, s := range r.Perm(np) {
				sp := specs[s]
				src := &policiesfakes.FakePolicy{}
				src.GetNameReturns(sp.name)
				src.GetNamespaceReturns(sp.ns)
				src.GetCreationTimestampReturns(metav1.NewTime(base.Add(time.Duration(sp.ts) * time.Second)))
				gvk := gvks[sp.kind]
				src.GetObjectKindReturns(&policiesfakes.FakeObjectKind{GroupVersionKindStub: func() schema.GroupVersionKind { return gvk }})
				p := &Policy{Source: src, Valid: sp.valid}
				for _, x := range sp.targets {
					p.TargetRefs = append(p.TargetRefs, targets[x])
				}
				tagOf[src] = sp.tag
				byTag[sp.tag] = p
				pols[PolicyKey{NsName: types.NamespacedName{Namespace: sp.ns, Name: sp.name}, GVK: gvk}] = p
			}
			fv := &policiesfakes.FakeValidator{ConflictsStub: func(a, b policies.Policy) bool { return conf[[2]int{tagOf[a], tagOf[b]}] }}
			markConflictedPolicies(pols, fv)
			var vt []string
			var hv []bool
			for tag, p := range byTag {
				vt = append(vt, vu.Pair(vu.Nat(tag), vu.Bool(p.Valid)))
				hv = append(hv, p.Valid)
			}
			runTerms = append(runTerms, vu.List(vt))
			humans = append(humans, hv)
		}
		out.Case(vu.App("PCase", vu.List(polTerms), vu.List(confTerms), vu.List(runTerms)),
			map[string]any{"policies (key, kind, targets, valid at start, tag)": polTerms, "conflicts (tag of greater precedence first)": confTerms, "valid in the end, per run, by tag": humans},
			np >= 4 && len(conf) >= 2, vu.List(polTerms)+vu.List(confTerms))
		out.Tally("policies", strconv.Itoa(np))
		out.Tally("conflict_pairs", strconv.Itoa(len(confKeys)/4*4))
	}
	out.Close("C14.PolConflictCheck", "")
}
