(* C15 — property theorems only.  Weighted backends receive traffic in proportion to their weights.

   Quantifiers: every backend list (any length >= 2 — the bound 16 of the CRD is not needed), every
   weight vector with non-negative weights (the bound 10^6 is needed only for C15_no_overflow), every
   validity pattern, every upstream name.  Shares are in hundredths of a percent (10000 = 100.00%).
   [fair_split] (C15.Proofs) is the declarative statement of proportionality; the reading chosen for
   "within 0.01 percentage points per backend" is written there: every backend except the one that
   takes the rounding remainder has its exact share rounded down to 0.01, and the remainder backend
   (which has a non-zero weight) exceeds its exact share by less than 0.01*(n-1).
   [ngx_shares] (C15.Ngx) is how NGINX reads the rendered lines (trusted, not verified).

   The model is the REPAIRED algorithm (fixes/D8.patch).  For the code as found the statement is
   false: C15_asfound_last_takes_remainder_refuted (D9); the floating-point "-0.00" (D8) is shown by
   replaying weights [83,42,0] on the implementation (harness corpus, case 0). *)
From Coq Require Import List ZArith String.
From NGF Require Import C15.Model C15.Ngx C15.Check C15.Proofs.
Import ListNotations.
Local Open Scope Z_scope.

(* Shares are non-negative, sum to exactly 100.00, are 0 for zero weights, and are proportional to
   the weights within the tolerance. *)
Theorem C15_shares_proportional :
  forall ws, Forall (fun w => 0 <= w) ws -> 0 < zsum ws -> fair_split ws (shares ws).
Proof. exact shares_fair. Qed.

(* What NGINX reads from the rendered block of a rule with several backends and a non-zero total:
   the block is accepted, line i carries exactly share i of backend i (a function of the weights
   only, so an invalid backend keeps its share; a zero share is commented out and gets nothing),
   and its value is the backend's upstream, or invalid-backend-ref (the upstream that answers 500)
   when the backend is invalid. *)
Theorem C15_rendered_block :
  forall bs, (2 <= List.length bs)%nat ->
  Forall (fun w => 0 <= w) (weights bs) -> 0 < zsum (weights bs) ->
  exists ds, distributions bs = Some ds /\
    ngx_shares (map line_of_dist ds) = Some (shares (weights bs)) /\
    map l_value (map line_of_dist ds) = map split_value bs.
Proof. exact rendered_block. Qed.

(* When all weights are zero every request goes to invalid-backend-ref (500). *)
Theorem C15_all_zero_all_500 :
  forall bs, (2 <= List.length bs)%nat -> zsum (weights bs) = 0 ->
  distributions bs = Some [("100"%string, invalid_backend_ref)] /\
  map line_of_dist [("100"%string, invalid_backend_ref)] = [Line true "100" invalid_backend_ref] /\
  ngx_shares [Line true "100" invalid_backend_ref] = Some [max_hundredths].
Proof. exact all_zero_block. Qed.

(* The proxy_pass of the rule uses the variable of the rule's own split_clients block. *)
Theorem C15_proxy_pass_linked :
  forall g, (2 <= List.length (g_backends g))%nat ->
  exists v ds, split_clients [g] = [(v, ds)] /\
               proxy_pass g = ("http://$" ++ v ++ "$request_uri")%string.
Proof. exact proxy_pass_linked. Qed.

(* With weights in 0..10^6 the total, every product w*10000 and every share stay far inside int64
   (total <= n*10^6, products <= 10^10, shares in 0..10000): the Go arithmetic is the arithmetic of Z. *)
Theorem C15_no_overflow :
  forall ws, Forall (fun w => 0 <= w <= max_weight) ws -> 0 < zsum ws ->
  zsum ws <= Z.of_nat (List.length ws) * max_weight /\
  Forall (fun w => 0 <= w * max_hundredths <= 10000000000) ws /\
  Forall (fun sh => 0 <= sh <= max_hundredths) (shares ws).
Proof. exact no_overflow. Qed.

(* As found (the last backend takes the remainder, whatever its weight) the property is false even in
   exact arithmetic: weights [1;1;1;0] give the zero-weight backend 0.01% (D9). *)
Theorem C15_asfound_last_takes_remainder_refuted :
  exists ws, Forall (fun w => 0 <= w <= max_weight) ws /\ (2 <= List.length ws)%nat /\ 0 < zsum ws /\
             ~ fair_split ws (shares_asfound ws).
Proof. exact asfound_refuted. Qed.
