//go:build verif

package static

import (
	"context"
	"fmt"
	"strconv"
	"testing"

	apiv1 "k8s.io/api/core/v1"
	discoveryV1 "k8s.io/api/discovery/v1"
	metav1 "k8s.io/apimachinery/pkg/apis/meta/v1"
	"sigs.k8s.io/controller-runtime/pkg/client"
	gatewayv1 "sigs.k8s.io/gateway-api/apis/v1"
	"sigs.k8s.io/gateway-api/apis/v1alpha2"

	"github.com/nginx/nginx-gateway-fabric/internal/framework/helpers"
	vu "github.com/nginx/nginx-gateway-fabric/internal/verifutil"
)

// TestVerifC02Pass: fifth part of the C02 check, TLS passthrough. A Gateway with one to four TLS passthrough listeners on
// two ports (no hostname, exact, wildcards of two depths) and sometimes an HTTPS listener on one of the ports (a hostname
// that does not overlap, as the listener conflict rules demand); one to four TLSRoutes with zero to two hostnames that
// several listeners admit, parentRefs with and without sectionName, equal and different ages, backends with ready endpoints,
// without endpoints or missing. The stream configuration the real pipeline generates is evaluated for (port, SNI) requests
// inside Coq and compared with what Gateway API prescribes (C02/Pass.v).
func TestVerifC02Pass(t *testing.T) {
	out := vu.Open("C02")
	out.ShardLen(60)
	rng := vu.NewRng(out.Seed ^ 0xC02A5)
	n := out.Count(300, 8000)
	ctx := context.Background()
	pass := gatewayv1.TLSModePassthrough
	term := gatewayv1.TLSModeTerminate
	lhosts := []string{"", "*.example.com", "app.example.com", "*.app.example.com", "x.app.example.com", "*.other.net"}
	rhosts := []string{"app.example.com", "x.app.example.com", "*.example.com", "*.app.example.com", "y.x.app.example.com", "z.other.net", "unrelated.org"}
	snis := []string{"app.example.com", "x.app.example.com", "y.x.app.example.com", "b.example.com", "example.com", "z.other.net", "a.z.other.net", "unrelated.org", "secure.site.io", "APP.example.com"}
	for i := 0; i < n; i++ {
		r := rng.Fork()
		w := vpNewWorld(false)
		evs := vpBaseEvents()
		evs = append(evs, w.Apply(&gatewayv1.GatewayClass{ObjectMeta: metav1.ObjectMeta{Name: vpClassName}, Spec: gatewayv1.GatewayClassSpec{ControllerName: vpCtlrName}}))
		gw := &gatewayv1.Gateway{ObjectMeta: metav1.ObjectMeta{Name: "gw", Namespace: "default"}, Spec: gatewayv1.GatewaySpec{GatewayClassName: vpClassName}}
		type lis struct {
			name, host string
			port       int32
			https      bool
		}
		var ls []lis
		used := map[string]bool{}
		for k, nk := 0, 1+r.Intn(4); k < nk; k++ {
			l := lis{name: fmt.Sprintf("t%d", k), host: lhosts[r.Intn(len(lhosts))], port: []int32{9443, 9443, 9444}[r.Intn(3)]}
			key := fmt.Sprintf("%d|%s", l.port, l.host)
			if used[key] {
				continue // the CRD requires (port, protocol, hostname) to be unique
			}
			used[key] = true
			ls = append(ls, l)
		}
		directed := r.Chance(1, 10)
		if directed {
			// a TLS listener without hostname next to an HTTPS listener of the port (both conflicted, not programmed) and a valid
			// wildcard listener: a Route on the conflicted listener must not take a hostname away from a Route on the valid one
			ls = []lis{{name: "t0", host: "", port: 9443}, {name: "t1", host: "*.example.com", port: 9443}}
		}
		if r.Chance(1, 3) || directed {
			ls = append(ls, lis{name: "h0", host: "secure.site.io", port: 9443, https: true})
			evs = append(evs, w.Apply(vsSecret{NS: "default", Name: "cert-a", OK: true}.obj()))
		}
		for _, l := range ls {
			x := gatewayv1.Listener{Name: gatewayv1.SectionName(l.name), Port: gatewayv1.PortNumber(l.port), Protocol: gatewayv1.TLSProtocolType, TLS: &gatewayv1.GatewayTLSConfig{Mode: &pass}}
			if l.https {
				x.Protocol = gatewayv1.HTTPSProtocolType
				x.TLS = &gatewayv1.GatewayTLSConfig{Mode: &term, CertificateRefs: []gatewayv1.SecretObjectReference{{Name: "cert-a"}}}
			}
			if l.host != "" {
				x.Hostname = helpers.GetPointer(gatewayv1.Hostname(l.host))
			}
			gw.Spec.Listeners = append(gw.Spec.Listeners, x)
		}
		evs = append(evs, w.Apply(gw))
		// backends: 0 usable, 1 without endpoints, 2 missing
		svcKinds := []int{}
		for k := 0; k < 3; k++ {
			svcKinds = append(svcKinds, []int{0, 0, 0, 1, 2}[r.Intn(5)])
		}
		tcp := apiv1.ProtocolTCP
		for k, kind := range svcKinds {
			name := fmt.Sprintf("svc-tls%d", k)
			if kind == 2 {
				continue
			}
			evs = append(evs, w.Apply(&apiv1.Service{ObjectMeta: metav1.ObjectMeta{Name: name, Namespace: "default"},
				Spec: apiv1.ServiceSpec{IPFamilies: []apiv1.IPFamily{apiv1.IPv4Protocol}, Ports: []apiv1.ServicePort{{Name: "tls", Port: 443, Protocol: tcp}}}}))
			if kind == 0 {
				evs = append(evs, w.Apply(&discoveryV1.EndpointSlice{ObjectMeta: metav1.ObjectMeta{Namespace: "default", Name: name + "-x1", Labels: map[string]string{"kubernetes.io/service-name": name}},
					AddressType: discoveryV1.AddressTypeIPv4, Ports: []discoveryV1.EndpointPort{{Name: helpers.GetPointer("tls"), Port: helpers.GetPointer[int32](8443), Protocol: &tcp}},
					Endpoints: []discoveryV1.Endpoint{{Addresses: []string{"10.2.0." + strconv.Itoa(k+1)}, Conditions: discoveryV1.EndpointConditions{Ready: helpers.GetPointer(true)}}}}))
			}
		}
		type rt struct {
			name     string
			ts       int64
			hosts    []string
			sections []string // "" = no sectionName
			svc      int
		}
		var rts []rt
		for k, nk := 0, 1+r.Intn(4)+map[bool]int{true: 1, false: 0}[directed]; k < nk; k++ {
			x := rt{name: fmt.Sprintf("tr%d", k), ts: int64(r.Intn(3)), svc: r.Intn(3)}
			for h, nh := 0, r.Intn(3); h < nh; h++ {
				x.hosts = append(x.hosts, rhosts[r.Intn(len(rhosts))])
			}
			switch r.Intn(3) {
			case 0:
				x.sections = []string{""}
			case 1:
				x.sections = []string{ls[r.Intn(len(ls))].name}
			default:
				x.sections = []string{ls[0].name, ls[len(ls)-1].name}
				if x.sections[0] == x.sections[1] {
					x.sections = x.sections[:1]
				}
			}
			if directed && k < 2 {
				x.hosts = []string{"*.app.example.com"}
				x.ts = int64(k)
				x.sections = [][]string{{"t0"}, {""}}[k]
			}
			rts = append(rts, x)
			tr := &v1alpha2.TLSRoute{ObjectMeta: metav1.ObjectMeta{Namespace: "default", Name: x.name, CreationTimestamp: vsTime(x.ts)},
				Spec: v1alpha2.TLSRouteSpec{Rules: []v1alpha2.TLSRouteRule{{BackendRefs: []v1alpha2.BackendRef{vsBackendObj(vsBackend{Name: fmt.Sprintf("svc-tls%d", x.svc), Port: 443, Weight: 1})}}}}}
			for _, h := range x.hosts {
				tr.Spec.Hostnames = append(tr.Spec.Hostnames, v1alpha2.Hostname(h))
			}
			for _, s := range x.sections {
				ref := gatewayv1.ParentReference{Name: "gw"}
				if s != "" {
					ref.SectionName = helpers.GetPointer(gatewayv1.SectionName(s))
				}
				tr.Spec.ParentRefs = append(tr.Spec.ParentRefs, ref)
			}
			evs = append(evs, w.Apply(tr))
		}
		w.Batch(evs)
		files := w.Files()
		// listener validity as the Gateway status reports it
		var cur gatewayv1.Gateway
		_ = w.k8s.Get(ctx, client.ObjectKeyFromObject(gw), &cur)
		valid := map[string]bool{}
		for _, st := range cur.Status.Listeners {
			for _, c := range st.Conditions {
				if c.Type == "Programmed" && c.Status == metav1.ConditionTrue {
					valid[string(st.Name)] = true
				}
			}
		}
		var lt, rtT, qs []string
		for _, l := range ls {
			lt = append(lt, vu.App("PL", vu.Str(l.name), vu.Z(int64(l.port)), vu.Str(l.host), vu.Bool(l.https), vu.Bool(valid[l.name])))
		}
		for _, x := range rts {
			var secs []string
			for _, s := range x.sections {
				if s == "" {
					secs = append(secs, "None")
				} else {
					secs = append(secs, vu.App("Some", vu.Str(s)))
				}
			}
			be := "None"
			if svcKinds[x.svc] == 0 {
				be = vu.App("Some", vu.Str(fmt.Sprintf("default_svc-tls%d_443", x.svc)))
			}
			rtT = append(rtT, vu.App("PR", vu.Str(x.name), vu.Z(x.ts), vu.StrList(x.hosts), vu.List(secs), be))
		}
		for _, p := range []int64{9443, 9444} {
			for _, s := range snis {
				qs = append(qs, vu.Pair(vu.Z(p), vu.Str(s)))
			}
		}
		stream := files["/etc/nginx/stream-conf.d/stream.conf"]
		out.Case(vu.App("PassCase", vu.List(lt), vu.List(rtT), vu.Str(stream), vu.List(qs)),
			map[string]any{"listeners (name, port, hostname, https, valid)": lt, "tlsroutes (name, age, hostnames, sections, usable upstream)": rtT, "stream.conf": stream},
			len(ls) >= 2 && len(rts) >= 2, vu.List(lt)+vu.List(rtT))
		out.Tally("listeners", strconv.Itoa(len(ls)))
		out.Tally("tlsroutes", strconv.Itoa(len(rts)))
	}
	out.Close("C02.PassCheck", "")
}
