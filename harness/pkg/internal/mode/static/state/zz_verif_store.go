//go:build verif

package state

import (
	"fmt"
	"reflect"
	"strings"

	"sigs.k8s.io/controller-runtime/pkg/client"
)

// VerifStore lists what the processor's cluster state holds: "<Go type>/<namespace>/<name>" -> metadata.generation
// (add-only hook file of /verif; reads the unexported clusterState by reflection over its map fields).
func (c *ChangeProcessorImpl) VerifStore() map[string]int64 {
	c.lock.Lock()
	defer c.lock.Unlock()
	out := map[string]int64{}
	v := reflect.ValueOf(c.clusterState)
	for i := 0; i < v.NumField(); i++ {
		f := v.Field(i)
		if f.Kind() != reflect.Map {
			continue
		}
		it := f.MapRange()
		for it.Next() {
			obj, ok := it.Value().Interface().(client.Object)
			if !ok || obj == nil {
				continue
			}
			t := fmt.Sprintf("%T", obj)
			out[t[strings.LastIndex(t, ".")+1:]+"/"+obj.GetNamespace()+"/"+obj.GetName()] = obj.GetGeneration()
		}
	}
	return out
}

// VerifPersists: does the processor keep objects of this type in its cluster state (as opposed to only judging their
// relevance, like EndpointSlices)?
func (c *ChangeProcessorImpl) VerifPersists(obj client.Object) bool {
	u, ok := c.updater.(*changeTrackingUpdater)
	if !ok {
		panic("unexpected updater type")
	}
	defer func() { _ = recover() }()
	return u.store.persists(u.extractGVK(obj))
}
