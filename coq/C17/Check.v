(* C17 — oracle: resources owned by other controllers are neither configured nor written to.
   The real pipeline is run on a cluster state with and without a set of foreign objects
   (GatewayClass of another controller, Gateways of other classes, Routes and policies that reference
   none of our Gateways, status entries of another controller on our Routes). Required:
   (1) every object for which a status update is issued is owned according to the declarative
       ownership relation of the abstract state;  (2) the generated configuration is the same with and
       without the foreign objects (top-level blocks compared as multisets);  (3) statuses of the own
       objects are the same;  (4) foreign status entries are still there, unaltered;
   (5) a GatewayClass with the configured name but another controller: no file set beyond the default
       one and no status update at all. *)
From Coq Require Import List String ZArith Bool Arith.
From NGF Require Export lib.CaseLib lib.Str k8s.State k8s.Spec ngx.Lexer ngx.Eval C04.Check.
Import ListNotations.
Local Open Scope string_scope.
Local Open Scope list_scope.

Record target := Target { t_kind : string; t_ns : string; t_name : string }.

Record case := Case {
  k_cluster : cluster;                       (* own + foreign objects that the abstract state can express *)
  k_own : cluster;                           (* the same state without the foreign objects *)
  k_files_with : list (string * string);
  k_matches_with : matchtable;
  k_files_without : list (string * string);
  k_matches_without : matchtable;
  k_targets : list target;                   (* objects for which UpdateRequests were issued (with foreign objects) *)
  k_conds_with : list string;                (* conditions of the own objects, run with foreign objects *)
  k_conds_without : list string;
  k_foreign_entries_kept : bool;             (* pre-existing status entries of another controller are intact *)
  k_foreign_touched : list string            (* foreign objects whose status changed *)
}.

(* ---------------------------------------------------------------- ownership *)

Definition class_ours (c : gclass) : bool := seqb (gc_controller c) our_controller.

Definition owned (cs : cluster) (t : target) : bool :=
  if seqb (t_kind t) "GatewayClass" then
    existsb (fun c => seqb (gc_name c) (t_name t) && class_ours c) (c_classes cs)
  else if seqb (t_kind t) "Gateway" then
    existsb (fun g => seqb (g_ns g) (t_ns t) && seqb (g_name g) (t_name t) && seqb (g_class g) our_class) (c_gateways cs)
  else if seqb (t_kind t) "HTTPRoute" || seqb (t_kind t) "GRPCRoute" then
    existsb (fun r => seqb (rt_ns r) (t_ns t) && seqb (rt_name r) (t_name t) &&
                      Bool.eqb (match rt_kind r with KGRPC => true | KHTTP => false end) (seqb (t_kind t) "GRPCRoute") &&
                      existsb (fun p => existsb (fun g => pref_targets g r p) (our_gateways cs)) (rt_parents r)) (c_routes cs)
  else if seqb (t_kind t) "BackendTLSPolicy" then
    (* the policy in effect for a Service that one of our Routes uses as a backend *)
    existsb (fun r => existsb (fun p => existsb (fun g => pref_targets g r p) (our_gateways cs)) (rt_parents r) &&
                      existsb (fun ru => existsb (fun b =>
                        match btp_for cs (match b_ns b with Some n => n | None => rt_ns r end) (b_name b) with
                        | Some p => seqb (bt_ns p) (t_ns t) && seqb (bt_name p) (t_name t)
                        | None => false
                        end) (r_backends ru)) (rt_rules r)) (c_routes cs)
  else false.

Fixpoint str_list_eqb (a b : list string) : bool :=
  match a, b with [], [] => true | x :: a', y :: b' => seqb x y && str_list_eqb a' b' | _, _ => false end.

(* The match keys (server index _ path rule index) depend on the order in which servers were emitted,
   which follows Go map iteration: replace every key by the match list it stands for. *)
Definition ser_opt (o : option string) : string := match o with Some x => String.append "S:" x | None => "N" end.
Definition ser_match (m : jsmatch) : string :=
  String.concat "|" [ser_opt (jm_method m); String.concat "," (jm_headers m); String.concat "," (jm_params m);
                     (if jm_any m then "any" else ""); ser_opt (jm_redirect m)].
Definition ser_matches (tbl : matchtable) (k : string) : string :=
  match find (fun e => seqb (fst e) k) tbl with
  | Some e => String.concat ";" (map ser_match (snd e))
  | None => String.append "<undefined key " k
  end.

Fixpoint canon_dir (fuel : nat) (tbl : matchtable) (d : dir) : dir :=
  match fuel with
  | 0 => d
  | S f =>
      match d with
      | Dir n a b =>
          let a' := if seqb n "set" then match a with
                                        | [v; k] => if seqb v "$match_key" then [v; ser_matches tbl k] else a
                                        | _ => a
                                        end else a in
          (* the order of the servers of an upstream (and of the lines of a split_clients or map block with distinct
             keys) does not change what NGINX does: compare them sorted *)
          let body' := match b with Some body => Some (map (canon_dir f tbl) body) | None => None end in
          let distinct_keys l := Nat.eqb (List.length l) (List.length (nodup string_dec (map (fun e => lower (d_name e)) l))) in
          Dir n a' (if seqb n "upstream" then match body' with Some l => Some (sort_dirs l) | None => None end
                    else if seqb n "map" then match body' with
                                             | Some l => if distinct_keys l then Some (sort_dirs l) else body'
                                             | None => None
                                             end
                    else body')
      end
  end.

Definition canon_files (tbl : matchtable) (p : list (string * list dir)) : list (string * list dir) :=
  map (fun pf => (fst pf, map (canon_dir 40 tbl) (snd pf))) p.

Definition files_equal (a : list (string * string)) (ta : matchtable) (b : list (string * string)) (tb : matchtable) : bool :=
  match parse_all a, parse_all b with
  | Some pa, Some pb =>
      let ca := canon_files ta pa in let cb := canon_files tb pb in
      same_skeleton ca cb && same_skeleton cb ca
  | _, _ => false
  end.

Definition foreign_named_class (cs : cluster) : bool :=
  existsb (fun c => seqb (gc_name c) our_class && negb (class_ours c)) (c_classes cs).

Definition default_only (fs : list (string * string)) : bool :=
  match parse_all fs with
  | Some p =>
      forallb (fun pf => negb (seqb (fst pf) "/etc/nginx/conf.d/http.conf") ||
                         forallb (fun d => (negb (seqb (d_name d) "upstream") || seqb (Eval.first_arg d) invalid_backend) &&
                                           (negb (seqb (d_name d) "server") ||
                                            existsb (fun l => has_prefix "unix:" (Eval.first_arg l)) (Eval.dirs_named "listen" (Eval.block_of d))))
                                 (snd pf)) p
  | None => false
  end.

Definition complaints (c : case) : list (nat * list string) :=
  if foreign_named_class (k_cluster c) then
    (if match k_targets c with [] => true | _ => false end then [] else [(code_violation, ["status written although the configured class is foreign"])]) ++
    (if default_only (k_files_with c) then [] else [(code_violation, ["configuration generated although the configured class is foreign"])])
  else
    flat_map (fun t => if owned (k_cluster c) t then [] else [(code_violation, "status update for a foreign object" :: [t_kind t; t_ns t; t_name t])]) (k_targets c) ++
    (if files_equal (k_files_with c) (k_matches_with c) (k_files_without c) (k_matches_without c) then []
     else if has_mixed_group (k_own c) then [(code_known 33, ["configuration differs between two runs (finding D33: HTTPRoute and GRPCRoute share host and path)"])]
     else [(code_violation, ["foreign objects changed the configuration"])]) ++
    (if str_list_eqb (k_conds_with c) (k_conds_without c) then [] else [(code_violation, ["foreign objects changed statuses of own objects"])]) ++
    (if k_foreign_entries_kept c then [] else [(code_violation, ["a status entry of another controller was lost or altered"])]) ++
    map (fun o => (code_violation, ["status of a foreign object was written: "; o])) (k_foreign_touched c).

Fixpoint dedup_nat (l : list nat) : list nat :=
  match l with [] => [] | x :: l' => if existsb (Nat.eqb x) l' then dedup_nat l' else x :: dedup_nat l' end.

Definition check_case (c : case) : list nat := dedup_nat (map fst (complaints c)).
