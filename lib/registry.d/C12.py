"""C12 check configuration."""


def setup(register, COMMON_TB):
    register(
        "C12", coq="C12", pkg="./internal/mode/static/", test="TestVerifC12",
        rule="part A: one real ManagerImpl.Reload per case against a scripted NGINX master (answers served are the case's "
             "environment); non-trivial = the version endpoint was reached and at least 3 polls of children file/endpoint "
             "were served; part B: batch sequences through the real eventHandlerImpl with scripted write/reload/Plus-API "
             "faults; non-trivial = at least 3 batches with at least one failed and one successful apply; "
             "distinct = distinct case term (environment + observation)",
        trusted_base=COMMON_TB + [
            "modelled, not verified: the NGINX master (Model.nstep: HUP makes it load the version on disk or keep its "
            "configuration; old worker generations linger; a live worker answers /version with the version of its own "
            "configuration; nobody but the control plane sends HUP); no NGINX binary exists in the sandbox",
            "faked environment in part A: os.Stat/os.ReadFile of the pid file and of /proc/<pid>/task/<pid>/children "
            "(scripted per poll; ManagerImpl.Reload's hard-wired os.ReadFile is replaced by the scripted reader through a "
            "wrapper around the real VerifyClient, except in the real-children-file cases), syscall.Kill, the HTTP server "
            "behind a temporary unix socket, MetricsCollector; hook zz_verif_c12_hook.go (build tag verif) re-targets the "
            "real NewVerifyClient's dialer and childProcPathFmt",
            "faked environment in part B: file.Manager and runtime.Manager (scripted errors, record versions), "
            "controller-runtime fake client, status GroupUpdater (runs the real setters on empty objects); the OSS "
            "generator is used also when the handler runs in Plus mode",
            "wait.PollUntilContextCancel (k8s.io/apimachinery) semantics: poll immediately, stop on error/true/context end",
            "strings.TrimSpace is modelled for bytes < 0x80 only (generator emits ASCII); strconv.Atoi modelled for 64-bit int",
        ],
        assumptions=[
            "version freshness across a control-plane restart: every configuration version alive in NGINX when the control "
            "plane starts is <= 0 (the counter restarts at 0; cross-restart reuse is a documented limit, guarded only by "
            "the 'children changed' evidence)",
            "every configuration the master loads was put on disk by this control plane (version <= the one being applied)",
            "a poll list that runs out stands for the deadline/cancellation",
        ],
        timeout={"quick": 900, "thorough": 7200},
    )
