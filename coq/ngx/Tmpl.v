(* Model of Go's text/template execution for the subset of the language the templates of /repo use (the parse trees
   are regenerated into gen/Templates.v on every run; a construct outside the subset stops the translator).

   Data is a tree of values obtained from the Go value by reflection. A string leaf may be a HOLE: a string whose
   contents the execution must not inspect (a user-controlled string). Executing a template yields chunks: literal
   text and holes. Concrete execution is the special case without holes.

   Mirrors text/template/exec.go: truth (isTrue), field access through pointers (indirect), printing (printValue
   through fmt for strings, integers, booleans), and/or with short-circuit evaluation, not, eq on basic kinds,
   variables with scopes (declaration, assignment to the innermost visible binding, pop at the end of if/range
   bodies), range over slices with else.
   Everything else is an error (None): the harness compares with the real output, so an error is loud. *)
From Coq Require Import List String Ascii ZArith Bool Arith.
Import ListNotations.
Local Open Scope string_scope.
Local Open Scope list_scope.

Inductive value :=
| VNil | VOpaque
| VBool (b : bool) | VInt (z : Z) | VStr (s : string) | VHole (id : nat)
| VPtr (v : value)
| VList (l : list value)
| VRec (fs : list (string * value))
| VMap (fs : list (string * value)).      (* a map with string keys: a missing key is nil, not an error *)

Inductive expr :=
| EDot | EVar (x : string) | EField (e : expr) (f : string)
| EStr (s : string) | EInt (z : Z) | EBool (b : bool)
| ECall (f : string) (args : list expr).

Inductive node :=
| NText (s : string)
| NPrint (e : expr)
| NIf (c : expr) (th el : list node)
| NRange (x : option string) (e : expr) (body el : list node)
| NDecl (x : string) (e : expr)
| NAssign (x : string) (e : expr).

Inductive chunk := CText (s : string) | CHole (id : nat).

Definition vars := list (string * value).

(* ---------------------------------------------------------------- values *)

Definition truth (v : value) : option bool :=
  match v with
  | VNil => Some false
  | VOpaque => None
  | VBool b => Some b
  | VInt z => Some (negb (Z.eqb z 0))
  | VStr s => Some (negb (String.eqb s ""))
  | VHole _ => Some true                      (* holes stand for non-empty strings *)
  | VPtr _ => Some true
  | VList l => Some (match l with [] => false | _ => true end)
  | VRec _ => Some true
  | VMap fs => Some (match fs with [] => false | _ => true end)
  end.

Fixpoint lookup (fs : list (string * value)) (f : string) : option value :=
  match fs with
  | [] => None
  | (k, v) :: fs' => if String.eqb k f then Some v else lookup fs' f
  end.

(* field access dereferences pointers; a nil receiver is an error *)
Fixpoint field (v : value) (f : string) : option value :=
  match v with
  | VPtr v' => field v' f
  | VRec fs => lookup fs f
  | VMap fs => match lookup fs f with Some v => Some v | None => Some VNil end
  | _ => None
  end.

Definition mem_string (s : string) (l : list string) : bool := existsb (String.eqb s) l.

(* eq on basic kinds. A hole may only be compared with one of the strings [tc] that its contents are known to
   avoid (the string constants of the template): the answer is then false whatever the hole contains. *)
Definition veq (tc : list string) (a b : value) : option bool :=
  match a, b with
  | VHole _, VStr y => if mem_string y tc then Some false else None
  | VStr x, VHole _ => if mem_string x tc then Some false else None
  | VStr x, VStr y => Some (String.eqb x y)
  | VInt x, VInt y => Some (Z.eqb x y)
  | VBool x, VBool y => Some (Bool.eqb x y)
  | _, _ => None
  end.

(* decimal rendering of integers, as fmt prints them *)
Fixpoint digits (fuel : nat) (n : N) (acc : string) : string :=
  match fuel with
  | 0 => acc
  | S f =>
      let d := String (ascii_of_N (48 + N.modulo n 10)) acc in
      if N.ltb n 10 then d else digits f (N.div n 10) d
  end.
Definition string_of_Z (z : Z) : string :=
  match z with
  | Z0 => "0"
  | Zpos p => digits (S (N.to_nat (N.log2 (Npos p)))) (Npos p) ""
  | Zneg p => String "-"%char (digits (S (N.to_nat (N.log2 (Npos p)))) (Npos p) "")
  end.

Fixpoint print (v : value) : option chunk :=
  match v with
  | VStr s => Some (CText s)
  | VHole id => Some (CHole id)
  | VInt z => Some (CText (string_of_Z z))
  | VBool b => Some (CText (if b then "true" else "false"))
  | VPtr v' => print v'
  | _ => None
  end.

(* ---------------------------------------------------------------- expressions *)

Fixpoint assign (vs : vars) (x : string) (v : value) : option vars :=
  match vs with
  | [] => None
  | (k, old) :: vs' =>
      if String.eqb k x then Some ((k, v) :: vs')
      else match assign vs' x v with Some r => Some ((k, old) :: r) | None => None end
  end.

(* or / and: evaluate the arguments in order and stop at the first one whose truth is [want] (the last argument is
   returned without looking at its truth) *)
Fixpoint andor (ev : expr -> option value) (want : bool) (l : list expr) : option value :=
  match l with
  | [] => None
  | a :: l' =>
      match ev a with
      | None => None
      | Some v =>
          match l' with
          | [] => Some v
          | _ => match truth v with
                 | None => None
                 | Some b => if Bool.eqb b want then Some v else andor ev want l'
                 end
          end
      end
  end.

Fixpoint eval (tc : list string) (fuel : nat) (dot : value) (vs : vars) (e : expr) : option value :=
  match fuel with
  | 0 => None
  | S f =>
      match e with
      | EDot => Some dot
      | EVar x => lookup vs x
      | EField e' fl => match eval tc f dot vs e' with Some v => field v fl | None => None end
      | EStr s => Some (VStr s)
      | EInt z => Some (VInt z)
      | EBool b => Some (VBool b)
      | ECall fn args =>
          if String.eqb fn "not" then
            match args with
            | [a] => match eval tc f dot vs a with
                     | Some v => match truth v with Some b => Some (VBool (negb b)) | None => None end
                     | None => None
                     end
            | _ => None
            end
          else if String.eqb fn "eq" then
            match args with
            | [a; b] => match eval tc f dot vs a, eval tc f dot vs b with
                        | Some va, Some vb => match veq tc va vb with Some r => Some (VBool r) | None => None end
                        | _, _ => None
                        end
            | _ => None
            end
          else if String.eqb fn "or" || String.eqb fn "and" then
            let want := String.eqb fn "or" in      (* or: stop at the first true; and: at the first false *)
            andor (eval tc f dot vs) want args
          else None
      end
  end.

(* ---------------------------------------------------------------- execution *)

Definition keep_last {A} (n : nat) (l : list A) : list A := skipn (List.length l - n) l.

(* the iterations of a range: the range variable is visible in the body, variables declared in the body are dropped
   at the end of every iteration, assignments to outer variables persist *)
Fixpoint range_loop (run_body : value -> vars -> option (list chunk * vars)) (x : option string)
         (its : list value) (cur : vars) : option (list chunk * vars) :=
  match its with
  | [] => Some ([], cur)
  | it :: its' =>
      let inner := match x with Some xn => (xn, it) :: cur | None => cur end in
      match run_body it inner with
      | None => None
      | Some (o, vs') =>
          match range_loop run_body x its' (keep_last (List.length cur) vs') with
          | None => None
          | Some (o2, vs2) => Some (o ++ o2, vs2)
          end
      end
  end.

Fixpoint exec (tc : list string) (fuel : nat) (dot : value) (vs : vars) (ns : list node) : option (list chunk * vars) :=
  match fuel with
  | 0 => None
  | S f =>
      match ns with
      | [] => Some ([], vs)
      | n :: rest =>
          let k (r : option (list chunk * vars)) :=
            match r with
            | None => None
            | Some (o1, vs1) =>
                match exec tc f dot vs1 rest with
                | None => None
                | Some (o2, vs2) => Some (o1 ++ o2, vs2)
                end
            end in
          match n with
          | NText s => k (Some ([CText s], vs))
          | NPrint e =>
              k (match eval tc f dot vs e with
                 | Some v => match print v with Some c => Some ([c], vs) | None => None end
                 | None => None
                 end)
          | NDecl x e =>
              k (match eval tc f dot vs e with Some v => Some ([], (x, v) :: vs) | None => None end)
          | NAssign x e =>
              k (match eval tc f dot vs e with
                 | Some v => match assign vs x v with Some vs' => Some ([], vs') | None => None end
                 | None => None
                 end)
          | NIf c th el =>
              k (match eval tc f dot vs c with
                 | Some v =>
                     match truth v with
                     | Some b =>
                         match exec tc f dot vs (if b then th else el) with
                         | Some (o, vs') => Some (o, keep_last (List.length vs) vs')
                         | None => None
                         end
                     | None => None
                     end
                 | None => None
                 end)
          | NRange x e body el =>
              k (match eval tc f dot vs e with
                 | Some (VList []) =>
                     match exec tc f dot vs el with
                     | Some (o, vs') => Some (o, keep_last (List.length vs) vs')
                     | None => None
                     end
                 | Some (VList items) =>
                     range_loop (fun it inner => exec tc f it inner body) x items vs
                 | _ => None
                 end)
          end
      end
  end.

Definition exec_fuel : nat := 50 * 100.

(* the template's dollar variable is bound to the data; it is printed by the translator as the empty name *)
(* the string constants of a template *)
Fixpoint expr_consts (fuel : nat) (e : expr) : list string :=
  match fuel with
  | 0 => []
  | S f =>
      match e with
      | EStr s => [s]
      | EField e' _ => expr_consts f e'
      | ECall _ args => flat_map (expr_consts f) args
      | _ => []
      end
  end.
Fixpoint node_consts (fuel : nat) (ns : list node) : list string :=
  match fuel with
  | 0 => []
  | S f =>
      flat_map (fun n =>
        match n with
        | NText _ => []
        | NPrint e | NDecl _ e | NAssign _ e => expr_consts f e
        | NIf c th el => expr_consts f c ++ node_consts f th ++ node_consts f el
        | NRange _ e body el => expr_consts f e ++ node_consts f body ++ node_consts f el
        end) ns
  end.
Definition consts_of (t : list node) : list string := node_consts 100 t.

Definition run (t : list node) (data : value) : option (list chunk) :=
  match exec (consts_of t) exec_fuel data [("", data)] t with
  | Some (o, _) => Some o
  | None => None
  end.

(* ---------------------------------------------------------------- filling holes *)

Fixpoint fill (sg : nat -> string) (v : value) : value :=
  match v with
  | VHole id => VStr (sg id)
  | VPtr v' => VPtr (fill sg v')
  | VList l => VList (map (fill sg) l)
  | VRec fs => VRec (map (fun p => (fst p, fill sg (snd p))) fs)
  | VMap fs => VMap (map (fun p => (fst p, fill sg (snd p))) fs)
  | _ => v
  end.

Definition fill_vars (sg : nat -> string) (vs : vars) : vars := map (fun p => (fst p, fill sg (snd p))) vs.

Definition fill_chunk (sg : nat -> string) (c : chunk) : chunk :=
  match c with CHole id => CText (sg id) | _ => c end.

Definition render_chunk (sg : nat -> string) (c : chunk) : string :=
  match c with CText s => s | CHole id => sg id end.

Definition render (sg : nat -> string) (cs : list chunk) : string := String.concat "" (map (render_chunk sg) cs).

(* substitution from the list the harness prints *)
Definition subst_of (l : list string) : nat -> string := fun id => nth id l "".
