(* C19 — executable models of the Go code (no proofs here).

   internal/mode/static/telemetry/collector.go
     parseSnippetValueIntoDirectives   [parse_directives]  (repaired, fixes/D22.patch: one pass over the bytes
                                                            with the variables token/quote/inToken/escaped/
                                                            afterDollar/comment/named/depth, same switch order)
                                       [parse_old]         (as found: Split on ";", TrimSpace, Split on " ")
     collectSnippetsFilterDirectives   [collect_directives] + parseDirectiveContextMapIntoLists [sort_entries]
     collectGraphResourceCount         [resource_counts]
   cmd/gateway/commands.go
     parseFlags                        [parse_flags] *)
From Coq Require Import String Ascii List Bool Arith ZArith.
From NGF Require Export C19.Spec.
Import ListNotations.
Local Open Scope string_scope.

(* ------------------------------------------------------------------ repaired parseSnippetValueIntoDirectives *)

Inductive quote := QNone | QDq | QSq.

Record sst := mkS {
  s_tok : string; s_quote : quote; s_in : bool; s_esc : bool; s_dollar : bool; s_comment : bool;
  s_named : bool; s_depth : nat
}.

Definition s_init := mkS "" QNone false false false false false 0.

(* endToken := func() {...} : returns the new state and what was appended to [directives] *)
Definition end_token (st : sst) : sst * list string :=
  (mkS "" QNone false (s_esc st) false (s_comment st) (s_named st || s_in st) (s_depth st),
   if s_in st && negb (s_named st) && (s_depth st =? 0)%nat && negb (s_tok st =? "") then [s_tok st] else []).

Definition is_space (k : cls) : bool := match k with CSpace | CNewline => true | _ => false end.

Definition closes (q : quote) (k : cls) : bool :=
  match q, k with
  | QDq, CDq => true
  | QSq, CSq => true
  | _, _ => false
  end.

Definition is_quoted (q : quote) : bool := match q with QNone => false | _ => true end.

Definition set_named_depth (st : sst) (n : bool) (d : nat) : sst :=
  mkS (s_tok st) (s_quote st) (s_in st) (s_esc st) (s_dollar st) (s_comment st) n d.

(* one iteration of the loop: the switch, in the order of the Go source *)
Definition scan_step (st : sst) (c : ascii) : sst * list string :=
  let k := classify c in
  if s_comment st then                                                        (* case comment *)
    (mkS (s_tok st) (s_quote st) (s_in st) (s_esc st) (s_dollar st)
         (match k with CNewline => false | _ => true end) (s_named st) (s_depth st), [])
  else if s_esc st then                                                       (* case escaped *)
    (mkS (app1 (s_tok st) c) (s_quote st) (s_in st) false (s_dollar st) false (s_named st) (s_depth st), [])
  else if negb (s_in st) && (is_space k || match k with CHash => true | _ => false end) then
    (mkS (s_tok st) (s_quote st) (s_in st) false (s_dollar st)
         (match k with CHash => true | _ => false end) (s_named st) (s_depth st), [])
  else if negb (s_in st) && match k with CDq | CSq => true | _ => false end then
    (mkS (s_tok st) (match k with CDq => QDq | _ => QSq end) true false (s_dollar st) false
         (s_named st) (s_depth st), [])
  else if match k with COpen => s_dollar st | _ => false end then            (* "${" *)
    (mkS (app1 (s_tok st) c) (s_quote st) (s_in st) false (s_dollar st) false (s_named st) (s_depth st), [])
  else if match k with CBslash => true | _ => false end then
    (mkS (app1 (s_tok st) c) (s_quote st) true true false false (s_named st) (s_depth st), [])
  else if is_quoted (s_quote st) && closes (s_quote st) k then
    end_token st
  else if negb (is_quoted (s_quote st)) && is_space k then
    end_token st
  else if negb (is_quoted (s_quote st)) &&
          match k with CSemi | COpen => true | CClose => negb (s_in st) | _ => false end then
    let (st', out) := end_token st in
    (set_named_depth st' false
       (match k with
        | COpen => S (s_depth st')
        | CClose => pred (s_depth st')
        | _ => s_depth st'
        end), out)
  else                                                                        (* default *)
    (mkS (app1 (s_tok st) c) (s_quote st) true false (match k with CDollar => true | _ => false end) false
         (s_named st) (s_depth st), []).

Fixpoint scan_from (st : sst) (s : string) : list string :=
  match s with
  | EmptyString => snd (end_token st)
  | String c r => let (st', out) := scan_step st c in out ++ scan_from st' r
  end.

Definition parse_directives (s : string) : list string := scan_from s_init s.

(* ------------------------------------------------------------------ parseSnippetValueIntoDirectives as found *)

(* strings.Split(s, sep) for a one-byte separator: always at least one piece *)
Fixpoint split_on (sep : ascii) (cur : string) (s : string) : list string :=
  match s with
  | EmptyString => [cur]
  | String c r => if (c =? sep)%char then cur :: split_on sep "" r else split_on sep (app1 cur c) r
  end.

(* unicode.IsSpace restricted to one-byte characters: '\t' '\n' '\v' '\f' '\r' ' '
   (0x85 and 0xA0 are spaces only as the two-byte sequences C2 85 / C2 A0, which the harness does not generate) *)
Definition go_space (c : ascii) : bool :=
  let n := nat_of_ascii c in ((9 <=? n) && (n <=? 13) || (n =? 32))%nat.

Fixpoint trim_left (s : string) : string :=
  match s with
  | String c r => if go_space c then trim_left r else s
  | EmptyString => s
  end.

Fixpoint rev_string (acc s : string) : string :=
  match s with
  | EmptyString => acc
  | String c r => rev_string (String c acc) r
  end.

Definition trim_space (s : string) : string :=
  rev_string "" (trim_left (rev_string "" (trim_left s))).

Definition first_word (seg : string) : string := hd "" (split_on " " "" (trim_space seg)).

Definition parse_old (s : string) : list string :=
  flat_map (fun seg => let w := first_word seg in if (w =? "") then [] else [w]) (split_on ";" "" s).

(* ------------------------------------------------------------------ collectSnippetsFilterDirectives *)

(* switch nginxContext { case main/http/http.server/http.server.location ... default: "unknown" } *)
Definition parsed_context (ctx : string) : string :=
  if (ctx =? "main") then "main"
  else if (ctx =? "http") then "http"
  else if (ctx =? "http.server") then "server"
  else if (ctx =? "http.server.location") then "location"
  else "unknown".

Definition dkey := (string * string)%type.       (* directive, context *)
Definition dkey_eqb (a b : dkey) : bool := (fst a =? fst b) && (snd a =? snd b).

(* directiveContextMap[k]++ *)
Fixpoint bump (k : dkey) (m : list (dkey * Z)) : list (dkey * Z) :=
  match m with
  | [] => [(k, 1%Z)]
  | (k', n) :: r => if dkey_eqb k k' then (k', (n + 1)%Z) :: r else (k', n) :: bump k r
  end.

Definition count_snippet (parse : string -> list string) (m : list (dkey * Z)) (cv : string * string) :=
  fold_left (fun m d => bump (d, parsed_context (fst cv)) m) (parse (snd cv)) m.

Definition count_filter (parse : string -> list string) (m : list (dkey * Z)) (sf : sfilter) :=
  match sf with
  | None => m
  | Some snippets => fold_left (count_snippet parse) snippets m
  end.

(* sort.Slice less function of parseDirectiveContextMapIntoLists *)
Definition entry_lt (a b : dkey * Z) : bool :=
  if (snd a =? snd b)%Z then
    if (snd (fst a) =? snd (fst b)) then String.ltb (fst (fst a)) (fst (fst b))
    else String.ltb (snd (fst a)) (snd (fst b))
  else (snd b <? snd a)%Z.

Fixpoint insert_entry (e : dkey * Z) (l : list (dkey * Z)) : list (dkey * Z) :=
  match l with
  | [] => [e]
  | x :: r => if entry_lt x e then x :: insert_entry e r else e :: l
  end.

Definition sort_entries (l : list (dkey * Z)) : list (dkey * Z) := fold_right insert_entry [] l.

Definition entry_string (e : dkey * Z) : string := fst (fst e) ++ "-" ++ snd (fst e).

Definition collect_directives (parse : string -> list string) (sfs : list sfilter) : list string * list Z :=
  let sorted := sort_entries (fold_left (count_filter parse) sfs []) in
  (map entry_string sorted, map snd sorted).

(* ------------------------------------------------------------------ collectGraphResourceCount *)

Definition zlen {A} (l : list A) : Z := Z.of_nat (length l).
Definition b2z (b : bool) : Z := if b then 1%Z else 0%Z.

Record pcounts := mkP { p_gw_csp : Z; p_route_csp : Z; p_obs : Z; p_usp : Z }.

(* the body of: for policyKey, policy := range g.NGFPolicies { switch policyKey.GVK.Kind {...} } *)
Definition policy_step (p : pcounts) (kp : string * list string) : pcounts :=
  let (kind, targets) := kp in
  if (kind =? "ClientSettingsPolicy") then
    match targets with
    | [] => p
    | t :: _ => if (t =? "Gateway") then mkP (p_gw_csp p + 1) (p_route_csp p) (p_obs p) (p_usp p)
                else mkP (p_gw_csp p) (p_route_csp p + 1) (p_obs p) (p_usp p)
    end
  else if (kind =? "ObservabilityPolicy") then mkP (p_gw_csp p) (p_route_csp p) (p_obs p + 1) (p_usp p)
  else if (kind =? "UpstreamSettingsPolicy") then mkP (p_gw_csp p) (p_route_csp p) (p_obs p) (p_usp p + 1)
  else p.

Definition route_step (hg : Z * Z) (rt : string) : Z * Z :=
  let h := if (rt =? "http") then (fst hg + 1)%Z else fst hg in
  let g := if (rt =? "grpc") then (snd hg + 1)%Z else snd hg in
  (h, g).

Definition endpoint_step (n : Z) (u : bool * nat) : Z :=
  if fst u then n else (n + Z.of_nat (snd u))%Z.

Definition resource_counts (g : gdesc) : list (string * Z) :=
  let hg := fold_left route_step (g_routes g) (0%Z, 0%Z) in
  let p := fold_left policy_step (g_policies g) (mkP 0 0 0 0) in
  [ ("GatewayClassCount", (Z.of_nat (g_ign_classes g) + b2z (g_has_class g))%Z);
    ("GatewayCount", (Z.of_nat (g_ign_gws g) + b2z (g_has_gw g))%Z);
    ("HTTPRouteCount", fst hg);
    ("GRPCRouteCount", snd hg);
    ("TLSRouteCount", Z.of_nat (g_l4routes g));
    ("SecretCount", Z.of_nat (g_secrets g));
    ("ServiceCount", Z.of_nat (g_services g));
    ("EndpointCount", fold_left endpoint_step (g_upstreams g) 0%Z);
    ("BackendTLSPolicyCount", Z.of_nat (g_btps g));
    ("GatewayAttachedClientSettingsPolicyCount", p_gw_csp p);
    ("RouteAttachedClientSettingsPolicyCount", p_route_csp p);
    ("ObservabilityPolicyCount", p_obs p);
    ("UpstreamSettingsPolicyCount", p_usp p);
    ("NginxProxyCount", b2z (g_has_np g));
    ("SnippetsFilterCount", zlen (g_sfs g)) ].

(* ------------------------------------------------------------------ parseFlags *)

Definition flag_value (f : flagd) : string :=
  if f_bool f then f_value f
  else if (f_value f =? f_def f) then "default" else "user-defined".

Definition parse_flags (fs : list flagd) : list string * list string :=
  (map f_name fs, map flag_value fs).
