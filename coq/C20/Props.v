From NGF Require Import C20.Model C20.Spec C20.Proofs.
