//go:build verif

package static

import (
	"encoding/json"
	"fmt"
	"os"
	"path/filepath"
	"sort"
	"strconv"
	"strings"
	"testing"

	"sigs.k8s.io/controller-runtime/pkg/client"

	vu "github.com/nginx/nginx-gateway-fabric/internal/verifutil"
)

// vpStaticConf returns the static configuration files shipped in the image (path in the container -> content).
func vpStaticConf(plus bool) [][2]string {
	read := func(p string) string {
		b, err := os.ReadFile(filepath.Join("nginx", "conf", p))
		if err != nil {
			panic(err)
		}
		return string(b)
	}
	main := "nginx.conf"
	if plus {
		main = "nginx-plus.conf"
	}
	return [][2]string{
		{"/etc/nginx/nginx.conf", read(main)},
		{"/etc/nginx/grpc-error-pages.conf", read("grpc-error-pages.conf")},
		{"/etc/nginx/grpc-error-locations.conf", read("grpc-error-locations.conf")},
	}
}

// vsRename rewrites object names of a generated state into admissible extremes (dots, double hyphens, long names).
func vsRename(r *vu.Rng, c *vsCluster) {
	style := func(kind string, n string) string {
		switch r.Intn(8) {
		case 0:
			if kind == "route" { // DNS-1123 subdomain: dots are legal
				return n + ".v1"
			}
		case 1:
			return n + "--x"
		case 2:
			if kind == "route" {
				return n + "-" + strings.Repeat("a", 200)
			}
			return n + "-" + strings.Repeat("a", 50)
		case 3:
			return "x-" + n
		}
		return n
	}
	nsMap := map[string]string{}
	for i := range c.Namespaces {
		nn := c.Namespaces[i].Name
		if nn != "default" {
			nsMap[nn] = style("ns", nn)
		} else {
			nsMap[nn] = nn
		}
		c.Namespaces[i].Name = nsMap[nn]
	}
	ns := func(s string) string {
		if v, ok := nsMap[s]; ok {
			return v
		}
		return s
	}
	nsp := func(p *string) *string {
		if p == nil {
			return nil
		}
		v := ns(*p)
		return &v
	}
	svcMap := map[string]string{}
	for _, n := range vsSvcPool {
		svcMap[n] = style("svc", n)
	}
	for i := range c.Services {
		c.Services[i].NS = ns(c.Services[i].NS)
		c.Services[i].Name = svcMap[c.Services[i].Name]
	}
	for i := range c.Secrets {
		c.Secrets[i].NS = ns(c.Secrets[i].NS)
	}
	for i := range c.Grants {
		c.Grants[i].NS = ns(c.Grants[i].NS)
		for j := range c.Grants[i].From {
			c.Grants[i].From[j].NS = ns(c.Grants[i].From[j].NS)
		}
		for j := range c.Grants[i].To {
			if c.Grants[i].To[j].Name != nil {
				if v, ok := svcMap[*c.Grants[i].To[j].Name]; ok {
					c.Grants[i].To[j].Name = &v
				}
			}
		}
	}
	for i := range c.Gateways {
		c.Gateways[i].NS = ns(c.Gateways[i].NS)
		for j := range c.Gateways[i].Listeners {
			if c.Gateways[i].Listeners[j].Cert != nil {
				c.Gateways[i].Listeners[j].Cert.NS = nsp(c.Gateways[i].Listeners[j].Cert.NS)
			}
		}
	}
	for i := range c.Routes {
		rt := &c.Routes[i]
		rt.NS = ns(rt.NS)
		rt.Name = style("route", rt.Name)
		for j := range rt.Parents {
			rt.Parents[j].NS = nsp(rt.Parents[j].NS)
		}
		for j := range rt.Rules {
			for k := range rt.Rules[j].Backends {
				b := &rt.Rules[j].Backends[k]
				b.NS = nsp(b.NS)
				if v, ok := svcMap[b.Name]; ok {
					b.Name = v
				}
			}
		}
	}
}

// vsFileSetCase prints the C03/C04 style case: configuration texts (nginx.conf first), other paths, match keys.
func vsFileSetCase(files map[string]string, plus bool, twins []string) (string, map[string]any) {
	var texts []string
	var others []string
	for _, st := range vpStaticConf(plus) {
		texts = append(texts, vu.Pair(vu.Str(st[0]), vu.Str(st[1])))
	}
	others = append(others, "/etc/nginx/mime.types")
	for _, p := range vpSortedKeys(files) {
		if strings.HasSuffix(p, ".conf") {
			texts = append(texts, vu.Pair(vu.Str(p), vu.Str(files[p])))
		} else {
			others = append(others, p)
		}
	}
	var keys []string
	if raw, ok := files["/etc/nginx/conf.d/matches.json"]; ok && raw != "" {
		var tbl map[string]json.RawMessage
		if err := json.Unmarshal([]byte(raw), &tbl); err != nil {
			panic(err)
		}
		for k := range tbl {
			keys = append(keys, k)
		}
		sort.Strings(keys)
	}
	human := map[string]any{"files": files}
	return vu.App("Case", vu.List(texts), vu.StrList(others), vu.StrList(keys), vu.StrList(twins)), human
}

// c03Twins lists, for every namespace/name that both an HTTPRoute and a GRPCRoute of the state bear, the stem of the variable names
// of their backend groups.
func c03Twins(c *vsCluster) []string {
	var twins []string
	for _, a := range c.Routes {
		for _, b := range c.Routes {
			if !a.GRPC && b.GRPC && a.NS == b.NS && a.Name == b.Name {
				twins = append(twins, strings.ReplaceAll("group_"+a.NS+"__"+a.Name+"_rule", "-", "_"))
			}
		}
	}
	return twins
}

func TestVerifC03(t *testing.T) {
	out := vu.Open("C03")
	out.ShardLen(15)
	rng := vu.NewRng(out.Seed ^ 0xC03)
	n := out.Count(150, 4000)
	for i := 0; i < n; i++ {
		r := rng.Fork()
		c := vsGen(r, (i*6)/n)
		if r.Chance(2, 3) {
			vsRename(r, c)
		}
		plus := r.Chance(1, 4)
		if plus && len(c.Classes) > 0 && c.Classes[0].Name == vpClassName && c.Classes[0].Controller != vpCtlrName {
			plus = false // known finding D35 (C05): Plus + foreign-controlled configured class panics the generator
		}
		// header modifier values with a dollar behind a backslash (NGINX has no escape for the dollar): must be rejected, not
		// rendered into an interpolated argument
		if r.Chance(1, 4) {
			for ri := range c.Routes {
				for ui := range c.Routes[ri].Rules {
					for fi := range c.Routes[ri].Rules[ui].Filters {
						f := &c.Routes[ri].Rules[ui].Filters[fi]
						if len(f.Set) > 0 {
							f.Set[0][1] = "USD\\$amount"
						} else if len(f.Add) > 0 {
							f.Add[0][1] = "\\${total}"
						}
					}
				}
			}
		}
		// path values with characters that are special in regular expressions (all admitted by the Gateway API pattern for
		// path values) on rules that rewrite or redirect by prefix: the path ends up inside a rewrite regex
		if r.Chance(1, 4) {
			for ri := range c.Routes {
				for ui := range c.Routes[ri].Rules {
					ru := &c.Routes[ri].Rules[ui]
					prefixMod := false
					for _, f := range ru.Filters {
						if f.Path != nil && !f.Path.Full {
							prefixMod = true
						}
					}
					if prefixMod && !c.Routes[ri].GRPC {
						for mi := range ru.Matches {
							ru.Matches[mi].Path = []string{"/a(b", "/a)b", "/x*y", "/p+q", "/d.e", "/q$r", "/it's", "/a(b)/c"}[r.Intn(8)]
						}
					}
				}
			}
		}
		// directed: the first rule of an HTTPRoute rewrites (or redirects) by prefix and its one match is such a path
		if r.Chance(1, 6) {
			for ri := range c.Routes {
				if c.Routes[ri].GRPC || len(c.Routes[ri].Rules) == 0 {
					continue
				}
				ru := &c.Routes[ri].Rules[0]
				kind := []string{"rewrite", "redirect"}[r.Intn(2)]
				ru.Filters = []vsFilter{{Kind: kind, Path: &vsPathMod{Full: false, Val: []string{"/new", "/", "/new/"}[r.Intn(3)]}}}
				if kind == "redirect" {
					ru.Backends = nil
				}
				ru.Matches = []vsMatch{{Path: []string{"/a(b", "/a)b", "/x*y", "/p+q", "/d.e", "/q$r", "/a(b)/c", "/[z", "/a|b", "/c{2}"}[r.Intn(10)]}}
				break
			}
		}
		// an HTTPRoute and a GRPCRoute of one namespace and name, attached alike; the first rule of one has several backends, of the
		// other at most one
		if r.Chance(1, 10) {
			hi, gi := -1, -1
			for k, rt := range c.Routes {
				if rt.GRPC && gi < 0 && len(rt.Rules) > 0 {
					gi = k
				}
				if !rt.GRPC && hi < 0 && len(rt.Rules) > 0 {
					hi = k
				}
			}
			if hi >= 0 && gi >= 0 {
				c.Routes[gi].NS, c.Routes[gi].Name = c.Routes[hi].NS, c.Routes[hi].Name
				c.Routes[gi].Parents = append([]vsParentRef(nil), c.Routes[hi].Parents...)
				many, one := hi, gi
				if r.Bool() {
					many, one = gi, hi
				}
				c.Routes[many].Rules[0].Filters, c.Routes[one].Rules[0].Filters = nil, nil
				c.Routes[many].Rules[0].Backends = []vsBackend{{Name: "svc-a", Port: 80, Weight: 1}, {Name: "svc-b", Port: 80, Weight: 3}}
				c.Routes[one].Rules[0].Backends = []vsBackend{{Name: "svc-c", Port: 80, Weight: 1}}[:r.Intn(2)]
				out.Tally("twins", "yes")
			}
		}
		var extra []client.Object
		var tags []string
		withParams := false
		if r.Chance(1, 2) {
			extra, withParams, tags = c03Policies(r, c)
		}
		withTLS := r.Chance(1, 3)
		if withTLS {
			tr := r.Fork()
			vpObjectsHook = func(objs []client.Object) []client.Object { return c03TLSLayer(tr, objs) }
		}
		w := vpRunStateWith(c, plus, extra, withParams)
		vpObjectsHook = nil
		files := w.Files()
		if files == nil {
			files = map[string]string{}
		}
		// the generated texts of the first states go to the second opinion on the tokenizer (part TestVerifLexCross)
		if i < out.Count(40, 400) {
			dir := filepath.Join(os.Getenv("VERIF_OUT"), "lexfiles")
			_ = os.MkdirAll(dir, 0o755)
			for name, text := range files {
				if strings.HasSuffix(name, ".conf") {
					_ = os.WriteFile(filepath.Join(dir, fmt.Sprintf("%04d_%s", i, strings.ReplaceAll(strings.TrimPrefix(name, "/"), "/", "_"))), []byte(text), 0o644)
				}
			}
		}
		term, human := vsFileSetCase(files, plus, c03Twins(c))
		human["cluster"] = c
		human["extra_objects"] = extra
		for _, tg := range tags {
			out.Tally("policy", tg)
		}
		out.Tally("policy_objects", strconv.Itoa(len(extra)))
		human["plus"] = plus
		http := files["/etc/nginx/conf.d/http.conf"]
		out.Case(term, human, len(http) > 2500, c.Coq()+strconv.FormatBool(plus)+strings.Join(tags, ","))
		out.Tally("plus", strconv.FormatBool(plus))
		out.Tally("http.conf_kb", strconv.Itoa(len(http)/1024))
		out.Tally("files", strconv.Itoa(len(files)))
	}
	out.Close("C03.Check", "")
}
