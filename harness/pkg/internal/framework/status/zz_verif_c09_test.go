//go:build verif

package status

import (
	"context"
	"fmt"
	"strconv"
	"sync"
	"sync/atomic"
	"testing"
	"time"

	"github.com/go-logr/logr"
	metav1 "k8s.io/apimachinery/pkg/apis/meta/v1"
	"k8s.io/apimachinery/pkg/runtime"
	"k8s.io/apimachinery/pkg/types"
	"sigs.k8s.io/controller-runtime/pkg/client"
	"sigs.k8s.io/controller-runtime/pkg/client/fake"
	"sigs.k8s.io/controller-runtime/pkg/client/interceptor"
	v1 "sigs.k8s.io/gateway-api/apis/v1"

	vu "github.com/nginx/nginx-gateway-fabric/internal/verifutil"
)

// C09: drive the real LeaderAwareGroupUpdater (over the real Updater and a recording fake client) with
// sequential and concurrent schedules of UpdateGroup / Enable and record, per invocation, the logical
// call/return instants and the status writes that reached the client.

type c09Op struct {
	enable bool
	group  int
	tags   []int
	pause  time.Duration // sleep before the call
}

type c09Ev struct {
	op        c09Op
	id        int
	call, ret int64
	out       []int
}

type c09World struct {
	clock  atomic.Int64
	mu     sync.Mutex
	log    []int
	by     []int // invocation (event id) whose context carried the write
	delays map[int]time.Duration
	k8s    client.Client
}

type c09Key struct{}

const c09Objects = 4

func newC09World(delays map[int]time.Duration) *c09World {
	w := &c09World{delays: delays}
	scheme := runtime.NewScheme()
	if err := v1.Install(scheme); err != nil {
		panic(err)
	}
	var objs []client.Object
	for i := 0; i < c09Objects; i++ {
		objs = append(objs, &v1.GatewayClass{ObjectMeta: metav1.ObjectMeta{Name: "o" + strconv.Itoa(i)}})
	}
	w.k8s = fake.NewClientBuilder().WithScheme(scheme).WithObjects(objs...).
		WithStatusSubresource(&v1.GatewayClass{}).
		WithInterceptorFuncs(interceptor.Funcs{
			SubResourceUpdate: func(ctx context.Context, c client.Client, sub string, obj client.Object,
				opts ...client.SubResourceUpdateOption,
			) error {
				gc := obj.(*v1.GatewayClass)
				tag, err := strconv.Atoi(gc.Status.Conditions[0].Message)
				if err != nil {
					panic(err)
				}
				if d := w.delays[tag]; d > 0 {
					time.Sleep(d)
				}
				w.mu.Lock()
				w.log = append(w.log, tag)
				w.by = append(w.by, ctx.Value(c09Key{}).(int))
				w.mu.Unlock()
				w.clock.Add(1)
				return c.SubResource(sub).Update(ctx, obj, opts...)
			},
		}).Build()
	return w
}

func c09Req(tag int) UpdateRequest {
	return UpdateRequest{
		NsName:       types.NamespacedName{Name: "o" + strconv.Itoa(tag%c09Objects)},
		ResourceType: &v1.GatewayClass{},
		Setter: func(obj client.Object) bool {
			gc := obj.(*v1.GatewayClass)
			gc.Status.Conditions = []metav1.Condition{{
				Type: "T", Status: metav1.ConditionTrue, Reason: "R", Message: strconv.Itoa(tag),
				LastTransitionTime: metav1.Now(),
			}}
			return true
		},
	}
}

// runC09 executes the per-goroutine op lists and returns all events plus the global write log.
func runC09(threads [][]c09Op, delays map[int]time.Duration) ([]c09Ev, []int) {
	w := newC09World(delays)
	upd := NewLeaderAwareGroupUpdater(NewUpdater(w.k8s, logr.Discard()))
	var wg sync.WaitGroup
	ids := atomic.Int64{}
	results := make([][]c09Ev, len(threads))
	for ti := range threads {
		wg.Add(1)
		go func(ti int) {
			defer wg.Done()
			for _, op := range threads[ti] {
				if op.pause > 0 {
					time.Sleep(op.pause)
				}
				ev := c09Ev{op: op, id: int(ids.Add(1))}
				ctx := context.WithValue(context.Background(), c09Key{}, ev.id)
				ev.call = w.clock.Add(1)
				if op.enable {
					upd.Enable(ctx)
				} else {
					reqs := make([]UpdateRequest, len(op.tags))
					for i, t := range op.tags {
						reqs[i] = c09Req(t)
					}
					upd.UpdateGroup(ctx, "g"+strconv.Itoa(op.group), reqs...)
				}
				ev.ret = w.clock.Add(1)
				results[ti] = append(results[ti], ev)
			}
		}(ti)
	}
	wg.Wait()
	var evs []c09Ev
	for _, r := range results {
		evs = append(evs, r...)
	}
	for i := range evs {
		for k, tg := range w.log {
			if w.by[k] == evs[i].id {
				evs[i].out = append(evs[i].out, tg)
			}
		}
	}
	return evs, w.log
}

func TestVerifC09(t *testing.T) {
	out := vu.Open("C09")
	rng := vu.NewRng(out.Seed ^ 0xC09)
	nSeq := out.Count(500, 6000)
	nConc := out.Count(250, 4000)

	emit := func(kind string, threads [][]c09Op, delays map[int]time.Duration) {
		evs, log := runC09(threads, delays)
		var items []string
		var human []map[string]any
		nontrivial := false
		hasEnable, savedBefore := false, 0
		for _, e := range evs {
			var op string
			if e.op.enable {
				op = "Enable"
				hasEnable = true
			} else {
				op = vu.App("Update", vu.Nat(e.op.group), vu.NatList(e.op.tags))
			}
			items = append(items, vu.App("Ev", op, vu.Nat(int(e.call)), vu.Nat(int(e.ret)), vu.NatList(e.out)))
			human = append(human, map[string]any{"enable": e.op.enable, "group": e.op.group, "tags": e.op.tags,
				"call": e.call, "ret": e.ret, "writes": e.out})
			if e.op.enable && len(e.out) > 0 {
				savedBefore = len(e.out)
			}
		}
		if hasEnable && savedBefore > 0 && len(evs) >= 4 {
			nontrivial = true
		}
		term := vu.Pair(vu.List(items), vu.NatList(log))
		key := fmt.Sprint(kind, human, log)
		out.Case(term, map[string]any{"kind": kind, "events": human, "log": log}, nontrivial, key)
		out.Tally("kind", kind)
		out.Tally("events", strconv.Itoa(len(evs)))
		out.Tally("has_enable", strconv.FormatBool(hasEnable))
	}

	tag := 0
	genOps := func(r *vu.Rng, n int, groups int, allowEnable bool, maxPause int) []c09Op {
		var ops []c09Op
		for i := 0; i < n; i++ {
			if allowEnable && r.Chance(1, n) {
				ops = append(ops, c09Op{enable: true})
				allowEnable = false
				continue
			}
			k := r.Intn(4) // 0 = empty submission (clears the group)
			var tags []int
			for j := 0; j < k; j++ {
				tag++
				tags = append(tags, tag)
			}
			op := c09Op{group: r.Intn(groups), tags: tags}
			if maxPause > 0 {
				op.pause = time.Duration(r.Intn(maxPause)) * time.Microsecond
			}
			ops = append(ops, op)
		}
		return ops
	}

	// sequential schedules (size ramps up with the case index so that small failing cases come first)
	for i := 0; i < nSeq; i++ {
		r := rng.Fork()
		tag = 0
		n := 1 + (i*9)/nSeq + r.Intn(2)
		ops := genOps(r, n, 1+r.Intn(3), false, 0)
		if r.Chance(5, 6) {
			pos := r.Intn(len(ops) + 1)
			ops = append(ops[:pos:pos], append([]c09Op{{enable: true}}, ops[pos:]...)...)
		}
		emit("sequential", [][]c09Op{ops}, nil)
	}
	// concurrent schedules: Enable races with submissions; client writes are slowed down at random
	for i := 0; i < nConc; i++ {
		r := rng.Fork()
		tag = 0
		nth := 2 + r.Intn(2)
		threads := make([][]c09Op, nth+1)
		for ti := 0; ti < nth; ti++ {
			threads[ti] = genOps(r, 1+r.Intn(3), 1+r.Intn(2), false, 300)
		}
		threads[nth] = []c09Op{{enable: true, pause: time.Duration(r.Intn(400)) * time.Microsecond}}
		delays := map[int]time.Duration{}
		for k := 1; k <= tag; k++ {
			if r.Chance(1, 2) {
				delays[k] = time.Duration(r.Intn(300)) * time.Microsecond
			}
		}
		emit("concurrent", threads, delays)
	}
	out.Close("C09.Check", "")
}
