(* C12 — the oracle of Check.v accepts what the model itself does: if the observation is the model's own
   outcome on an environment that was consumed completely (which is how the harness records it), the
   scripted master is the process named in the pid file, and the scripted NGINX satisfies the conclusion
   of C12_truth, then oracle_reload holds.  So on a tree that matches the model a code 2 cannot occur. *)
From Coq Require Import List ZArith String Bool Arith Lia.
From NGF Require Import C12.Model C12.Spec C12.Proofs C12.Check.
Import ListNotations.
Local Open Scope Z_scope.

Lemma last_opt_snoc {A} (l : list A) (x : A) : last_opt (l ++ [x]) = Some x.
Proof.
  induction l as [|y l IH]; [reflexivity|].
  simpl. destruct (l ++ [x]) eqn:E; [destruct l; discriminate|]. exact IH.
Qed.

Lemma oracle_reload_sound v e old new intended :
  let m := reload e v in
  o_nchildren m = List.length (e_children e) -> o_nversions m = List.length (e_versions e) ->
  (is_ok (o_res m) = true -> intended = o_kill m) ->
  (is_ok (o_res m) = true -> truthful old new (e_versions e) = true -> old <> v -> new = v) ->
  oracle_reload v e old new intended (is_ok (o_res m)) (o_kill m) = true.
Proof.
  intros m Hc Hv Hint Htruth. unfold oracle_reload.
  destruct (is_ok (o_res m)) eqn:Eok; [|reflexivity].
  assert (Hres : o_res (reload e v) = Ok) by (fold m; destruct (o_res m); [reflexivity|discriminate]).
  pose proof (reload_ok_evidence e v Hres) as Ev. fold m in Ev.
  rewrite (ev_kill _ _ _ Ev).
  destruct (ev_pid _ _ _ Ev) as [c [pid [_ [_ Hk]]]]. rewrite Hk.
  rewrite (Hint eq_refl), Hk. simpl. rewrite Z.eqb_refl. simpl.
  destruct (ev_children _ _ _ Ev) as [prev [pre [c' [H0 [Hf [_ Hne]]]]]].
  rewrite Hc, firstn_all in Hf. rewrite H0, Hf, last_opt_snoc.
  destruct (String.eqb_spec prev c') as [->|_]; [congruence|]. simpl.
  destruct (ev_version _ _ _ Ev) as [pv [a [Hfv [Hva _]]]].
  rewrite Hv, firstn_all in Hfv. rewrite Hfv, last_opt_snoc, Hva, Z.eqb_refl. simpl.
  rewrite <- Hfv.
  destruct (truthful old new (e_versions e)) eqn:Et; [|reflexivity]. simpl.
  destruct (Z.eqb_spec old v) as [->|Hne2]; [reflexivity|]. simpl.
  apply Z.eqb_eq. apply Htruth; auto.
Qed.

(* ... and the correspondence test accepts the model's own outcome *)
Example ex_check_reload :
  check_case (CReload 7 ex_env 6 7 (Some 4711) true (Some 4711) [4711; 4711; 4711; 4711; 4711; 4711] 2 true true 1 0) = [].
Proof. vm_compute. reflexivity. Qed.

(* the oracle rejects a success that the evidence does not support: v was never answered *)
Example ex_check_reload_bad :
  check_case (CReload 7 (Env [StOk] (RdOk "4711") (RdOk "101 ") true [RdOk "201 "] [VResp 200 "6"]) 6 6 (Some 4711)
                      true (Some 4711) [4711; 4711; 4711; 4711] 1 true true 1 0) = [code_violation].
Proof. vm_compute. reflexivity. Qed.

(* the handler oracle accepts the model's run of Proofs.ex_batches and rejects a pod that turns ready on
   a no-change batch after a failed first batch *)
Example ex_check_handler_ok :
  check_case (CHandler true
    [HObs (Batch false ClusterState true false true) true None (Some 1) (Some 1) (Some 1)
          (Some [SRoute [true]; SGw true false [(true, false)]]) false;
     HObs (Batch true NoChange true true true) false (Some [SGw true false [(true, false)]]) (Some 1) None None None false;
     HObs (Batch true EndpointsOnly true true true) false (Some [SGw true false [(true, false)]]) (Some 2) None None
          (Some [SRoute [false]; SGw true true [(true, true)]]) true;
     HObs (Batch false ClusterState true true false) true None (Some 3) (Some 3) (Some 3)
          (Some [SRoute [true]; SGw true false [(true, false)]]) true]) = [].
Proof. vm_compute. reflexivity. Qed.

Example ex_check_handler_bad :
  check_case (CHandler false
    [HObs (Batch false ClusterState false true true) true None (Some 1) (Some 1) None
          (Some [SGw true false []]) false;
     HObs (Batch false NoChange true true true) false None (Some 1) None None None true]) = [code_violation].
Proof. vm_compute. reflexivity. Qed.
