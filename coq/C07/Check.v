(* C07 — oracle: the statuses the REAL controller wrote (read back from the objects after the real
   setters ran) tell the truth about what the declarative attachment relation (k8s/Spec.v) says is
   programmed, for the same abstract cluster state and reload outcome. *)
From Coq Require Import List String ZArith Bool Arith.
From NGF Require Export lib.CaseLib lib.Str k8s.State k8s.Spec.
Import ListNotations.
Local Open Scope string_scope.
Local Open Scope list_scope.
Infix "^^" := String.append (at level 55, right associativity).

Record cond := Cond { cd_type : string; cd_status : string; cd_reason : string; cd_gen : Z }.

Record parent_entry := PEntry {
  pe_ns : option string; pe_name : string; pe_section : option string; pe_controller : string; pe_conds : list cond
}.
Record route_status := RStatus { rs_grpc : bool; rs_ns : string; rs_name : string; rs_parents : list parent_entry }.
Record listener_status := LStatus { ls_name : string; ls_attached : Z; ls_conds : list cond }.
Record gateway_status := GStatus { gs_ns : string; gs_name : string; gs_conds : list cond; gs_listeners : list listener_status }.

Record case := Case {
  k_cluster : cluster;
  k_reload_ok : bool;
  k_routes : list route_status;
  k_gateways : list gateway_status
}.

Definition cond_is (cs : list cond) (t s : string) : bool :=
  existsb (fun c => seqb (cd_type c) t && seqb (cd_status c) s) cs.
Definition count_type (cs : list cond) (t : string) : nat := List.length (filter (fun c => seqb (cd_type c) t) cs).

(* ---------------------------------------------------------------- expectations from the spec *)

Definition attachable (l : listener) : bool :=
  match l_proto l with PHTTP | PHTTPS => kinds_ok l | _ => false end.

Definition targets_gw (g : gateway) (r : route) (p : parentref) : bool := pref_targets g r p.

(* the parentRef attaches the route to listener l (Gateway API: AllowedRoutes + parentRef + hostnames) *)
Definition binds (cs : cluster) (g : gateway) (l : listener) (r : route) : bool :=
  attachable l &&
  existsb (fun p => targets_gw g r p && pref_supported p && section_ok p l) (rt_parents r) &&
  ns_allowed cs g l (rt_ns r) && kind_allowed l (rt_kind r) &&
  match accepted_hostnames (lhost l) (rt_hosts r) with [] => false | _ => true end.

(* the route's rules are served through this parentRef *)
Definition programmed (cs : cluster) (g : gateway) (r : route) (p : parentref) : bool :=
  targets_gw g r p && pref_supported p && route_valid r &&
  existsb (fun l => section_ok p l && listener_valid cs g l &&
                    ns_allowed cs g l (rt_ns r) && kind_allowed l (rt_kind r) &&
                    match accepted_hostnames (lhost l) (rt_hosts r) with [] => false | _ => true end)
          (g_listeners g).

Definition refs_unresolved (cs : cluster) (r : route) : bool :=
  route_valid r &&
  existsb (fun ru => rule_usable ru &&
                     (existsb (fun b => negb (backend_valid cs r b)) (r_backends ru) ||
                      (Nat.ltb 1 (List.length (r_backends ru)) && negb (rule_tls_consistent cs r (r_backends ru))))) (rt_rules r).

Definition route_key_eqb (r : route) (s : route_status) : bool :=
  Bool.eqb (match rt_kind r with KGRPC => true | KHTTP => false end) (rs_grpc s) &&
  seqb (rt_ns r) (rs_ns s) && seqb (rt_name r) (rs_name s).

Definition entry_for (r : route) (p : parentref) (e : parent_entry) : bool :=
  seqb (pe_name e) (p_name p) &&
  seqb (match pe_ns e with Some n => n | None => rt_ns r end) (match p_ns p with Some n => n | None => rt_ns r end) &&
  seqb (match pe_section e with Some s => s | None => "" end) (match p_section p with Some s => s | None => "" end).

Definition gen_of_ts (ts : Z) : Z := (ts + 1)%Z.

Definition whenl (b : bool) (code : nat) (label : string) : list (nat * string) := if b then [(code, label)] else [].
(* codes: 2 violation; known classes below *)
Definition known_D34 := 34.     (* invalid route counted/treated as attached *)
Definition known_D37 := 37.     (* InvalidListener of one parentRef is reported on every parentRef of the route *)

(* parentRef p binds the route to some listener, but to no valid one *)
Definition binds_only_invalid (cs : cluster) (g : gateway) (r : route) (p : parentref) : bool :=
  targets_gw g r p && pref_supported p &&
  existsb (fun l => attachable l && section_ok p l && ns_allowed cs g l (rt_ns r) && kind_allowed l (rt_kind r) &&
                    match accepted_hostnames (lhost l) (rt_hosts r) with [] => false | _ => true end) (g_listeners g) &&
  negb (programmed cs g r p).

Definition check_route (cs : cluster) (reload_ok : bool) (ours : list gateway) (win : option gateway) (r : route)
           (statuses : list route_status) : list (nat * string) :=
  let mine := filter (fun p => existsb (fun g => targets_gw g r p) ours) (rt_parents r) in
  match mine with
  | [] => []          (* not ours: C17 checks that nothing was written *)
  | _ =>
      match find (route_key_eqb r) statuses with
      | None => [(code_violation, "no status for route " ^^ rt_name r)]
      | Some s =>
          let own := filter (fun e => seqb (pe_controller e) our_controller) (rs_parents s) in
          flat_map (fun p =>
            match filter (entry_for r p) own with
            | [e] =>
                let cs' := pe_conds e in
                let prog := match win with Some g => programmed cs g r p | None => false end in
                let exp_acc := reload_ok && prog in
                whenl (negb (Nat.eqb (count_type cs' "Accepted") 1)) code_violation ("Accepted count " ^^ rt_name r) ++
                whenl (negb (Bool.eqb (cond_is cs' "Accepted" "True") exp_acc))
                      (if exp_acc && match win with
                                     | Some g => existsb (fun p' => binds_only_invalid cs g r p') (rt_parents r)
                                     | None => false
                                     end
                       then code_known known_D37 else code_violation) ("Accepted truth " ^^ rt_name r) ++
                whenl (negb (Nat.eqb (count_type cs' "ResolvedRefs") 1)) code_violation ("ResolvedRefs count " ^^ rt_name r) ++
                whenl (negb (Bool.eqb (cond_is cs' "ResolvedRefs" "False") (refs_unresolved cs r))) code_violation ("ResolvedRefs truth " ^^ rt_name r) ++
                whenl (negb (forallb (fun c => (cd_gen c =? gen_of_ts (rt_ts r))%Z) cs')) code_violation ("generation " ^^ rt_name r)
            | _ => [(code_violation, "entries per parentRef " ^^ rt_name r)]
            end) mine ++
          whenl (negb (Nat.eqb (List.length own) (List.length mine))) code_violation ("entry count " ^^ rt_name r)
      end
  end.

Definition check_gateway (cs : cluster) (reload_ok : bool) (win : option gateway) (g : gateway) (statuses : list gateway_status) : list (nat * string) :=
  match find (fun s => seqb (gs_ns s) (g_ns g) && seqb (gs_name s) (g_name g)) statuses with
  | None => [(code_violation, "no gateway status " ^^ g_name g)]
  | Some s =>
      let is_win := match win with Some w => seqb (g_ns w) (g_ns g) && seqb (g_name w) (g_name g) | None => false end in
      if negb is_win then
        (* an ignored or unprogrammable gateway never claims to be programmed or accepted *)
        whenl (cond_is (gs_conds s) "Programmed" "True" || cond_is (gs_conds s) "Accepted" "True") code_violation ("ignored gateway claims " ^^ g_name g)
      else
        let any_valid := existsb (listener_valid cs g) (g_listeners g) in
        whenl (negb (Bool.eqb (cond_is (gs_conds s) "Programmed" "True") (reload_ok && any_valid))) code_violation ("gateway Programmed " ^^ g_name g) ++
        whenl (negb (forallb (fun c => (cd_gen c =? gen_of_ts (g_ts g))%Z) (gs_conds s))) code_violation ("gateway generation " ^^ g_name g) ++
        flat_map (fun l =>
          match filter (fun ls => seqb (ls_name ls) (l_name l)) (gs_listeners s) with
          | [ls] =>
              let exp_att := Z.of_nat (List.length (filter (binds cs g l) (c_routes cs))) in
              whenl (negb (Bool.eqb (cond_is (ls_conds ls) "Programmed" "True") (reload_ok && listener_valid cs g l))) code_violation ("listener Programmed " ^^ l_name l) ++
              whenl (negb (ls_attached ls =? exp_att)%Z) code_violation ("attachedRoutes " ^^ l_name l)
          | _ => [(code_violation, "listener status entries " ^^ l_name l)]
          end) (g_listeners g)
  end.

Fixpoint dedup_nat (l : list nat) : list nat :=
  match l with [] => [] | x :: l' => if existsb (Nat.eqb x) l' then dedup_nat l' else x :: dedup_nat l' end.

Definition complaints (c : case) : list (nat * string) :=
  let cs := k_cluster c in
  if negb (class_active cs) then
    if existsb (fun c0 => seqb (gc_name c0) our_class) (c_classes cs) then
      (* the configured class belongs to another controller: no status of ours may exist *)
      whenl (existsb (fun s => existsb (fun e => seqb (pe_controller e) our_controller) (rs_parents s)) (k_routes c)) code_violation "status written although the class is foreign" ++
      whenl (existsb (fun s => match gs_conds s with [] => false | _ => true end) (k_gateways c)) code_violation "gateway status written although the class is foreign"
    else
      (* the configured class does not exist: nothing is programmed, so nothing may claim to be *)
      whenl (existsb (fun s => existsb (fun e => seqb (pe_controller e) our_controller && cond_is (pe_conds e) "Accepted" "True") (rs_parents s)) (k_routes c)) code_violation "route Accepted without a GatewayClass" ++
      whenl (existsb (fun s => cond_is (gs_conds s) "Programmed" "True" || cond_is (gs_conds s) "Accepted" "True" ||
                               existsb (fun ls => cond_is (ls_conds ls) "Programmed" "True") (gs_listeners s)) (k_gateways c)) code_violation "gateway programmed without a GatewayClass"
  else
    let ours := our_gateways cs in
    let win := winning_gateway cs in
      flat_map (fun r => check_route cs (k_reload_ok c) ours win r (k_routes c)) (c_routes cs) ++
      flat_map (fun g => check_gateway cs (k_reload_ok c) win g (k_gateways c)) ours ++
      (* nothing may be reported Programmed after a failed reload *)
      whenl (negb (k_reload_ok c) &&
            (existsb (fun s => cond_is (gs_conds s) "Programmed" "True" ||
                               existsb (fun ls => cond_is (ls_conds ls) "Programmed" "True") (gs_listeners s)) (k_gateways c)))
           code_violation "Programmed after failed reload".

Definition check_case (c : case) : list nat := dedup_nat (map fst (complaints c)).
