(* C03 — which policies may be attached to Routes (graph/policies.go: checkTargetRoutesForOverlap, hostPortPathKeys).

   A location of the generated configuration is identified by (hostname, port of the listener, path); it collects the
   policy include files of EVERY Route that has a match on it (dataplane: hostPathRules.upsertRoute appends the policies
   of the Route to the path rule). Two policy files in one location repeat directives (NGINX refuses the configuration)
   unless the two policies target the same Routes, in which case conflict resolution (C14/PolConflict.v) applies. The
   graph therefore denies a policy when a Route it targets shares a location with a Route it does not target.

   Model: a Route as the graph holds it after binding - per listener it is bound to (by name) the accepted hostnames -
   and its paths; the Gateway's listeners with their ports; a policy with the names of the Routes it targets. *)
From Coq Require Import List String ZArith Bool Arith.
From NGF Require Import lib.Str.
Import ListNotations.

Record oroute := ORoute {
  or_name : string;
  or_attach : list (string * list string);   (* listener name, accepted hostnames on it (all parentRefs concatenated) *)
  or_paths : list string
}.

Record opol := OPol {
  op_name : string;
  op_targets : list string;    (* names of the targeted Routes, as written (a name may not exist) *)
  op_present : bool;           (* observed: the graph holds the policy *)
  op_valid : bool;             (* observed *)
  op_conflict : bool           (* observed: carries the TargetConflict condition *)
}.

Definition lkey := (string * Z * string)%type.     (* hostname, port, path *)

Definition lkey_eqb (a b : lkey) : bool :=
  let '(h1, p1, q1) := a in let '(h2, p2, q2) := b in seqb h1 h2 && Z.eqb p1 p2 && seqb q1 q2.

Fixpoint port_of (ls : list (string * Z)) (name : string) : option Z :=
  match ls with
  | [] => None
  | (n, p) :: ls' => if seqb n name then Some p else port_of ls' name
  end.

(* the locations a Route has a match on: for every listener it is bound to, that listener's port *)
Definition keys (ls : list (string * Z)) (r : oroute) : list lkey :=
  flat_map (fun a : string * list string =>
    match port_of ls (fst a) with
    | Some port => flat_map (fun h => map (fun q => (h, port, q)) (or_paths r)) (snd a)
    | None => []
    end) (or_attach r).

Definition mem_key (k : lkey) (l : list lkey) : bool := existsb (lkey_eqb k) l.

Definition overlaps (ls : list (string * Z)) (a b : oroute) : bool :=
  existsb (fun k => mem_key k (keys ls b)) (keys ls a).

Definition targets_route (p : opol) (r : oroute) : bool := existsb (seqb (or_name r)) (op_targets p).

(* checkTargetRoutesForOverlap: no targeted Route shares a location with a Route that is not targeted *)
Definition overlap_free (ls : list (string * Z)) (routes : list oroute) (p : opol) : bool :=
  forallb (fun t => negb (targets_route p t) ||
     forallb (fun r => targets_route p r || negb (overlaps ls t r)) routes) routes.

(* the policy is in the graph when at least one of its targets exists *)
Definition has_target (routes : list oroute) (p : opol) : bool := existsb (targets_route p) routes.

(* ---- the key computations the code used before the repairs, kept for the refutation theorems *)

(* before D44: one port per parentRef (that of the last listener bound); modelled per Route *)
Definition keys_one_port (ls : list (string * Z)) (r : oroute) : list lkey :=
  match port_of ls (fst (last (or_attach r) (EmptyString, []))) with
  | Some port => flat_map (fun a : string * list string => flat_map (fun h => map (fun q => (h, port, q)) (or_paths r)) (snd a)) (or_attach r)
  | None => []
  end.

(* before D42: the whole list of accepted hostnames of a listener formatted into one key *)
Definition keys_listwise (ls : list (string * Z)) (r : oroute) : list lkey :=
  flat_map (fun a : string * list string =>
    match port_of ls (fst a) with
    | Some port => map (fun q => (concat " " (snd a), port, q)) (or_paths r)
    | None => []
    end) (or_attach r).

Definition overlap_free_with (kf : oroute -> list lkey) (routes : list oroute) (p : opol) : bool :=
  forallb (fun t => negb (targets_route p t) ||
     forallb (fun r => targets_route p r || negb (existsb (fun k => mem_key k (kf r)) (kf t))) routes) routes.
