(* C08 — property theorems only.  Status writes are idempotent, retry-safe and preserve the entries of
   other controllers; what is submitted respects the CRD limits.

   Quantifiers: every kind of resource, every controller name, every computed status [se] (entries of this
   controller), every number of back-off steps, every plan of get/update outcomes [atts] in which every
   successful Get may serve a DIFFERENT previous status (own, foreign and stale entries in any order).
   [repaired] is the behaviour with the fixes of D15 and D16 applied; [as_found] the code before them. *)
From Coq Require Import List String ZArith NArith.
From NGF Require Import C08.Model C08.Proofs.
Import ListNotations.

(* DeduplicateConditions: condition types are unique afterwards, and a condition survives iff it is the last of
   its type in the input (so every type of the input keeps its last condition). *)
Theorem C08_dedup_last_condition_of_each_type_wins :
  forall l,
    NoDup (map p_type (dedup l)) /\
    (forall c, In c (dedup l) <->
               exists l1 l2, l = l1 ++ c :: l2 /\ forall d, In d l2 -> p_type d <> p_type c).
Proof. exact dedup_spec. Qed.

(* Every attempt of the retry loop, under every fault plan.  If the resource was read (status [pe]):
   either nothing is submitted, and then this controller's entries in [pe] are already the computed ones up
   to transition time; or a status [o] is submitted, and then [pe] did differ, the entries of other controllers
   in [o] are exactly those of [pe] (same order, unaltered, none lost or duplicated), and this controller's
   entries in [o] are exactly the computed ones.  Re-applying the setter after a conflict or a failed update
   is covered: the statement holds for the i-th attempt for every i. *)
Theorem C08_every_attempt_preserves_foreign_and_replaces_own :
  forall k ctl se, all_own ctl se ->
  forall steps atts i a x,
    nth_error atts i = Some a ->
    nth_error (retry repaired k ctl steps (SEntries se) atts) i = Some x ->
    outcome_ok ctl se a x.
Proof. exact retry_outcomes. Qed.

(* The loop makes at most [steps] attempts, goes on after a failed get / failed update while the budget
   lasts, and stops at the first attempt that did not fail. *)
Theorem C08_retry_protocol :
  forall v k ctl steps s atts,
    List.length (retry v k ctl steps s atts) <= Nat.min steps (List.length atts) /\
    forall i a x,
      nth_error atts i = Some a ->
      nth_error (retry v k ctl steps s atts) i = Some x ->
      (failed a x -> S i < steps -> S i < List.length atts ->
       nth_error (retry v k ctl steps s atts) (S i) <> None) /\
      (~ failed a x -> List.length (retry v k ctl steps s atts) = S i).
Proof.
  intros v k ctl steps s atts. split; [apply retry_length|]. intros i a x. apply retry_protocol.
Qed.

(* Idempotence: when the status on the server already carries this controller's computed entries (a
   previous write [o] succeeded) and the next batch computes the same entries with a new transition time
   [se2], the write is a no-op whatever else the status holds. *)
Theorem C08_rewrite_is_noop :
  forall k ctl se2 o,
    all_own ctl se2 -> map erase_entry (own ctl o) = map erase_entry se2 ->
    forall n u rest, retry repaired k ctl (S n) (SEntries se2) (Att (GetOK (SEntries o)) u :: rest) = [None].
Proof. exact rewrite_is_noop. Qed.

(* Statuses owned entirely by this controller.  Gateway: skipped iff equal but for transition times,
   otherwise replaced by exactly the computed status.  GatewayClass / NginxGateway: same, on the conditions. *)
Theorem C08_gateway_status_write :
  forall v ctl a c l pa pc pl,
    let s := SWhole a c l in let p := SWhole pa pc pl in
    (erase_whole p = erase_whole s -> setter v KGateway ctl s p = (s, p, false)) /\
    (erase_whole p <> erase_whole s -> setter v KGateway ctl s p = (s, s, true)).
Proof. exact gateway_status_write. Qed.

Theorem C08_conditions_status_write :
  forall v k ctl a c l pa pc pl,
    k = KGatewayClass \/ k = KNginxGateway ->
    let s := SWhole a c l in let p := SWhole pa pc pl in
    (map erase_cond pc = map erase_cond c -> setter v k ctl s p = (s, p, false)) /\
    (map erase_cond pc <> map erase_cond c -> setter v k ctl s p = (s, s, true)).
Proof. exact conditions_status_write. Qed.

(* CRD limits of what is computed: condition types unique, every message within 32768, observed generation
   and transition time as given, and no more conditions than there are condition types [K] in play. *)
Theorem C08_computed_conditions_within_limits :
  forall gen time l,
    NoDup (map c_type (mk_conds repaired gen time l)) /\
    (forall c, In c (mk_conds repaired gen time l) -> (c_mlen c <= msg_cap)%N /\ c_gen c = gen /\ c_time c = time) /\
    (forall K, (forall c, In c l -> In (p_type c) K) -> List.length (mk_conds repaired gen time l) <= List.length K).
Proof. exact conditions_within_limits. Qed.

(* Entry count of a submitted status = computed entries + the other controllers' entries read ... *)
Theorem C08_submitted_entry_count :
  forall k ctl se pe, List.length (merge k ctl se pe) = List.length se + List.length (foreign ctl pe).
Proof. exact merge_length. Qed.

(* ... and the graph adds ancestors only while foreign + added < 16 (ngfPolicyAncestorsFull), so together
   they never exceed the CRD's 16 — PARTIAL as a statement about the write: it bounds the sum for the foreign
   entries seen when the graph was built; entries other controllers add before the write are not covered. *)
Theorem C08_ancestor_limit_partial :
  forall nforeign targets,
    nforeign <= max_ancestors -> nforeign + attach_all nforeign 0 targets <= max_ancestors.
Proof. exact ancestor_limit. Qed.

(* The code as found (D15): a retry after a failed update submits a status whose foreign entries are not
   those that were read (the foreign entry appears twice). *)
Theorem C08_D15_refuted :
  exists k ctl se atts i pe u o,
    all_own ctl se /\
    nth_error atts i = Some (Att (GetOK (SEntries pe)) u) /\
    nth_error (retry as_found k ctl 4 (SEntries se) atts) i = Some (Some (SEntries o)) /\
    foreign ctl o <> foreign ctl pe.
Proof. exact d15_refuted. Qed.

(* The code as found (D16): a computed condition message longer than the CRD allows is submitted as is. *)
Theorem C08_D16_refuted :
  exists gen time l c, In c (mk_conds as_found gen time l) /\ (msg_cap < c_mlen c)%N.
Proof. exact d16_refuted. Qed.
