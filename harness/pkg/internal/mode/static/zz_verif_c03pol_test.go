//go:build verif

package static

import (
	"fmt"

	apiv1 "k8s.io/api/core/v1"
	metav1 "k8s.io/apimachinery/pkg/apis/meta/v1"
	"sigs.k8s.io/controller-runtime/pkg/client"
	gatewayv1 "sigs.k8s.io/gateway-api/apis/v1"
	"sigs.k8s.io/gateway-api/apis/v1alpha2"

	ngfAPIv1alpha1 "github.com/nginx/nginx-gateway-fabric/apis/v1alpha1"
	ngfAPIv1alpha2 "github.com/nginx/nginx-gateway-fabric/apis/v1alpha2"
	"github.com/nginx/nginx-gateway-fabric/internal/framework/helpers"
	vu "github.com/nginx/nginx-gateway-fabric/internal/verifutil"
)

// c03Policies draws the NGF-specific layer for a generated state: an NginxProxy (attached through the class's
// parametersRef) and ObservabilityPolicy / ClientSettingsPolicy / UpstreamSettingsPolicy objects targeting the
// state's Gateways, Routes and Services. Every value is admissible under the CRD schema (ratios 0..100 with the
// boundaries, all strategies and contexts, sizes and durations in the CRD grammar).
func c03Policies(r *vu.Rng, c *vsCluster) (objs []client.Object, np bool, tags []string) {
	dur := func() *ngfAPIv1alpha1.Duration {
		return helpers.GetPointer(ngfAPIv1alpha1.Duration([]string{"5s", "100ms", "1h", "2m", "0s", "1h30m"}[r.Intn(6)]))
	}
	size := func() *ngfAPIv1alpha1.Size {
		return helpers.GetPointer(ngfAPIv1alpha1.Size([]string{"10m", "0", "512k", "1g", "4096"}[r.Intn(5)]))
	}
	attrs := func() []ngfAPIv1alpha1.SpanAttribute {
		var out []ngfAPIv1alpha1.SpanAttribute
		for i, n := 0, r.Intn(3); i < n; i++ {
			out = append(out, ngfAPIv1alpha1.SpanAttribute{
				Key:   []string{"k1", "env.name", "a-b_c"}[r.Intn(3)] + fmt.Sprint(i),
				Value: []string{"v1", "prod east", "x.y/z"}[r.Intn(3)],
			})
		}
		return out
	}
	telemetryOn := false
	if r.Chance(3, 4) {
		np = true
		p := &ngfAPIv1alpha1.NginxProxy{ObjectMeta: metav1.ObjectMeta{Name: "np", Generation: 1}}
		if r.Chance(3, 4) {
			tel := &ngfAPIv1alpha1.Telemetry{SpanAttributes: attrs()}
			if r.Chance(5, 6) {
				tel.Exporter = &ngfAPIv1alpha1.TelemetryExporter{Endpoint: []string{"otel.example.com:4317", "10.1.2.3:4317", "otel-collector.monitoring.svc:4317"}[r.Intn(3)]}
				telemetryOn = true
				if r.Chance(1, 2) {
					tel.Exporter.Interval = dur()
				}
				if r.Chance(1, 2) {
					tel.Exporter.BatchSize = helpers.GetPointer(int32(r.Intn(1000)))
				}
				if r.Chance(1, 2) {
					tel.Exporter.BatchCount = helpers.GetPointer(int32(r.Intn(10)))
				}
			}
			if r.Chance(1, 2) {
				tel.ServiceName = helpers.GetPointer([]string{"my-svc", "ngf.edge_1"}[r.Intn(2)])
			}
			p.Spec.Telemetry = tel
		}
		if r.Chance(1, 2) {
			mode := []ngfAPIv1alpha1.RewriteClientIPModeType{ngfAPIv1alpha1.RewriteClientIPModeXForwardedFor, ngfAPIv1alpha1.RewriteClientIPModeProxyProtocol}[r.Intn(2)]
			rc := &ngfAPIv1alpha1.RewriteClientIP{Mode: &mode}
			if r.Chance(1, 2) {
				rc.SetIPRecursively = helpers.GetPointer(r.Chance(1, 2))
			}
			for i, n := 0, 1+r.Intn(3); i < n; i++ {
				switch r.Intn(3) {
				case 0:
					rc.TrustedAddresses = append(rc.TrustedAddresses, ngfAPIv1alpha1.Address{Type: ngfAPIv1alpha1.CIDRAddressType, Value: []string{"10.0.0.0/8", "2001:db8::/32", "192.168.1.0/24"}[r.Intn(3)]})
				case 1:
					rc.TrustedAddresses = append(rc.TrustedAddresses, ngfAPIv1alpha1.Address{Type: ngfAPIv1alpha1.IPAddressType, Value: []string{"10.1.1.1", "2001:db8::1"}[r.Intn(2)]})
				default:
					rc.TrustedAddresses = append(rc.TrustedAddresses, ngfAPIv1alpha1.Address{Type: ngfAPIv1alpha1.HostnameAddressType, Value: "lb.example.com"})
				}
			}
			p.Spec.RewriteClientIP = rc
		}
		if r.Chance(1, 2) {
			lvl := ngfAPIv1alpha1.NginxErrorLogLevel([]string{"debug", "info", "notice", "warn", "error", "crit", "alert", "emerg"}[r.Intn(8)])
			p.Spec.Logging = &ngfAPIv1alpha1.NginxLogging{ErrorLevel: &lvl}
		}
		if r.Chance(1, 2) {
			fam := []ngfAPIv1alpha1.IPFamilyType{ngfAPIv1alpha1.Dual, ngfAPIv1alpha1.IPv4, ngfAPIv1alpha1.IPv6}[r.Intn(3)]
			p.Spec.IPFamily = &fam
		}
		if r.Chance(1, 4) {
			p.Spec.DisableHTTP2 = true
		}
		objs = append(objs, p)
	}
	if telemetryOn {
		tags = append(tags, "telemetry")
	}
	// ObservabilityPolicies: one per drawn route (same namespace as the route)
	for i, rt := range c.Routes {
		if !r.Chance(1, 2) {
			continue
		}
		kind := "HTTPRoute"
		if rt.GRPC {
			kind = "GRPCRoute"
		}
		tr := &ngfAPIv1alpha2.Tracing{Strategy: []ngfAPIv1alpha2.TraceStrategy{ngfAPIv1alpha2.TraceStrategyRatio, ngfAPIv1alpha2.TraceStrategyParent}[r.Intn(2)]}
		if tr.Strategy == ngfAPIv1alpha2.TraceStrategyRatio && r.Chance(5, 6) {
			ratio := []int32{0, 1, 25, 50, 99, 100, 100, 100}[r.Intn(8)]
			tr.Ratio = &ratio
			tags = append(tags, fmt.Sprintf("ratio=%d", ratio))
		}
		if r.Chance(1, 2) {
			ctx := []ngfAPIv1alpha2.TraceContext{ngfAPIv1alpha2.TraceContextExtract, ngfAPIv1alpha2.TraceContextInject, ngfAPIv1alpha2.TraceContextPropagate, ngfAPIv1alpha2.TraceContextIgnore}[r.Intn(4)]
			tr.Context = &ctx
		}
		if r.Chance(1, 2) {
			tr.SpanName = helpers.GetPointer([]string{"span-one", "my_span.v2"}[r.Intn(2)])
		}
		tr.SpanAttributes = attrs()
		objs = append(objs, &ngfAPIv1alpha2.ObservabilityPolicy{
			ObjectMeta: metav1.ObjectMeta{Namespace: rt.NS, Name: fmt.Sprintf("op%d", i), Generation: 1},
			Spec: ngfAPIv1alpha2.ObservabilityPolicySpec{
				TargetRefs: []v1alpha2.LocalPolicyTargetReference{{Group: gatewayv1.GroupName, Kind: gatewayv1.Kind(kind), Name: gatewayv1.ObjectName(rt.Name)}},
				Tracing:    tr,
			},
		})
	}
	// ClientSettingsPolicies: on Gateways and on Routes
	csp := func(ns, name, kind, target string) client.Object {
		p := &ngfAPIv1alpha1.ClientSettingsPolicy{ObjectMeta: metav1.ObjectMeta{Namespace: ns, Name: name, Generation: 1},
			Spec: ngfAPIv1alpha1.ClientSettingsPolicySpec{TargetRef: v1alpha2.LocalPolicyTargetReference{Group: gatewayv1.GroupName, Kind: gatewayv1.Kind(kind), Name: gatewayv1.ObjectName(target)}}}
		if r.Chance(2, 3) {
			p.Spec.Body = &ngfAPIv1alpha1.ClientBody{}
			if r.Chance(2, 3) {
				p.Spec.Body.MaxSize = size()
			}
			if r.Chance(1, 2) {
				p.Spec.Body.Timeout = dur()
			}
		}
		if r.Chance(2, 3) {
			ka := &ngfAPIv1alpha1.ClientKeepAlive{}
			if r.Chance(1, 2) {
				ka.Requests = helpers.GetPointer(int32(r.Intn(2000)))
			}
			if r.Chance(1, 2) {
				ka.Time = dur()
			}
			if r.Chance(1, 2) {
				ka.Timeout = &ngfAPIv1alpha1.ClientKeepAliveTimeout{Server: dur()}
				if r.Chance(1, 2) {
					ka.Timeout.Header = dur()
				}
			}
			p.Spec.KeepAlive = ka
		}
		return p
	}
	for i, g := range c.Gateways {
		if r.Chance(1, 3) {
			objs = append(objs, csp(g.NS, fmt.Sprintf("cspg%d", i), "Gateway", g.Name))
			tags = append(tags, "csp-gateway")
		}
	}
	for i, rt := range c.Routes {
		if r.Chance(1, 3) {
			kind := "HTTPRoute"
			if rt.GRPC {
				kind = "GRPCRoute"
			}
			objs = append(objs, csp(rt.NS, fmt.Sprintf("cspr%d", i), kind, rt.Name))
			tags = append(tags, "csp-route")
		}
	}
	// UpstreamSettingsPolicies on Services
	for i, s := range c.Services {
		if !r.Chance(1, 3) {
			continue
		}
		p := &ngfAPIv1alpha1.UpstreamSettingsPolicy{ObjectMeta: metav1.ObjectMeta{Namespace: s.NS, Name: fmt.Sprintf("usp%d", i), Generation: 1},
			Spec: ngfAPIv1alpha1.UpstreamSettingsPolicySpec{TargetRefs: []v1alpha2.LocalPolicyTargetReference{{Group: "", Kind: "Service", Name: gatewayv1.ObjectName(s.Name)}}}}
		if r.Chance(1, 2) {
			p.Spec.ZoneSize = size()
			if *p.Spec.ZoneSize == "0" || *p.Spec.ZoneSize == "4096" {
				p.Spec.ZoneSize = helpers.GetPointer(ngfAPIv1alpha1.Size("1m"))
			}
		}
		if r.Chance(2, 3) {
			ka := &ngfAPIv1alpha1.UpstreamKeepAlive{}
			if r.Chance(2, 3) {
				ka.Connections = helpers.GetPointer(int32(1 + r.Intn(64)))
			}
			if r.Chance(1, 2) {
				ka.Requests = helpers.GetPointer(int32(r.Intn(1000)))
			}
			if r.Chance(1, 2) {
				ka.Time = dur()
			}
			if r.Chance(1, 2) {
				ka.Timeout = dur()
			}
			p.Spec.KeepAlive = ka
		}
		objs = append(objs, p)
		tags = append(tags, "usp")
	}
	return objs, np, tags
}

// vpObjectsHook, when set, rewrites the typed objects of a state before vpRunStateWith delivers them.
var vpObjectsHook func([]client.Object) []client.Object

// c03TLSLayer adds TLS passthrough to the typed objects of a state: one to three TLS listeners on the first Gateway of the
// configured class (two ports, so that listeners share a port; no / exact / wildcard hostnames), one to three TLSRoutes
// (parentRefs with and without sectionName, one of them twice; hostnames that several listeners accept) and their backend.
func c03TLSLayer(r *vu.Rng, objs []client.Object) []client.Object {
	pass := gatewayv1.TLSModePassthrough
	all := gatewayv1.NamespacesFromAll
	var gw *gatewayv1.Gateway
	for _, o := range objs {
		if g, ok := o.(*gatewayv1.Gateway); ok && string(g.Spec.GatewayClassName) == vpClassName && gw == nil {
			gw = g
		}
	}
	if gw == nil {
		return objs
	}
	lhosts := []string{"", "*.example.com", "app.example.com", "*.app.example.com"}
	nl := 1 + r.Intn(3)
	for k := 0; k < nl; k++ {
		l := gatewayv1.Listener{Name: gatewayv1.SectionName(fmt.Sprintf("tls%d", k)), Port: gatewayv1.PortNumber([]int32{9443, 9443, 9444}[r.Intn(3)]), Protocol: gatewayv1.TLSProtocolType,
			TLS: &gatewayv1.GatewayTLSConfig{Mode: &pass}, AllowedRoutes: &gatewayv1.AllowedRoutes{Namespaces: &gatewayv1.RouteNamespaces{From: &all}}}
		h := lhosts[r.Intn(len(lhosts))]
		if h != "" {
			l.Hostname = helpers.GetPointer(gatewayv1.Hostname(h))
		}
		// the CRD (CEL) requires port, protocol and hostname together to be unique per listener
		dup := false
		for _, x := range gw.Spec.Listeners {
			xh := ""
			if x.Hostname != nil {
				xh = string(*x.Hostname)
			}
			if x.Port == l.Port && x.Protocol == l.Protocol && xh == h {
				dup = true
			}
		}
		if dup {
			l.Port = gatewayv1.PortNumber(9450 + k)
		}
		gw.Spec.Listeners = append(gw.Spec.Listeners, l)
	}
	rhosts := []string{"app.example.com", "x.app.example.com", "*.example.com", "other.example.com", "*.app.example.com"}
	for k, nr := 0, 1+r.Intn(3); k < nr; k++ {
		tr := &v1alpha2.TLSRoute{ObjectMeta: metav1.ObjectMeta{Namespace: gw.Namespace, Name: fmt.Sprintf("tlsr%d", k), CreationTimestamp: vsTime(int64(r.Intn(3)))},
			Spec: v1alpha2.TLSRouteSpec{Rules: []v1alpha2.TLSRouteRule{{BackendRefs: []v1alpha2.BackendRef{vsBackendObj(vsBackend{Name: "svc-tls", Port: 443, Weight: 1})}}}}}
		for x, nx := 0, 1+r.Intn(2); x < nx; x++ {
			tr.Spec.Hostnames = append(tr.Spec.Hostnames, v1alpha2.Hostname(rhosts[r.Intn(len(rhosts))]))
		}
		ref := gatewayv1.ParentReference{Name: gatewayv1.ObjectName(gw.Name)}
		switch r.Intn(3) {
		case 0:
			tr.Spec.ParentRefs = []gatewayv1.ParentReference{ref}
		case 1:
			ref.SectionName = helpers.GetPointer(gatewayv1.SectionName(fmt.Sprintf("tls%d", r.Intn(nl))))
			tr.Spec.ParentRefs = []gatewayv1.ParentReference{ref}
		default:
			a, b := ref, ref
			a.SectionName = helpers.GetPointer(gatewayv1.SectionName("tls0"))
			b.SectionName = helpers.GetPointer(gatewayv1.SectionName(fmt.Sprintf("tls%d", nl-1)))
			tr.Spec.ParentRefs = []gatewayv1.ParentReference{a, b}
		}
		objs = append(objs, tr)
	}
	objs = append(objs, &apiv1.Service{ObjectMeta: metav1.ObjectMeta{Namespace: gw.Namespace, Name: "svc-tls"},
		Spec: apiv1.ServiceSpec{IPFamilies: []apiv1.IPFamily{apiv1.IPv4Protocol}, Ports: []apiv1.ServicePort{{Name: "p80", Port: 443}}}}) // the port name of c01Slice: the Service has ready endpoints
	objs = append(objs, c01Slice(gw.Namespace, "svc-tls", "x1", []string{"10.1.1.1"}, true, 1))
	return objs
}

// vpRunStateWith is vpRunState plus typed extra objects; withParams points every GatewayClass at NginxProxy np.
func vpRunStateWith(c *vsCluster, plus bool, extra []client.Object, withParams bool) *vpWorld {
	w := vpNewWorld(plus)
	evs := vpBaseEvents()
	evs = append(evs, w.vpPlusEvents()...)
	objs := c.Objects()
	if vpObjectsHook != nil {
		objs = vpObjectsHook(objs)
	}
	for _, o := range objs {
		if gc, ok := o.(*gatewayv1.GatewayClass); ok && withParams {
			gc.Spec.ParametersRef = &gatewayv1.ParametersReference{Group: ngfAPIv1alpha1.GroupName, Kind: "NginxProxy", Name: "np"}
		}
		evs = append(evs, w.Apply(o))
	}
	for _, o := range extra {
		evs = append(evs, w.Apply(o))
	}
	w.Batch(evs)
	return w
}
