(* The model of httpmatches.js (ngx/Eval.v, compared with the real module on every run by ngx/NjsCheck.v) meets the
   specification of a match (k8s/Spec.v: header_ok, query_ok) for EVERY request and every well-formed list of matches:
   it redirects to the first match the request satisfies and answers 404 when there is none. *)
From Coq Require Import List String ZArith Bool Arith Ascii Lia.
From NGF Require Import lib.Order k8s.State k8s.Spec ngx.Lexer ngx.Eval ngx.NjsCheck.
From NGF Require Import lib.Str.
Import ListNotations.

(* ngx/Lexer.v has its own copies of chars_of / string_of (same definitions): one spelling from here on *)
Ltac norm :=
  change Lexer.string_of with Str.string_of in *; change Lexer.chars_of with Str.chars_of in *.

(* ---------------------------------------------------------------- splitting at a separator *)

Lemma first_occurrence (sep : ascii) (s : list ascii) :
  ~ In sep s \/ exists pre rest, s = pre ++ sep :: rest /\ ~ In sep pre.
Proof.
  induction s as [|c s IH]; [left; intros []|].
  destruct (Ascii.eqb c sep) eqn:Hc.
  - apply Ascii.eqb_eq in Hc. subst c. right. exists [], s. split; [reflexivity|intros []].
  - apply Ascii.eqb_neq in Hc. destruct IH as [Hn|[pre [rest [-> Hp]]]].
    + left. intros [H|H]; [exact (Hc H)|exact (Hn H)].
    + right. exists (c :: pre), rest. split; [reflexivity|]. intros [H|H]; [exact (Hc H)|exact (Hp H)].
Qed.

Lemma split_no_sep sep cur s : ~ In sep s -> split_on_l sep cur s = [rev cur ++ s].
Proof.
  revert cur. induction s as [|c s IH]; intros cur Hn; simpl.
  - rewrite app_nil_r. reflexivity.
  - destruct (Ascii.eqb c sep) eqn:Hc.
    + apply Ascii.eqb_eq in Hc. subst c. exfalso. apply Hn. left. reflexivity.
    + rewrite IH; [|intros H; apply Hn; right; exact H]. simpl. rewrite <- app_assoc. reflexivity.
Qed.

Lemma split_at_first sep cur pre rest :
  ~ In sep pre -> split_on_l sep cur (pre ++ sep :: rest) = (rev cur ++ pre) :: split_on_l sep [] rest.
Proof.
  revert cur. induction pre as [|c pre IH]; intros cur Hn; simpl.
  - rewrite Ascii.eqb_refl, app_nil_r. reflexivity.
  - destruct (Ascii.eqb c sep) eqn:Hc.
    + apply Ascii.eqb_eq in Hc. subst c. exfalso. apply Hn. left. reflexivity.
    + rewrite IH; [|intros H; apply Hn; right; exact H]. simpl. rewrite <- app_assoc. reflexivity.
Qed.

Lemma split_nonempty sep cur s : split_on_l sep cur s <> [].
Proof.
  revert cur. induction s as [|c s IH]; intros cur; simpl; [discriminate|].
  destruct (Ascii.eqb c sep); [discriminate|apply IH].
Qed.

Lemma split_two sep s x y :
  split_on_l sep [] s = [x; y] -> s = x ++ sep :: y /\ ~ In sep x /\ ~ In sep y.
Proof.
  intros H. destruct (first_occurrence sep s) as [Hn|[pre [rest [-> Hp]]]].
  - rewrite (split_no_sep sep [] s Hn) in H. discriminate.
  - rewrite (split_at_first sep [] pre rest Hp) in H. simpl in H.
    injection H as Hx Hrest. subst x.
    destruct (first_occurrence sep rest) as [Hn|[pre' [rest' [-> Hp']]]].
    + rewrite (split_no_sep sep [] rest Hn) in Hrest. simpl in Hrest. injection Hrest as Hy. subst y. auto.
    + rewrite (split_at_first sep [] pre' rest' Hp') in Hrest. injection Hrest as _ Hnil.
      exfalso. exact (split_nonempty sep [] rest' Hnil).
Qed.

Lemma index_of_first sep pre rest i :
  ~ In sep pre -> index_of_l sep (pre ++ sep :: rest) i = Some (i + List.length pre).
Proof.
  revert i. induction pre as [|c pre IH]; intros i Hn; simpl.
  - rewrite Ascii.eqb_refl. f_equal. lia.
  - destruct (Ascii.eqb c sep) eqn:Hc.
    + apply Ascii.eqb_eq in Hc. subst c. exfalso. apply Hn. left. reflexivity.
    + rewrite IH; [|intros H; apply Hn; right; exact H]. f_equal. lia.
Qed.

Lemma index_of_decomp sep s i k :
  index_of_l sep s i = Some k -> exists pre rest, s = pre ++ sep :: rest /\ ~ In sep pre /\ k = i + List.length pre.
Proof.
  revert i. induction s as [|c s IH]; intros i H; simpl in H; [discriminate|].
  destruct (Ascii.eqb c sep) eqn:Hc.
  - apply Ascii.eqb_eq in Hc. subst c. inversion H; subst. exists [], s. split; [reflexivity|split; [intros []|simpl; lia]].
  - apply Ascii.eqb_neq in Hc. destruct (IH (S i) H) as [pre [rest [-> [Hp ->]]]].
    exists (c :: pre), rest. split; [reflexivity|split; [|simpl; lia]].
    intros [Hx|Hx]; [exact (Hc Hx)|exact (Hp Hx)].
Qed.

Lemma skipn_past {A} (pre : list A) x rest : skipn (S (List.length pre)) (pre ++ x :: rest) = rest.
Proof. induction pre as [|c pre IH]; simpl; [reflexivity|exact IH]. Qed.

Lemma firstn_exact {A} (pre : list A) rest : firstn (List.length pre) (pre ++ rest) = pre.
Proof. induction pre as [|c pre IH]; simpl; [reflexivity|rewrite IH; reflexivity]. Qed.

Lemma split_first_decomp sep pre rest :
  ~ In sep pre -> split_first sep (string_of (pre ++ sep :: rest)) = Some (string_of pre, string_of rest).
Proof.
  intros Hp. unfold split_first, drop. norm. rewrite chars_of_string_of, (index_of_first sep pre rest 0 Hp).
  change (0 + List.length pre) with (List.length pre).
  rewrite firstn_exact, skipn_past. reflexivity.
Qed.

Lemma string_of_inj a b : string_of a = string_of b -> a = b.
Proof. intros H. rewrite <- (chars_of_string_of a), <- (chars_of_string_of b), H. reflexivity. Qed.

Lemma string_of_nil l : string_of l = EmptyString -> l = [].
Proof. destruct l; simpl; [reflexivity|discriminate]. Qed.

(* ---------------------------------------------------------------- one header, one parameter *)

Lemma header_model_is_spec q h :
  wf_header h = true ->
  njs_header_match q h = Some (match split_first ":"%char h with Some nv => header_ok q nv | None => false end).
Proof.
  unfold wf_header, njs_header_match, split_on. norm. intros Hwf.
  destruct (split_on_l ":"%char [] (chars_of h)) as [|x [|y [|z l]]] eqn:Hs; simpl in Hwf; try discriminate.
  simpl. apply andb_true_iff in Hwf. destruct Hwf as [_ Hv]. apply negb_true_iff in Hv.
  destruct (split_two _ _ _ _ Hs) as [Hh [Hx _]].
  assert (Hsf : split_first ":"%char h = Some (string_of x, string_of y)).
  { rewrite <- (string_of_chars_of h), Hh. apply split_first_decomp. exact Hx. }
  rewrite Hsf. unfold header_ok. simpl.
  destruct (find (fun hv => seqb (lower (fst hv)) (lower (string_of x))) (q_headers q)) as [hv|] eqn:Hf; [|reflexivity].
  simpl. apply find_some in Hf. destruct Hf as [_ Hname]. rewrite Hname. simpl. rewrite orb_false_r.
  destruct (seqb (snd hv) "") eqn:He; [|reflexivity].
  apply seqb_eq in He. rewrite He. simpl.
  destruct (seqb (string_of y) "") eqn:Hy; [congruence|reflexivity].
Qed.

Lemma length_chars s : String.length s = List.length (chars_of s).
Proof. induction s as [|c s IH]; simpl; [reflexivity|rewrite IH; reflexivity]. Qed.

Lemma param_model_is_spec q p :
  wf_param p = true ->
  njs_param_match q p = Some (match split_first "="%char p with Some kv => query_ok q kv | None => false end).
Proof.
  unfold wf_param, njs_param_match, split_first. norm. intros Hwf.
  destruct (index_of_l "="%char (chars_of p) 0) as [i|] eqn:Hi; [|discriminate].
  apply andb_true_iff in Hwf. destruct Hwf as [Hk Hv]. apply negb_true_iff in Hk, Hv.
  destruct (index_of_decomp _ _ _ _ Hi) as [pre [rest [Hp [Hpre Hlen]]]]. simpl in Hlen. subst i.
  assert (Hpre_ne : pre <> []).
  { intros ->. simpl in Hk. discriminate. }
  assert (Hrest_ne : rest <> []).
  { intros ->. unfold drop in Hv. rewrite Hp, skipn_past in Hv. simpl in Hv. discriminate. }
  assert (H0 : Nat.eqb (List.length pre) 0 = false).
  { apply Nat.eqb_neq. destruct pre; [congruence|simpl; lia]. }
  assert (H1 : Nat.eqb (List.length pre) (String.length p - 1) = false).
  { apply Nat.eqb_neq. rewrite length_chars, Hp, app_length. simpl. destruct rest; [congruence|simpl; lia]. }
  rewrite H0, H1. simpl. unfold query_ok. simpl.
  destruct (find (fun kv => seqb (fst kv) (string_of (firstn (List.length pre) (chars_of p)))) (q_query q)) as [kv|] eqn:Hf; [|reflexivity].
  destruct (seqb (snd kv) "") eqn:He; [|reflexivity].
  apply seqb_eq in He. rewrite He.
  destruct (seqb "" (drop (S (List.length pre)) p)) eqn:Hd; [|reflexivity].
  apply seqb_eq in Hd. rewrite <- Hd in Hv. simpl in Hv. discriminate.
Qed.

(* ---------------------------------------------------------------- a match, a list of matches, the table *)

Lemma all_lazy_total {A} (f : A -> option bool) (g : A -> bool) l :
  (forall x, In x l -> f x = Some (g x)) -> all_lazy f l = Some (forallb g l).
Proof.
  induction l as [|x l IH]; intros H; simpl; [reflexivity|].
  rewrite (H x (or_introl eq_refl)). destruct (g x); simpl; [|reflexivity].
  apply IH. intros y Hy. apply H. right. exact Hy.
Qed.

Lemma test_model_is_spec q m : wf_match m = true -> njs_test q m = Some (spec_satisfies q m).
Proof.
  unfold wf_match, njs_test, spec_satisfies. intros Hwf.
  apply andb_true_iff in Hwf. destruct Hwf as [Hwf Hps]. apply andb_true_iff in Hwf. destruct Hwf as [Hwf Hhs].
  apply andb_true_iff in Hwf. destruct Hwf as [_ Hme].
  destruct (jm_any m); [reflexivity|]. simpl.
  rewrite (all_lazy_total (njs_header_match q)
            (fun h => match split_first ":"%char h with Some nv => header_ok q nv | None => false end) (jm_headers m)).
  2:{ intros h Hh. apply header_model_is_spec. rewrite forallb_forall in Hhs. apply Hhs. exact Hh. }
  rewrite (all_lazy_total (njs_param_match q)
            (fun p => match split_first "="%char p with Some kv => query_ok q kv | None => false end) (jm_params m)).
  2:{ intros p Hp. apply param_model_is_spec. rewrite forallb_forall in Hps. apply Hps. exact Hp. }
  clear Hhs Hps.
  destruct (jm_method m) as [me|].
  - apply negb_true_iff in Hme. rewrite Hme. simpl.
    destruct (seqb me (q_method q)); simpl; [|reflexivity].
    destruct (forallb _ (jm_headers m)); reflexivity.
  - simpl. destruct (forallb _ (jm_headers m)); reflexivity.
Qed.

Lemma find_model_is_spec q ms :
  forallb wf_match ms = true -> njs_find q ms = Some (find (spec_satisfies q) ms).
Proof.
  induction ms as [|m ms IH]; intros Hwf; simpl; [reflexivity|].
  simpl in Hwf. apply andb_true_iff in Hwf. destruct Hwf as [Hm Hms].
  rewrite (test_model_is_spec q m Hm). destruct (spec_satisfies q m); [reflexivity|apply IH; exact Hms].
Qed.

Theorem njs_module_picks_first_satisfied_match tbl k q k' m0 ms :
  k <> EmptyString -> find (fun e => seqb (fst e) k) tbl = Some (k', m0 :: ms) -> forallb wf_match (m0 :: ms) = true ->
  njs_redirect tbl (Some k) q =
    match find (spec_satisfies q) (m0 :: ms) with
    | Some m => match jm_redirect m with Some p => NjsRedirect p | None => NjsStatus 500 end
    | None => NjsStatus 404
    end.
Proof.
  intros Hk Hf Hwf. unfold njs_redirect. apply seqb_neq in Hk. rewrite Hk, Hf.
  rewrite (find_model_is_spec q (m0 :: ms) Hwf).
  destruct (find (spec_satisfies q) (m0 :: ms)) as [m|] eqn:Hfind; [|reflexivity].
  apply find_some in Hfind. destruct Hfind as [Hin _].
  rewrite forallb_forall in Hwf. specialize (Hwf m Hin). unfold wf_match in Hwf.
  apply andb_true_iff in Hwf. destruct Hwf as [Hwf _]. apply andb_true_iff in Hwf. destruct Hwf as [Hwf _].
  apply andb_true_iff in Hwf. destruct Hwf as [Hr _].
  destruct (jm_redirect m) as [p|]; [|discriminate]. apply negb_true_iff in Hr. rewrite Hr. reflexivity.
Qed.

(* the redirect path of a well-formed match is always there: the 500 branch above is never taken *)
Corollary njs_module_never_500_on_wellformed tbl k q k' m0 ms :
  k <> EmptyString -> find (fun e => seqb (fst e) k) tbl = Some (k', m0 :: ms) -> forallb wf_match (m0 :: ms) = true ->
  njs_redirect tbl (Some k) q <> NjsStatus 500.
Proof.
  intros Hk Hf Hwf. rewrite (njs_module_picks_first_satisfied_match tbl k q k' m0 ms Hk Hf Hwf).
  destruct (find (spec_satisfies q) (m0 :: ms)) as [m|] eqn:Hfind; [|discriminate].
  apply find_some in Hfind. destruct Hfind as [Hin _].
  rewrite forallb_forall in Hwf. specialize (Hwf m Hin). unfold wf_match in Hwf.
  apply andb_true_iff in Hwf. destruct Hwf as [Hwf _]. apply andb_true_iff in Hwf. destruct Hwf as [Hwf _].
  apply andb_true_iff in Hwf. destruct Hwf as [Hr _].
  destruct (jm_redirect m) as [p|]; discriminate.
Qed.
