(* C06 — property theorems only.  Cross-namespace references take effect only when a ReferenceGrant
   permits them.

   Vocabulary (C06.Proofs):
     permits g from to   the grant g lives in the target's namespace, one of its from entries names the
                         referrer's group, kind and namespace, one of its to entries names the target's
                         group ("core" = ""), kind and — when it has a name — the target's name
     granted gs from to  some grant of the store gs permits
     wf_grants gs        to.name, when present, is not empty (CRD: ObjectName minLength 1)
     backend_permitted gs k ns r   the backendRef r of a Route of kind k in namespace ns is local, or
                         granted gs (from_route k ns) (to_service target)
     secret_permitted gs gwns s    the Secret s is in the Gateway's namespace, or
                         granted gs (from_gateway gwns) (to_secret s)
     build w gs          the part of BuildGraph C06 is about, for world w and grant store gs
     route_pairs ri ro   the backendRefs of a Route paired with the internal BackendRefs built for them
   Quantifiers: all worlds (any referrers HTTPRoute / GRPCRoute / TLSRoute / Gateway listener, any
   targets, any namespaces and names), all grant stores (hence all near misses), all histories of store
   operations.  What ties [build] to the Go code is the correspondence run (C06.Check). *)
From Coq Require Import List String ZArith.
From NGF Require Import C06.Model C06.Check C06.Proofs.
Import ListNotations.

(* The resolver answers true exactly when some ReferenceGrant in the target's namespace names the
   referrer's group, kind and namespace and the target's group, kind and (when restricted) name. *)
Theorem C06_refallowed_spec :
  forall gs to from, wf_grants gs -> tr_group to = ""%string ->
  (ref_allowed (new_resolver gs) to from = true <-> granted gs from to).
Proof. exact refallowed_spec. Qed.

(* A backend of a Route is valid (receives traffic) only if it is local or granted to exactly this
   Route kind and namespace, and it is the Service that the backendRef names. *)
Theorem C06_backend_valid_only_if_granted :
  forall w gs i ri ro r o, wf_grants gs ->
  nth_error (w_routes w) i = Some ri -> nth_error (ob_routes (build w gs)) i = Some ro ->
  In (r, o) (route_pairs ri ro) -> bo_valid o = true ->
  backend_permitted gs (ri_kind ri) (ri_ns ri) r /\ bo_svc o = ref_target (ri_ns ri) r.
Proof. exact backend_valid_only_if_granted. Qed.

(* Without a grant the cross-namespace backend is invalid (answered with 500), no Service is recorded
   for it, and RefNotPermitted is among the Route's conditions when the ref designates a Service. *)
Theorem C06_backend_denied :
  forall w gs i ri ro r o, wf_grants gs ->
  nth_error (w_routes w) i = Some ri -> nth_error (ob_routes (build w gs)) i = Some ro ->
  ro_valid ro = true -> In (r, o) (route_pairs ri ro) ->
  ~ backend_permitted gs (ri_kind ri) (ri_ns ri) r ->
  bo_valid o = false /\ bo_svc o = empty_nsname /\
  (ref_shape_ok r = true -> In c_route_ref_not_permitted (ro_conds ro)).
Proof. exact backend_denied. Qed.

(* The grant is also sufficient: a well-formed, permitted backendRef to an existing Service port is valid. *)
Theorem C06_backend_granted_effective :
  forall w gs i ri ro r o p ports, wf_grants gs ->
  nth_error (w_routes w) i = Some ri -> nth_error (ob_routes (build w gs)) i = Some ro ->
  ro_valid ro = true -> In (r, o) (route_pairs ri ro) ->
  ref_shape_ok r = true -> backend_permitted gs (ri_kind ri) (ri_ns ri) r ->
  br_port r = Some p -> (forall w0, br_weight r = Some w0 -> weight_ok w0 = true) ->
  find_service (w_services w) (ref_target (ri_ns ri) r) = Some ports -> In p ports ->
  bo_valid o = true /\ bo_svc o = ref_target (ri_ns ri) r /\ bo_port o = p.
Proof. exact backend_granted_effective. Qed.

(* A listener serves a Secret only if it is the one its single certificateRef names and that Secret
   is local to the Gateway or granted to Gateways of the Gateway's namespace. *)
Theorem C06_secret_only_if_granted :
  forall w gs i li lo s, wf_grants gs ->
  nth_error (w_listeners w) i = Some li -> nth_error (ob_listeners (build w gs)) i = Some lo ->
  lo_secret lo = Some s ->
  (exists c, li_proto li = PHTTPS /\ li_certs li = [c] /\ s = cert_target (w_gw_ns w) c) /\
  secret_permitted gs (w_gw_ns w) s.
Proof. exact secret_only_if_granted. Qed.

(* Without a grant the HTTPS listener is not programmed (invalid, no Secret); its conditions are the
   RefNotPermitted ones when the certificateRefs are otherwise supported. *)
Theorem C06_secret_denied :
  forall w gs i li lo c, wf_grants gs ->
  nth_error (w_listeners w) i = Some li -> nth_error (ob_listeners (build w gs)) i = Some lo ->
  li_proto li = PHTTPS -> In c (li_certs li) ->
  ~ secret_permitted gs (w_gw_ns w) (cert_target (w_gw_ns w) c) ->
  lo_valid lo = false /\ lo_secret lo = None /\
  (cert_shape_ok (li_certs li) = true -> lo_conds lo = cs_listener_ref_not_permitted).
Proof. exact secret_denied. Qed.

(* Secrets and Services of other namespaces are tracked by the graph only under a grant. *)
Theorem C06_referenced_only_if_granted :
  forall w gs, wf_grants gs ->
  (forall s, In s (ob_ref_secrets (build w gs)) -> secret_permitted gs (w_gw_ns w) s) /\
  (forall s, In s (ob_ref_services (build w gs)) ->
     exists ri, In ri (w_routes w) /\
       (ns_of s = ri_ns ri \/ granted gs (from_route (ri_kind ri) (ri_ns ri)) (to_service s))).
Proof.
  intros w gs Hwf. split.
  - intros s. apply referenced_secrets_granted. exact Hwf.
  - intros s. apply referenced_services_granted. exact Hwf.
Qed.

(* The graph depends only on the SET of grants in the store: not on the (map) iteration order, not on
   duplicates, not on the order in which they were created. *)
Theorem C06_order_irrelevant :
  forall w gs1 gs2, (forall g, In g gs1 <-> In g gs2) -> build w gs1 = build w gs2.
Proof. exact build_order_irrelevant. Qed.

(* Revocation: after every reconciliation of any history of store operations the graph is the one of
   the store's content at that moment (so all statements above hold of it, whatever came before);
   a deleted grant is not in the store, an upsert replaces the grant of the same key. *)
Theorem C06_revocation :
  forall w store ops,
  List.length (reconcile w store ops) = List.length ops /\
  (forall k ob, nth_error (reconcile w store ops) k = Some ob ->
                ob = build w (apply_ops store (firstn (S k) ops))) /\
  (forall n g, In g (apply_op store (Delete n)) <-> In g store /\ grant_key g <> n) /\
  (forall g0 g, In g (apply_op store (Upsert g0)) <-> g = g0 \/ (In g store /\ grant_key g <> grant_key g0)).
Proof.
  intros w store ops. split; [apply reconcile_length|]. split; [apply reconcile_nth|].
  split; [intros n g; apply apply_op_delete_in|intros g0 g; apply apply_op_upsert_in].
Qed.

(* The oracle evaluated on the implementation's observations (C06.Check.oracle) holds of the model. *)
Theorem C06_oracle_sound :
  forall w gs, wf_grants gs -> oracle w gs (build w gs) = true.
Proof. exact oracle_sound. Qed.
