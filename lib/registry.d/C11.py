"""C11 check configuration."""


def setup(register, COMMON_TB):
    register(
        "C11", coq="C11", pkg="./internal/mode/static/nginx/file/", test="TestVerifC11",
        rule="histories = start-up cleanup, 2-4 generated file sets (<= 5 files, listeners/keys come and go, rare duplicate "
             "paths, type flips, unmanaged paths), optional restarts, over a pre-populated tree (bootstrap files, leftovers of a "
             "previous life incl. stale keys); per scenario the fault-free run, then single faults at every interface-call index "
             "of every event (a failing write with 0 / some / all bytes through), single fault + crash/restart, and double faults "
             "(sampled in quick); scenario size ramps with the index; non-trivial = at least one injected fault fired and a later "
             "ReplaceFiles succeeded; distinct = distinct (history, observed trees)",
        trusted_base=COMMON_TB + [
            "fault model (modelled, not verified): a failing Remove/Create/Chmod/ReadDir changes nothing, a failing Write leaves a "
            "prefix; os.Create truncates and keeps the mode of an existing file; f.Close() is not behind the OSFileManager "
            "interface and is assumed not to fail; a crash after an operation = effect-free failure of the next one + restart",
            "the fault-injecting, path-translating OSFileManager of the harness (temp directory instead of /etc/nginx) stands for the "
            "file system; paths are (filepath.Dir, filepath.Base) pairs; managed folders are flat (no sub-directories)",
            "ConfigFolders is read from internal/mode/static/nginx/config/generator.go by go/parser; the start-up order "
            "(ClearFolders before NewManagerImpl in internal/mode/static/manager.go) is checked textually, not proved",
            "the oracle's managed folders and bootstrap files are constants of coq/C11/Check.v (spec_folders, spec_bootstrap)",
        ],
        assumptions=[
            "one ReplaceFiles at a time (ManagerImpl is documented as not thread safe; the event loop serialises calls)",
            "nobody but the control plane writes into the managed folders after start-up cleanup",
        ],
        timeout={"quick": 600, "thorough": 7200},
    )
