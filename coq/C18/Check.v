(* C18 — correspondence checker and property oracle, evaluated on what the Go harness observed: the real provisioner
   handler over a fake API server, a history of event batches, and after every batch all Deployments and all
   GatewayClasses of the cluster (raw).

   [model_ok]: some variant of the model (D20 as found / repaired, D21 as it stands / carrying on), run with the
   iteration order that the observed Deployment ids reveal, produces the observed cluster after every batch
   (projected: Deployment name, "app" selector / template label, --gateway= and lock-name arguments; GatewayClass
   generation and (type, status, reason, observedGeneration) of its conditions as a set).
   [oracle_codes]: the property itself on the observations, computed from the raw history without the model. *)
From Coq Require Import List String Ascii ZArith NArith Bool Arith DecimalString DecimalN.
From NGF Require Export lib.CaseLib C18.Model.
Import ListNotations.
Local Open Scope string_scope.

Record odep := ODep { o_ns : string; o_name : string; o_sel : list (string * string);
                      o_lbl : list (string * string); o_args : list string }.
Record ocond := OCond { oc_type : string; oc_status : string; oc_reason : string; oc_gen : Z }.
Record ogc := OGc { g_name : string; g_gen : Z; g_conds : list ocond }.
Record snap := Snap { sn_panic : bool; sn_deps : list odep; sn_gcs : list ogc }.
Record case := Case { c_gc : string; c_sup : string; c_foreign : list (string * Z);
                      c_hist : list (list event); c_obs : list snap }.

(* ---------------------------------------------------------------- helpers *)

Fixpoint list_eqb {A} (eqb : A -> A -> bool) (a b : list A) : bool :=
  match a, b with
  | [], [] => true
  | x :: a', y :: b' => eqb x y && list_eqb eqb a' b'
  | _, _ => false
  end.

Fixpoint remove_first {B} (f : B -> bool) (l : list B) : option (list B) :=
  match l with
  | [] => None
  | y :: l' => if f y then Some l'
               else match remove_first f l' with Some r => Some (y :: r) | None => None end
  end.

(* xs and ys can be paired off one to one under m *)
Fixpoint perm_match {A B} (m : A -> B -> bool) (xs : list A) (ys : list B) : bool :=
  match xs with
  | [] => match ys with [] => true | _ => false end
  | x :: xs' => match remove_first (m x) ys with
                | Some ys' => perm_match m xs' ys'
                | None => false
                end
  end.

Definition opt_str_eqb (a b : option string) : bool :=
  match a, b with Some x, Some y => String.eqb x y | None, None => true | _, _ => false end.

(* arguments that name the Gateway to serve *)
Definition gw_args (d : odep) : list string :=
  filter (fun a => String.prefix "--gateway=" a || String.eqb a "--gateway") (o_args d).
Definition lock_args (d : odep) : list string :=
  filter (String.prefix "--leader-election-lock-name") (o_args d).

(* ---------------------------------------------------------------- correspondence with the model *)

Definition huge : N := 1000000000000%N.

Definition parse_id (name : string) : option N :=
  if String.prefix "nginx-gateway-" name
  then option_map N.of_uint (NilEmpty.uint_of_string (substring 14 (String.length name - 14) name))
  else None.

(* the order in which this batch's new Gateways received their ids, read off the observed Deployments *)
Definition rank_of (sn : snap) (k : key) : N :=
  match find (fun d => existsb (String.eqb (gateway_arg k)) (o_args d)) (sn_deps sn) with
  | Some d => match parse_id (o_name d) with Some n => n | None => huge end
  | None => huge
  end.

Definition dep_matches (d : dep) (o : odep) : bool :=
  String.eqb (o_name o) (dep_name (d_id d)) &&
  opt_str_eqb (aget String.eqb "app" (o_sel o)) (Some (dep_name (d_id d))) &&
  opt_str_eqb (aget String.eqb "app" (o_lbl o)) (Some (dep_name (d_id d))) &&
  list_eqb String.eqb (gw_args o) [gateway_arg (d_gw d)] &&
  list_eqb String.eqb (lock_args o) [lock_arg (d_gw d)].

Definition cond_matches (c : cond) (o : ocond) : bool :=
  String.eqb (oc_type o) (c_type c) && String.eqb (oc_status o) (if c_status c then "True" else "False") &&
  String.eqb (oc_reason o) (c_reason c) && Z.eqb (oc_gen o) (c_gen c).

Definition gc_matches (m : string * (Z * list cond)) (o : ogc) : bool :=
  String.eqb (g_name o) (fst m) && Z.eqb (g_gen o) (fst (snd m)) && perm_match cond_matches (snd (snd m)) (g_conds o).

Definition snap_matches (s : state) (sn : snap) : bool :=
  Bool.eqb (st_crashed s) (sn_panic sn) && perm_match dep_matches (cl_deps s) (sn_deps sn) &&
  perm_match gc_matches (cl_gcs s) (sn_gcs sn).

Fixpoint match_from (v : variants) (gc sup : string) (s : state) (h : list (list event)) (obs : list snap) : bool :=
  match h, obs with
  | [], [] => true
  | b :: h', sn :: obs' =>
      let s' := step v gc sup (rank_of sn) s b in
      if snap_matches s' sn then match_from v gc sup s' h' obs' else false
  | _, _ => false
  end.

Definition matches_variant (c : case) (v : variants) : bool :=
  match_from v (c_gc c) (c_sup c) (init (c_foreign c)) (c_hist c) (c_obs c).

(* the tree as it should be (D20 repaired, D21 as it stands) first; the other variants are behaviours whose
   property-relevance is decided by the oracle, not by the correspondence *)
Definition model_ok (c : case) : bool :=
  if matches_variant c (V false true) then true
  else if matches_variant c (V true true) then true
  else if matches_variant c (V false false) then true
  else matches_variant c (V true false).

(* ---------------------------------------------------------------- the property on the observations *)

(* [revs]: all events delivered so far, newest first *)
Fixpoint keys_of (evs : list event) : list key :=
  match evs with
  | [] => []
  | e :: evs' =>
      let ks := keys_of evs' in
      match e with
      | UpGW ns n _ | DelGW ns n => if existsb (key_eqb (ns, n)) ks then ks else (ns, n) :: ks
      | _ => ks
      end
  end.

Definition wanted (gc : string) (revs : list event) : list key :=
  filter (fun k => opt_str_eqb (gw_class revs k) (Some gc)) (keys_of revs).

Definition selects (sel lbl : list (string * string)) : bool :=
  forallb (fun p => opt_str_eqb (aget String.eqb (fst p) lbl) (Some (snd p))) sel.

Definition same_dep (a b : odep) : bool := String.eqb (o_ns a) (o_ns b) && String.eqb (o_name a) (o_name b).

Fixpoint distinct_deps (ds : list odep) : bool :=
  match ds with [] => true | d :: ds' => negb (existsb (same_dep d) ds') && distinct_deps ds' end.

(* exactly one Deployment per wanted Gateway and no other; configured for precisely that Gateway; names unique;
   every selector selects the pods of its own Deployment and of no other *)
Definition deps_ok (want : list key) (ds : list odep) : bool :=
  perm_match (fun k d => list_eqb String.eqb (gw_args d) [gateway_arg k]) want ds &&
  distinct_deps ds &&
  forallb (fun d => forallb (fun d' => Bool.eqb (selects (o_sel d) (o_lbl d')) (same_dep d d')) ds) ds.

Definition is_accepted_type (c : ocond) : bool := String.eqb (oc_type c) "Accepted".
Definition accepted_true (g : ogc) : bool :=
  existsb (fun c => is_accepted_type c && String.eqb (oc_status c) "True") (g_conds g).

(* Accepted=True exactly on the configured class (given supported CRD versions); never two Accepted conditions *)
Definition gcs_ok (gc sup : string) (revs : list event) (gs : list ogc) : bool :=
  forallb (fun g => Nat.leb (List.length (filter is_accepted_type (g_conds g))) 1 &&
                    Bool.eqb (accepted_true g)
                             (String.eqb (g_name g) gc && gc_present gc revs && negb (crd_unsupported sup revs))) gs.

(* ---- classes of the recorded findings (predicates on the input history) *)

(* D21: the configured GatewayClass is not (any more) among the delivered classes *)
Definition class_D21_now (gc : string) (revs : list event) : bool := negb (gc_present gc revs).

(* D20: Gateways that exist, name another class now, and named the configured class earlier *)
Definition stale_keys (gc : string) (revs : list event) : list key :=
  filter (fun k => match gw_class revs k with
                   | Some c => negb (String.eqb c gc) &&
                               existsb (fun e => match e with
                                                 | UpGW ns n c' => key_eqb k (ns, n) && String.eqb c' gc
                                                 | _ => false
                                                 end) revs
                   | None => false
                   end) (keys_of revs).

(* the only thing wrong: surplus Deployments that serve stale Gateways *)
Definition deps_ok_modulo_D20 (gc : string) (revs : list event) (ds : list odep) : bool :=
  match stale_keys gc revs with
  | [] => false
  | st => deps_ok (wanted gc revs)
            (filter (fun d => negb (existsb (fun k => list_eqb String.eqb (gw_args d) [gateway_arg k]) st)) ds)
  end.

Definition code_D20 := code_known 1.
Definition code_D21 := code_known 2.

Fixpoint oracle_from (gc sup : string) (revs : list event) (h : list (list event)) (obs : list snap) : list nat :=
  match h, obs with
  | b :: h', sn :: obs' =>
      let revs' := rev_append b revs in
      if sn_panic sn then (if class_D21_now gc revs' then [code_D21] else [code_violation])
      else if negb (gcs_ok gc sup revs' (sn_gcs sn)) then [code_violation]
      else if deps_ok (wanted gc revs') (sn_deps sn) then oracle_from gc sup revs' h' obs'
      else if deps_ok_modulo_D20 gc revs' (sn_deps sn) then [code_D20]
      else [code_violation]
  | _, _ => []
  end.

Definition oracle_codes (c : case) : list nat := oracle_from (c_gc c) (c_sup c) [] (c_hist c) (c_obs c).

Definition check_case (c : case) : list nat :=
  oracle_codes c ++ when (negb (model_ok c)) code_mismatch.
