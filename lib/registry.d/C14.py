"""C14 check configuration."""


def setup(register, COMMON_TB):
    register(
        "C14", coq="C14", coq_extra=["k8s", "ngx", "gen", "C04", "C17"], pkg="./internal/mode/static/", test="TestVerifC14",
        rule="generated cluster states with competing resources (second Gateway of the class with equal or different age, copies of Routes with the "
             "same matches and other backends, equal timestamps) are run through the real handler 4 (quick) or 8 (thorough) times with the events in "
             "different orders and batchings; Go re-randomises map iteration in each run; all runs must yield the same canonical configuration and the "
             "same (object, type, status, reason) of the conditions the final state makes the controller issue; non-trivial = at least 3 routes",
        trusted_base=COMMON_TB + [
            "canonicalisation of generated files (C17/Check.v files_equal: top-level blocks as multisets, match keys replaced by their match lists)",
            "statuses are wiped before a final forced rebuild, so that the compared conditions are those the final state makes the controller issue "
            "(statuses of objects that stopped being handled are never cleared: documented limitation, C01)",
            "that the common result is the oldest-then-name winner is checked by the C02/C07 oracles against k8s/Spec.v",
        ],
        assumptions=["namespaces are delivered before routes (finding D2 of C05 otherwise)"],
        timeout={"quick": 900, "thorough": 7200},
    )
