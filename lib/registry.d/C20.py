"""C20 check configuration."""


def setup(register, COMMON_TB):
    register(
        "C20", coq="C20", pkg="./cmd/gateway/", test="TestVerifC20",
        rule="strings per validator (validateEndpoint, validateEndpointOptionalPort via stringValidatingValue.Set, validateResourceName, "
             "validateNamespaceName, namespacedNameValue.Set, validateQualifiedName, validateGatewayControllerName, validateIP, "
             "intValidatingValue{validatePort}.Set): mostly-valid DNS names / IPv4 / IPv6 forms / ports biased to the boundaries "
             "(0, 1, 1023, 1024, 32767, 32768, 65535, 65536, 2^31, 2^63, 2^64, signs, leading zeros, 63/64-byte labels, 253/254-byte names, "
             "7/8/9 groups, '::' positions, embedded IPv4), one-byte near misses, random edits with separator and NGINX-special bytes, "
             "and a hostile stream; accepted endpoint/resolver pairs rendered into mgmt.conf by the real generator; whole command lines "
             "through the real static-mode cobra command. Sizes ramp with the case index. non-trivial = input longer than 3 bytes "
             "(validators) / a value was rendered (mgmt) / the command line got past flag parsing (static-mode); "
             "distinct = distinct (validator, input, observation)",
        trusted_base=COMMON_TB + [
            "modelled from source, tied by the differential run only: net.SplitHostPort, strconv.ParseInt, net.ParseIP/netip.ParseAddr (Go 1.23), "
            "k8s.io/apimachinery validation.IsDNS1123Subdomain/IsDNS1123Label/IsQualifiedName (v0.32.1, regular expressions modelled by their automaton), "
            "the controller-name regular expression, cobra/pflag required-flag and Set handling",
            "NGINX tokeniser (ngx_conf_read_token) modelled in C20/Model.v from the NGINX source; no NGINX binary in the sandbox; NGINX's own "
            "interpretation of the endpoint/resolver argument (port syntax, IPv6 brackets) is outside the model",
            "mgmt.conf: the template is transcribed in Model.render_mgmt and compared token-wise with the real generator output on every run; "
            "the wiring commands.go -> UsageReportConfig -> GeneratorImpl is by reading (StartManager cannot be intercepted); the harness passes "
            "the values stored by the real stringValidatingValue.Set to the real NewGeneratorImpl(...).Generate",
            "static-mode: 'would start' is observed as RunE reaching createGatewayPodConfig (POD_IP unset), i.e. after every validation and before static.StartManager",
        ],
        assumptions=[
            "documented = DNS-1123 subdomain (lower case) or dotted-quad IPv4 or RFC 4291 IPv6 text (bracketed in endpoints), port = canonical decimal 1..65535; "
            "resource name = DNS-1123 subdomain; namespace = DNS-1123 label; controller name = gateway.nginx.org/PATH",
            "safe = one bare NGINX token (bytes 33..126 except ; { } \" ' # $ \\) whose port, where the notation shows one, denotes a number in 1..65535 "
            "(the weaker reading: values NGINX itself may later refuse, such as host:+80, host: or an unbracketed IPv6 resolver, are not counted)",
            "documented=>accepted is proved for DNS/IPv4 hosts, bracketed IPv6 hosts and all ports; the portless unbracketed IPv6 value of the "
            "optional-port validator is checked by the oracle on generated addresses only (theorem C20_bare_host_accepted_partial)",
        ],
        timeout={"quick": 900, "thorough": 7200},
    )
