(* C03 — property theorems (being extended). *)
From Coq Require Import List String.
From NGF Require Import lib.Str.
Import ListNotations.

Theorem C03_string_roundtrip : forall s, string_of (chars_of s) = s.
Proof. exact string_of_chars_of. Qed.
