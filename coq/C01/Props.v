(* C01 — property theorems. The change processor is modelled generically (C01/Model.v); the theorems hold for
   every store, event type and graph builder that satisfy the frame condition, for every history and batching.
   PARTIAL: that the real BuildGraph with the real relevance predicates satisfies [frame] is not proved (there is
   no Coq model of BuildGraph); it is what the correspondence harness validates (long-lived vs fresh). *)
From Coq Require Import List.
From NGF Require Import C01.Model C01.Proofs.
Import ListNotations.

Theorem C01_processor_invariant :
  forall (St Ev G : Type) (build : St -> G) (upd : St -> Ev -> St) (relevant : G -> St -> Ev -> bool),
  (forall s e, relevant (build s) s e = false -> build (upd s e) = build s) ->
  forall s0 batches,
  let p := run St Ev G build upd relevant s0 batches in
  dirty St G p = false /\ latest St G p = build (store St G p) /\ store St G p = store_after St Ev upd s0 batches.
Proof. exact run_invariant. Qed.

Theorem C01_converge :
  forall (St Ev G : Type) (build : St -> G) (upd : St -> Ev -> St) (relevant : G -> St -> Ev -> bool),
  (forall s e, relevant (build s) s e = false -> build (upd s e) = build s) ->
  forall s0 batches1 batches2,
  store_after St Ev upd s0 batches1 = store_after St Ev upd s0 batches2 ->
  latest St G (run St Ev G build upd relevant s0 batches1) = latest St G (run St Ev G build upd relevant s0 batches2).
Proof. exact converge. Qed.

Theorem C01_batching_irrelevant :
  forall (St Ev G : Type) (build : St -> G) (upd : St -> Ev -> St) (relevant : G -> St -> Ev -> bool),
  (forall s e, relevant (build s) s e = false -> build (upd s e) = build s) ->
  forall s0 batches,
  latest St G (run St Ev G build upd relevant s0 batches) = latest St G (run St Ev G build upd relevant s0 [concat batches]).
Proof. exact batching_irrelevant. Qed.

(* ---- the frame condition above (an event judged irrelevant does not change what is built) is a hypothesis of the three theorems. For the
   specification's build - k8s/Spec.decide, the answer to every request, against which the generated configuration is compared per
   state - it is proved here for the two relevance criteria the change processor applies to the most frequent events (C01/Frame.v):
   Services (and with them EndpointSlices) matter only when a backendRef of a valid Route of the winning Gateway names them and the
   reference is permitted; Secrets only when a listener's certificateRef names them. Creation, update and deletion are all instances of
   "the list is replaced by one that says the same about the objects that are named". That the sets the code computes
   (graph.ReferencedServices / ReferencedSecrets) are these is what the C06 check compares on every run. *)
From NGF Require Import k8s.State k8s.Spec C01.Frame.

Theorem C01_a_change_to_unreferenced_services_changes_no_answer :
  forall cs l' q,
  (forall g r ru b, winning_gateway cs = Some g -> In r (c_routes cs) -> live_route g r = true ->
                    In ru (rt_rules r) -> In b (r_backends ru) -> tracked_agree cs l' r b) ->
  decide (with_services cs l') q = decide cs q.
Proof. exact unreferenced_services_change_no_answer. Qed.

Theorem C01_a_change_to_unreferenced_secrets_changes_no_answer :
  forall cs l' q, (forall g, listeners_agree cs l' g) -> decide (with_secrets cs l') q = decide cs q.
Proof. exact unreferenced_secrets_change_no_answer. Qed.

Theorem C01_a_change_to_namespaces_no_selector_notices_changes_no_answer :
  forall cs l' q, selectors_agree cs l' -> decide (with_namespaces cs l') q = decide cs q.
Proof. exact irrelevant_namespace_changes_change_no_answer. Qed.
