//go:build verif

package static

import (
	"context"
	"encoding/json"
	"fmt"
	"reflect"
	"sort"
	"strconv"
	"strings"
	"testing"

	apiv1 "k8s.io/api/core/v1"
	discoveryV1 "k8s.io/api/discovery/v1"
	metav1 "k8s.io/apimachinery/pkg/apis/meta/v1"
	"sigs.k8s.io/controller-runtime/pkg/client"
	"sigs.k8s.io/controller-runtime/pkg/event"
	k8spredicate "sigs.k8s.io/controller-runtime/pkg/predicate"
	gatewayv1 "sigs.k8s.io/gateway-api/apis/v1"
	"sigs.k8s.io/gateway-api/apis/v1alpha2"
	"sigs.k8s.io/gateway-api/apis/v1beta1"

	ngfAPIv1alpha1 "github.com/nginx/nginx-gateway-fabric/apis/v1alpha1"
	"github.com/nginx/nginx-gateway-fabric/internal/framework/events"
	"github.com/nginx/nginx-gateway-fabric/internal/framework/helpers"
	vu "github.com/nginx/nginx-gateway-fabric/internal/verifutil"
)

// C01: random histories of creations, updates and deletions over all watched kinds, filtered by the registered
// watch predicates, delivered to the REAL handler in random batchings with restarts; at the end the long-lived
// controller's last applied configuration and the statuses on the objects must be those a freshly started
// controller derives from the final cluster state.

// c01Filter: the event filter registered for the kind, rebuilt from the source of registerControllers on every run
// (zz_verif_watch_test.go).
func c01Filter(kind string) k8spredicate.Predicate { return vwFilter(kind) }

func c01Kind(o client.Object) string {
	k := fmt.Sprintf("%T", o)
	return k[strings.LastIndex(k, ".")+1:]
}

type c01World struct {
	// delivered: every event handed to the current incarnation (start-up listing included), as Coq terms
	// (deleted?, "<Go type>/<namespace>/<name>", generation), for the kinds the processor persists
	delivered []string
	w         *vpWorld // current incarnation of the controller
	k8s       client.WithWatch
	lastCfg   map[string]string // last file set handed to any incarnation's file manager
	restarts  int
}

func (cw *c01World) start() {
	// a new incarnation over the same cluster: the first batch is the listing of everything that exists
	nw := vpNewWorldOver(cw.k8s)
	cw.w = nw
	evs := vpBaseEvents()
	for _, o := range vpListAll(cw.k8s) {
		// the start-up listing reaches the handler as Create events through the registered watch predicates (a GatewayClass of
		// another controller, for one, is never delivered)
		if c01Filter(c01Kind(o)).Create(event.CreateEvent{Object: o}) {
			evs = append(evs, upsertOf(o))
		}
	}
	cw.delivered = nil
	cw.record(evs)
	nw.Batch(evs)
	cw.sync()
}

// record notes the events of a batch that concern persisted kinds.
func (cw *c01World) record(evs []interface{}) {
	for _, e := range evs {
		switch x := e.(type) {
		case *events.UpsertEvent:
			if cw.w.proc.VerifPersists(x.Resource) {
				cw.delivered = append(cw.delivered, vu.Tuple("false", vu.Str(c01Kind(x.Resource)+"/"+x.Resource.GetNamespace()+"/"+x.Resource.GetName()), vu.Z(x.Resource.GetGeneration())))
			}
		case *events.DeleteEvent:
			if cw.w.proc.VerifPersists(x.Type) {
				cw.delivered = append(cw.delivered, vu.Tuple("true", vu.Str(c01Kind(x.Type)+"/"+x.NamespacedName.Namespace+"/"+x.NamespacedName.Name), vu.Z(0)))
			}
		}
	}
}

// storeTerm prints the processor's cluster state as a sorted association list.
func (cw *c01World) storeTerm() string {
	st := cw.w.proc.VerifStore()
	keys := make([]string, 0, len(st))
	for k := range st {
		keys = append(keys, k)
	}
	sort.Strings(keys)
	var items []string
	for _, k := range keys {
		items = append(items, vu.Pair(vu.Str(k), vu.Z(st[k])))
	}
	return vu.List(items)
}

func (cw *c01World) sync() {
	if f := cw.w.Files(); f != nil {
		cw.lastCfg = f
	}
}

func c01Confs(files map[string]string) [][2]string {
	var out [][2]string
	for _, p := range vpSortedKeys(files) {
		if strings.HasSuffix(p, ".conf") && !strings.HasSuffix(p, "config-version.conf") {
			out = append(out, [2]string{p, files[p]})
		}
	}
	return out
}

// c01Slice builds an EndpointSlice of a Service.
func c01Slice(ns, svc, suffix string, ips []string, ready bool, gen int64) *discoveryV1.EndpointSlice {
	tcp := apiv1.ProtocolTCP
	s := &discoveryV1.EndpointSlice{ObjectMeta: metav1.ObjectMeta{Namespace: ns, Name: svc + "-" + suffix, Generation: gen,
		Labels: map[string]string{"kubernetes.io/service-name": svc}},
		AddressType: discoveryV1.AddressTypeIPv4,
		Ports:       []discoveryV1.EndpointPort{{Name: helpers.GetPointer("p80"), Port: helpers.GetPointer[int32](8080), Protocol: &tcp}}}
	for _, ip := range ips {
		s.Endpoints = append(s.Endpoints, discoveryV1.Endpoint{Addresses: []string{ip}, Conditions: discoveryV1.EndpointConditions{Ready: &ready}})
	}
	return s
}

func TestVerifC01(t *testing.T) {
	out := vu.Open("C01")
	out.ShardLen(8)
	c01Histories(out, vu.NewRng(out.Seed^0xC01), out.Count(150, 4000), false)
	out.Close("C01.Check", "")
}

// TestVerifC06Revoke: second part of the C06 check. Histories in which cross-namespace references (Route backends,
// listener certificates, TLSRoute backends) lose their ReferenceGrant late: the long-lived controller must end
// up exactly where a fresh one does (the effect of the grant is gone at the next reconciliation).
func TestVerifC06Revoke(t *testing.T) {
	out := vu.Open("C06")
	out.ShardLen(8)
	c01Histories(out, vu.NewRng(out.Seed^0xC06B), out.Count(60, 1500), true)
	out.Close("C01.Check", "")
}

// c01OwnershipOnly: when set, state B differs from state A only by ownership changes (third part of the C17 check)
var c01OwnershipOnly bool

// TestVerifC17Own: third part of the C17 check. Histories in which ownership changes and nothing else: a Gateway is
// handed over to (or taken from) another controller's class, the configured class changes hands, a Route is retargeted.
// The long-lived controller must end up where a fresh one does: in particular it stops configuring, and stops writing
// to, what is no longer its own.
func TestVerifC17Own(t *testing.T) {
	out := vu.Open("C17")
	out.ShardLen(8)
	c01OwnershipOnly = true
	defer func() { c01OwnershipOnly = false }()
	c01Histories(out, vu.NewRng(out.Seed^0xC170), out.Count(50, 1500), false)
	out.Close("C01.Check", "")
}

func c01Histories(out *vu.Out, rng *vu.Rng, n int, focusGrants bool) {
	ctx := context.Background()
	for i := 0; i < n; i++ {
		r := rng.Fork()
		size := (i * 6) / n
		seedA := r.Next()
		a := vsGen(vu.NewRng(seedA), size)
		b := vsGen(vu.NewRng(seedA), size) // same objects ...
		if focusGrants {
			// cross-namespace backends and certificates with grants in A; B only loses grants
			c01CrossNS(r, a)
			c01CrossNS(vu.NewRng(seedA+1), b)
			b = vsGen(vu.NewRng(seedA), size)
			c01CrossNS(vu.NewRng(seedA+1), b)
			a = vsGen(vu.NewRng(seedA), size)
			c01CrossNS(vu.NewRng(seedA+1), a)
			// a grant stays, goes away, or is edited in place so that it no longer names the referrer's namespace
			var keep []vsGrant
			for _, g := range b.Grants {
				switch r.Intn(3) {
				case 0:
					keep = append(keep, g)
				case 1:
					g.From = append([]vsGrantFrom(nil), g.From...)
					for k := range g.From {
						g.From[k].NS = "nowhere"
					}
					keep = append(keep, g)
				}
			}
			b.Grants = keep
		} else {
			c01Mutate(r, b) // ... some of them changed, removed or added
		}
		var flags []string
		// a listener that selects Route namespaces by label but is itself invalid (its certificate does not exist): it
		// still decides whether a Route is NotAllowedByListeners or attached to an invalid listener, so a label change
		// of the Route's Namespace alone changes the Route's status
		if !focusGrants && len(a.Gateways) > 0 && len(b.Gateways) > 0 && a.Gateways[0].Name == b.Gateways[0].Name && r.Chance(1, 3) {
			dir := r.Bool()
			valid := r.Chance(1, 3)
			for k, c := range []*vsCluster{a, b} {
				l := vsListener{Name: "l-sel", Port: 8444, Proto: "HTTPS", Cert: &vsCertRef{Name: "cert-missing"}, From: "Selector", Selector: [][2]string{{"sel", "y"}}}
				if valid {
					l.Proto, l.Cert, l.Port = "HTTP", nil, 8081
				}
				c.Gateways[0].Listeners = append(c.Gateways[0].Listeners, l)
				ns := vsNamespace{Name: "team-sel"}
				if (k == 0) == dir {
					ns.Labels = [][2]string{{"sel", "y"}}
				}
				c.Namespaces = append(c.Namespaces, ns)
				c.Routes = append(c.Routes, vsRoute{NS: "team-sel", Name: "r-sel", TS: 1,
					Parents: []vsParentRef{{NS: vsPtr(c.Gateways[0].NS), Name: c.Gateways[0].Name, Section: vsPtr("l-sel")}},
					Rules:   []vsRule{{Matches: []vsMatch{{Path: "/sel"}}, Backends: []vsBackend{{Name: "svc-a", Port: 80, Weight: 1}}}}})
			}
			flags = append(flags, "selector-listener-namespace-relabel")
		}
		// TLS passthrough: a TLSRoute whose backend lives in another namespace under a ReferenceGrant (C06 revocation)
		extraA, extraB := c01Extras(r, a, &flags)
		objsA := append(a.Objects(), extraA...)
		objsB := append(b.Objects(), extraB...)
		// TLS passthrough with a cross-namespace backend under a ReferenceGrant that is revoked (or not) in B
		if r.Chance(1, 2) || focusGrants {
			revoke := r.Bool() || focusGrants
			objsA = c01Passthrough(objsA, a.Gateways[0].NS, true)
			objsB = c01Passthrough(objsB, b.Gateways[0].NS, !revoke)
			if revoke {
				flags = append(flags, "grant-revoked-for-tlsroute")
			}
		}
		byKey := func(objs []client.Object) map[string]client.Object {
			m := map[string]client.Object{}
			for _, o := range objs {
				m[c05Key(o)] = o
			}
			return m
		}
		// Services whose update is easy to overlook for a port filter: two ports that share number and targetPort and
		// differ in protocol, one of which changes; a port that is only renamed (EndpointSlice ports are matched by name)
		if r.Chance(1, 3) {
			ns := a.Gateways[0].NS
			variant := r.Intn(2)
			mk := func(after bool) []client.Object {
				svc := &apiv1.Service{ObjectMeta: metav1.ObjectMeta{Namespace: ns, Name: "svc-odd"}, Spec: apiv1.ServiceSpec{IPFamilies: []apiv1.IPFamily{apiv1.IPv4Protocol}}}
				slicePort := "web"
				if variant == 0 {
					svc.Spec.Ports = []apiv1.ServicePort{{Name: "dns-udp", Port: 53, Protocol: apiv1.ProtocolUDP}, {Name: "dns-tcp", Port: 53, Protocol: apiv1.ProtocolTCP}}
					if after {
						svc.Spec.Ports[1] = apiv1.ServicePort{Name: "web", Port: 8080, Protocol: apiv1.ProtocolTCP}
					}
				} else {
					svc.Spec.Ports = []apiv1.ServicePort{{Name: "old", Port: 8080, Protocol: apiv1.ProtocolTCP}}
					if after {
						svc.Spec.Ports[0].Name = "web"
					}
				}
				tcp := apiv1.ProtocolTCP
				sl := &discoveryV1.EndpointSlice{ObjectMeta: metav1.ObjectMeta{Namespace: ns, Name: "svc-odd-x1", Generation: 1, Labels: map[string]string{"kubernetes.io/service-name": "svc-odd"}},
					AddressType: discoveryV1.AddressTypeIPv4, Ports: []discoveryV1.EndpointPort{{Name: &slicePort, Port: helpers.GetPointer[int32](9090), Protocol: &tcp}},
					Endpoints: []discoveryV1.Endpoint{{Addresses: []string{"10.2.2.2"}}}}
				rt := vsRoute{NS: ns, Name: "r-odd", TS: 1, Parents: []vsParentRef{{Name: "gw"}}, Rules: []vsRule{{Matches: []vsMatch{{Path: "/odd"}},
					Backends: []vsBackend{{Name: "svc-odd", Port: 8080, Weight: 1}}}}}
				return []client.Object{svc, sl, rt.obj()}
			}
			objsA = append(objsA, mk(false)...)
			objsB = append(objsB, mk(true)...)
			if variant == 1 {
				flags = append(flags, "service-port-rename")
			}
		}
		ma, mb := byKey(objsA), byKey(objsB)
		// ---- the history: ops on the cluster
		type op struct {
			del bool
			obj client.Object
			// touchTo > 0: no event; writes that change nothing the controller watches move the object's resourceVersion up to this number
			touchTo int
			// alone: the batch collected so far is handled first, so that this event starts a batch of its own
			alone bool
			// then: created right after the deletion of obj (a replacement of the object)
			then client.Object
		}
		var pre, ops []op
		for _, o := range objsA {
			if r.Chance(1, 2) {
				pre = append(pre, op{del: false, obj: o}) // exists before the controller starts
			} else {
				ops = append(ops, op{del: false, obj: o})
			}
		}
		var later []op
		for k, o := range mb {
			if old, ok := ma[k]; !ok || !reflect.DeepEqual(old, o) {
				// spec.controllerName of a GatewayClass is immutable: a class changes hands by being deleted and created again
				if oc, isClass := old.(*gatewayv1.GatewayClass); ok && isClass && oc.Spec.ControllerName != o.(*gatewayv1.GatewayClass).Spec.ControllerName {
					later = append(later, op{del: true, obj: old, then: o})
					continue
				}
				// some changed objects are replaced (deleted and created with the new content) instead of being updated; the
				// ClientSettingsPolicy of the history layer more often
				if ok && (r.Chance(1, 6) || (c01Kind(o) == "ClientSettingsPolicy" && r.Bool())) {
					later = append(later, op{del: true, obj: old, then: o})
					continue
				}
				later = append(later, op{del: false, obj: o})
			}
		}
		for k, o := range ma {
			if _, ok := mb[k]; !ok {
				later = append(later, op{del: true, obj: o})
			}
		}
		sort.Slice(later, func(x, y int) bool { return c05Key(later[x].obj) < c05Key(later[y].obj) })
		// an object edited twice in a row, its resourceVersion going from one digit to two between the edits (resourceVersions
		// are opaque: nothing may depend on how they compare)
		var twice []op
		for _, o := range later {
			if tw := c01Tweak(o.obj); tw != nil && !o.del && r.Chance(1, 3) {
				twice = append(twice, op{touchTo: 8, obj: o.obj}, op{obj: tw}, o)
			} else {
				twice = append(twice, o)
			}
		}
		later = twice
		r.Shuffle(len(ops), func(x, y int) { ops[x], ops[y] = ops[y], ops[x] })
		r.Shuffle(len(later), func(x, y int) { later[x], later[y] = later[y], later[x] })
		ops = append(ops, later...)
		// a few objects are deleted and created again, some updates repeat (no-op updates must be filtered)
		for k := 0; k < 3 && len(ops) > 0; k++ {
			o := ops[r.Intn(len(ops))]
			if !o.del {
				pos := r.Intn(len(ops) + 1)
				ops = append(ops[:pos:pos], append([]op{{del: true, obj: o.obj}, {del: false, obj: o.obj}}, ops[pos:]...)...)
			}
		}

		// in a third of the histories the endpoint changes come last: nothing that follows forces a rebuild
		if r.Chance(1, 3) {
			var head, tail []op
			for _, o := range ops {
				if c01Kind(o.obj) == "EndpointSlice" {
					tail = append(tail, o)
				} else {
					head = append(head, o)
				}
			}
			ops = append(head, tail...)
		}
		// in a quarter of the histories the last event of all is the deletion of an EndpointSlice, in a batch of its own: a delete
		// event carries the name only, and nothing that follows repairs a wrong relevance decision
		if !c01OwnershipOnly && r.Chance(1, 4) {
			for k := len(ops) - 1; k >= 0; k-- {
				if c01Kind(ops[k].obj) == "EndpointSlice" && ops[k].del {
					o := ops[k]
					o.alone = true
					ops = append(append(ops[:k:k], ops[k+1:]...), o)
					break
				}
			}
		}
		// ownership histories: in half of them the last event of all is a Gateway or GatewayClass update (nothing that
		// follows repairs a wrong relevance decision)
		if c01OwnershipOnly && r.Bool() {
			for k := len(ops) - 1; k >= 0; k-- {
				if kd := c01Kind(ops[k].obj); (kd == "Gateway" || kd == "GatewayClass") && !ops[k].del {
					o := ops[k]
					ops = append(append(ops[:k:k], ops[k+1:]...), o)
					break
				}
			}
		}
		cw := &c01World{}
		cw.k8s = vpNewCluster()
		gens := map[string]int64{}
		apply := func(o client.Object) (old, cur client.Object) {
			k := c05Key(o)
			cp := o.DeepCopyObject().(client.Object)
			prev := o.DeepCopyObject().(client.Object)
			if err := cw.k8s.Get(ctx, client.ObjectKeyFromObject(o), prev); err != nil {
				prev = nil
			}
			if prev != nil && (r.Chance(1, 5) || (c01Kind(o) == "ReferenceGrant" && r.Bool())) {
				// writes that change nothing the controller watches (another writer's status or annotation) move the
				// resourceVersion on: here up to 9, so that the update that follows takes it from one digit to two
				for k := 0; k < 10; k++ {
					cur := o.DeepCopyObject().(client.Object)
					if err := cw.k8s.Get(ctx, client.ObjectKeyFromObject(o), cur); err != nil {
						break
					}
					if n, err := strconv.Atoi(cur.GetResourceVersion()); err != nil || n >= 9 {
						break
					}
					if err := cw.k8s.Update(ctx, cur); err != nil {
						break
					}
				}
				_ = cw.k8s.Get(ctx, client.ObjectKeyFromObject(o), prev)
			}
			if prev != nil {
				// the API server bumps metadata.generation when the spec changes
				pc := prev.DeepCopyObject().(client.Object)
				pc.SetResourceVersion("")
				pc.SetGeneration(0)
				cc := cp.DeepCopyObject().(client.Object)
				cc.SetResourceVersion("")
				cc.SetGeneration(0)
				vpCopyStatus(pc, cc)
				if !reflect.DeepEqual(vpSpecOf(pc), vpSpecOf(cc)) {
					gens[k]++
				}
			} else {
				// an object created (again) starts at generation 1, whatever an earlier object of the name had reached
				gens[k] = 1
			}
			switch c01Kind(o) {
			case "Service", "Secret", "ConfigMap", "Namespace":
				// the API server does not maintain metadata.generation for these kinds
				cp.SetGeneration(0)
			default:
				cp.SetGeneration(gens[k])
			}
			tmpw := &vpWorld{k8s: cw.k8s}
			return prev, tmpw.Apply(cp).(*events.UpsertEvent).Resource
		}
		for _, o := range pre {
			apply(o.obj)
		}
		cw.start()
		// ---- deliver
		var batch []interface{}
		var humanOps []string
		flush := func() {
			if len(batch) > 0 {
				cw.record(batch)
				cw.w.Batch(batch)
				batch = nil
				cw.sync()
			}
		}
		// compare: the long-lived controller against a controller freshly started on a copy of the current cluster
		compare := func(final bool) {
			longFiles := c01Confs(cw.lastCfg)
			longMatches := vsMatchTableCoq(cw.lastCfg["/etc/nginx/conf.d/matches.json"])
			longConds := vpAllConditions(cw.w)
			fresh := &c01World{k8s: vpCloneCluster(cw.k8s)}
			fresh.start()
			freshFiles := c01Confs(fresh.lastCfg)
			freshMatches := vsMatchTableCoq(fresh.lastCfg["/etc/nginx/conf.d/matches.json"])
			freshConds := vpAllConditions(fresh.w)
			// statuses: compare on the objects the fresh controller wrote
			wrote := map[string]bool{}
			for _, c := range freshConds {
				wrote[strings.SplitN(c, "|", 2)[0]] = true
			}
			var longRel []string
			for _, c := range longConds {
				if wrote[strings.SplitN(c, "|", 2)[0]] {
					longRel = append(longRel, c)
				}
			}
			// the abstract state serves the classes of recorded findings only; at a checkpoint the cluster holds objects
			// of both end states, so the Routes of both are listed
			abs := b
			if !final {
				u := *b
				u.Routes = append(append([]vsRoute(nil), a.Routes...), b.Routes...)
				abs = &u
			}
			hops := append([]string(nil), humanOps...)
			cflags := append([]string(nil), flags...)
			if c01MixedPaths(cw.k8s) {
				// class of finding D33, decided on the objects actually in the cluster (the abstract state does not hold the
				// scenario objects, and at a checkpoint it is only an approximation): some HTTPRoute and some GRPCRoute share a path
				cflags = append(cflags, "http-and-grpc-route-share-a-path")
			}
			term := vu.App("Case", abs.Coq(), c04Texts(longFiles), longMatches, c04Texts(freshFiles), freshMatches,
				vu.StrList(longRel), vu.StrList(freshConds), vu.StrList(cflags), vu.List(cw.delivered), cw.storeTerm())
			human := map[string]any{"history": hops, "restarts": cw.restarts, "flags": cflags, "long_conds": longRel, "fresh_conds": freshConds,
				"long_files": longFiles, "fresh_files": freshFiles, "compared": map[bool]string{true: "at the end", false: "at a checkpoint"}[final]}
			if strings.Join(longRel, "\n") != strings.Join(freshConds, "\n") {
				// for the replay of a difference: what is in the cluster (specs and statuses as the long-lived controller left them)
				var dump []string
				for _, o := range vpListAll(cw.k8s) {
					b, _ := json.Marshal(o)
					dump = append(dump, c05Key(o)+" "+string(b))
				}
				human["cluster_objects"] = dump
				human["delivered_to_current_incarnation"] = cw.delivered
			}
			out.Case(term, human, len(hops) >= 15, strings.Join(hops, ";"))
			out.Tally("compared", map[bool]string{true: "end", false: "checkpoint"}[final])
		}
		checkpoints := 0
		for _, o := range ops {
			kind := c01Kind(o.obj)
			f := c01Filter(kind)
			if o.alone {
				flush()
				humanOps = append(humanOps, "--- batch boundary")
			}
			upsert := func(obj client.Object) {
				old, cur := apply(obj)
				deliver := false
				if old == nil {
					deliver = f.Create(event.CreateEvent{Object: cur})
				} else {
					deliver = f.Update(event.UpdateEvent{ObjectOld: old, ObjectNew: cur})
				}
				if deliver {
					batch = append(batch, upsertOf(cur))
					humanOps = append(humanOps, "upsert "+c05Key(obj))
				} else {
					humanOps = append(humanOps, "(filtered) upsert "+c05Key(obj))
				}
			}
			if o.touchTo > 0 {
				for k := 0; k < 12; k++ {
					cur := o.obj.DeepCopyObject().(client.Object)
					if err := cw.k8s.Get(ctx, client.ObjectKeyFromObject(o.obj), cur); err != nil {
						break
					}
					if n, err := strconv.Atoi(cur.GetResourceVersion()); err != nil || n >= o.touchTo {
						break
					}
					if err := cw.k8s.Update(ctx, cur); err != nil {
						break
					}
				}
				continue
			}
			if o.del {
				cur := o.obj.DeepCopyObject().(client.Object)
				if err := cw.k8s.Get(ctx, client.ObjectKeyFromObject(o.obj), cur); err != nil {
					continue
				}
				_ = cw.k8s.Delete(ctx, cur)
				if f.Delete(event.DeleteEvent{Object: cur}) {
					batch = append(batch, &events.DeleteEvent{Type: vpBareType(o.obj), NamespacedName: client.ObjectKeyFromObject(o.obj)})
					humanOps = append(humanOps, "delete "+c05Key(o.obj))
					if kind == "EndpointSlice" {
						flags = append(flags, "endpointslice-delete")
					}
				}
				if o.then != nil {
					upsert(o.then)
				}
			} else {
				upsert(o.obj)
			}
			if r.Chance(1, 4) {
				flush()
				humanOps = append(humanOps, "--- batch boundary")
				// the queue has drained: the property must hold here too
				if checkpoints < 2 && r.Chance(1, 4) {
					checkpoints++
					compare(false)
				}
			}
			if r.Chance(1, 25) {
				flush()
				cw.restarts++
				cw.start()
				humanOps = append(humanOps, "=== restart")
			}
		}
		flush()
		compare(true)
		out.Tally("ops", strconv.Itoa(len(humanOps)/10*10))
		out.Tally("restarts", strconv.Itoa(cw.restarts))
	}
}

// c01CrossNS makes every route use a backend in another namespace and grants it.
func c01CrossNS(r *vu.Rng, c *vsCluster) {
	for i := range c.Routes {
		rt := &c.Routes[i]
		other := "team-b"
		if rt.NS == other {
			other = "team-a"
		}
		kind := "HTTPRoute"
		if rt.GRPC {
			kind = "GRPCRoute"
		}
		for j := range rt.Rules {
			for k := range rt.Rules[j].Backends {
				if r.Chance(1, 2) {
					rt.Rules[j].Backends[k].NS = vsPtr(other)
				}
			}
		}
		c.Grants = append(c.Grants, vsGrant{NS: other, Name: "xg-" + rt.Name, From: []vsGrantFrom{{Group: "gateway.networking.k8s.io", Kind: kind, NS: rt.NS}},
			To: []vsGrantTo{{Group: "", Kind: "Service"}}})
	}
}

// c01Mutate changes a copy of the state: some objects go, some change, some appear.
func c01Mutate(r *vu.Rng, c *vsCluster) {
	if c01OwnershipOnly {
		c01MutateOwnership(r, c, 2)
		return
	}
	if len(c.Routes) > 1 && r.Chance(1, 2) {
		k := r.Intn(len(c.Routes))
		c.Routes = append(c.Routes[:k:k], c.Routes[k+1:]...)
	}
	for i := range c.Routes {
		if r.Chance(1, 3) && len(c.Routes[i].Rules) > 0 {
			ru := &c.Routes[i].Rules[r.Intn(len(c.Routes[i].Rules))]
			if len(ru.Backends) > 0 {
				ru.Backends[0].Name = vsPick(r, vsSvcPool)
				ru.Backends[0].Weight = int32(1 + r.Intn(5))
			}
		}
		if r.Chance(1, 5) {
			c.Routes[i].Hosts = []string{vsPick(r, vsHostPool)}
		}
	}
	if r.Chance(1, 2) && len(c.Services) > 1 {
		k := r.Intn(len(c.Services))
		c.Services = append(c.Services[:k:k], c.Services[k+1:]...)
	}
	for i := range c.Services {
		if r.Chance(1, 6) {
			c.Services[i].Ports = []int32{80, 8080}
		}
	}
	if r.Chance(1, 2) && len(c.Secrets) > 0 {
		k := r.Intn(len(c.Secrets))
		if r.Bool() {
			c.Secrets[k].OK = !c.Secrets[k].OK
		} else {
			c.Secrets = append(c.Secrets[:k:k], c.Secrets[k+1:]...)
		}
	}
	if r.Chance(1, 2) && len(c.Grants) > 0 {
		k := r.Intn(len(c.Grants))
		c.Grants = append(c.Grants[:k:k], c.Grants[k+1:]...)
	}
	for i := range c.Namespaces {
		if r.Chance(1, 4) {
			if len(c.Namespaces[i].Labels) > 0 {
				c.Namespaces[i].Labels = nil
			} else {
				c.Namespaces[i].Labels = [][2]string{{"team", "x"}}
			}
		}
	}
	for gi := range c.Gateways {
		if r.Chance(1, 4) && len(c.Gateways[gi].Listeners) > 0 {
			l := &c.Gateways[gi].Listeners[r.Intn(len(c.Gateways[gi].Listeners))]
			l.Host = vsPtr(vsPick(r, vsHostPool))
		}
	}
	c01MutateOwnership(r, c, 1)
	if r.Chance(1, 3) && len(c.ConfigMaps) > 0 {
		c.ConfigMaps[0].OK = !c.ConfigMaps[0].OK
	}
	if r.Chance(1, 3) && len(c.BTPs) > 0 {
		c.BTPs = c.BTPs[1:]
	}
}

// c01Passthrough adds a TLS passthrough listener to the first Gateway, a TLSRoute with a backend in namespace team-b
// and (optionally) the ReferenceGrant that permits it.
func c01Passthrough(objs []client.Object, gwNS string, withGrant bool) []client.Object {
	pass := gatewayv1.TLSModePassthrough
	all := gatewayv1.NamespacesFromAll
	for _, o := range objs {
		if gw, ok := o.(*gatewayv1.Gateway); ok && gw.Name == "gw" {
			gw.Spec.Listeners = append(gw.Spec.Listeners, gatewayv1.Listener{Name: "tls-pass", Port: 9443, Protocol: gatewayv1.TLSProtocolType,
				Hostname: helpers.GetPointer[gatewayv1.Hostname]("tls.example.com"), TLS: &gatewayv1.GatewayTLSConfig{Mode: &pass},
				AllowedRoutes: &gatewayv1.AllowedRoutes{Namespaces: &gatewayv1.RouteNamespaces{From: &all}}})
		}
	}
	backendNS := "team-b"
	if gwNS == backendNS {
		backendNS = "team-a"
	}
	objs = append(objs, &v1alpha2.TLSRoute{ObjectMeta: metav1.ObjectMeta{Namespace: gwNS, Name: "tlsr", CreationTimestamp: vsTime(1)},
		Spec: v1alpha2.TLSRouteSpec{CommonRouteSpec: v1alpha2.CommonRouteSpec{ParentRefs: []gatewayv1.ParentReference{{Name: "gw", SectionName: helpers.GetPointer[gatewayv1.SectionName]("tls-pass")}}},
			Hostnames: []v1alpha2.Hostname{"tls.example.com"},
			Rules:     []v1alpha2.TLSRouteRule{{BackendRefs: []v1alpha2.BackendRef{vsBackendObj(vsBackend{NS: &backendNS, Name: "svc-tls", Port: 443, Weight: 1})}}}}})
	objs = append(objs, &apiv1.Service{ObjectMeta: metav1.ObjectMeta{Namespace: backendNS, Name: "svc-tls"},
		Spec: apiv1.ServiceSpec{IPFamilies: []apiv1.IPFamily{apiv1.IPv4Protocol}, Ports: []apiv1.ServicePort{{Name: "p80", Port: 443}}}})
	objs = append(objs, c01Slice(backendNS, "svc-tls", "x1", []string{"10.1.1.1"}, true, 1))
	if withGrant {
		objs = append(objs, vsGrant{NS: backendNS, Name: "grant-tls", From: []vsGrantFrom{{Group: "gateway.networking.k8s.io", Kind: "TLSRoute", NS: gwNS}},
			To: []vsGrantTo{{Group: "", Kind: "Service"}}}.obj())
	}
	return objs
}

// c01Extras: typed objects outside the abstract state: EndpointSlices of the services, a TLS passthrough listener
// gateway is not added (the abstract state has none); a TLSRoute with a cross-namespace backend and its grant.
func c01Extras(r *vu.Rng, a *vsCluster, flags *[]string) (before, after []client.Object) {
	for _, s := range a.Services {
		if r.Chance(2, 3) {
			sl := c01Slice(s.NS, s.Name, "x1", []string{"10.0." + strconv.Itoa(r.Intn(3)) + ".1", "10.0.9.2"}, true, 1)
			before = append(before, sl)
			switch r.Intn(4) {
			case 0: // unchanged
				after = append(after, sl)
			case 1: // endpoints change
				after = append(after, c01Slice(s.NS, s.Name, "x1", []string{"10.0.7.7"}, true, 2))
			case 2: // becomes unready
				after = append(after, c01Slice(s.NS, s.Name, "x1", []string{"10.0.9.2"}, false, 2))
			case 3: // deleted (a second slice stays)
				after = append(after, c01Slice(s.NS, s.Name, "x2", []string{"10.0.8.8"}, true, 1))
				before = append(before, c01Slice(s.NS, s.Name, "x2", []string{"10.0.8.8"}, true, 1))
			}
		}
	}
	// a ClientSettingsPolicy on the first Gateway whose body size is a size NGINX takes, or not (a value a CRD of another
	// version may let through: the controller's own validation decides), before and after
	if len(a.Gateways) > 0 && r.Chance(1, 3) {
		mk := func(size string) client.Object {
			return &ngfAPIv1alpha1.ClientSettingsPolicy{ObjectMeta: metav1.ObjectMeta{Namespace: a.Gateways[0].NS, Name: "csp-hist"},
				Spec: ngfAPIv1alpha1.ClientSettingsPolicySpec{
					TargetRef: v1alpha2.LocalPolicyTargetReference{Group: gatewayv1.GroupName, Kind: "Gateway", Name: gatewayv1.ObjectName(a.Gateways[0].Name)},
					Body:      &ngfAPIv1alpha1.ClientBody{MaxSize: helpers.GetPointer(ngfAPIv1alpha1.Size(size))}}}
		}
		sizes := []string{"10m", "512k", "10 m;", "1q"}
		x, y := sizes[r.Intn(4)], sizes[r.Intn(4)]
		before = append(before, mk(x))
		if r.Chance(5, 6) {
			after = append(after, mk(y))
		}
		*flags = append(*flags, "client-settings-policy")
	}
	return before, after
}

func vpSpecOf(o client.Object) any {
	switch x := o.(type) {
	case *gatewayv1.GatewayClass:
		return x.Spec
	case *gatewayv1.Gateway:
		return x.Spec
	case *gatewayv1.HTTPRoute:
		return x.Spec
	case *gatewayv1.GRPCRoute:
		return x.Spec
	case *v1alpha2.TLSRoute:
		return x.Spec
	case *apiv1.Service:
		return x.Spec
	case *apiv1.Secret:
		return []any{x.Data, x.Type}
	case *apiv1.ConfigMap:
		return []any{x.Data, x.BinaryData}
	case *apiv1.Namespace:
		return x.Labels
	case *discoveryV1.EndpointSlice:
		return []any{x.Endpoints, x.Ports, x.AddressType, x.Labels}
	}
	cp := o.DeepCopyObject().(client.Object)
	cp.SetManagedFields(nil)
	return cp
}

// c01MutateOwnership: a Gateway handed over to (or taken from) another controller's class, the configured class itself
// changing hands, a Route retargeted to another Gateway or listener. boost multiplies the probabilities.
func c01MutateOwnership(r *vu.Rng, c *vsCluster, boost int) {
	for gi := range c.Gateways {
		if r.Chance(boost, 5) {
			if c.Gateways[gi].Class == vpClassName {
				c.Gateways[gi].Class = "foreign"
			} else {
				c.Gateways[gi].Class = vpClassName
			}
		}
	}
	if r.Chance(boost, 10) && len(c.Classes) > 0 && c.Classes[0].Name == vpClassName {
		if c.Classes[0].Controller == vpCtlrName {
			c.Classes[0].Controller = "example.com/other"
		} else {
			c.Classes[0].Controller = vpCtlrName
		}
	}
	for i := range c.Routes {
		if r.Chance(boost, 6) && len(c.Routes[i].Parents) > 0 && len(c.Gateways) > 0 {
			p := &c.Routes[i].Parents[0]
			g := c.Gateways[r.Intn(len(c.Gateways))]
			p.Name, p.NS = g.Name, vsPtr(g.NS)
			p.Section = nil
			if len(g.Listeners) > 0 && r.Bool() {
				p.Section = vsPtr(g.Listeners[r.Intn(len(g.Listeners))].Name)
			}
		}
	}
}

// c01MixedPaths: does some HTTPRoute share a match path with some GRPCRoute (whatever their hostnames and parents)?
func c01MixedPaths(k8s client.Client) bool {
	ctx := context.Background()
	paths := map[string]bool{}
	var hrs gatewayv1.HTTPRouteList
	_ = k8s.List(ctx, &hrs)
	for _, r := range hrs.Items {
		for _, ru := range r.Spec.Rules {
			if len(ru.Matches) == 0 {
				paths["/"] = true
			}
			for _, m := range ru.Matches {
				if m.Path != nil && m.Path.Value != nil {
					paths[*m.Path.Value] = true
				} else {
					paths["/"] = true
				}
			}
		}
	}
	var grs gatewayv1.GRPCRouteList
	_ = k8s.List(ctx, &grs)
	for _, r := range grs.Items {
		for _, ru := range r.Spec.Rules {
			if len(ru.Matches) == 0 && paths["/"] {
				return true
			}
			for _, m := range ru.Matches {
				p := "/"
				if m.Method != nil && m.Method.Service != nil {
					p = "/" + *m.Method.Service
					if m.Method.Method != nil {
						p += "/" + *m.Method.Method
					}
				}
				if paths[p] {
					return true
				}
			}
		}
	}
	return false
}

// c01Tweak returns a variant of the object whose spec differs harmlessly (an intermediate edit), or nil for kinds it does not handle.
func c01Tweak(o client.Object) client.Object {
	switch x := o.(type) {
	case *v1beta1.ReferenceGrant:
		c := x.DeepCopy()
		c.Spec.To = append(c.Spec.To, v1beta1.ReferenceGrantTo{Group: "", Kind: "Secret", Name: helpers.GetPointer(gatewayv1.ObjectName("c01-tweak"))})
		return c
	case *gatewayv1.HTTPRoute:
		c := x.DeepCopy()
		c.Spec.Hostnames = append(c.Spec.Hostnames, "tweak.example.com")
		return c
	}
	return nil
}
