(* C12 — property theorems only.  "A reload is reported successful only if NGINX really runs that version."

   Quantifiers: every behaviour of the outside world during a Reload (any lists of poll answers: pid file
   missing / late / garbled / unreadable, HUP failing, workers not respawned, stale or erroring version
   endpoint; a list that runs out is the deadline), every trace of the modelled NGINX master, every batch
   sequence with every combination of write / reload / Plus-API failures.  Model: C12/Model.v;
   declarative specifications: C12/Spec.v; tie to the Go code: C12/Check.v + the harness. *)
From Coq Require Import List ZArith String Bool Sorted.
From NGF Require Import C12.Model C12.Spec C12.Proofs C12.Compose.
Import ListNotations.
Local Open Scope Z_scope.

(* Reload(v) returns nil only on this evidence: the pid file appeared and names a process, that process
   was sent SIGHUP successfully, its children file was read before and differed afterwards (new workers),
   and the version endpoint, after answers with other versions and no error, answered exactly v. *)
Theorem C12_reload_ok_evidence :
  forall e v, o_res (reload e v) = Ok -> evidence e v (reload e v).
Proof. exact reload_ok_evidence. Qed.

(* Every failure to find, signal or verify is surfaced: under any of the listed misbehaviours Reload
   does not report success; and a garbled pid file leads to no signal at all. *)
Theorem C12_reload_fault_surfaced :
  forall e v, fault e v -> o_res (reload e v) <> Ok.
Proof. exact reload_fault_not_ok. Qed.

Theorem C12_garbled_pid_no_signal :
  forall e v c, e_pidfile e = RdOk c -> atoi (trim_space c) = None ->
  o_kill (reload e v) = None /\ is_ok (o_res (reload e v)) = false.
Proof. exact reload_garbled_pid_no_signal. Qed.

(* Truth of a reported success: if NGINX behaved like the transition system while Reload(v) ran (one HUP,
   ours; a worker answers with the version of its own configuration) and version v was not in use
   before, then at return the master runs version v. *)
Theorem C12_truth :
  forall e v ng tr ng',
    nrun ng tr ng' -> trace_fits e (reload e v) tr ->
    ~ In v (ng_loaded ng :: ng_alive ng) ->
    o_res (reload e v) = Ok -> ng_loaded ng' = v.
Proof. exact reload_truth. Qed.

(* Versions leaving the handler are strictly increasing over any batch sequence (all change types, all
   failures), what is written is what was built, and what NGINX is asked to verify is what was written. *)
Theorem C12_versions_strict :
  forall plus s bs,
    StronglySorted Z.lt (versions_of (snd (hrun plus s bs))) /\
    Forall (fun v => h_version s < v) (versions_of (snd (hrun plus s bs))) /\
    Forall (fun o => (forall v, ho_written o = Some v -> ho_built o = Some v) /\
                     (forall v, ho_reloaded o = Some v -> ho_written o = Some v))
           (snd (hrun plus s bs)).
Proof. exact versions_strict. Qed.

(* Any failure (write, reload, Plus API) in a batch that applies a configuration: the statuses of that
   batch are built with the not-programmed mark, latestReloadResult holds the error, readiness is unchanged
   (an unready pod stays unready). *)
Theorem C12_surfaced :
  forall plus s b f, applies b = true -> apply_conf plus b = Some f ->
    let '(s', o) := hstep plus s b in
    ho_status o = Some true /\ h_lasterr s' = true /\ h_ready s' = h_ready s /\ ho_ready o = h_ready s.
Proof. exact hstep_surfaced. Qed.

(* Conversely statuses are built without the mark only if every stage of that batch succeeded; if a reload
   was involved it was asked to verify exactly the version that was written. *)
Theorem C12_status_honest :
  forall plus s b,
    ho_status (snd (hstep plus s b)) = Some false ->
    applies b = true /\ apply_conf plus b = None /\
    (forall v, ho_reloaded (snd (hstep plus s b)) = Some v ->
               v = h_version s + 1 /\ ho_written (snd (hstep plus s b)) = Some v /\
               b_write_ok b = true /\ b_reload_ok b = true).
Proof. exact hstep_honest. Qed.

(* Gateway statuses issued for an NGF Service event carry the mark iff the most recent apply failed. *)
Theorem C12_service_status_truth :
  forall plus pre b flag,
    ho_svc (snd (hstep plus (fst (hrun plus hinit pre)) b)) = Some flag ->
    (flag = true <-> last_apply_failed plus pre).
Proof. exact svc_status_truth. Qed.

(* Readiness: after any history the pod is ready iff some batch applied a configuration successfully or
   some batch needed none while nothing had failed before it; once ready it stays ready. *)
Theorem C12_ready_latch :
  forall plus bs,
    (h_ready (fst (hrun plus hinit bs)) = true <-> ready_spec plus bs) /\
    (forall more, h_ready (fst (hrun plus hinit bs)) = true ->
                  h_ready (fst (hrun plus hinit (bs ++ more))) = true).
Proof. exact ready_latch. Qed.

(* Handler and NGINX together, within one control-plane lifetime (every version alive in NGINX at start is
   <= 0 — the stated hypothesis about restarts; every configuration the master loads was put on disk by
   this control plane): whenever a batch that reloaded NGINX issues statuses without the not-programmed
   mark, the NGINX master runs exactly that batch's version.  Freshness of the version is not assumed
   here: it follows from C12_versions_strict. *)
Theorem C12_system_truth :
  forall plus ng0 sbs outs,
    sys_run plus hinit ng0 sbs outs ->
    ng_loaded ng0 <= 0 -> Forall (fun n => n <= 0) (ng_alive ng0) ->
    Forall (fun p => forall v, ho_status (fst p) = Some false -> ho_reloaded (fst p) = Some v ->
                               ng_loaded (snd p) = v) outs.
Proof. intros plus ng0 sbs outs H H1 H2. exact (system_truth_gen plus hinit ng0 sbs outs H H1 H2). Qed.

(* With the file manager of C11 as the write stage (the flag of the batch is what the replacement of the generated file set answers,
   after ANY history of earlier replacements, faults, crashes and restarts): statuses without the failure mark after a reload mean
   that the reload verified the version that was written and that the managed folders hold exactly the generated file set. *)
Theorem C12_unmarked_statuses_mean_files_on_disk :
  forall plus s b (w : F.world) (d0 : F.disk) (h : list F.event) (fs : list F.file) (os : list F.outcome),
    let fm := F.run true w (F.boot d0) h in
    write_stage_is w fm fs os b ->
    ho_status (snd (hstep plus s b)) = Some false ->
    forall v, ho_reloaded (snd (hstep plus s b)) = Some v ->
      ho_written (snd (hstep plus s b)) = Some v /\
      F.exactly w (F.disk_of fm) (F.disk_of (fst (F.step true w fm (F.Replace fs os)))) fs.
Proof. exact unmarked_statuses_mean_files_on_disk. Qed.
