//go:build verif

package config

import (
	"strconv"
	"strings"
	"testing"

	"github.com/nginx/nginx-gateway-fabric/internal/framework/helpers"
	"github.com/nginx/nginx-gateway-fabric/internal/mode/static/nginx/config/http"
	"github.com/nginx/nginx-gateway-fabric/internal/mode/static/state/dataplane"
	vu "github.com/nginx/nginx-gateway-fabric/internal/verifutil"
)

// TestVerifC02RewriteLoc: sixth part of the C02 check. The real updateLocation for a match rule with a URLRewrite or a
// RequestRedirect filter - no path modifier, ReplaceFullPath, ReplacePrefixMatch over pools of prefixes and replacements - on an
// external and on an internal location: the rewrite directives it adds, and whether proxy_pass / return carry the original
// request URI.
func TestVerifC02RewriteLoc(t *testing.T) {
	out := vu.Open("C02")
	out.ShardLen(200)
	prefixes := []string{"/", "/foo", "/foo/", "/a.b", "/a(b", "/x+y/", "/q$r"}
	repls := []string{"", "/", "/xyz", "/xyz/", "/x/y"}
	type pm struct {
		coq string
		mod *dataplane.HTTPPathModifier
	}
	mods := []pm{{"None", nil}, {vu.App("Some", vu.App("ReplaceFull", vu.Str("/full"))), &dataplane.HTTPPathModifier{Type: dataplane.ReplaceFullPath, Replacement: "/full"}}}
	for _, r := range repls {
		mods = append(mods, pm{vu.App("Some", vu.App("ReplacePrefix", vu.Str(r))), &dataplane.HTTPPathModifier{Type: dataplane.ReplacePrefixMatch, Replacement: r}})
	}
	backends := dataplane.BackendGroup{Backends: []dataplane.Backend{{UpstreamName: "ns_svc_80", Valid: true, Weight: 1}}}
	for _, redirect := range []bool{false, true} {
		for _, internal := range []bool{false, true} {
			for _, m := range mods {
				for _, p := range prefixes {
					var filters dataplane.HTTPFilters
					if redirect {
						filters.RequestRedirect = &dataplane.HTTPRequestRedirectFilter{Hostname: helpers.GetPointer("redir.example.org"), Path: m.mod}
					} else {
						filters.RequestURLRewrite = &dataplane.HTTPURLRewriteFilter{Path: m.mod}
					}
					loc := http.Location{Path: p, Type: http.ExternalLocationType}
					if internal {
						loc = http.Location{Path: "/_ngf-internal-rule0-route0", Type: http.InternalLocationType}
					}
					got := updateLocation(filters, loc, dataplane.MatchRule{Filters: filters, BackendGroup: backends}, 80, p, false, func(string) bool { return false })
					var rws []string
					for _, rw := range got.Rewrites {
						rws = append(rws, vu.StrList(strings.Split(rw, " ")))
					}
					orig := strings.HasSuffix(got.ProxyPass, "$request_uri")
					if redirect {
						orig = got.Return != nil && strings.Contains(got.Return.Body, "$request_uri")
					}
					out.Case(vu.App("RLCase", vu.Bool(redirect), vu.Bool(internal), m.coq, vu.Str(p), vu.List(rws), vu.Bool(orig)),
						map[string]any{"redirect": redirect, "internal": internal, "path_modifier": m.coq, "path": p, "rewrites": got.Rewrites, "proxy_pass": got.ProxyPass, "return": got.Return},
						m.mod != nil, strconv.FormatBool(redirect)+strconv.FormatBool(internal)+m.coq+p)
					out.Tally("internal", strconv.FormatBool(internal))
				}
			}
		}
	}
	out.Close("C02.RewriteLocCheck", "")
}
