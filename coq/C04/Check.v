(* C04 — oracle for one planted value: the REAL pipeline is run twice on the same cluster state, once
   with a benign value in one string leaf and once with a hostile value (benign value followed by a
   payload); both values contain the marker "zqx". Either the hostile value is absent from every
   generated file and something was reported in status, or the directive structure of the generated
   files is exactly the benign one - the value sits wholly inside the argument(s) it was meant for -
   and no argument that NGINX interpolates carries a variable reference from the value. *)
From Coq Require Import List String Ascii ZArith Bool Arith.
From NGF Require Export lib.CaseLib lib.Str ngx.Lexer ngx.Eval ngx.Wf.
Import ListNotations.
Local Open Scope string_scope.

Record case := Case {
  k_leaf : string;                        (* which field was planted (for reports) *)
  k_benign : list (string * string);      (* configuration files with the benign value *)
  k_hostile : list (string * string);     (* configuration files with the hostile value *)
  k_json_marker : bool;                   (* marker occurs in a non-.conf generated file (matches.json) *)
  k_reported : bool;                      (* statuses differ between the two runs *)
  k_dollar : bool;                        (* the payload contains a dollar sign *)
  k_must_report : bool                    (* a rejected value of this leaf must show in status (false for
                                             name references, whose hostile value simply names nothing) *)
}.

Definition marker := "zqx".

Definition has_marker (s : string) : bool :=
  match find_sub marker (lower s) with Some _ => true | None => false end.

(* directive tree with every marked argument blanked *)
Fixpoint skel_dir (fuel : nat) (d : dir) : dir :=
  match fuel with
  | 0 => d
  | S f =>
      match d with
      | Dir n a b =>
          Dir (if has_marker n then "@" else n)
              (map (fun x => if has_marker x then "@" else x) a)
              (match b with Some body => Some (map (skel_dir f) body) | None => None end)
      end
  end.

Fixpoint dir_eqb (fuel : nat) (a b : dir) : bool :=
  match fuel with
  | 0 => false
  | S f =>
      match a, b with
      | Dir n1 a1 b1, Dir n2 a2 b2 =>
          seqb n1 n2 &&
          (fix leq (x y : list string) : bool :=
             match x, y with [], [] => true | p :: x', q :: y' => seqb p q && leq x' y' | _, _ => false end) a1 a2 &&
          match b1, b2 with
          | None, None => true
          | Some l1, Some l2 =>
              (fix beq (x y : list dir) : bool :=
                 match x, y with [], [] => true | p :: x', q :: y' => dir_eqb f p q && beq x' y' | _, _ => false end) l1 l2
          | _, _ => false
          end
      end
  end.

Definition parse_all (fs : list (string * string)) : option (list (string * list dir)) :=
  fold_right (fun pf acc => match acc, parse_conf (snd pf) with
                            | Some l, Some ds => Some ((fst pf, ds) :: l)
                            | _, _ => None
                            end) (Some []) fs.

Fixpoint marker_in (fuel : nat) (d : dir) : bool :=
  match fuel with
  | 0 => false
  | S f => has_marker (d_name d) || existsb has_marker (d_args d) ||
           match d_block d with Some body => existsb (marker_in f) body | None => false end
  end.

(* Top-level blocks of a file (upstreams, split_clients, maps, servers) are emitted in Go map order:
   compare them as multisets, sorted by name and arguments (marked arguments blanked). *)
Definition dir_key (d : dir) : string :=
  String.concat "|" (d_name d :: map (fun x => if has_marker x then "@" else x) (d_args d)).

Fixpoint insert_dir (d : dir) (l : list dir) : list dir :=
  match l with
  | [] => [d]
  | x :: l' => if str_ltb (dir_key x) (dir_key d) then x :: insert_dir d l' else d :: l
  end.
Definition sort_dirs (l : list dir) : list dir := fold_right insert_dir [] l.

(* the hostile tree has the benign structure: names equal, arguments equal except where the hostile
   argument carries the marker *)
Fixpoint dir_like (fuel : nat) (b h : dir) : bool :=
  match fuel with
  | 0 => false
  | S f =>
      match b, h with
      | Dir n1 a1 b1, Dir n2 a2 b2 =>
          seqb n1 n2 &&
          (fix leq (x y : list string) : bool :=
             match x, y with
             | [], [] => true
             | p :: x', q :: y' => (seqb p q || has_marker q) && leq x' y'
             | _, _ => false
             end) a1 a2 &&
          match b1, b2 with
          | None, None => true
          | Some l1, Some l2 =>
              (fix beq (x y : list dir) : bool :=
                 match x, y with [], [] => true | p :: x', q :: y' => dir_like f p q && beq x' y' | _, _ => false end) l1 l2
          | _, _ => false
          end
      end
  end.

(* remove the first element of l satisfying f *)
Fixpoint remove_first {A} (f : A -> bool) (l : list A) : option (list A) :=
  match l with
  | [] => None
  | x :: l' => if f x then Some l' else match remove_first f l' with Some r => Some (x :: r) | None => None end
  end.

(* multiset matching of top-level blocks: first pair off blocks without any marked argument exactly,
   then the rest up to marked arguments *)
Fixpoint match_all (like : dir -> dir -> bool) (bs hs : list dir) : option (list dir * list dir) :=
  match bs with
  | [] => Some ([], hs)
  | b :: bs' =>
      match remove_first (like b) hs with
      | Some hs' => match_all like bs' hs'
      | None => match match_all like bs' hs with
                | Some (rb, rh) => Some (b :: rb, rh)
                | None => None
                end
      end
  end.

Definition unmarked_like (b h : dir) : bool := negb (marker_in 40 h) && dir_like 40 b h.

Definition blocks_match (bs hs : list dir) : bool :=
  match match_all unmarked_like bs hs with
  | Some (rb, rh) =>
      match match_all (dir_like 40) rb rh with
      | Some ([], []) => true
      | _ => false
      end
  | None => false
  end.

Definition same_skeleton (a b : list (string * list dir)) : bool :=
  (fix go (x y : list (string * list dir)) : bool :=
     match x, y with
     | [], [] => true
     | (p1, d1) :: x', (p2, d2) :: y' => seqb p1 p2 && blocks_match d1 d2 && go x' y'
     | _, _ => false
     end) a b.

(* a marked argument in an interpolating position that still contains a dollar sign *)
Fixpoint dollar_leak (fuel : nat) (d : dir) : bool :=
  match fuel with
  | 0 => false
  | S f =>
      existsb (fun a => has_marker a && existsb (fun c => Ascii.eqb c "$") (chars_of a)) (interpolated_args d) ||
      match d_block d with Some body => existsb (dollar_leak f) body | None => false end
  end.

Definition known_D11 := 11.

Definition check_case (c : case) : list nat :=
  match parse_all (k_benign c), parse_all (k_hostile c) with
  | _, None => if has_prefix "NginxProxy.logging.errorLevel" (k_leaf c) then [code_known known_D11]
               else [code_violation]               (* the hostile value broke tokenising/nesting *)
  | None, _ => [code_mismatch]                        (* the benign baseline must parse *)
  | Some b, Some h =>
      let present := existsb (fun pf => existsb (marker_in 40) (snd pf)) h || k_json_marker c in
      if negb present then
        (if k_reported c || negb (k_must_report c) then [] else [code_violation])   (* rejected but not reported *)
      else if negb (same_skeleton b h) then
        (* the value is in the output and the structure changed *)
        (if has_prefix "NginxProxy.logging.errorLevel" (k_leaf c) then [code_known known_D11] else [code_violation])
      else if k_dollar c && existsb (fun pf => existsb (dollar_leak 40) (snd pf)) h then [code_violation]
      else []
  end.
