(* C06 — lemmas.  Declarative specification of "a ReferenceGrant permits the reference", the
   resolver meets it, every call site consults it with the right from/to, the graph depends only on
   the SET of grants in the store, and the model's own output satisfies the oracle of Check.v. *)
From Coq Require Import List String Bool ZArith Lia.
From NGF Require Import C06.Model C06.Check.
Import ListNotations.
Local Open Scope string_scope.

(* ------------------------------------------------------------------ declarative specification *)

Definition from_names (f : grant_from) (from : from_res) : Prop :=
  gf_group f = fr_group from /\ gf_kind f = fr_kind from /\ gf_ns f = fr_ns from.

(* "core" and "" both denote the core API group *)
Definition to_names (t : grant_to) (to : to_res) : Prop :=
  norm_core (gt_group t) = tr_group to /\ gt_kind t = tr_kind to /\
  (gt_name t = None \/ gt_name t = Some (tr_name to)).

(* the grant lives in the target's namespace, one of its from entries names the referrer, one of its
   to entries names the target *)
Definition permits (g : grant) (from : from_res) (to : to_res) : Prop :=
  g_ns g = tr_ns to /\
  (exists f, In f (g_from g) /\ from_names f from) /\
  (exists t, In t (g_to g) /\ to_names t to).

Definition granted (gs : list grant) (from : from_res) (to : to_res) : Prop :=
  exists g, In g gs /\ permits g from to.

(* admissible grants: to.name, when present, is not empty (ObjectName has minLength 1) *)
Definition wf_grant (g : grant) : Prop := forall t, In t (g_to g) -> gt_name t <> Some "".
Definition wf_grants (gs : list grant) : Prop := forall g, In g gs -> wf_grant g.

(* ------------------------------------------------------------------ equality tests *)

Lemma to_res_eqb_eq a b : to_res_eqb a b = true <-> a = b.
Proof.
  destruct a, b; unfold to_res_eqb; simpl.
  rewrite !andb_true_iff, !String.eqb_eq. split.
  - intros [[[-> ->] ->] ->]. reflexivity.
  - intros H; inversion H; auto.
Qed.

Lemma from_res_eqb_eq a b : from_res_eqb a b = true <-> a = b.
Proof.
  destruct a, b; unfold from_res_eqb; simpl.
  rewrite !andb_true_iff, !String.eqb_eq. split.
  - intros [[-> ->] ->]. reflexivity.
  - intros H; inversion H; auto.
Qed.

Lemma allowed_ref_eqb_eq a b : allowed_ref_eqb a b = true <-> a = b.
Proof.
  destruct a as [t f], b as [t' f']; unfold allowed_ref_eqb; simpl.
  rewrite andb_true_iff, to_res_eqb_eq, from_res_eqb_eq. split.
  - intros [-> ->]. reflexivity.
  - intros H; inversion H; auto.
Qed.

Lemma nsname_eqb_eq a b : nsname_eqb a b = true <-> a = b.
Proof.
  destruct a, b; unfold nsname_eqb; simpl. rewrite andb_true_iff, !String.eqb_eq. split.
  - intros [-> ->]; reflexivity.
  - intros H; inversion H; auto.
Qed.

Lemma nsname_eqb_refl a : nsname_eqb a a = true.
Proof. apply nsname_eqb_eq. reflexivity. Qed.

Lemma cond_eqb_eq a b : cond_eqb a b = true <-> a = b.
Proof.
  destruct a as [[a1 a2] a3], b as [[b1 b2] b3]; unfold cond_eqb; simpl.
  rewrite !andb_true_iff, !String.eqb_eq. split.
  - intros [[-> ->] ->]; reflexivity.
  - intros H; inversion H; auto.
Qed.

Lemma in_allowed_iff key r : in_allowed key r = true <-> In key r.
Proof.
  unfold in_allowed. rewrite existsb_exists. split.
  - intros [x [Hin Heq]]. apply allowed_ref_eqb_eq in Heq. subst. exact Hin.
  - intros Hin. exists key. split; [exact Hin|apply allowed_ref_eqb_eq; reflexivity].
Qed.

(* ------------------------------------------------------------------ the resolver's key set *)

Definition entry (g : grant) (t : grant_to) (f : grant_from) : allowed_ref :=
  (TR (norm_core (gt_group t)) (gt_kind t) (name_or_empty (gt_name t)) (g_ns g),
   FR (gf_group f) (gf_kind f) (gf_ns f)).

Lemma in_new_resolver key gs :
  In key (new_resolver gs) <->
  exists g t f, In g gs /\ In t (g_to g) /\ In f (g_from g) /\ key = entry g t f.
Proof.
  unfold new_resolver, grant_entries. rewrite in_flat_map. split.
  - intros [g [Hg Hin]]. apply in_flat_map in Hin. destruct Hin as [t [Ht Hin]].
    apply in_map_iff in Hin. destruct Hin as [f [Heq Hf]].
    exists g, t, f. unfold entry. auto.
  - intros [g [t [f [Hg [Ht [Hf Heq]]]]]]. exists g. split; [exact Hg|].
    apply in_flat_map. exists t. split; [exact Ht|].
    apply in_map_iff. exists f. split; [symmetry; exact Heq|exact Hf].
Qed.

Lemma ref_allowed_iff r to from :
  ref_allowed r to from = true <->
  In (to, from) r \/ In (TR "" (tr_kind to) "" (tr_ns to), from) r.
Proof.
  unfold ref_allowed. simpl. rewrite !orb_true_iff, !in_allowed_iff. intuition discriminate.
Qed.

(* exact characterisation, for arbitrary grants: an empty to.name acts like an absent one *)
Lemma refallowed_exact gs to from :
  tr_group to = "" ->
  (ref_allowed (new_resolver gs) to from = true <->
   exists g, In g gs /\ g_ns g = tr_ns to /\
     (exists f, In f (g_from g) /\ from_names f from) /\
     (exists t, In t (g_to g) /\ norm_core (gt_group t) = "" /\ gt_kind t = tr_kind to /\
                (name_or_empty (gt_name t) = "" \/ name_or_empty (gt_name t) = tr_name to))).
Proof.
  intros Hgrp. rewrite ref_allowed_iff, !in_new_resolver.
  destruct to as [tg tk tn tns], from as [fg fk fns]; simpl in *. subst tg. split.
  - intros [H|H]; destruct H as [g [t [f [Hg [Ht [Hf Heq]]]]]]; unfold entry in Heq;
      inversion Heq; subst; clear Heq; exists g; (split; [exact Hg|]);
      (split; [reflexivity|]); (split; [exists f; unfold from_names; simpl; auto|]);
      exists t; auto.
  - intros [g [Hg [Hns [[f [Hf [Hf1 [Hf2 Hf3]]]] [t [Ht [Ht1 [Ht2 Ht3]]]]]]]].
    simpl in *. subst.
    destruct Ht3 as [Hn|Hn].
    + right. exists g, t, f. unfold entry. rewrite Ht1, Hn. auto.
    + left. exists g, t, f. unfold entry. rewrite Ht1, Hn. auto.
Qed.

Lemma name_or_empty_wf n x : n <> Some "" ->
  (name_or_empty n = "" \/ name_or_empty n = x) <-> (n = None \/ n = Some x).
Proof.
  intros Hwf. destruct n as [s|]; simpl.
  - split.
    + intros [H|H]; [subst; congruence|subst; auto].
    + intros [H|H]; [discriminate|inversion H; auto].
  - split; auto.
Qed.

(* the resolver decides exactly the declarative statement *)
Lemma refallowed_spec gs to from :
  wf_grants gs -> tr_group to = "" ->
  (ref_allowed (new_resolver gs) to from = true <-> granted gs from to).
Proof.
  intros Hwf Hgrp. rewrite (refallowed_exact gs to from Hgrp). unfold granted, permits, to_names.
  split.
  - intros [g [Hg [Hns [Hf [t [Ht [Ht1 [Ht2 Ht3]]]]]]]]. exists g. split; [exact Hg|].
    split; [exact Hns|]. split; [exact Hf|]. exists t. split; [exact Ht|].
    rewrite Hgrp. split; [exact Ht1|]. split; [exact Ht2|].
    apply (name_or_empty_wf _ _ (Hwf g Hg t Ht)). exact Ht3.
  - intros [g [Hg [Hns [Hf [t [Ht [Ht1 [Ht2 Ht3]]]]]]]]. exists g. split; [exact Hg|].
    split; [exact Hns|]. split; [exact Hf|]. exists t. split; [exact Ht|].
    rewrite Hgrp in Ht1. split; [exact Ht1|]. split; [exact Ht2|].
    apply (name_or_empty_wf _ _ (Hwf g Hg t Ht)). exact Ht3.
Qed.

(* the oracle's boolean is the same declarative statement *)
Lemma from_matches_iff from f : from_matches from f = true <-> from_names f from.
Proof. unfold from_matches, from_names. rewrite !andb_true_iff, !String.eqb_eq. tauto. Qed.

Lemma to_matches_iff to t : to_matches to t = true <-> to_names t to.
Proof.
  unfold to_matches, to_names. rewrite !andb_true_iff, !String.eqb_eq.
  destruct (gt_name t) as [n|].
  - rewrite String.eqb_eq. split.
    + intros [[H1 H2] H3]. subst. auto.
    + intros [H1 [H2 [H3|H3]]]; [discriminate|inversion H3; auto].
  - split; [intros [[H1 H2] _]; auto|intros [H1 [H2 _]]; auto].
Qed.

Lemma granted_b_iff gs from to : granted_b gs from to = true <-> granted gs from to.
Proof.
  unfold granted_b, granted. rewrite existsb_exists. split.
  - intros [g [Hg Hp]]. exists g. split; [exact Hg|].
    unfold permits_b in Hp. rewrite !andb_true_iff, String.eqb_eq, !existsb_exists in Hp.
    destruct Hp as [[Hns [f [Hf Hfm]]] [t [Ht Htm]]].
    split; [exact Hns|]. split.
    + exists f. split; [exact Hf|apply from_matches_iff; exact Hfm].
    + exists t. split; [exact Ht|apply to_matches_iff; exact Htm].
  - intros [g [Hg [Hns [[f [Hf Hfm]] [t [Ht Htm]]]]]]. exists g. split; [exact Hg|].
    unfold permits_b. rewrite !andb_true_iff, String.eqb_eq, !existsb_exists.
    split; [split; [exact Hns|]|].
    + exists f. split; [exact Hf|apply from_matches_iff; exact Hfm].
    + exists t. split; [exact Ht|apply to_matches_iff; exact Htm].
Qed.

Lemma ref_allowed_granted_b gs to from :
  wf_grants gs -> tr_group to = "" ->
  ref_allowed (new_resolver gs) to from = granted_b gs from to.
Proof.
  intros Hwf Hgrp. apply eq_true_iff_eq. rewrite granted_b_iff. apply refallowed_spec; assumption.
Qed.

(* ------------------------------------------------------------------ backendRefs: what the call sites do *)

Definition cross_ref (route_ns : string) (r : backend_ref) : Prop :=
  exists ns, br_ns r = Some ns /\ ns <> route_ns.

(* the reference is local, or a grant permits it for this referrer kind and namespace *)
Definition backend_permitted (gs : list grant) (k : route_kind) (route_ns : string) (r : backend_ref) : Prop :=
  ~ cross_ref route_ns r \/ granted gs (from_route k route_ns) (to_service (ref_target route_ns r)).

Definition resolver_for (gs : list grant) (k : route_kind) (route_ns : string) : to_res -> bool :=
  fun to => ref_allowed (new_resolver gs) to (from_route k route_ns).

Definition ns_check (allowed : to_res -> bool) (route_ns : string) (r : backend_ref) : bool :=
  match br_ns r with
  | Some ns => if ns =? route_ns then false else negb (allowed (to_service (ns, br_name r)))
  | None => false
  end.

Lemma ns_check_false_iff gs k route_ns r :
  wf_grants gs ->
  (ns_check (resolver_for gs k route_ns) route_ns r = false <-> backend_permitted gs k route_ns r).
Proof.
  intros Hwf. unfold ns_check, backend_permitted, cross_ref, ref_target, resolver_for.
  destruct (br_ns r) as [n|] eqn:Hns.
  - destruct (String.eqb_spec n route_ns) as [Heq|Hne].
    + split; [|reflexivity]. intros _. left. intros [n' [H1 H2]]. inversion H1; subst. congruence.
    + rewrite negb_false_iff. rewrite refallowed_spec by (auto; reflexivity). split.
      * intros H. right. exact H.
      * intros [H|H]; [|exact H]. exfalso. apply H. exists n. auto.
  - split; [|reflexivity]. intros _. left. intros [n' [H1 _]]. discriminate.
Qed.

Lemma validate_unfold allowed route_ns r :
  validate_backend_ref allowed route_ns r =
  if match br_group r with Some g => negb ((g =? "core") || (g =? "")) | None => false end
  then Some c_route_invalid_kind
  else if match br_kind r with Some k => negb (k =? "Service") | None => false end
  then Some c_route_invalid_kind
  else if ns_check allowed route_ns r then Some c_route_ref_not_permitted
  else match br_port r with
       | None => Some c_route_unsupported_value
       | Some _ => if match br_weight r with Some w => negb (weight_ok w) | None => false end
                   then Some c_route_unsupported_value else None
       end.
Proof. reflexivity. Qed.

Lemma ref_kind_ok_unfold r :
  ref_kind_ok r =
  negb (match br_group r with Some g => negb ((g =? "core") || (g =? "")) | None => false end) &&
  negb (match br_kind r with Some k => negb (k =? "Service") | None => false end).
Proof.
  unfold ref_kind_ok. destruct (br_group r), (br_kind r); simpl; rewrite ?negb_involutive; reflexivity.
Qed.

(* a backendRef passes validation only if it is local or granted *)
Lemma validate_none gs k route_ns r :
  wf_grants gs ->
  validate_backend_ref (resolver_for gs k route_ns) route_ns r = None ->
  ref_kind_ok r = true /\ backend_permitted gs k route_ns r /\ exists p, br_port r = Some p.
Proof.
  intros Hwf. rewrite validate_unfold, ref_kind_ok_unfold.
  destruct (match br_group r with Some g => _ | None => false end); [discriminate|].
  destruct (match br_kind r with Some k0 => _ | None => false end); [discriminate|].
  destruct (ns_check _ route_ns r) eqn:Hc; [discriminate|].
  apply (ns_check_false_iff gs k route_ns r Hwf) in Hc.
  destruct (br_port r) as [p|]; [|discriminate]. intros _. split; [reflexivity|]. split; [exact Hc|].
  exists p. reflexivity.
Qed.

(* a cross-namespace backendRef without a grant is rejected; with RefNotPermitted when it designates a Service *)
Lemma validate_denied gs k route_ns r :
  wf_grants gs -> ~ backend_permitted gs k route_ns r ->
  (exists c, validate_backend_ref (resolver_for gs k route_ns) route_ns r = Some c) /\
  (ref_kind_ok r = true ->
   validate_backend_ref (resolver_for gs k route_ns) route_ns r = Some c_route_ref_not_permitted).
Proof.
  intros Hwf Hden. rewrite validate_unfold, ref_kind_ok_unfold.
  assert (Hc : ns_check (resolver_for gs k route_ns) route_ns r = true).
  { destruct (ns_check _ route_ns r) eqn:Hc; [reflexivity|].
    apply (ns_check_false_iff gs k route_ns r Hwf) in Hc. contradiction. }
  rewrite Hc.
  destruct (match br_group r with Some g => _ | None => false end);
    [split; [eauto|discriminate]|].
  destruct (match br_kind r with Some k0 => _ | None => false end);
    [split; [eauto|discriminate]|].
  split; [eauto|reflexivity].
Qed.

(* the positive direction: a well-formed, permitted reference to an existing Service port is valid *)
Lemma validate_permitted gs k route_ns r p :
  wf_grants gs -> ref_kind_ok r = true -> backend_permitted gs k route_ns r ->
  br_port r = Some p -> (forall w, br_weight r = Some w -> weight_ok w = true) ->
  validate_backend_ref (resolver_for gs k route_ns) route_ns r = None.
Proof.
  intros Hwf Hshape Hperm Hport Hw. rewrite validate_unfold. rewrite ref_kind_ok_unfold in Hshape.
  apply andb_true_iff in Hshape. destruct Hshape as [H1 H2].
  apply negb_true_iff in H1. apply negb_true_iff in H2. rewrite H1, H2.
  apply (ns_check_false_iff gs k route_ns r Hwf) in Hperm. rewrite Hperm, Hport.
  destruct (br_weight r) as [w|]; [|reflexivity]. rewrite (Hw w eq_refl). reflexivity.
Qed.

Definition create_for (k : route_kind) :=
  match k with KTLS => create_backend_ref_tls | _ => create_backend_ref end.

Lemma shape_ok_split r : ref_shape_ok r = true <-> br_filters r = false /\ ref_kind_ok r = true.
Proof. unfold ref_shape_ok. rewrite andb_true_iff, negb_true_iff. tauto. Qed.

Ltac unfold_create :=
  simpl; unfold create_backend_ref, create_backend_ref_tls, validate_route_backend_ref.

Lemma create_valid gs k route_ns svcs r :
  wf_grants gs ->
  bo_valid (fst (create_for k (resolver_for gs k route_ns) svcs route_ns r)) = true ->
  backend_permitted gs k route_ns r /\
  bo_svc (fst (create_for k (resolver_for gs k route_ns) svcs route_ns r)) = ref_target route_ns r.
Proof.
  intros Hwf.
  assert (H : forall c, validate_backend_ref (resolver_for gs k route_ns) route_ns r = c ->
              (c = None -> backend_permitted gs k route_ns r)).
  { intros c Hc Hn. subst c. apply (validate_none gs k route_ns r Hwf) in Hn. tauto. }
  specialize (H _ eq_refl).
  destruct k; unfold_create; try (destruct (br_filters r); simpl; try discriminate);
    destruct (validate_backend_ref _ route_ns r); simpl; try discriminate;
    destruct (service_port svcs (ref_target route_ns r) (br_port r)); simpl; try discriminate;
    intros _; auto.
Qed.

(* whatever SvcNsName a backend carries (valid or not) is the referenced one, and was permitted *)
Lemma create_svc gs k route_ns svcs r :
  wf_grants gs ->
  bo_svc (fst (create_for k (resolver_for gs k route_ns) svcs route_ns r)) <> empty_nsname ->
  backend_permitted gs k route_ns r /\
  bo_svc (fst (create_for k (resolver_for gs k route_ns) svcs route_ns r)) = ref_target route_ns r.
Proof.
  intros Hwf.
  assert (H : forall c, validate_backend_ref (resolver_for gs k route_ns) route_ns r = c ->
              (c = None -> backend_permitted gs k route_ns r)).
  { intros c Hc Hn. subst c. apply (validate_none gs k route_ns r Hwf) in Hn. tauto. }
  specialize (H _ eq_refl).
  destruct k; unfold_create; try (destruct (br_filters r); simpl; try congruence);
    destruct (validate_backend_ref _ route_ns r); simpl; try congruence;
    destruct (service_port svcs (ref_target route_ns r) (br_port r)); simpl; auto.
Qed.

Lemma create_denied gs k route_ns svcs r :
  wf_grants gs -> ~ backend_permitted gs k route_ns r ->
  let res := create_for k (resolver_for gs k route_ns) svcs route_ns r in
  bo_valid (fst res) = false /\ bo_svc (fst res) = empty_nsname /\
  (ref_shape_ok r = true -> snd res = Some c_route_ref_not_permitted).
Proof.
  intros Hwf Hden. destruct (validate_denied gs k route_ns r Hwf Hden) as [[c Hc] Hs].
  destruct k; unfold_create;
    try (destruct (br_filters r) eqn:Hf; simpl;
         [split; [reflexivity|]; split; [reflexivity|]; intros Hok; apply shape_ok_split in Hok;
          destruct Hok; congruence|]);
    rewrite Hc; simpl;
    (split; [reflexivity|]); (split; [reflexivity|]); intros Hok; apply shape_ok_split in Hok;
    destruct Hok as [_ Hok]; rewrite (Hs Hok) in Hc; congruence.
Qed.

Lemma create_permitted gs k route_ns svcs r p ports :
  wf_grants gs -> ref_shape_ok r = true -> backend_permitted gs k route_ns r ->
  br_port r = Some p -> (forall w, br_weight r = Some w -> weight_ok w = true) ->
  find_service svcs (ref_target route_ns r) = Some ports -> In p ports ->
  create_for k (resolver_for gs k route_ns) svcs route_ns r =
    (BO true (ref_target route_ns r) p (match k with KTLS => 0%Z | _ => l7_weight r end), None).
Proof.
  intros Hwf Hshape Hperm Hport Hw Hsvc Hin. apply shape_ok_split in Hshape. destruct Hshape as [Hf Hkind].
  pose proof (validate_permitted gs k route_ns r p Hwf Hkind Hperm Hport Hw) as Hv.
  assert (Hsp : service_port svcs (ref_target route_ns r) (br_port r) = Some p).
  { unfold service_port. rewrite Hsvc, Hport.
    assert (He : existsb (Z.eqb p) ports = true).
    { apply existsb_exists. exists p. split; [exact Hin|apply Z.eqb_refl]. }
    rewrite He. reflexivity. }
  destruct k; unfold_create; rewrite ?Hf, Hv, Hsp; reflexivity.
Qed.

(* ------------------------------------------------------------------ routes *)

(* backendRefs of a route paired with the internal BackendRefs built for them *)
Definition route_pairs (ri : route_in) (ro : route_out) : list (backend_ref * bref_out) :=
  List.concat (map (fun p => combine (fst p) (snd p)) (combine (ri_rules ri) (ro_refs ro))).

Lemma in_combine_map {A B} (f : A -> B) l x y : In (x, y) (combine l (map f l)) -> In x l /\ y = f x.
Proof.
  induction l as [|a l IH]; simpl; [tauto|].
  intros [H|H]; [inversion H; subst; auto|]. destruct (IH H). auto.
Qed.

Lemma build_route_unfold gs svcs ri :
  build_route (new_resolver gs) svcs ri =
  match ri_kind ri with
  | KTLS => build_tls (resolver_for gs (ri_kind ri) (ri_ns ri)) svcs (ri_ns ri) (ri_rules ri)
  | _ => build_l7 (resolver_for gs (ri_kind ri) (ri_ns ri)) svcs (ri_ns ri) (ri_rules ri)
  end.
Proof. reflexivity. Qed.

(* in a valid route every pair is (ref, what create made of it), and the condition create returned is reported *)
Lemma route_pairs_build gs svcs ri r o :
  let ro := build_route (new_resolver gs) svcs ri in
  ro_valid ro = true -> In (r, o) (route_pairs ri ro) ->
  let res := create_for (ri_kind ri) (resolver_for gs (ri_kind ri) (ri_ns ri)) svcs (ri_ns ri) r in
  o = fst res /\ (forall c, snd res = Some c -> In c (ro_conds ro)) /\
  exists rule, In rule (ri_rules ri) /\ In r rule.
Proof.
  intros ro. subst ro. rewrite build_route_unfold. unfold route_pairs.
  set (allowed := resolver_for gs (ri_kind ri) (ri_ns ri)).
  assert (L7 : ri_kind ri <> KTLS ->
               In (r, o) (List.concat (map (fun p => combine (fst p) (snd p))
                  (combine (ri_rules ri) (ro_refs (build_l7 allowed svcs (ri_ns ri) (ri_rules ri)))))) ->
               o = fst (create_backend_ref allowed svcs (ri_ns ri) r) /\
               (forall c, snd (create_backend_ref allowed svcs (ri_ns ri) r) = Some c ->
                          In c (ro_conds (build_l7 allowed svcs (ri_ns ri) (ri_rules ri)))) /\
               exists rule, In rule (ri_rules ri) /\ In r rule).
  { intros _ Hin. unfold build_l7 in *. simpl in *.
    apply in_concat in Hin. destruct Hin as [l [Hl Hin]].
    apply in_map_iff in Hl. destruct Hl as [[rule outs] [Hl Hp]]. subst l. simpl in Hin.
    apply in_combine_map in Hp. destruct Hp as [Hrule Houts]. subst outs.
    apply in_combine_map in Hin. destruct Hin as [Hr Ho]. split; [exact Ho|]. split.
    - intros c Hc. apply in_flat_map. exists rule. split; [exact Hrule|].
      apply in_flat_map. exists r. split; [exact Hr|]. rewrite Hc. simpl. auto.
    - exists rule. auto. }
  destruct (ri_kind ri) eqn:Hk; simpl.
  - intros _ Hin. apply L7; [discriminate|exact Hin].
  - intros _ Hin. apply L7; [discriminate|exact Hin].
  - clear L7. unfold build_tls.
    destruct (ri_rules ri) as [|[|r0 [|r1 rule]] [|rule2 rules]]; simpl; try discriminate.
    intros _ [H|[]]. inversion H; subst. split; [reflexivity|]. split.
    + intros c Hc. rewrite Hc. simpl. auto.
    + exists [r]. simpl. auto.
Qed.

(* ------------------------------------------------------------------ listeners *)

Definition secret_permitted (gs : list grant) (gw_ns : string) (s : nsname) : Prop :=
  ns_of s = gw_ns \/ granted gs (from_gateway gw_ns) (to_secret s).

Lemma secret_check_false_iff gs gw_ns n :
  wf_grants gs ->
  ((if ns_of n =? gw_ns then false else negb (ref_allowed (new_resolver gs) (to_secret n) (from_gateway gw_ns))) = false
   <-> secret_permitted gs gw_ns n).
Proof.
  intros Hwf. unfold secret_permitted. destruct (String.eqb_spec (ns_of n) gw_ns) as [Heq|Hne].
  - split; auto.
  - rewrite negb_false_iff, refallowed_spec by (auto; reflexivity). split; [auto|].
    intros [H|H]; [contradiction|exact H].
Qed.

Lemma https_validate_nil_iff certs : https_validate certs = [] <-> cert_shape_ok certs = true.
Proof.
  destruct certs as [|c [|c2 rest]]; simpl.
  - split; discriminate.
  - destruct (cr_kind c) as [k|]; destruct (cr_group c) as [g|]; simpl;
      repeat match goal with |- context [?a =? ?b] => destruct (a =? b) end; simpl;
      split; intros; try discriminate; reflexivity.
  - split; [|discriminate]. intros H. apply app_eq_nil in H. destruct H as [_ H].
    apply app_eq_nil in H. destruct H as [_ H]. discriminate.
Qed.

(* everything configure_listener can do with an HTTPS listener *)
Lemma configure_https gs secrets gw_ns l :
  wf_grants gs -> li_proto l = PHTTPS ->
  let res := configure_listener (new_resolver gs) secrets gw_ns l in
  (* invalid shape: not programmed, nothing resolved *)
  (cert_shape_ok (li_certs l) = false ->
     res = (LO (li_name l) false None (https_validate (li_certs l)), None)) /\
  (forall c, li_certs l = [c] -> cert_shape_ok [c] = true ->
     (~ secret_permitted gs gw_ns (cert_target gw_ns c) ->
        res = (LO (li_name l) false None cs_listener_ref_not_permitted, None)) /\
     (secret_permitted gs gw_ns (cert_target gw_ns c) ->
        snd res = Some (cert_target gw_ns c) /\
        (resolve_secret secrets (cert_target gw_ns c) = true ->
           fst res = LO (li_name l) true (Some (cert_target gw_ns c)) []) /\
        (resolve_secret secrets (cert_target gw_ns c) = false ->
           fst res = LO (li_name l) false None cs_listener_invalid_cert_ref))).
Proof.
  intros Hwf Hp res. subst res. unfold configure_listener. rewrite Hp. split.
  - intros Hshape. destruct (https_validate (li_certs l)) eqn:Hv.
    + apply https_validate_nil_iff in Hv. congruence.
    + reflexivity.
  - intros c Hc Hshape. rewrite Hc. apply https_validate_nil_iff in Hshape. rewrite Hshape.
    pose proof (secret_check_false_iff gs gw_ns (cert_target gw_ns c) Hwf) as Hiff.
    destruct (if ns_of (cert_target gw_ns c) =? gw_ns then false else _) eqn:Hchk.
    + split; [reflexivity|]. intros Hperm. apply Hiff in Hperm. discriminate.
    + split; [intros Hden; exfalso; apply Hden; apply Hiff; reflexivity|]. intros _.
      destruct (resolve_secret secrets (cert_target gw_ns c)); simpl;
        (split; [reflexivity|]); split; intros; try discriminate; reflexivity.
Qed.

Lemma configure_other gs secrets gw_ns l :
  li_proto l <> PHTTPS ->
  configure_listener (new_resolver gs) secrets gw_ns l = (LO (li_name l) true None [], None).
Proof. unfold configure_listener. destruct (li_proto l); congruence. Qed.

Lemma cert_shape_single certs : cert_shape_ok certs = true -> exists c, certs = [c].
Proof. destruct certs as [|c [|c2 rest]]; simpl; try discriminate. eauto. Qed.

(* ------------------------------------------------------------------ the graph depends only on the set of grants *)

Lemma ref_allowed_ext gs1 gs2 :
  (forall g, In g gs1 <-> In g gs2) ->
  forall to from, ref_allowed (new_resolver gs1) to from = ref_allowed (new_resolver gs2) to from.
Proof.
  intros Hset to from. apply eq_true_iff_eq. rewrite !ref_allowed_iff, !in_new_resolver.
  assert (E : forall key, (exists g t f, In g gs1 /\ In t (g_to g) /\ In f (g_from g) /\ key = entry g t f) <->
                          (exists g t f, In g gs2 /\ In t (g_to g) /\ In f (g_from g) /\ key = entry g t f)).
  { intros key. split; intros [g [t [f [Hg H]]]]; exists g, t, f; (split; [apply Hset; exact Hg|exact H]). }
  rewrite !E. tauto.
Qed.

Lemma validate_ext a1 a2 ns r :
  (forall to, a1 to = a2 to) -> validate_backend_ref a1 ns r = validate_backend_ref a2 ns r.
Proof.
  intros H. unfold validate_backend_ref. destruct (br_ns r) as [n|]; [|reflexivity]. rewrite H. reflexivity.
Qed.

Lemma build_route_ext R1 R2 svcs ri :
  (forall to from, ref_allowed R1 to from = ref_allowed R2 to from) ->
  build_route R1 svcs ri = build_route R2 svcs ri.
Proof.
  intros H. unfold build_route.
  set (a1 := fun to => ref_allowed R1 to (from_route (ri_kind ri) (ri_ns ri))).
  set (a2 := fun to => ref_allowed R2 to (from_route (ri_kind ri) (ri_ns ri))).
  assert (Ha : forall to, a1 to = a2 to) by (intros to; apply H).
  assert (Hc : forall r, create_backend_ref a1 svcs (ri_ns ri) r = create_backend_ref a2 svcs (ri_ns ri) r).
  { intros r. unfold create_backend_ref, validate_route_backend_ref. rewrite (validate_ext a1 a2 _ _ Ha). reflexivity. }
  assert (Ht : forall r, create_backend_ref_tls a1 svcs (ri_ns ri) r = create_backend_ref_tls a2 svcs (ri_ns ri) r).
  { intros r. unfold create_backend_ref_tls. rewrite (validate_ext a1 a2 _ _ Ha). reflexivity. }
  assert (L7 : build_l7 a1 svcs (ri_ns ri) (ri_rules ri) = build_l7 a2 svcs (ri_ns ri) (ri_rules ri)).
  { unfold build_l7. f_equal.
    - apply map_ext. intros rule. apply map_ext. intros r. rewrite Hc. reflexivity.
    - apply flat_map_ext. intros rule. apply flat_map_ext. intros r. rewrite Hc. reflexivity. }
  destruct (ri_kind ri); try exact L7.
  unfold build_tls. destruct (ri_rules ri) as [|[|r0 [|r1 rule]] [|rule2 rules]]; try reflexivity.
  rewrite Ht. reflexivity.
Qed.

Lemma configure_listener_ext R1 R2 secrets gw_ns l :
  (forall to from, ref_allowed R1 to from = ref_allowed R2 to from) ->
  configure_listener R1 secrets gw_ns l = configure_listener R2 secrets gw_ns l.
Proof.
  intros H. unfold configure_listener. destruct (li_proto l); try reflexivity.
  destruct (https_validate (li_certs l)); [|reflexivity].
  destruct (li_certs l) as [|c cs]; [reflexivity|]. rewrite H. reflexivity.
Qed.

Lemma build_order_irrelevant w gs1 gs2 :
  (forall g, In g gs1 <-> In g gs2) -> build w gs1 = build w gs2.
Proof.
  intros Hset. pose proof (ref_allowed_ext gs1 gs2 Hset) as H. unfold build.
  assert (Hl : map (configure_listener (new_resolver gs1) (w_secrets w) (w_gw_ns w)) (w_listeners w) =
               map (configure_listener (new_resolver gs2) (w_secrets w) (w_gw_ns w)) (w_listeners w)).
  { apply map_ext. intros l. apply configure_listener_ext. exact H. }
  assert (Hr : map (build_route (new_resolver gs1) (w_services w)) (w_routes w) =
               map (build_route (new_resolver gs2) (w_services w)) (w_routes w)).
  { apply map_ext. intros r. apply build_route_ext. exact H. }
  rewrite Hl, Hr. reflexivity.
Qed.

(* ------------------------------------------------------------------ histories *)

Lemma reconcile_nth w ops : forall store k ob,
  nth_error (reconcile w store ops) k = Some ob ->
  ob = build w (apply_ops store (firstn (S k) ops)).
Proof.
  induction ops as [|o ops IH]; intros store k ob; simpl.
  - destruct k; discriminate.
  - destruct k as [|k]; simpl.
    + intros H. inversion H. destruct ops; reflexivity.
    + intros H. apply IH in H. exact H.
Qed.

Lemma reconcile_length w ops : forall store, List.length (reconcile w store ops) = List.length ops.
Proof. induction ops as [|o ops IH]; intros store; simpl; [reflexivity|]. rewrite IH. reflexivity. Qed.

Lemma apply_op_delete_in store n g :
  In g (apply_op store (Delete n)) <-> In g store /\ grant_key g <> n.
Proof.
  simpl. rewrite filter_In, negb_true_iff. split; intros [H1 H2]; (split; [exact H1|]).
  - intros Heq. apply nsname_eqb_eq in Heq. congruence.
  - destruct (nsname_eqb (grant_key g) n) eqn:E; [apply nsname_eqb_eq in E; contradiction|reflexivity].
Qed.

Lemma apply_op_upsert_in store g0 g :
  In g (apply_op store (Upsert g0)) <-> g = g0 \/ (In g store /\ grant_key g <> grant_key g0).
Proof.
  simpl. rewrite filter_In, negb_true_iff. split.
  - intros [H|[H1 H2]]; [auto|]. right. split; [exact H1|].
    intros Heq. apply nsname_eqb_eq in Heq. congruence.
  - intros [H|[H1 H2]]; [auto|]. right. split; [exact H1|].
    destruct (nsname_eqb (grant_key g) (grant_key g0)) eqn:E; [apply nsname_eqb_eq in E; contradiction|reflexivity].
Qed.

(* ------------------------------------------------------------------ graph-level statements *)

Lemma nth_error_map_some {A B} (f : A -> B) l i a b :
  nth_error l i = Some a -> nth_error (map f l) i = Some b -> b = f a.
Proof. intros Ha Hb. rewrite (map_nth_error f i l Ha) in Hb. inversion Hb. reflexivity. Qed.

Lemma build_route_at w gs i ri ro :
  nth_error (w_routes w) i = Some ri -> nth_error (ob_routes (build w gs)) i = Some ro ->
  ro = build_route (new_resolver gs) (w_services w) ri.
Proof. intros H1 H2. simpl in H2. exact (nth_error_map_some _ _ _ _ _ H1 H2). Qed.

Lemma build_listener_at w gs i li lo :
  nth_error (w_listeners w) i = Some li -> nth_error (ob_listeners (build w gs)) i = Some lo ->
  lo = fst (configure_listener (new_resolver gs) (w_secrets w) (w_gw_ns w) li).
Proof.
  intros H1 H2. simpl in H2. rewrite map_map in H2. exact (nth_error_map_some _ _ _ _ _ H1 H2).
Qed.

Lemma route_pairs_invalid gs svcs ri r o :
  let ro := build_route (new_resolver gs) svcs ri in
  ro_valid ro = false -> In (r, o) (route_pairs ri ro) -> o = zero_bref.
Proof.
  intros ro. subst ro. rewrite build_route_unfold. unfold route_pairs.
  destruct (ri_kind ri); simpl; try discriminate.
  unfold build_tls.
  destruct (ri_rules ri) as [|[|r0 [|r1 rule]] [|rule2 rules]]; simpl; try discriminate; try tauto;
    intros _ [H|[]]; inversion H; reflexivity.
Qed.

Lemma backend_valid_only_if_granted w gs i ri ro r o :
  wf_grants gs ->
  nth_error (w_routes w) i = Some ri -> nth_error (ob_routes (build w gs)) i = Some ro ->
  In (r, o) (route_pairs ri ro) -> bo_valid o = true ->
  backend_permitted gs (ri_kind ri) (ri_ns ri) r /\ bo_svc o = ref_target (ri_ns ri) r.
Proof.
  intros Hwf H1 H2 Hin Hv. rewrite (build_route_at w gs i ri ro H1 H2) in *.
  destruct (ro_valid (build_route (new_resolver gs) (w_services w) ri)) eqn:Hrv.
  - destruct (route_pairs_build gs (w_services w) ri r o Hrv Hin) as [Ho _]. subst o.
    apply create_valid; assumption.
  - rewrite (route_pairs_invalid gs (w_services w) ri r o Hrv Hin) in Hv. discriminate.
Qed.

Lemma backend_denied w gs i ri ro r o :
  wf_grants gs ->
  nth_error (w_routes w) i = Some ri -> nth_error (ob_routes (build w gs)) i = Some ro ->
  ro_valid ro = true -> In (r, o) (route_pairs ri ro) ->
  ~ backend_permitted gs (ri_kind ri) (ri_ns ri) r ->
  bo_valid o = false /\ bo_svc o = empty_nsname /\
  (ref_shape_ok r = true -> In c_route_ref_not_permitted (ro_conds ro)).
Proof.
  intros Hwf H1 H2 Hrv Hin Hden. rewrite (build_route_at w gs i ri ro H1 H2) in *.
  destruct (route_pairs_build gs (w_services w) ri r o Hrv Hin) as [Ho [Hc _]]. subst o.
  destruct (create_denied gs (ri_kind ri) (ri_ns ri) (w_services w) r Hwf Hden) as [Hv [Hs Hcond]].
  split; [exact Hv|]. split; [exact Hs|]. intros Hok. apply Hc. apply Hcond. exact Hok.
Qed.

Lemma backend_granted_effective w gs i ri ro r o p ports :
  wf_grants gs ->
  nth_error (w_routes w) i = Some ri -> nth_error (ob_routes (build w gs)) i = Some ro ->
  ro_valid ro = true -> In (r, o) (route_pairs ri ro) ->
  ref_shape_ok r = true -> backend_permitted gs (ri_kind ri) (ri_ns ri) r ->
  br_port r = Some p -> (forall w0, br_weight r = Some w0 -> weight_ok w0 = true) ->
  find_service (w_services w) (ref_target (ri_ns ri) r) = Some ports -> In p ports ->
  bo_valid o = true /\ bo_svc o = ref_target (ri_ns ri) r /\ bo_port o = p.
Proof.
  intros Hwf H1 H2 Hrv Hin Hshape Hperm Hport Hw Hsvc Hp.
  rewrite (build_route_at w gs i ri ro H1 H2) in *.
  destruct (route_pairs_build gs (w_services w) ri r o Hrv Hin) as [Ho _]. subst o.
  rewrite (create_permitted gs (ri_kind ri) (ri_ns ri) (w_services w) r p ports Hwf Hshape Hperm Hport Hw Hsvc Hp).
  simpl. auto.
Qed.

Lemma secret_only_if_granted w gs i li lo s :
  wf_grants gs ->
  nth_error (w_listeners w) i = Some li -> nth_error (ob_listeners (build w gs)) i = Some lo ->
  lo_secret lo = Some s ->
  (exists c, li_proto li = PHTTPS /\ li_certs li = [c] /\ s = cert_target (w_gw_ns w) c) /\
  secret_permitted gs (w_gw_ns w) s.
Proof.
  intros Hwf H1 H2 Hs. rewrite (build_listener_at w gs i li lo H1 H2) in Hs.
  destruct (li_proto li) eqn:Hp;
    try (rewrite configure_other in Hs by congruence; discriminate).
  destruct (configure_https gs (w_secrets w) (w_gw_ns w) li Hwf Hp) as [Hbad Hgood].
  destruct (cert_shape_ok (li_certs li)) eqn:Hshape.
  - destruct (cert_shape_single _ Hshape) as [c Hc]. rewrite Hc in Hshape.
    destruct (Hgood c Hc Hshape) as [Hden Hperm].
    destruct (secret_ok gs (w_gw_ns w) (cert_target (w_gw_ns w) c)) eqn:Hok.
    + assert (P : secret_permitted gs (w_gw_ns w) (cert_target (w_gw_ns w) c)).
      { unfold secret_ok in Hok. apply orb_true_iff in Hok. unfold secret_permitted.
        rewrite String.eqb_eq, granted_b_iff in Hok. exact Hok. }
      destruct (Hperm P) as [_ [Hy Hn]].
      destruct (resolve_secret (w_secrets w) (cert_target (w_gw_ns w) c)).
      * rewrite (Hy eq_refl) in Hs. simpl in Hs. inversion Hs; subst. split; [|exact P]. exists c. auto.
      * rewrite (Hn eq_refl) in Hs. discriminate.
    + assert (P : ~ secret_permitted gs (w_gw_ns w) (cert_target (w_gw_ns w) c)).
      { intros P. unfold secret_permitted in P. rewrite <- granted_b_iff, <- String.eqb_eq in P.
        apply orb_true_iff in P. unfold secret_ok in Hok. congruence. }
      rewrite (Hden P) in Hs. discriminate.
  - rewrite (Hbad eq_refl) in Hs. discriminate.
Qed.

Lemma secret_denied w gs i li lo c :
  wf_grants gs ->
  nth_error (w_listeners w) i = Some li -> nth_error (ob_listeners (build w gs)) i = Some lo ->
  li_proto li = PHTTPS -> In c (li_certs li) ->
  ~ secret_permitted gs (w_gw_ns w) (cert_target (w_gw_ns w) c) ->
  lo_valid lo = false /\ lo_secret lo = None /\
  (cert_shape_ok (li_certs li) = true -> lo_conds lo = cs_listener_ref_not_permitted).
Proof.
  intros Hwf H1 H2 Hp Hin Hden. rewrite (build_listener_at w gs i li lo H1 H2).
  destruct (configure_https gs (w_secrets w) (w_gw_ns w) li Hwf Hp) as [Hbad Hgood].
  destruct (cert_shape_ok (li_certs li)) eqn:Hshape.
  - destruct (cert_shape_single _ Hshape) as [c' Hc]. rewrite Hc in Hshape, Hin.
    destruct Hin as [Heq|[]]. subst c'.
    destruct (Hgood c Hc Hshape) as [Hd _]. rewrite (Hd Hden). simpl. auto.
  - rewrite (Hbad eq_refl). simpl. split; [reflexivity|]. split; [reflexivity|]. discriminate.
Qed.

Lemma configure_snd gs secrets gw_ns l s :
  wf_grants gs -> snd (configure_listener (new_resolver gs) secrets gw_ns l) = Some s ->
  secret_permitted gs gw_ns s.
Proof.
  intros Hwf Hs. destruct (li_proto l) eqn:Hp;
    try (rewrite configure_other in Hs by congruence; discriminate).
  destruct (configure_https gs secrets gw_ns l Hwf Hp) as [Hbad Hgood].
  destruct (cert_shape_ok (li_certs l)) eqn:Hshape.
  - destruct (cert_shape_single _ Hshape) as [c Hc]. rewrite Hc in Hshape.
    destruct (Hgood c Hc Hshape) as [Hden Hperm].
    destruct (secret_ok gs gw_ns (cert_target gw_ns c)) eqn:Hok.
    + assert (P : secret_permitted gs gw_ns (cert_target gw_ns c)).
      { unfold secret_ok in Hok. apply orb_true_iff in Hok. unfold secret_permitted.
        rewrite String.eqb_eq, granted_b_iff in Hok. exact Hok. }
      destruct (Hperm P) as [Hsnd _]. rewrite Hsnd in Hs. inversion Hs; subst. exact P.
    + assert (P : ~ secret_permitted gs gw_ns (cert_target gw_ns c)).
      { intros P. unfold secret_permitted in P. rewrite <- granted_b_iff, <- String.eqb_eq in P.
        apply orb_true_iff in P. unfold secret_ok in Hok. congruence. }
      rewrite (Hden P) in Hs. discriminate.
  - rewrite (Hbad eq_refl) in Hs. discriminate.
Qed.

Lemma referenced_secrets_granted w gs s :
  wf_grants gs -> In s (ob_ref_secrets (build w gs)) -> secret_permitted gs (w_gw_ns w) s.
Proof.
  intros Hwf Hin. simpl in Hin. apply in_flat_map in Hin. destruct Hin as [x [Hx Hs]].
  apply in_map_iff in Hx. destruct Hx as [l [Hl _]]. subst x.
  destruct (snd (configure_listener (new_resolver gs) (w_secrets w) (w_gw_ns w) l)) as [s'|] eqn:E;
    simpl in Hs; [|tauto].
  destruct Hs as [Hs|[]]. subst s'. exact (configure_snd gs _ _ l s Hwf E).
Qed.

(* every internal BackendRef of a built route is the zero one or what create made of some backendRef *)
Lemma route_outs gs svcs ri b :
  In b (List.concat (ro_refs (build_route (new_resolver gs) svcs ri))) ->
  b = zero_bref \/
  exists r, b = fst (create_for (ri_kind ri) (resolver_for gs (ri_kind ri) (ri_ns ri)) svcs (ri_ns ri) r).
Proof.
  rewrite build_route_unfold.
  set (allowed := resolver_for gs (ri_kind ri) (ri_ns ri)).
  assert (L7 : In b (List.concat (ro_refs (build_l7 allowed svcs (ri_ns ri) (ri_rules ri)))) ->
               exists r, b = fst (create_backend_ref allowed svcs (ri_ns ri) r)).
  { unfold build_l7. simpl. intros Hin. apply in_concat in Hin. destruct Hin as [l [Hl Hb]].
    apply in_map_iff in Hl. destruct Hl as [rule [Hl _]]. subst l.
    apply in_map_iff in Hb. destruct Hb as [r [Hb _]]. exists r. symmetry. exact Hb. }
  destruct (ri_kind ri); simpl; try (intros H; right; exact (L7 H)).
  unfold build_tls.
  destruct (ri_rules ri) as [|[|r0 [|r1 rule]] [|rule2 rules]]; simpl;
    try (intros [H|[]]; left; symmetry; exact H).
  intros [H|[]]. right. exists r0. symmetry. exact H.
Qed.

Lemma local_iff route_ns r : ns_of (ref_target route_ns r) = route_ns <-> ~ cross_ref route_ns r.
Proof.
  unfold ref_target, cross_ref, ns_of. simpl. destruct (br_ns r) as [n|].
  - split.
    + intros Heq [n' [H1 H2]]. inversion H1; subst. congruence.
    + intros H. destruct (String.eqb_spec n route_ns) as [E|E]; [exact E|].
      exfalso. apply H. exists n. auto.
  - split; [|reflexivity]. intros _ [n' [H1 _]]. discriminate.
Qed.

Lemma service_ok_iff gs k route_ns s :
  service_ok gs k route_ns s = true <->
  ns_of s = route_ns \/ granted gs (from_route k route_ns) (to_service s).
Proof. unfold service_ok. rewrite orb_true_iff, String.eqb_eq, granted_b_iff. tauto. Qed.

Lemma service_ok_permitted gs k route_ns r :
  service_ok gs k route_ns (ref_target route_ns r) = true <-> backend_permitted gs k route_ns r.
Proof. rewrite service_ok_iff. unfold backend_permitted. rewrite local_iff. tauto. Qed.

Lemma referenced_services_granted w gs s :
  wf_grants gs -> In s (ob_ref_services (build w gs)) ->
  exists ri, In ri (w_routes w) /\
    (ns_of s = ri_ns ri \/ granted gs (from_route (ri_kind ri) (ri_ns ri)) (to_service s)).
Proof.
  intros Hwf Hin. simpl in Hin. unfold ref_services in Hin.
  apply in_flat_map in Hin. destruct Hin as [ro [Hro Hs]].
  apply in_map_iff in Hro. destruct Hro as [ri [Hro Hri]]. subst ro.
  destruct (ro_valid _); [|destruct Hs].
  apply filter_In in Hs. destruct Hs as [Hs Hne].
  apply in_map_iff in Hs. destruct Hs as [b [Hb Hin]]. subst s.
  exists ri. split; [exact Hri|]. apply service_ok_iff.
  destruct (route_outs gs (w_services w) ri b Hin) as [Hz|[r Hr]].
  - subst b. simpl in Hne. discriminate.
  - subst b. assert (Hn : bo_svc (fst (create_for (ri_kind ri) (resolver_for gs (ri_kind ri) (ri_ns ri))
                                        (w_services w) (ri_ns ri) r)) <> empty_nsname).
    { intros E. rewrite E in Hne. discriminate. }
    destruct (create_svc gs (ri_kind ri) (ri_ns ri) (w_services w) r Hwf Hn) as [Hperm Hsvc].
    rewrite Hsvc. apply service_ok_permitted. exact Hperm.
Qed.

(* ------------------------------------------------------------------ the model's output satisfies the oracle *)

Lemma all2_map_r {A B} (f : A -> B -> bool) (g : A -> B) l :
  all2 f l (map g l) = forallb (fun x => f x (g x)) l.
Proof. induction l as [|a l IH]; simpl; [reflexivity|]. destruct (f a (g a)); simpl; auto. Qed.

Lemma secret_ok_iff gs gw_ns s : secret_ok gs gw_ns s = true <-> secret_permitted gs gw_ns s.
Proof. unfold secret_ok, secret_permitted. rewrite orb_true_iff, String.eqb_eq, granted_b_iff. tauto. Qed.

Lemma listener_oracle_sound gs secrets gw_ns l :
  wf_grants gs ->
  listener_oracle gs gw_ns l (fst (configure_listener (new_resolver gs) secrets gw_ns l)) = true.
Proof.
  intros Hwf. unfold listener_oracle. destruct (li_proto l) eqn:Hp;
    try (rewrite configure_other by congruence; reflexivity).
  destruct (configure_https gs secrets gw_ns l Hwf Hp) as [Hbad Hgood].
  destruct (cert_shape_ok (li_certs l)) eqn:Hshape.
  - destruct (cert_shape_single _ Hshape) as [c Hc]. rewrite Hc in Hshape.
    destruct (Hgood c Hc Hshape) as [Hden Hperm]. rewrite Hc. simpl existsb. unfold cert_denied.
    destruct (secret_ok gs gw_ns (cert_target gw_ns c)) eqn:Hok.
    + assert (P : secret_permitted gs gw_ns (cert_target gw_ns c)) by (apply secret_ok_iff; exact Hok).
      destruct (Hperm P) as [_ [Hy Hn]].
      destruct (resolve_secret secrets (cert_target gw_ns c)).
      * rewrite (Hy eq_refl). simpl. rewrite Hok. reflexivity.
      * rewrite (Hn eq_refl). reflexivity.
    + assert (P : ~ secret_permitted gs gw_ns (cert_target gw_ns c)).
      { intros P. apply secret_ok_iff in P. congruence. }
      rewrite (Hden P). simpl.
      destruct (match cr_kind c with Some k => k =? "Secret" | None => true end &&
                match cr_group c with Some g => g =? "" | None => true end); reflexivity.
  - rewrite (Hbad eq_refl). simpl. destruct (existsb _ (li_certs l)); reflexivity.
Qed.

Lemma ref_oracle_sound gs k route_ns svcs conds r :
  wf_grants gs ->
  (forall c, snd (create_for k (resolver_for gs k route_ns) svcs route_ns r) = Some c -> In c conds) ->
  ref_oracle gs k route_ns conds r (fst (create_for k (resolver_for gs k route_ns) svcs route_ns r)) = true.
Proof.
  intros Hwf Hc. unfold ref_oracle. destruct (ref_denied gs k route_ns r) eqn:Hd; [|reflexivity].
  assert (P : ~ backend_permitted gs k route_ns r).
  { intros P. apply service_ok_permitted in P. unfold ref_denied in Hd. rewrite P in Hd. discriminate. }
  destruct (create_denied gs k route_ns svcs r Hwf P) as [Hv [_ Hcond]]. rewrite Hv. simpl.
  destruct (ref_shape_ok r); [|reflexivity].
  unfold has_cond. apply existsb_exists. exists c_route_ref_not_permitted. split.
  - apply Hc. apply Hcond. reflexivity.
  - reflexivity.
Qed.

Lemma route_oracle_sound gs svcs ri :
  wf_grants gs -> route_oracle gs ri (build_route (new_resolver gs) svcs ri) = true.
Proof.
  intros Hwf. unfold route_oracle. apply andb_true_iff. split.
  - apply forallb_forall. intros b Hb.
    destruct (route_outs gs svcs ri b Hb) as [Hz|[r Hr]]; subst b; [reflexivity|].
    set (x := fst (create_for (ri_kind ri) (resolver_for gs (ri_kind ri) (ri_ns ri)) svcs (ri_ns ri) r)).
    destruct (bo_valid x || nonempty_nsname (bo_svc x)) eqn:E; [|reflexivity].
    apply orb_true_iff in E. destruct E as [E|E].
    + destruct (create_valid gs (ri_kind ri) (ri_ns ri) svcs r Hwf E) as [Hperm Hsvc].
      fold x in Hsvc. rewrite Hsvc. apply service_ok_permitted. exact Hperm.
    + assert (Hn : bo_svc x <> empty_nsname).
      { intros Heq. rewrite Heq in E. discriminate. }
      destruct (create_svc gs (ri_kind ri) (ri_ns ri) svcs r Hwf Hn) as [Hperm Hsvc].
      fold x in Hsvc. rewrite Hsvc. apply service_ok_permitted. exact Hperm.
  - destruct (ro_valid (build_route (new_resolver gs) svcs ri)) eqn:Hrv; [|reflexivity].
    assert (L7 : forall k, ri_kind ri = k -> k <> KTLS ->
              all2 (fun refs outs =>
                      if existsb (ref_denied gs k (ri_ns ri)) refs
                      then all2 (ref_oracle gs k (ri_ns ri)
                                   (ro_conds (build_l7 (resolver_for gs k (ri_ns ri)) svcs (ri_ns ri) (ri_rules ri))))
                                refs outs
                      else true)
                   (ri_rules ri)
                   (ro_refs (build_l7 (resolver_for gs k (ri_ns ri)) svcs (ri_ns ri) (ri_rules ri))) = true).
    { intros k Hk Hnt. unfold build_l7. simpl. rewrite all2_map_r. apply forallb_forall. intros rule Hrule.
      destruct (existsb (ref_denied gs k (ri_ns ri)) rule); [|reflexivity].
      rewrite all2_map_r. apply forallb_forall. intros r Hr.
      assert (Hcf : create_for k = create_backend_ref) by (destruct k; [reflexivity|reflexivity|exfalso; apply Hnt; reflexivity]).
      rewrite <- Hcf. apply ref_oracle_sound; [exact Hwf|].
      intros c Hc. apply in_flat_map. exists rule. split; [exact Hrule|].
      apply in_flat_map. exists r. split; [exact Hr|]. cbv beta. rewrite Hc. simpl. auto. }
    rewrite build_route_unfold in *.
    destruct (ri_kind ri) eqn:Hk.
    + apply (L7 KHTTP eq_refl). discriminate.
    + apply (L7 KGRPC eq_refl). discriminate.
    + clear L7. unfold build_tls in *.
      destruct (ri_rules ri) as [|[|r0 [|r1 rule]] [|rule2 rules]]; simpl in Hrv; try discriminate.
      simpl.
      destruct (ref_denied gs KTLS (ri_ns ri) r0) eqn:Hd; simpl; [|reflexivity].
      pose proof (ref_oracle_sound gs KTLS (ri_ns ri) svcs
                    (opt_list (snd (create_backend_ref_tls (resolver_for gs KTLS (ri_ns ri)) svcs (ri_ns ri) r0))) r0 Hwf) as H.
      simpl in H. rewrite H; [reflexivity|].
      intros c Hc. rewrite Hc. simpl. auto.
Qed.

(* for admissible grants the model's graph satisfies the oracle of Check.v (ties oracle and theorems) *)
Lemma oracle_sound w gs : wf_grants gs -> oracle w gs (build w gs) = true.
Proof.
  intros Hwf. unfold oracle. rewrite !andb_true_iff. repeat split.
  - simpl. rewrite map_map, all2_map_r. apply forallb_forall. intros l _.
    apply listener_oracle_sound. exact Hwf.
  - apply forallb_forall. intros s Hs. apply secret_ok_iff.
    exact (referenced_secrets_granted w gs s Hwf Hs).
  - simpl. rewrite all2_map_r. apply forallb_forall. intros ri _.
    apply route_oracle_sound. exact Hwf.
  - apply forallb_forall. intros s Hs.
    destruct (referenced_services_granted w gs s Hwf Hs) as [ri [Hri Hok]].
    apply existsb_exists. exists ri. split; [exact Hri|]. apply service_ok_iff. exact Hok.
Qed.

(* ------------------------------------------------------------------ non-vacuity: concrete worlds *)

Definition ex_world : world :=
  World "ns-a"
        [LI "http" PHTTP []; LI "https" PHTTPS [CR None (Some "Secret") "sec1" (Some "ns-b")]]
        [RI KHTTP "ns-a" "r0" [[BR None None "svc1" (Some "ns-b") (Some 80%Z) None false;
                                BR None None "svc1" None (Some 80%Z) (Some 3%Z) false]];
         RI KTLS "ns-c" "t0" [[BR (Some "core") (Some "Service") "svc1" (Some "ns-b") (Some 80%Z) None false]]]
        [(("ns-b", "svc1"), [80%Z]); (("ns-a", "svc1"), [8080%Z; 80%Z])]
        [(("ns-b", "sec1"), true)].

Definition ex_grant : grant :=
  Grant "ns-b" "g"
        [GF gateway_group "Gateway" "ns-a"; GF gateway_group "HTTPRoute" "ns-a"]
        [GT "core" "Secret" (Some "sec1"); GT "" "Service" None].

(* same grant, but living in the referrer's namespace: a near miss *)
Definition ex_grant_wrong_ns : grant :=
  Grant "ns-a" "g" (g_from ex_grant) (g_to ex_grant).

Example ex_wf : wf_grants [ex_grant].
Proof.
  intros g [<-|[]] t Ht. simpl in Ht. destruct Ht as [<-|[<-|[]]]; simpl; discriminate.
Qed.

Example ex_granted_secret : granted [ex_grant] (from_gateway "ns-a") (to_secret ("ns-b", "sec1")).
Proof.
  exists ex_grant. split; [left; reflexivity|]. split; [reflexivity|]. split.
  - exists (GF gateway_group "Gateway" "ns-a"). split; [left; reflexivity|]. repeat split.
  - exists (GT "core" "Secret" (Some "sec1")). split; [left; reflexivity|]. repeat split. right. reflexivity.
Qed.

Example ex_not_granted_tls : ~ granted [ex_grant] (from_tlsroute "ns-c") (to_service ("ns-b", "svc1")).
Proof.
  intros H. apply granted_b_iff in H. vm_compute in H. discriminate.
Qed.

(* with the grant: the listener serves the foreign Secret, the HTTPRoute's foreign backend is valid;
   the TLSRoute (another kind, another namespace) is still refused *)
Example ex_build_granted :
  build ex_world [ex_grant] =
  Obs [LO "http" true None []; LO "https" true (Some ("ns-b", "sec1")) []]
      [RO true [[BO true ("ns-b", "svc1") 80%Z 1%Z; BO true ("ns-a", "svc1") 80%Z 3%Z]] [];
       RO true [[BO false ("", "") 0%Z 0%Z]] [c_route_ref_not_permitted]]
      [("ns-b", "sec1")]
      [("ns-b", "svc1"); ("ns-a", "svc1")].
Proof. vm_compute. reflexivity. Qed.

(* without (or with the near miss): listener not programmed, backend invalid (500), RefNotPermitted reported *)
Example ex_build_denied :
  build ex_world [ex_grant_wrong_ns] = build ex_world [] /\
  build ex_world [] =
  Obs [LO "http" true None []; LO "https" false None cs_listener_ref_not_permitted]
      [RO true [[BO false ("", "") 0%Z 1%Z; BO true ("ns-a", "svc1") 80%Z 3%Z]] [c_route_ref_not_permitted];
       RO true [[BO false ("", "") 0%Z 0%Z]] [c_route_ref_not_permitted]]
      []
      [("ns-a", "svc1")].
Proof. split; vm_compute; reflexivity. Qed.

(* create, then revoke: the effect is there after the first reconciliation and gone after the second *)
Example ex_revocation :
  reconcile ex_world [] [Upsert ex_grant; Delete ("ns-b", "g")] = [build ex_world [ex_grant]; build ex_world []].
Proof. vm_compute. reflexivity. Qed.

Example ex_oracle_rejects_leak :
  (* the oracle is not vacuous: the granted graph, presented for the empty store, is rejected *)
  oracle ex_world [] (build ex_world [ex_grant]) = false /\ oracle ex_world [ex_grant] (build ex_world [ex_grant]) = true.
Proof. split; vm_compute; reflexivity. Qed.
