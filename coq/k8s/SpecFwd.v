(* What Gateway API prescribes for the forwarded request, next to k8s/Spec.v's decision which rule answers: the path the
   backend receives (the request path, unless the rule has a URLRewrite filter with a path modifier), the Host header
   (the request's, unless URLRewrite sets a hostname), and for a RequestRedirect the path of the Location (the request
   path unless the filter has a path modifier). Prefix replacement is C02/Rewrite.v's [expected]. *)
From Coq Require Import List String ZArith Bool Arith.
From NGF Require Import lib.Str k8s.State k8s.Spec C02.Rewrite.
Import ListNotations.

(* the candidate [decide] lets answer (same selection, returning the candidate) *)
Definition decide_cand (cs : cluster) (q : request) : option cand :=
  match winning_gateway cs with
  | None => None
  | Some g =>
      let ls := valid_listeners_on cs g (q_port q) in
      match ls with
      | [] => None
      | l0 :: _ =>
          let tls_port := secure (l_proto l0) in
          if negb (Bool.eqb tls_port (q_tls q)) then None else
          let binds := port_bindings cs g (q_port q) in
          let names := List.app (map (fun b => fst (fst b)) binds) (if tls_port then https_listener_names cs g (q_port q) else []) in
          let lookup := if tls_port then match q_sni q with Some s => s | None => ""%string end else q_host q in
          match (if tls_port then match q_sni q with Some s => best_name None names s | None => None end
                 else best_name None names (q_host q)) with
          | None => None
          | Some x =>
              if tls_port && negb (seqb lookup (q_host q)) then None
              else
                let cands := flat_map (fun b => if seqb (fst (fst b)) x then route_cands (snd b) else []) binds in
                match best_path None cands (q_path q) with
                | None => None
                | Some p => group_best (filter (fun c => pathm_eqb (hm_path (cd_match c)) p) cands) q
                end
          end
      end
  end.

Definition modified_path (pm : option pathmod) (matched : pathm) (q : string) : string :=
  match pm with
  | None => q
  | Some (ReplaceFull s) => s
  | Some (ReplacePrefix R) =>
      match matched with
      | PathPrefix p => string_of (expected (chars_of p) (chars_of R) (chars_of q))
      | PathExact _ => q         (* the CRD admits ReplacePrefixMatch only on rules whose matches are all PathPrefix *)
      end
  end.

Inductive fwd_spec :=
| SNone
| SProxy (path : string) (host : option string)     (* host: Some h when URLRewrite sets the hostname *)
| SRedirect (path : string).

Definition expected_forward (cs : cluster) (q : request) : fwd_spec :=
  match decide_cand cs q with
  | None => SNone
  | Some c =>
      let ru := cd_rule c in
      if existsb is_unsupported (r_filters ru) then SNone
      else match find is_redirect (r_filters ru) with
           | Some (FRedirect _ _ _ _ pa) => SRedirect (modified_path pa (hm_path (cd_match c)) (q_path q))
           | _ =>
               match find (fun f => match f with FRewrite _ _ => true | _ => false end) (r_filters ru) with
               | Some (FRewrite ho pa) => SProxy (modified_path pa (hm_path (cd_match c)) (q_path q)) ho
               | _ => SProxy (q_path q) None
               end
           end
  end.

(* ---------------------------------------------------------------- header modifiers *)

Definition req_header_filter (ru : rule) : option (list (string * string) * list (string * string) * list string) :=
  match find (fun f => match f with FReqHeaders _ _ _ => true | _ => false end) (r_filters ru) with
  | Some (FReqHeaders s a r) => Some (s, a, r)
  | _ => None
  end.
Definition resp_header_filter (ru : rule) : option (list (string * string) * list (string * string) * list string) :=
  match find (fun f => match f with FRespHeaders _ _ _ => true | _ => false end) (r_filters ru) with
  | Some (FRespHeaders s a r) => Some (s, a, r)
  | _ => None
  end.

Definition req_value (q : request) (n : string) : string :=
  match find (fun hv => seqb (lower (fst hv)) (lower n)) (q_headers q) with Some hv => snd hv | None => ""%string end.

(* RequestHeaderModifier: what the backend receives for a header the filter names: set overwrites, add appends to what the
   request carries, remove deletes *)
Definition expected_req_headers (q : request) (ru : rule) : list (string * option string) :=
  match req_header_filter ru with
  | None => []
  | Some (s, a, r) =>
      map (fun nv => (fst nv, Some (snd nv))) s ++
      map (fun nv => (fst nv, Some (let old := req_value q (fst nv) in
                                    if seqb old "" then snd nv else (old ++ "," ++ snd nv)%string))) a ++
      map (fun n => (n, None)) r
  end.

(* ResponseHeaderModifier: the headers added to the response and the backend's headers that must not pass *)
Definition expected_resp_headers (ru : rule) : list (string * string) * list string :=
  match resp_header_filter ru with
  | None => ([], [])
  | Some (s, a, r) => (a ++ s, map fst s ++ r)
  end.
