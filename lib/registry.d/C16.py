"""C16 check configuration."""


def setup(register, COMMON_TB):
    register(
        "C16", coq="C16", coq_extra=["k8s", "ngx", "C02"], pkg="./internal/mode/static/", test="TestVerifC16",
        extra=[dict(pkg="./internal/mode/static/state/graph/", test="TestVerifC16Match")],
        rule="TLS-heavy generated cluster states (HTTPS listeners on shared ports with distinct Secrets per (namespace, name), missing / malformed / "
             "cross-namespace Secrets, BackendTLSPolicies with ConfigMap or system CA, competing policies per Service, rules with several backends) run "
             "through the real pipeline; per generated request the selected server's certificate file and its bytes (hash) are compared with the Secret of "
             "the owning listener per k8s/Spec.v, trusted-CA files with the ConfigMap, and the proxied outcome including upstream TLS verification "
             "with the specification; non-trivial = at least one HTTPS listener and http.conf over 2 kB. Second part (TestVerifC16Match, evaluated by C16/PolMatchCheck.v): the real "
             "validateBackendTLSPolicyMatchingAllBackends on lists of 1-5 backends without a policy or with one of three policies that differ from each other in at most one of "
             "namespace / CA references / well-known setting / hostname: verdict = the model's, and a rule that is not rejected has backends that all mean the same verification",
        trusted_base=COMMON_TB + [
            "ngx/Lexer.v + ngx/Eval.v (server selection by SNI) written from the NGINX documentation",
            "k8s/Spec.v expected_secret / btp_for / rule_tls_consistent as specification",
            "tls.X509KeyPair validity is an oracle flag of the abstract Secret; content equality is decided on SHA-256 prefixes computed by the harness",
        ],
        assumptions=[],
        timeout={"quick": 900, "thorough": 7200},
    )
