(* C20 — lemmas, part 4: every documented value is accepted (repaired tree); the tree as found
   refuses every documented endpoint whose port is 32768..65535 (D23). *)
From Coq Require Import String Ascii NArith ZArith Bool Arith List Lia DecimalString.
From NGF Require Import C20.Model C20.Spec C20.ProofsSafe C20.ProofsEndpoint.
Import ListNotations.

(* ------------------------------------------------------------------ finite enumeration over N *)

Definition all_below (P : N -> bool) (n : N) : bool :=
  N.peano_rect (fun _ => bool) true (fun k acc => acc && P k) n.

Lemma all_below_spec : forall P n, all_below P n = true -> forall k, (k < n)%N -> P k = true.
Proof.
  intros P n. induction n as [|n IH] using N.peano_ind; intros H k Hk; [lia|].
  unfold all_below in H. rewrite N.peano_rect_succ in H. apply andb_true_iff in H. destruct H as [H1 H2].
  destruct (N.eq_dec k n) as [->|Hne]; [exact H2|]. apply IH; [exact H1|lia].
Qed.

(* ------------------------------------------------------------------ decimal numerals *)

Lemma uint_digits : forall d, forallb is_digit (lit (NilEmpty.string_of_uint d)) = true.
Proof. induction d; simpl; auto. Qed.

Lemma dec_digits : forall n, forallb is_digit (dec n) = true.
Proof.
  intro n. unfold dec, NilZero.string_of_uint. destruct (N.to_uint n); try reflexivity; apply uint_digits.
Qed.

(* the numerals of 1..65535 are exactly what the oracle calls a documented port (checked one by one) *)
Lemma dec_port_ok_all : all_below (fun k => (k =? 0)%N || port_ok (dec k)) 65536 = true.
Proof. vm_compute. reflexivity. Qed.

Lemma dec_port_ok : forall n, (1 <= n <= 65535)%N -> port_ok (dec n) = true.
Proof.
  intros n Hn. assert (H := all_below_spec _ _ dec_port_ok_all n). simpl in H.
  assert (Hk : (n < 65536)%N) by lia. specialize (H Hk). apply orb_true_iff in H. destruct H as [H|H]; [|exact H].
  apply N.eqb_eq in H. lia.
Qed.

(* int16 overflow, numeral by numeral *)
Lemma as_found_high_all :
  all_below (fun k => (k <? 32768)%N || match parse_int 16 (dec k) with None => true | Some _ => false end) 65536 = true.
Proof. vm_compute. reflexivity. Qed.

Lemma as_found_high : forall n, (32768 <= n <= 65535)%N -> parse_int 16 (dec n) = None.
Proof.
  intros n Hn. assert (H := all_below_spec _ _ as_found_high_all n). simpl in H.
  assert (Hk : (n < 65536)%N) by lia. specialize (H Hk). apply orb_true_iff in H. destruct H as [H|H].
  - apply N.ltb_lt in H. lia.
  - destruct (parse_int 16 (dec n)); [discriminate|reflexivity].
Qed.

Lemma parse_uint_loop_all : forall s acc, forallb is_digit s = true -> parse_uint_loop acc s = Some (dec_value acc s).
Proof.
  induction s as [|c r IH]; intros acc H; simpl; [reflexivity|]. simpl in H. apply andb_true_iff in H.
  destruct H as [H1 H2]. rewrite H1. apply IH. exact H2.
Qed.

Lemma digit_not_sign : forall c, is_digit c = true -> Ascii.eqb c c_plus = false /\ Ascii.eqb c c_dash = false /\ Ascii.eqb c c_pct = false.
Proof. intro c. ascii_cases c; vm_compute; intro H; try discriminate H; repeat split; reflexivity. Qed.

Lemma canon_dec_digits : forall s, canon_dec s = true -> s <> [] /\ forallb is_digit s = true.
Proof.
  intros s H. destruct s as [|c r]; [discriminate|]. split; [discriminate|].
  destruct r as [|c' r'].
  - simpl in *. rewrite H. reflexivity.
  - unfold canon_dec in H. apply andb_true_iff in H. exact (proj2 H).
Qed.

(* a canonical numeral below the cutoff is parsed to its value *)
Lemma parse_int_canon : forall bits s, canon_dec s = true -> (dec_value 0 s < 2 ^ (bits - 1))%N ->
  parse_int bits s = Some (Z.of_N (dec_value 0 s)).
Proof.
  intros bits s Hc Hlt. destruct (canon_dec_digits _ Hc) as [Hne Hd]. destruct s as [|c r]; [congruence|].
  unfold parse_int. assert (Hc1 : is_digit c = true) by (simpl in Hd; apply andb_true_iff in Hd; exact (proj1 Hd)).
  destruct (digit_not_sign _ Hc1) as (E1 & E2 & _). rewrite E1, E2. simpl orb. cbv iota.
  unfold parse_uint. rewrite (parse_uint_loop_all _ _ Hd). simpl negb. simpl andb.
  assert (E : (2 ^ (bits - 1) <=? dec_value 0 (c :: r))%N = false) by (apply N.leb_gt; exact Hlt).
  change (dec_value (digit_val c) r) with (dec_value 0 (c :: r)). rewrite E. reflexivity.
Qed.

Lemma port_ok_parse : forall p, port_ok p = true ->
  exists v, parse_int 32 p = Some v /\ port_in_range v = true.
Proof.
  intros p H. unfold port_ok, dec_in in H. apply andb_true_iff in H. destruct H as [H H4].
  apply andb_true_iff in H. destruct H as [H H3]. apply andb_true_iff in H. destruct H as [H1 _].
  apply N.leb_le in H3. apply N.leb_le in H4.
  exists (Z.of_N (dec_value 0 p)). split.
  - apply parse_int_canon; [exact H1|]. change (2 ^ (32 - 1))%N with 2147483648%N. lia.
  - unfold port_in_range. apply negb_true_iff. apply orb_false_iff. split; [apply Z.ltb_ge|apply Z.ltb_ge]; lia.
Qed.

Lemma port_ok_plain : forall p, port_ok p = true ->
  has c_colon p = false /\ has c_lbr p = false /\ has c_rbr p = false.
Proof.
  intros p H. unfold port_ok, dec_in in H. apply andb_true_iff in H. destruct H as [H _].
  apply andb_true_iff in H. destruct H as [H _]. apply andb_true_iff in H. destruct H as [H _].
  destruct (canon_dec_digits _ H) as [_ Hd].
  repeat split; apply (has_false_forall _ is_digit); try exact Hd; intros x Hx; rewrite eqb_sym';
    destruct (digit_plain _ Hx) as (A & B & C & _); assumption.
Qed.

(* ------------------------------------------------------------------ SplitHostPort on the documented shapes *)

Lemma shp_plain : forall h p,
  has c_colon h = false -> has c_lbr h = false -> has c_rbr h = false ->
  has c_colon p = false -> has c_lbr p = false -> has c_rbr p = false ->
  split_host_port (h ++ c_colon :: p) = SHP_ok h p.
Proof.
  intros h p H1 H2 H3 H4 H5 H6. unfold split_host_port. rewrite (split_last_app _ _ _ H4).
  assert (Hl : has c_lbr (h ++ c_colon :: p) = false) by (rewrite has_app; simpl; rewrite H2, H5; reflexivity).
  assert (Hr : has c_rbr (h ++ c_colon :: p) = false) by (rewrite has_app; simpl; rewrite H3, H6; reflexivity).
  destruct (h ++ c_colon :: p) as [|c af] eqn:E; [destruct h; discriminate|].
  rewrite (has_false_first _ _ _ Hl), H1, Hl, Hr. reflexivity.
Qed.

Lemma dns_plain : forall h, forallb dns_char h = true ->
  has c_colon h = false /\ has c_lbr h = false /\ has c_rbr h = false.
Proof.
  intros h H. repeat split; apply (has_false_forall _ dns_char); try exact H; intros x Hx; rewrite eqb_sym';
    destruct (dns_char_plain _ Hx) as (A & B & C & _); assumption.
Qed.

(* ------------------------------------------------------------------ dotted quads *)

Definition v4_char (c : ascii) : bool := is_digit c || Ascii.eqb c c_dot.

Lemma v4_char_plain : forall c, v4_char c = true ->
  Ascii.eqb c c_colon = false /\ Ascii.eqb c c_lbr = false /\ Ascii.eqb c c_rbr = false /\ Ascii.eqb c c_pct = false.
Proof. intro c. ascii_cases c; vm_compute; intro H; try discriminate H; repeat split; reflexivity. Qed.

Lemma dec_value_mono : forall s acc, (acc <= dec_value acc s)%N.
Proof.
  induction s as [|c r IH]; intro acc; simpl; [lia|]. specialize (IH (acc * 10 + digit_val c)%N). lia.
Qed.

Lemma scan_more : forall ds val diglen rest pos,
  2 <= diglen \/ (diglen = 1 /\ val <> 0%N) ->
  forallb is_digit ds = true -> (dec_value val ds <= 255)%N ->
  v4_loop (ds ++ rest) false false val diglen pos =
  v4_loop rest false false (dec_value val ds) (diglen + length ds) pos.
Proof.
  induction ds as [|c r IH]; intros val diglen rest pos Hd Hdig Hv.
  - simpl. rewrite Nat.add_0_r. reflexivity.
  - simpl in Hdig. apply andb_true_iff in Hdig. destruct Hdig as [Hc Hr]. cbn [app v4_loop]. rewrite Hc.
    assert (E1 : ((diglen =? 1) && (val =? 0)%N) = false).
    { destruct Hd as [Hd|[Hd Hz]].
      - assert (E : (diglen =? 1) = false) by (apply Nat.eqb_neq; lia). rewrite E. reflexivity.
      - apply N.eqb_neq in Hz. rewrite Hz. apply andb_false_r. }
    rewrite E1. simpl in Hv.
    assert (Hm := dec_value_mono r (val * 10 + digit_val c)%N).
    assert (E2 : (255 <? val * 10 + digit_val c)%N = false) by (apply N.ltb_ge; lia).
    rewrite E2. rewrite IH; [|left; lia|exact Hr|exact Hv]. cbn [dec_value length]. f_equal. lia.
Qed.

Lemma octet_ok_facts : forall a, octet_ok a = true ->
  exists c ds, a = c :: ds /\ is_digit c = true /\ forallb is_digit ds = true /\
               (dec_value 0 a <= 255)%N /\ (ds = [] \/ digit_val c <> 0%N).
Proof.
  intros a H. unfold octet_ok, dec_in in H. apply andb_true_iff in H. destruct H as [H H4].
  apply andb_true_iff in H. destruct H as [H _]. apply andb_true_iff in H. destruct H as [H1 _].
  apply N.leb_le in H4. destruct a as [|c ds]; [discriminate|]. exists c, ds.
  destruct ds as [|c' ds'].
  - simpl in H1. repeat split; auto.
  - unfold canon_dec in H1. apply andb_true_iff in H1. destruct H1 as [H1 Hd].
    apply andb_true_iff in H1. destruct H1 as [Hc Hz].
    simpl in Hd. apply andb_true_iff in Hd. destruct Hd as [_ Hd].
    repeat split; auto. right.
    clear -Hc Hz. revert Hc Hz. ascii_cases c; vm_compute; intros; try discriminate; congruence.
Qed.

Lemma octet_scan : forall a rest first prevdot pos, octet_ok a = true ->
  v4_loop (a ++ rest) first prevdot 0 0 pos =
  v4_loop rest false false (dec_value 0 a) (length a) pos.
Proof.
  intros a rest first prevdot pos H. destruct (octet_ok_facts _ H) as (c & ds & -> & Hc & Hd & Hv & Hz).
  cbn [app v4_loop]. rewrite Hc. cbn [Nat.eqb andb]. cbv iota.
  assert (Hm := dec_value_mono ds (0 * 10 + digit_val c)%N). cbn [dec_value] in Hv.
  assert (E2 : (255 <? 0 * 10 + digit_val c)%N = false) by (apply N.ltb_ge; lia).
  rewrite E2. destruct Hz as [->|Hz].
  - reflexivity.
  - rewrite scan_more; [reflexivity| right; split; [reflexivity|simpl; lia] |exact Hd|exact Hv].
Qed.

Lemma octet_nonempty : forall a, octet_ok a = true -> is_nil a = false.
Proof. intros a H. destruct (octet_ok_facts _ H) as (c & ds & -> & _). reflexivity. Qed.

Lemma octet_chars : forall a, octet_ok a = true -> forallb v4_char a = true.
Proof.
  intros a H. destruct (octet_ok_facts _ H) as (c & ds & -> & Hc & Hd & _). simpl. unfold v4_char at 1. rewrite Hc. simpl.
  apply (forallb_imp is_digit); [|exact Hd]. intros x Hx. unfold v4_char. rewrite Hx. reflexivity.
Qed.

Fixpoint join (sep : ascii) (l : list str) : str :=
  match l with
  | [] => []
  | [x] => x
  | x :: r => x ++ sep :: join sep r
  end.

Lemma split_on_join : forall sep s, join sep (split_on sep s) = s.
Proof.
  intros sep s. induction s as [|c r IH]; [reflexivity|]. simpl.
  destruct (Ascii.eqb c sep) eqn:E.
  - apply eqb_eq' in E. subst c. destruct (split_on sep r) eqn:Er; [exfalso; exact (split_on_nonempty _ _ Er)|].
    simpl in *. rewrite IH. reflexivity.
  - destruct (split_on sep r) as [|p ps] eqn:Er; [exfalso; exact (split_on_nonempty _ _ Er)|].
    destruct ps; simpl in *; rewrite <- IH; reflexivity.
Qed.

Lemma ipv4_ok_shape : forall s, ipv4_ok s = true ->
  exists a b c d, s = a ++ c_dot :: b ++ c_dot :: c ++ c_dot :: d /\
                  octet_ok a = true /\ octet_ok b = true /\ octet_ok c = true /\ octet_ok d = true.
Proof.
  intros s H. unfold ipv4_ok in H. assert (J := split_on_join c_dot s).
  destruct (split_on c_dot s) as [|a [|b [|c [|d [|e r]]]]]; try discriminate.
  apply andb_true_iff in H. destruct H as [H Hd]. apply andb_true_iff in H. destruct H as [H Hc].
  apply andb_true_iff in H. destruct H as [Ha Hb]. exists a, b, c, d. simpl in J. auto.
Qed.

Lemma ipv4_ok_parse : forall s, ipv4_ok s = true -> parse_ipv4 s = true.
Proof.
  intros s H. destruct (ipv4_ok_shape _ H) as (a & b & c & d & -> & Ha & Hb & Hc & Hd).
  unfold parse_ipv4.
  assert (Hdot : forall x rest val dl pos, octet_ok x = true -> pos <? 3 = true ->
            v4_loop (c_dot :: x ++ rest) false false val dl pos = v4_loop (x ++ rest) false true 0 0 (S pos)).
  { intros x rest val dl pos Hx Hp. cbn [v4_loop]. change (is_digit c_dot) with false. cbv iota.
    rewrite Ascii.eqb_refl. cbn [orb].
    assert (E : is_nil (x ++ rest) = false) by (destruct (octet_ok_facts _ Hx) as (c0 & ds & -> & _); reflexivity).
    rewrite E. cbv iota. destruct pos as [|[|[|pos]]]; try discriminate; reflexivity. }
  rewrite (octet_scan a _ _ _ _ Ha). rewrite (Hdot b _ _ _ 0 Hb eq_refl).
  rewrite (octet_scan b _ _ _ _ Hb). rewrite (Hdot c _ _ _ 1 Hc eq_refl).
  rewrite (octet_scan c _ _ _ _ Hc).
  replace d with (d ++ []) by apply app_nil_r. rewrite (Hdot d _ _ _ 2 Hd eq_refl).
  rewrite (octet_scan d _ _ _ _ Hd). reflexivity.
Qed.

Lemma ipv4_ok_chars : forall s, ipv4_ok s = true -> s <> [] /\ forallb v4_char s = true.
Proof.
  intros s H. destruct (ipv4_ok_shape _ H) as (a & b & c & d & -> & Ha & Hb & Hc & Hd). split.
  - destruct (octet_ok_facts _ Ha) as (c0 & ds & -> & _). discriminate.
  - rewrite !forallb_app. simpl. rewrite !forallb_app. simpl. rewrite !forallb_app. simpl.
    rewrite (octet_chars _ Ha), (octet_chars _ Hb), (octet_chars _ Hc), (octet_chars _ Hd). reflexivity.
Qed.

Lemma first_special_v4 : forall a rest, forallb is_digit a = true -> first_special (a ++ c_dot :: rest) = 1.
Proof.
  induction a as [|c r IH]; intros rest H; [reflexivity|]. simpl in H. apply andb_true_iff in H. destruct H as [H1 H2].
  cbn [app first_special]. destruct (digit_plain _ H1) as (A & _ & _ & D & _). destruct (digit_not_sign _ H1) as (_ & _ & P).
  rewrite A, D, P. apply IH. exact H2.
Qed.

Lemma ipv4_ok_validate : forall s, ipv4_ok s = true -> validate_ip s = true.
Proof.
  intros s H. assert (Hp := ipv4_ok_parse _ H). destruct (ipv4_ok_chars _ H) as [Hne _].
  unfold validate_ip. destruct s as [|c0 r0] eqn:Es; [congruence|]. cbn [is_nil]. cbv iota. rewrite <- Es in *.
  unfold parse_ip. destruct (ipv4_ok_shape _ H) as (a & b & c & d & E & Ha & _).
  destruct (octet_ok_facts _ Ha) as (x & ds & Ea & Hx & Hds & _).
  assert (F : first_special s = 1).
  { rewrite E. apply first_special_v4. rewrite Ea. simpl. rewrite Hx, Hds. reflexivity. }
  rewrite F. exact Hp.
Qed.

Lemma v4_plain : forall h, forallb v4_char h = true ->
  has c_colon h = false /\ has c_lbr h = false /\ has c_rbr h = false.
Proof.
  intros h H. repeat split; apply (has_false_forall _ v4_char); try exact H; intros x Hx; rewrite eqb_sym';
    destruct (v4_char_plain _ Hx) as (A & B & C & _); assumption.
Qed.

(* ------------------------------------------------------------------ documented endpoints are accepted *)

Lemma doc_endpoint_plain_accepted : forall s, doc_endpoint_plain s = true -> validate_endpoint repaired s = true.
Proof.
  intros s H. unfold doc_endpoint_plain in H. destruct (split_last c_colon s) as [[h p]|] eqn:E; [|discriminate].
  destruct (split_last_spec _ _ _ _ E) as [Es _]. apply andb_true_iff in H. destruct H as [Hp Hh].
  destruct (port_ok_parse _ Hp) as (v & Hv & Hr). destruct (port_ok_plain _ Hp) as (P1 & P2 & P3).
  assert (Hplain : has c_colon h = false /\ has c_lbr h = false /\ has c_rbr h = false /\
                   (if validate_ip h then true else if is_dns1123_subdomain h then true else false) = true).
  { apply orb_true_iff in Hh. destruct Hh as [Hh|Hh].
    - rewrite <- subdomain_model_is_spec in Hh. destruct (subdomain_chars _ Hh) as [_ Hc].
      destruct (dns_plain _ Hc) as (A & B & C). repeat split; auto. rewrite Hh. destruct (validate_ip h); reflexivity.
    - destruct (ipv4_ok_chars _ Hh) as [_ Hc]. destruct (v4_plain _ Hc) as (A & B & C). repeat split; auto.
      rewrite (ipv4_ok_validate _ Hh). reflexivity. }
  destruct Hplain as (A & B & C & D).
  unfold validate_endpoint. rewrite Es, (shp_plain h p A B C P1 P2 P3).
  change (v_port_bits repaired) with 32%N. rewrite Hv, Hr. exact D.
Qed.

(* the optional-port validator accepts the same endpoints, and bare DNS names and IPv4 addresses *)
Lemma doc_endpoint_plain_accepted_opt : forall s, doc_endpoint_plain s = true ->
  validate_endpoint_optional_port repaired s = true.
Proof.
  intros s H. unfold doc_endpoint_plain in H. destruct (split_last c_colon s) as [[h p]|] eqn:E; [|discriminate].
  destruct (split_last_spec _ _ _ _ E) as [Es _]. apply andb_true_iff in H. destruct H as [Hp Hh].
  destruct (port_ok_parse _ Hp) as (v & Hv & Hr). destruct (port_ok_plain _ Hp) as (P1 & P2 & P3).
  assert (Hplain : has c_colon h = false /\ has c_lbr h = false /\ has c_rbr h = false /\ h <> [] /\
                   (if validate_ip h then true else if is_dns1123_subdomain h then true else false) = true).
  { apply orb_true_iff in Hh. destruct Hh as [Hh|Hh].
    - rewrite <- subdomain_model_is_spec in Hh. destruct (subdomain_chars _ Hh) as [Hne Hc].
      destruct (dns_plain _ Hc) as (A & B & C). repeat split; auto. rewrite Hh. destruct (validate_ip h); reflexivity.
    - destruct (ipv4_ok_chars _ Hh) as [Hne Hc]. destruct (v4_plain _ Hc) as (A & B & C). repeat split; auto.
      rewrite (ipv4_ok_validate _ Hh). reflexivity. }
  destruct Hplain as (A & B & C & Hne & D).
  unfold validate_endpoint_optional_port. rewrite Es at 1.
  assert (Enil : is_nil (h ++ c_colon :: p) = false) by (destruct h; reflexivity). rewrite Enil. cbv iota.
  rewrite Es, (shp_plain h p A B C P1 P2 P3). cbn [negb]. cbv iota.
  assert (Ep : is_nil p = false).
  { destruct p; [|reflexivity]. unfold port_ok, dec_in in Hp. simpl in Hp. discriminate. }
  rewrite Ep. change (v_port_bits repaired) with 32%N. rewrite Hv, Hr. cbn [negb]. cbv iota.
  assert (Eh : is_nil h = false) by (destruct h; [congruence|reflexivity]). rewrite Eh. exact D.
Qed.

Lemma bare_host_accepted_opt : forall v s, (subdomain_ok s = true \/ ipv4_ok s = true) ->
  validate_endpoint_optional_port v s = true.
Proof.
  intros v s Hh.
  assert (Hplain : has c_colon s = false /\ has c_lbr s = false /\ has c_rbr s = false /\ s <> [] /\
                   (if validate_ip s then true else if is_dns1123_subdomain s then true else false) = true).
  { destruct Hh as [Hh|Hh].
    - rewrite <- subdomain_model_is_spec in Hh. destruct (subdomain_chars _ Hh) as [Hne Hc].
      destruct (dns_plain _ Hc) as (A & B & C). repeat split; auto. rewrite Hh. destruct (validate_ip s); reflexivity.
    - destruct (ipv4_ok_chars _ Hh) as [Hne Hc]. destruct (v4_plain _ Hc) as (A & B & C). repeat split; auto.
      rewrite (ipv4_ok_validate _ Hh). reflexivity. }
  destruct Hplain as (A & B & C & Hne & D).
  unfold validate_endpoint_optional_port.
  assert (Enil : is_nil s = false) by (destruct s; [congruence|reflexivity]). rewrite Enil. cbv iota.
  assert (E : split_host_port s = SHP_missing_port).
  { unfold split_host_port. destruct (split_last c_colon s) as [[a b]|] eqn:El; [|reflexivity].
    destruct (split_last_spec _ _ _ _ El) as [Es _]. rewrite Es, has_app in A. simpl in A.
    rewrite orb_true_r in A. discriminate. }
  rewrite E. change (is_nil (@nil ascii)) with true. cbn [negb]. cbv iota. exact D.
Qed.

(* D23: the tree as found refuses every endpoint whose port is the numeral of 32768..65535 *)
Lemma as_found_refuses_high_ports : forall h n,
  has c_colon h = false -> has c_lbr h = false -> has c_rbr h = false ->
  (32768 <= n <= 65535)%N ->
  validate_endpoint as_found (h ++ c_colon :: dec n) = false.
Proof.
  intros h n A B C Hn. assert (Hp := dec_port_ok n). destruct (port_ok_plain (dec n)) as (P1 & P2 & P3); [apply Hp; lia|].
  unfold validate_endpoint. rewrite (shp_plain h (dec n) A B C P1 P2 P3).
  change (v_port_bits as_found) with 16%N. rewrite (as_found_high _ Hn). reflexivity.
Qed.
