(* C03 — property theorems. The generated configuration is lexically valid NGINX whatever the user-controlled
   strings contain (within the character classes the validators admit); the structural rules (contexts, arities,
   uniqueness, definedness) are decided per generated file set by ngx/Wf.v on the real generator's output. *)
From Coq Require Import List String Ascii Bool.
From NGF Require Import lib.Str ngx.Lexer ngx.Tmpl ngx.SymLex ngx.SymLexProofs ngx.TmplProofs ngx.TmplTheorems.
Import ListNotations.

(* The text/template engine (model of the subset the repository's templates use; the parse trees are regenerated from
   the source on every run and the model is compared with the real engine on every recorded execution): the branches
   taken and the literal text do not depend on the contents of the holes. *)
Theorem C03_template_execution_independent_of_contents :
  forall (sg : nat -> string) (tc : list string),
    (forall id, sg id <> ""%string) -> (forall id, mem_string (sg id) tc = false) ->
    forall fuel dot vs ns out vs',
      exec tc fuel dot vs ns = Some (out, vs') ->
      exec tc fuel (fill sg dot) (fill_vars sg vs) ns = Some (map (fill_chunk sg) out, fill_vars sg vs').
Proof. exact exec_fill. Qed.

(* NGINX's tokenizer on text with holes: every admissible filling is tokenized exactly as the symbolic run says. *)
Theorem C03_tokenizer_run_for_all_contents :
  forall (sg : nat -> list ascii) xs s, forallb (sym_ok sg) xs = true ->
    match slrun s xs with
    | RDone s' out => lrun (inst_st sg s) (expand sg xs) = Some (inst_st sg s', map (inst_tok sg) out)
    | RErr => lrun (inst_st sg s) (expand sg xs) = None
    | RUnsupported => True
    end.
Proof. exact slrun_sound. Qed.

(* Both layers: lexical validity of a generated fragment is decided once for all contents of its holes. *)
Theorem C03_fragment_valid_for_all_contents :
  forall t d cls chunks, run t d = Some chunks ->
    slrun SLStart (syms_cls cls chunks) <> RUnsupported ->
    forall sg1 sg2 : nat -> string,
      forallb (sym_ok (fun id => chars_of (sg1 id))) (syms_cls cls chunks) = true ->
      forallb (sym_ok (fun id => chars_of (sg2 id))) (syms_cls cls chunks) = true ->
      match lex (render sg1 chunks), lex (render sg2 chunks) with
      | Some t1, Some t2 => map tok_kind t1 = map tok_kind t2
      | None, None => True
      | _, _ => False
      end.
Proof. exact template_skeleton_independent. Qed.
