(* C08 — model of the status write path.

   internal/framework/conditions/conditions.go      DeduplicateConditions, ConvertConditions
   internal/mode/static/status/prepare_requests.go  conditions of one entry = convert (dedup (defaults ++ ...))
   internal/mode/static/status/status_setters.go    the nine setters (closures over a captured status)
   internal/framework/status/updater.go             NewRetryUpdateFunc under ExponentialBackoff{Steps}

   The captured variable of a setter closure is explicit state: a setter is
       captured -> status read from the API server -> captured' * status to submit * wasSet.
   [variant] selects the code as found (true) or the repaired behaviour (false) for the two defects:
     D15  route / policy / snippets setters assign the merged list to their captured status;
     D16  ConvertConditions copies the message whatever its length.
   Messages are abstracted to (identity, length in runes); everything else is kept. *)
From Coq Require Import List String ZArith NArith Bool Arith.
Import ListNotations.

(* conditions.Condition *)
Record pcond := PC { p_type : string; p_status : string; p_reason : string; p_msg : nat; p_mlen : N }.
(* metav1.Condition *)
Record cond := Cond { c_type : string; c_status : string; c_reason : string; c_msg : nat; c_mlen : N;
                      c_gen : Z; c_time : Z }.

Record variant := V { as_found_d15 : bool; as_found_d16 : bool }.
Definition repaired := V false false.
Definition as_found := V true true.

(* ---------------------------------------------------------------- DeduplicateConditions *)

Definition mem (s : string) (l : list string) : bool := existsb (String.eqb s) l.

(* the loop "for i := len-1 .. 0": [l] is the input reversed, [seen] the keys of uniqueElems *)
Fixpoint dedup_scan (seen : list string) (l : list pcond) : list pcond :=
  match l with
  | [] => []
  | c :: l' => if mem (p_type c) seen then dedup_scan seen l'
               else c :: dedup_scan (p_type c :: seen) l'
  end.

(* result[len-1-reverseIdx] = cond : discovery order reversed *)
Definition dedup (l : list pcond) : list pcond := rev (dedup_scan [] (rev l)).

(* ---------------------------------------------------------------- ConvertConditions *)

Definition msg_cap : N := 32768%N.

Definition truncate (v : variant) (n : N) : N := if as_found_d16 v then n else N.min n msg_cap.

Definition convert (v : variant) (gen time : Z) (l : list pcond) : list cond :=
  map (fun p => Cond (p_type p) (p_status p) (p_reason p) (p_msg p) (truncate v (p_mlen p)) gen time) l.

Definition mk_conds (v : variant) (gen time : Z) (l : list pcond) : list cond :=
  convert v gen time (dedup l).

(* ---------------------------------------------------------------- statuses *)

(* One RouteParentStatus / PolicyAncestorStatus / ControllerStatus.  [e_key] = the reference fields the
   setters compare (route: name, namespace, sectionName; ancestor: name, namespace, group, kind;
   snippets filter: none); [e_rest] = identity of the remaining reference fields, which this controller
   never sets and the comparison ignores. *)
Record entry := Entry { e_ctlr : string; e_key : list (option string); e_rest : nat; e_conds : list cond }.

Record listener := Lst { l_name : string; l_attached : Z; l_kinds : list (string * option string);
                         l_conds : list cond }.

Inductive status :=
| SEntries (es : list entry)
| SWhole (addrs : list (option string * string)) (conds : list cond) (lsts : list listener).

Inductive kind := KHTTPRoute | KGRPCRoute | KTLSRoute | KBackendTLS | KNGFPolicy | KSnippets
                | KGatewayClass | KNginxGateway | KGateway.

(* what prepare_requests.go computes from the graph, before de-duplication and conversion *)
Record pentry := PE { pe_key : list (option string); pe_conds : list pcond }.
Record plistener := PL { pl_name : string; pl_attached : Z; pl_kinds : list (string * option string);
                         pl_conds : list pcond }.
Inductive computed :=
| CEntries (es : list pentry)
| CWhole (addrs : list (option string * string)) (conds : list pcond) (lsts : list plistener).

Definition compute (v : variant) (ctl : string) (gen time : Z) (c : computed) : status :=
  match c with
  | CEntries es => SEntries (map (fun pe => Entry ctl (pe_key pe) 0 (mk_conds v gen time (pe_conds pe))) es)
  | CWhole a cs ls =>
      SWhole a (mk_conds v gen time cs)
             (map (fun pl => Lst (pl_name pl) (pl_attached pl) (pl_kinds pl) (mk_conds v gen time (pl_conds pl))) ls)
  end.

(* ---------------------------------------------------------------- comparisons (modulo transition time) *)

Fixpoint list_eqb {A} (f : A -> A -> bool) (a b : list A) : bool :=
  match a, b with
  | [], [] => true
  | x :: a', y :: b' => f x y && list_eqb f a' b'
  | _, _ => false
  end.

Definition opt_eqb {A} (f : A -> A -> bool) (a b : option A) : bool :=
  match a, b with
  | None, None => true
  | Some x, Some y => f x y
  | _, _ => false
  end.

(* frameworkStatus.ConditionsEqual : everything but LastTransitionTime *)
Definition cond_eqb (a b : cond) : bool :=
  Z.eqb (c_gen a) (c_gen b) && String.eqb (c_type a) (c_type b) && String.eqb (c_status a) (c_status b)
  && (Nat.eqb (c_msg a) (c_msg b) && N.eqb (c_mlen a) (c_mlen b)) && String.eqb (c_reason a) (c_reason b).

Definition conds_eqb := list_eqb cond_eqb.

(* helpers.EqualPointers: a nil pointer equals a pointer to the zero value *)
Definition deref (o : option string) : string := match o with Some x => x | None => EmptyString end.
Definition ptr_eqb (a b : option string) : bool := String.eqb (deref a) (deref b).

(* routeParentStatusEqual / ancestorStatusEqual / snippetsStatusEqual *)
Definition entry_eqb (a b : entry) : bool :=
  String.eqb (e_ctlr a) (e_ctlr b) && list_eqb ptr_eqb (e_key a) (e_key b)
  && conds_eqb (e_conds a) (e_conds b).

Definition is_own (ctl : string) (e : entry) : bool := String.eqb (e_ctlr e) ctl.
Definition own (ctl : string) (es : list entry) := filter (is_own ctl) es.
Definition foreign (ctl : string) (es : list entry) := filter (fun e => negb (is_own ctl e)) es.

(* routeStatusEqual / policyStatusEqual / snippetsFilterStatusEqual *)
Definition entries_eq (ctl : string) (prev cur : list entry) : bool :=
  Nat.eqb (List.length (own ctl prev)) (List.length (own ctl cur))
  && forallb (fun pe => if is_own ctl pe then existsb (entry_eqb pe) cur else true) prev
  && forallb (fun ce => existsb (entry_eqb ce) prev) cur.

Definition kinds_eqb := list_eqb (fun a b : string * option string =>
                                    String.eqb (fst a) (fst b) && ptr_eqb (snd a) (snd b)).
Definition addrs_eqb := list_eqb (fun a b : option string * string =>
                                    ptr_eqb (fst a) (fst b) && String.eqb (snd a) (snd b)).
Definition listener_eqb (a b : listener) : bool :=
  String.eqb (l_name a) (l_name b) && Z.eqb (l_attached a) (l_attached b)
  && conds_eqb (l_conds a) (l_conds b) && kinds_eqb (l_kinds a) (l_kinds b).

(* gwStatusEqual for a Gateway; ConditionsEqual only for GatewayClass and NginxGateway *)
Definition whole_eq (k : kind) (prev cur : status) : bool :=
  match prev, cur with
  | SWhole pa pc pl, SWhole ca cc cl =>
      match k with
      | KGateway => addrs_eqb pa ca && conds_eqb pc cc && list_eqb listener_eqb pl cl
      | _ => conds_eqb pc cc
      end
  | _, _ => false
  end.

(* ---------------------------------------------------------------- the setters *)

(* the three route setters append the foreign entries after their own; the policy and snippets setters
   put the foreign entries first *)
Definition appends (k : kind) : bool :=
  match k with KHTTPRoute | KGRPCRoute | KTLSRoute => true | _ => false end.

Definition merge (k : kind) (ctl : string) (se pe : list entry) : list entry :=
  if appends k then se ++ foreign ctl pe else foreign ctl pe ++ se.

(* captured status s, object status p  |->  captured', object status', wasSet *)
Definition setter (v : variant) (k : kind) (ctl : string) (s p : status) : status * status * bool :=
  match s, p with
  | SEntries se, SEntries pe =>
      let merged := merge k ctl se pe in
      let s' := if as_found_d15 v then SEntries merged else s in
      if entries_eq ctl pe merged then (s', p, false) else (s', SEntries merged, true)
  | SWhole _ _ _, SWhole _ _ _ =>
      if whole_eq k p s then (s, p, false) else (s, s, true)
  | _, _ => (s, p, false)
  end.

(* ---------------------------------------------------------------- the retry loop *)

Inductive getres := GetOK (p : status) | GetNotFound | GetErr.
Inductive updres := UpdOK | UpdFail.         (* conflict and any other error are handled alike *)
Record attempt := Att { a_get : getres; a_upd : updres }.

(* One element per attempt performed: [Some o] = Update was called with o, [None] = it was not.
   ExponentialBackoff calls the function at most [steps] times and stops at the first (true, nil). *)
Fixpoint retry (v : variant) (k : kind) (ctl : string) (steps : nat) (s : status) (atts : list attempt)
  : list (option status) :=
  match steps, atts with
  | S n, a :: rest =>
      match a_get a with
      | GetNotFound => [None]
      | GetErr => None :: retry v k ctl n s rest
      | GetOK p =>
          let '(s', o, set) := setter v k ctl s p in
          if set then
            match a_upd a with
            | UpdOK => [Some o]
            | UpdFail => Some o :: retry v k ctl n s' rest
            end
          else [None]
      end
  | _, _ => []
  end.

Definition run_round (v : variant) (k : kind) (ctl : string) (steps : nat) (gen time : Z) (c : computed)
           (atts : list attempt) : list (option status) :=
  retry v k ctl steps (compute v ctl gen time c) atts.

(* ---------------------------------------------------------------- the ancestor limit (graph/policy_ancestor.go) *)

Definition max_ancestors : nat := 16.

(* ngfPolicyAncestorsFull: foreign entries of the status the graph was built from + ancestors added so far *)
Definition ancestors_full (nforeign nadded : nat) : bool := max_ancestors <=? nforeign + nadded.

(* attachPolicies: every target that passes the guard adds at most one ancestor ([true] = it adds one) *)
Fixpoint attach_all (nforeign nadded : nat) (targets : list bool) : nat :=
  match targets with
  | [] => nadded
  | t :: ts => if ancestors_full nforeign nadded then attach_all nforeign nadded ts
               else attach_all nforeign (if t then S nadded else nadded) ts
  end.

(* ---------------------------------------------------------------- declarative specification *)

(* DeduplicateConditions: a condition is kept iff no later condition has its type *)
Fixpoint last_wins (l : list pcond) : list pcond :=
  match l with
  | [] => []
  | c :: r => if existsb (fun d => String.eqb (p_type d) (p_type c)) r then last_wins r else c :: last_wins r
  end.

(* "equal but for the transition time": equal after erasing the times (and, for an entry, the reference
   fields this controller never sets; an absent optional reference field is read as the empty string, which
   is the meaning of helpers.EqualPointers) *)
Definition erase_cond (c : cond) : cond :=
  Cond (c_type c) (c_status c) (c_reason c) (c_msg c) (c_mlen c) (c_gen c) 0%Z.
Definition erase_entry (e : entry) : entry :=
  Entry (e_ctlr e) (map (fun o => Some (deref o)) (e_key e)) 0 (map erase_cond (e_conds e)).
Definition same_entry (a b : entry) : Prop := erase_entry a = erase_entry b.

(* the two lists denote the same set of entries modulo transition time, and have the same number of entries (so that, the
   computed entries being pairwise different, an entry stored twice makes the lists differ) *)
Definition same_entry_set (a b : list entry) : Prop :=
  ((forall x, In x a -> exists y, In y b /\ same_entry x y) /\
   (forall y, In y b -> exists x, In x a /\ same_entry y x)) /\
  List.length a = List.length b.
