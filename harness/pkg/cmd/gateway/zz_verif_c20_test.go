//go:build verif

package main

import (
	"fmt"
	"io"
	"os"
	"strconv"
	"strings"
	"testing"

	"github.com/go-logr/logr"
	"github.com/spf13/cobra"

	"github.com/nginx/nginx-gateway-fabric/internal/mode/static/config"
	ngxConfig "github.com/nginx/nginx-gateway-fabric/internal/mode/static/nginx/config"
	"github.com/nginx/nginx-gateway-fabric/internal/mode/static/state/dataplane"
	"github.com/nginx/nginx-gateway-fabric/internal/mode/static/state/graph"
	vu "github.com/nginx/nginx-gateway-fabric/internal/verifutil"
)

// C20: drive the real validators of package main (validation.go, validating_types.go), the real
// static-mode cobra command (commands.go) and the real generator of mgmt.conf on generated strings,
// biased towards the boundaries of every grammar involved, and record accept/reject, the parsed
// values, the stage a command line reaches, and the raw text of mgmt.conf.

// ---------------------------------------------------------------- generators

const c20Lower = "abcdefghijklmnopqrstuvwxyz0123456789"

// bytes that matter to one of the grammars or to the NGINX tokeniser
var c20Hostile = []string{
	".", "-", "_", ":", "[", "]", "/", "%", "+", " ", ";", "{", "}", "\"", "'", "#", "$", "\\", "\n", "\t", "\r",
	"\x00", "=", "~", "!", "&", "(", ")", "*", ",", "@", "A", "Z", "G", "g", "f", "F", "0", "1", "9", "a", "z", "\xc3\xa9", "\x7f",
	"::", "..", "--", "]:", ":[", "%25", "missing port", "too many colons",
}

func c20Pick(r *vu.Rng, xs []string) string { return xs[r.Intn(len(xs))] }

func c20Label(r *vu.Rng, n int) string {
	if n <= 0 {
		n = 1
	}
	b := make([]byte, n)
	for i := range b {
		if i > 0 && i < n-1 && r.Chance(1, 6) {
			b[i] = '-'
		} else {
			b[i] = c20Lower[r.Intn(len(c20Lower))]
		}
	}
	return string(b)
}

// a DNS-1123 subdomain of (about) the wanted total length
func c20DNS(r *vu.Rng, size int) string {
	switch r.Intn(12) {
	case 0:
		// exactly 253 / 254 bytes
		total := 253 + r.Intn(2)
		var parts []string
		left := total
		for left > 0 {
			n := 63
			if left < 64 {
				n = left
			}
			parts = append(parts, c20Label(r, n))
			left -= n + 1
		}
		s := strings.Join(parts, ".")
		for len(s) < total {
			s += "a"
		}
		return s[:total]
	case 1:
		return c20Label(r, 62+r.Intn(3)) // around the label limit
	}
	n := 1 + r.Intn(1+size/3)
	if n > 5 {
		n = 5
	}
	parts := make([]string, n)
	for i := range parts {
		parts[i] = c20Label(r, 1+r.Intn(1+size))
	}
	return strings.Join(parts, ".")
}

var c20Octets = []string{"0", "1", "9", "10", "99", "100", "127", "199", "200", "249", "250", "255", "256", "260", "300", "999",
	"00", "01", "010", "1000", "", "a", "0x1", "+1", "-1"}

func c20IPv4(r *vu.Rng, valid bool) string {
	n := 4
	if !valid && r.Chance(1, 4) {
		n = 1 + r.Intn(6)
	}
	parts := make([]string, n)
	for i := range parts {
		if valid || r.Chance(3, 4) {
			parts[i] = strconv.Itoa(r.Intn(256))
			if r.Chance(1, 3) {
				parts[i] = c20Octets[r.Intn(12)]
			}
		} else {
			parts[i] = c20Pick(r, c20Octets)
		}
	}
	return strings.Join(parts, ".")
}

func c20Hex(r *vu.Rng, valid bool) string {
	const hx = "0123456789abcdefABCDEF"
	n := 1 + r.Intn(4)
	if !valid && r.Chance(1, 5) {
		n = r.Intn(7)
	}
	b := make([]byte, n)
	for i := range b {
		b[i] = hx[r.Intn(len(hx))]
	}
	if !valid && n > 0 && r.Chance(1, 8) {
		b[r.Intn(n)] = "gG-_ "[r.Intn(5)]
	}
	return string(b)
}

// IPv6 text: groups, at most one "::", optional embedded IPv4; invalid shapes when !valid
func c20IPv6(r *vu.Rng, valid bool) string {
	groups := 8
	ell := -1 // index before which "::" is placed
	v4 := r.Chance(1, 5)
	if r.Chance(2, 3) {
		groups = r.Intn(8) // 0..7 groups with an ellipsis
		if v4 && groups > 6 {
			groups = 6
		}
		ell = r.Intn(groups + 1)
	} else if v4 {
		groups = 6
	}
	if !valid {
		switch r.Intn(6) {
		case 0:
			groups = r.Intn(11)
		case 1:
			if ell >= 0 {
				groups = 8
				if v4 {
					groups = 7
				}
				ell = r.Intn(groups + 1)
			}
		case 2:
			ell = -1
		}
	}
	var b strings.Builder
	for i := 0; i < groups; i++ {
		if i == ell {
			b.WriteString("::")
		} else if i > 0 {
			b.WriteString(":")
		}
		b.WriteString(c20Hex(r, valid || r.Chance(5, 6)))
	}
	if ell == groups {
		b.WriteString("::")
		if v4 {
			b.WriteString(c20IPv4(r, valid || r.Chance(2, 3)))
		}
	} else if v4 {
		if groups > 0 {
			b.WriteString(":")
		}
		b.WriteString(c20IPv4(r, valid || r.Chance(2, 3)))
	}
	s := b.String()
	if !valid {
		switch r.Intn(8) {
		case 0:
			s += "%eth0"
		case 1:
			s += "%"
		case 2:
			s = ":" + s
		case 3:
			s += ":"
		case 4:
			s = strings.Replace(s, ":", "::", 1)
		}
	}
	return s
}

var c20Ports = []string{"0", "1", "2", "79", "80", "443", "1023", "1024", "1025", "8080", "8081", "9113", "32766", "32767", "32768", "32769",
	"40000", "49152", "65534", "65535", "65536", "65537", "70000", "99999", "100000", "2147483647", "2147483648", "4294967296",
	"4294967376", "9223372036854775807", "9223372036854775808", "18446744073709551615", "18446744073709551616", "18446744073709551696",
	"-1", "-0", "+0", "+80", "+65535", "-80", "080", "0080", "00000000000000000080", "", " 80", "80 ", "8_0", "0x50", "8e1", "80a", "٨٠", "+", "-", "++80"}

func c20Port(r *vu.Rng) string {
	switch r.Intn(5) {
	case 0:
		return strconv.Itoa(r.Intn(70000))
	case 1:
		return strconv.Itoa(32760 + r.Intn(16))
	case 2:
		return strconv.Itoa(65528 + r.Intn(16))
	case 3:
		return strconv.Itoa(1 + r.Intn(65535))
	}
	return c20Pick(r, c20Ports)
}

func c20Garbage(r *vu.Rng, size int) string {
	n := r.Intn(size + 2)
	var b strings.Builder
	for i := 0; i < n; i++ {
		if r.Chance(1, 2) {
			b.WriteString(c20Pick(r, c20Hostile))
		} else {
			b.WriteByte(c20Lower[r.Intn(len(c20Lower))])
		}
	}
	return b.String()
}

// one random edit
func c20Mutate(r *vu.Rng, s string) string {
	pos := r.Intn(len(s) + 1)
	ins := c20Pick(r, c20Hostile)
	switch r.Intn(4) {
	case 0:
		return s[:pos] + ins + s[pos:]
	case 1:
		if pos < len(s) {
			return s[:pos] + ins + s[pos+1:]
		}
		return s + ins
	case 2:
		if pos < len(s) {
			return s[:pos] + s[pos+1:]
		}
		return s
	default:
		if pos < len(s) {
			return s[:pos] + strings.ToUpper(s[pos:pos+1]) + s[pos+1:]
		}
		return s
	}
}

// a DNS name with exactly one foreign byte (upper case, '_', '~', '*', '=', '@', a non-ASCII byte)
func c20NearDNS(r *vu.Rng, size int) string {
	s := []byte(c20DNS(r, size))
	foreign := "_A~*=@Z\xe9+,!"
	s[r.Intn(len(s))] = foreign[r.Intn(len(foreign))]
	return string(s)
}

func c20Host(r *vu.Rng, size int) (string, string) {
	if r.Chance(1, 12) {
		return c20NearDNS(r, size), "dns~"
	}
	switch r.Intn(10) {
	case 0, 1, 2, 3:
		return c20DNS(r, size), "dns"
	case 4, 5:
		return c20IPv4(r, true), "ipv4"
	case 6, 7:
		return c20IPv6(r, true), "ipv6"
	case 8:
		if r.Bool() {
			return c20IPv4(r, false), "ipv4?"
		}
		return c20IPv6(r, false), "ipv6?"
	}
	return c20Garbage(r, size), "garbage"
}

// endpoint-like strings
func c20Endpoint(r *vu.Rng, size int) (string, string) {
	host, kind := c20Host(r, size)
	port := c20Port(r)
	var s string
	switch {
	case strings.HasPrefix(kind, "ipv6") && r.Chance(5, 6):
		s = "[" + host + "]:" + port
	case r.Chance(1, 12):
		s = "[" + host + "]:" + port
	case r.Chance(1, 12):
		s = host // no port
		kind += "/noport"
	case r.Chance(1, 20):
		s = "[" + host + "]"
		kind += "/noport"
	default:
		s = host + ":" + port
	}
	if r.Chance(1, 8) {
		s = c20Mutate(r, s)
		kind += "/mut"
	}
	return s, kind
}

func c20Name(r *vu.Rng, size int) (string, string) {
	switch r.Intn(8) {
	case 0, 1, 2, 3:
		return c20DNS(r, size), "dns"
	case 4:
		return c20Mutate(r, c20DNS(r, size)), "dns/mut"
	case 5:
		return c20NearDNS(r, size), "dns~"
	case 6:
		s, _ := c20Host(r, size)
		return s, "host"
	}
	return c20Garbage(r, size), "garbage"
}

func c20Qualified(r *vu.Rng, size int) (string, string) {
	const q = "abcXYZ019-_."
	name := func() string {
		n := 1 + r.Intn(1+size)
		if r.Chance(1, 8) {
			n = 62 + r.Intn(3)
		}
		b := make([]byte, n)
		for i := range b {
			b[i] = q[r.Intn(len(q))]
		}
		if r.Chance(3, 4) {
			b[0] = 'a'
			b[n-1] = 'Z'
		}
		return string(b)
	}
	switch r.Intn(6) {
	case 0, 1:
		return name(), "name"
	case 2, 3:
		return c20DNS(r, size) + "/" + name(), "prefix/name"
	case 4:
		return c20Mutate(r, c20DNS(r, size)+"/"+name()), "mut"
	}
	return c20Garbage(r, size), "garbage"
}

func c20Ctlr(r *vu.Rng, size int) (string, string) {
	const pc = "abcXYZ019/-._~%!$&'()*+,;=:"
	path := func() string {
		n := 1 + r.Intn(1+size)
		b := make([]byte, n)
		for i := range b {
			b[i] = pc[r.Intn(len(pc))]
		}
		return string(b)
	}
	switch r.Intn(8) {
	case 0, 1, 2:
		return domain + "/" + path(), "domain/path"
	case 3:
		return c20DNS(r, size) + "/" + path(), "other-domain/path"
	case 4, 5:
		return c20Mutate(r, domain+"/"+path()), "mut"
	case 6:
		return domain + c20Garbage(r, 3), "domain+garbage"
	}
	return c20Garbage(r, size), "garbage"
}

// ---------------------------------------------------------------- drivers of the real code

// c20Mgmt renders mgmt.conf with the real generator for an accepted endpoint / resolver.
func c20Mgmt(endpoint, resolver string, skip, ca, client bool) string {
	cfg := config.UsageReportConfig{
		SecretName: "nplus-license", Endpoint: endpoint, Resolver: resolver, SkipVerify: skip,
	}
	gen := ngxConfig.NewGeneratorImpl(true, &cfg, logr.Discard())
	conf := dataplane.Configuration{
		AuxiliarySecrets: map[graph.SecretFileType][]byte{graph.PlusReportJWTToken: []byte("jwt")},
	}
	if ca {
		conf.AuxiliarySecrets[graph.PlusReportCACertificate] = []byte("ca")
	}
	if client {
		conf.AuxiliarySecrets[graph.PlusReportClientSSLCertificate] = []byte("crt")
		conf.AuxiliarySecrets[graph.PlusReportClientSSLKey] = []byte("key")
	}
	for _, f := range gen.Generate(conf) {
		if strings.HasSuffix(f.Path, "/mgmt.conf") {
			return string(f.Content)
		}
	}
	panic("mgmt.conf was not generated")
}

type c20Args struct {
	ctlr, class, gateway, config, service, mport, hport, lock *string
	plus                                                      bool
	secret, endpoint, resolver, csecret, casecret             *string
	telemetry                                                 string
	mdisable, hdisable                                        bool
}

// c20RunStatic executes the real static-mode command. Stage 0: cobra/pflag refused the command line
// (RunE did not run); 1: RunE returned before reading the Pod environment (a validation failed);
// 2: every validation passed and RunE went on to build the Pod configuration, which fails here on
// purpose because POD_IP is not set (otherwise the manager would start).
func c20RunStatic(a c20Args) int {
	cmd := createStaticModeCommand()
	cmd.SetOut(io.Discard)
	cmd.SetErr(io.Discard)
	ran := false
	orig := cmd.RunE
	cmd.RunE = func(c *cobra.Command, args []string) error {
		ran = true
		return orig(c, args)
	}
	var args []string
	add := func(name string, v *string) {
		if v != nil {
			args = append(args, "--"+name+"="+*v)
		}
	}
	add("gateway-ctlr-name", a.ctlr)
	add("gatewayclass", a.class)
	add("gateway", a.gateway)
	add("config", a.config)
	add("service", a.service)
	add("metrics-port", a.mport)
	add("health-port", a.hport)
	add("leader-election-lock-name", a.lock)
	add("usage-report-secret", a.secret)
	add("usage-report-endpoint", a.endpoint)
	add("usage-report-resolver", a.resolver)
	add("usage-report-client-ssl-secret", a.csecret)
	add("usage-report-ca-secret", a.casecret)
	if a.plus {
		args = append(args, "--nginx-plus")
	}
	if a.mdisable {
		args = append(args, "--metrics-disable")
	}
	if a.hdisable {
		args = append(args, "--health-disable")
	}
	telemetryEndpoint = a.telemetry
	cmd.SetArgs(args)
	err := cmd.Execute()
	switch {
	case !ran:
		if err == nil {
			panic("static-mode returned without running and without error")
		}
		return 0
	case err != nil && strings.Contains(err.Error(), "environment variable POD_IP not set"):
		return 2
	case err != nil:
		return 1
	}
	panic("static-mode RunE returned nil: the manager would have been started inside the harness")
}

// ---------------------------------------------------------------- the test

func TestVerifC20(t *testing.T) {
	out := vu.Open("C20")
	rng := vu.NewRng(out.Seed ^ 0xC20)
	per := out.Count(1500, 20000)

	// silence the start-up log lines of RunE; make sure the run cannot go past the Pod configuration
	if devnull, err := os.OpenFile(os.DevNull, os.O_WRONLY, 0); err == nil {
		saved := os.Stderr
		os.Stderr = devnull
		defer func() { os.Stderr = saved }()
	}
	for _, k := range []string{"POD_IP", "POD_UID", "POD_NAMESPACE", "POD_NAME"} {
		os.Unsetenv(k)
	}
	telemetryReportPeriod = "24h"
	telemetryEndpointInsecure = "true"

	size := func(i, n int) int { return 1 + (i*14)/n }
	emit := func(kind, in string, term string, obs string, human map[string]any, nontrivial bool) {
		human["validator"] = kind
		out.Case(vu.Pair(term, obs), human, nontrivial, kind+"\x00"+fmt.Sprint(human))
	}
	acc := func(b bool) string { return vu.App("OAccept", vu.Bool(b)) }
	simple := func(kind, ctor, s, class string, ok bool) {
		out.Tally(kind, class+"/"+strconv.FormatBool(ok))
		emit(kind, s, vu.App(ctor, vu.Str(s)), acc(ok), map[string]any{"input": s, "accepted": ok, "class": class},
			len(s) > 3)
	}

	// fixed corpus first: the documented boundaries (small, so that a failure is reported on them)
	for _, p := range []string{"1", "80", "32767", "32768", "65535", "0", "65536"} {
		for _, h := range []string{"example.com", "10.0.0.1"} {
			s := h + ":" + p
			simple("endpoint", "IEndpoint", s, "corpus", validateEndpoint(s) == nil)
			simple("endpoint-optional-port", "IEndpointOpt", s, "corpus", validateEndpointOptionalPort(s) == nil)
		}
		s := "[2001:db8::1]:" + p
		simple("endpoint", "IEndpoint", s, "corpus", validateEndpoint(s) == nil)
		simple("endpoint-optional-port", "IEndpointOpt", s, "corpus", validateEndpointOptionalPort(s) == nil)
	}

	for i := 0; i < per; i++ {
		r := rng.Fork()
		sz := size(i, per)

		s, class := c20Endpoint(r, sz)
		simple("endpoint", "IEndpoint", s, class, validateEndpoint(s) == nil)

		s, class = c20Endpoint(r, sz)
		v := stringValidatingValue{validator: validateEndpointOptionalPort}
		ok := v.Set(s) == nil
		if ok && v.value != s {
			t.Fatalf("stringValidatingValue stored %q for %q", v.value, s)
		}
		simple("endpoint-optional-port", "IEndpointOpt", s, class, ok)

		s, class = c20Name(r, sz)
		simple("resource-name", "IResName", s, class, validateResourceName(s) == nil)

		s, class = c20Name(r, sz)
		simple("namespace-name", "INamespace", s, class, validateNamespaceName(s) == nil)

		{ // NAMESPACE/NAME
			ns, c1 := c20Name(r, sz)
			nm, c2 := c20Name(r, sz)
			s = ns + "/" + nm
			switch r.Intn(10) {
			case 0:
				s = ns
			case 1:
				s = ns + "/" + nm + "/" + nm
			case 2:
				s = c20Mutate(r, s)
			}
			val := namespacedNameValue{}
			err := val.Set(s)
			out.Tally("namespaced-name", c1+"+"+c2+"/"+strconv.FormatBool(err == nil))
			emit("namespaced-name", s, vu.App("INsName", vu.Str(s)),
				vu.App("ONsName", vu.Bool(err == nil), vu.Str(val.value.Namespace), vu.Str(val.value.Name)),
				map[string]any{"input": s, "accepted": err == nil, "namespace": val.value.Namespace, "name": val.value.Name},
				len(s) > 3)
		}

		s, class = c20Qualified(r, sz)
		simple("qualified-name", "IQualified", s, class, validateQualifiedName(s) == nil)

		s, class = c20Ctlr(r, sz)
		simple("controller-name", "ICtlrName", s, class, validateGatewayControllerName(s) == nil)

		s, class = c20Host(r, sz)
		if r.Chance(1, 10) {
			s = c20Mutate(r, s)
			class += "/mut"
		}
		simple("ip", "IIP", s, class, validateIP(s) == nil)

		{ // --metrics-port / --health-port
			s = c20Port(r)
			pv := intValidatingValue{validator: validatePort, value: -7}
			err := pv.Set(s)
			out.Tally("port-flag", strconv.FormatBool(err == nil))
			emit("port-flag", s, vu.App("IPortFlag", vu.Str(s)), vu.App("OPort", vu.Bool(err == nil), vu.Z(int64(pv.value))),
				map[string]any{"input": s, "accepted": err == nil, "value": pv.value}, true)
		}
	}

	// accepted values rendered into mgmt.conf by the real generator
	nMgmt := out.Count(700, 8000)
	for i := 0; i < nMgmt; i++ {
		r := rng.Fork()
		sz := size(i, nMgmt)
		pick := func() string {
			if r.Chance(1, 6) {
				return ""
			}
			s, _ := c20Endpoint(r, sz)
			return s
		}
		e, rs := pick(), pick()
		skip, ca, client := r.Bool(), r.Bool(), r.Bool()
		ve := stringValidatingValue{validator: validateEndpointOptionalPort}
		vr := stringValidatingValue{validator: validateEndpointOptionalPort}
		okE := e == "" || ve.Set(e) == nil // "" = flag not given
		okR := rs == "" || vr.Set(rs) == nil
		text := "None"
		human := map[string]any{"endpoint": e, "resolver": rs, "skip_verify": skip, "ca": ca, "client_cert": client,
			"endpoint_accepted": okE, "resolver_accepted": okR}
		if okE && okR {
			txt := c20Mgmt(ve.value, vr.value, skip, ca, client)
			text = vu.Some(vu.Str(txt))
			human["mgmt.conf"] = txt
		}
		out.Tally("mgmt", fmt.Sprintf("rendered=%v", okE && okR))
		emit("mgmt", e, vu.App("IMgmt", vu.Str(e), vu.Str(rs), vu.Bool(skip), vu.Bool(ca), vu.Bool(client)),
			vu.App("OMgmt", vu.Bool(okE), vu.Bool(okR), text), human, okE && okR && (e != "" || rs != ""))
	}

	// whole command lines through the real static-mode command
	nCmd := out.Count(700, 8000)
	optStr := func(p *string) string {
		if p == nil {
			return "None"
		}
		return vu.Some(vu.App("lit", vu.Str(*p)))
	}
	for i := 0; i < nCmd; i++ {
		r := rng.Fork()
		sz := size(i, nCmd)
		name := func(always bool) *string {
			if !always && r.Chance(1, 2) {
				return nil
			}
			var s string
			if r.Chance(9, 10) {
				s = c20DNS(r, sz)
			} else {
				s, _ = c20Name(r, sz)
			}
			return &s
		}
		var a c20Args
		if r.Chance(19, 20) {
			s := domain + "/ctlr"
			if r.Chance(1, 10) {
				s, _ = c20Ctlr(r, sz)
			}
			a.ctlr = &s
		}
		if r.Chance(19, 20) {
			a.class = name(true)
		}
		if r.Chance(1, 3) {
			s := c20DNS(r, 4) + "/" + c20DNS(r, sz)
			if r.Chance(1, 8) {
				s = c20Mutate(r, s)
			}
			a.gateway = &s
		}
		a.config, a.service, a.lock, a.secret, a.csecret, a.casecret = name(false), name(false), name(false), name(false), name(false), name(false)
		ports := []string{"1024", "8081", "9113", "9114", "65535", "32768", "1023", "65536", "+9113", "08081", "0", "x"}
		port := func() *string {
			if r.Chance(1, 3) {
				return nil
			}
			s := ports[r.Intn(len(ports))]
			if r.Chance(1, 4) {
				s = c20Port(r)
			}
			return &s
		}
		a.mport, a.hport = port(), port()
		if r.Chance(1, 4) && a.mport != nil {
			s := *a.mport
			if r.Bool() {
				s = "+" + s // the same port written differently
			}
			a.hport = &s
		}
		a.plus = r.Bool()
		ep := func() *string {
			if r.Chance(1, 2) {
				return nil
			}
			s, _ := c20Endpoint(r, sz)
			return &s
		}
		a.endpoint, a.resolver = ep(), ep()
		if r.Chance(1, 2) {
			a.telemetry, _ = c20Endpoint(r, sz)
		}
		a.mdisable, a.hdisable = r.Chance(1, 4), r.Chance(1, 4)
		stage := c20RunStatic(a)
		term := vu.App("IStatic", "{| "+strings.Join([]string{
			"a_ctlr := " + optStr(a.ctlr), "a_class := " + optStr(a.class), "a_gateway := " + optStr(a.gateway),
			"a_config := " + optStr(a.config), "a_service := " + optStr(a.service),
			"a_metrics_port := " + optStr(a.mport), "a_health_port := " + optStr(a.hport),
			"a_metrics_disable := " + vu.Bool(a.mdisable), "a_health_disable := " + vu.Bool(a.hdisable), "a_lock := " + optStr(a.lock),
			"a_plus := " + vu.Bool(a.plus), "a_secret := " + optStr(a.secret), "a_endpoint := " + optStr(a.endpoint),
			"a_resolver := " + optStr(a.resolver), "a_client_secret := " + optStr(a.csecret),
			"a_ca_secret := " + optStr(a.casecret), "a_telemetry_endpoint := " + vu.App("lit", vu.Str(a.telemetry)),
		}, "; ")+" |}")
		d := func(p *string) any {
			if p == nil {
				return nil
			}
			return *p
		}
		human := map[string]any{"gateway-ctlr-name": d(a.ctlr), "gatewayclass": d(a.class), "gateway": d(a.gateway),
			"config": d(a.config), "service": d(a.service), "metrics-port": d(a.mport), "health-port": d(a.hport),
			"leader-election-lock-name": d(a.lock), "nginx-plus": a.plus, "usage-report-secret": d(a.secret),
			"usage-report-endpoint": d(a.endpoint), "usage-report-resolver": d(a.resolver),
			"usage-report-client-ssl-secret": d(a.csecret), "usage-report-ca-secret": d(a.casecret),
			"telemetryEndpoint(build var)": a.telemetry, "metrics-disable": a.mdisable, "health-disable": a.hdisable,
			"stage": stage, "stage_meaning": "0 refused by flag parsing, 1 refused by RunE before start, 2 all checks passed"}
		out.Tally("static-mode", "stage="+strconv.Itoa(stage))
		emit("static-mode", "", term, vu.App("OStage", vu.Nat(stage)), human, stage > 0)
	}
	out.Close("C20.Check", "")
}
