//go:build verif

package observability

import (
	vu "github.com/nginx/nginx-gateway-fabric/internal/verifutil"
)

// VerifTemplates names every text/template variable of this package (add-only hook file of /verif).
func VerifTemplates() []vu.TmplReg {
	return []vu.TmplReg{
		{Name: "observability.tmpl", Ptr: &tmpl},
		{Name: "observability.tmplInternal", Ptr: &tmplInternal},
		{Name: "observability.tmplExtRedirect", Ptr: &tmplExtRedirect},
	}
}
