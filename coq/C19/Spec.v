(* C19 — the declarative side.  Part 1: what "a directive name" of a snippet is.  Part 2 (end of file): the
   description of a cluster state / flag set as the telemetry code reads it, and what a report may contain.

   [ngx_lex] is a total, lenient model of NGINX's tokenizer (src/core/ngx_conf_file.c, ngx_conf_read_token),
   written with the flags of the C function ([last_space], [quoted], [variable], [d_quoted], [s_quoted],
   [sharp_comment]) and one character per step:
     * a token starts after white space / a terminator; it is bare, "double quoted" or 'single quoted';
     * a backslash takes the next character with it, whatever it is (also inside quotes);
     * '#' starts a comment only where a token could start; the comment runs to the end of the line;
     * ';' and '{' end a bare token and are terminators; '}' is a terminator only where a token could start;
     * '{' directly after '$' ("${") belongs to the token.
   Where NGINX would stop with an error the model goes on (the lenient part: on well-formed text it agrees with
   NGINX; on ill-formed text, which NGINX rejects as a whole, it is still total and still designates only words
   that stand in name position): a closing quote ends the token even if no space follows, a terminator with no
   words before it is an empty statement, '}' at depth 0 is ignored, the end of the text ends an open token /
   statement.
   The text of a token is kept verbatim (escapes are not resolved), only the enclosing quotes are dropped.

   [stmts] groups the tokens into statements, each with the block depth it stands at; a snippet is included
   into the NGINX context its SnippetsFilter names, so the directives *of that context* are the statements at
   depth 0, and [directive_names] are their first words.  Everything else — further words of a statement
   (arguments, values), comments, and whatever stands inside a block (which is in another context, and for
   map/geo/types/split_clients is not a directive at all but user data such as hostnames) — is not a
   directive name of the snippet's context. *)
From Coq Require Import String Ascii List Bool Arith ZArith.
Import ListNotations.
Local Open Scope string_scope.

Inductive cls := CSpace | CNewline | CSemi | COpen | CClose | CHash | CBslash | CDq | CSq | CDollar | COther.

Definition classify (c : ascii) : cls :=
  if (c =? " ")%char then CSpace
  else if (c =? "009")%char then CSpace
  else if (c =? "013")%char then CSpace
  else if (c =? "010")%char then CNewline
  else if (c =? ";")%char then CSemi
  else if (c =? "{")%char then COpen
  else if (c =? "}")%char then CClose
  else if (c =? "#")%char then CHash
  else if (c =? "\")%char then CBslash
  else if (c =? """")%char then CDq
  else if (c =? "'")%char then CSq
  else if (c =? "$")%char then CDollar
  else COther.

Inductive tok := TWord (w : string) | TSemi | TOpen | TClose.

Record lst := mkL {
  l_last_space : bool;   (* a token could start here *)
  l_quoted : bool;       (* previous character was a backslash *)
  l_variable : bool;     (* previous character was '$' (or "${") *)
  l_dq : bool;
  l_sq : bool;
  l_comment : bool;
  l_cur : string         (* text of the token being read *)
}.

Definition l_init := mkL true false false false false false "".

Definition app1 (s : string) (c : ascii) : string := s ++ String c "".

Definition lex_step (st : lst) (c : ascii) : lst * list tok :=
  let k := classify c in
  if l_comment st then
    (match k with CNewline => l_init | _ => st end, [])
  else if l_quoted st then
    (mkL false false (l_variable st) (l_dq st) (l_sq st) false (app1 (l_cur st) c), [])
  else if l_last_space st then
    match k with
    | CSpace | CNewline => (st, [])
    | CSemi => (st, [TSemi])
    | COpen => (st, [TOpen])
    | CClose => (st, [TClose])
    | CHash => (mkL true false false false false true "", [])
    | CBslash => (mkL false true false false false false (String c ""), [])
    | CDq => (mkL false false false true false false "", [])
    | CSq => (mkL false false false false true false "", [])
    | CDollar => (mkL false false true false false false (String c ""), [])
    | COther => (mkL false false false false false false (String c ""), [])
    end
  else
    match k, l_variable st with
    | COpen, true => (mkL false false true (l_dq st) (l_sq st) false (app1 (l_cur st) c), [])
    | _, _ =>
        match k with
        | CBslash => (mkL false true false (l_dq st) (l_sq st) false (app1 (l_cur st) c), [])
        | CDollar => (mkL false false true (l_dq st) (l_sq st) false (app1 (l_cur st) c), [])
        | _ =>
            if l_dq st then
              match k with
              | CDq => (l_init, [TWord (l_cur st)])
              | _ => (mkL false false false true false false (app1 (l_cur st) c), [])
              end
            else if l_sq st then
              match k with
              | CSq => (l_init, [TWord (l_cur st)])
              | _ => (mkL false false false false true false (app1 (l_cur st) c), [])
              end
            else
              match k with
              | CSpace | CNewline => (l_init, [TWord (l_cur st)])
              | CSemi => (l_init, [TWord (l_cur st); TSemi])
              | COpen => (l_init, [TWord (l_cur st); TOpen])
              | _ => (mkL false false false false false false (app1 (l_cur st) c), [])
              end
        end
    end.

Fixpoint lex_from (st : lst) (s : string) : list tok :=
  match s with
  | EmptyString => if l_last_space st then [] else [TWord (l_cur st)]
  | String c r => let (st', out) := lex_step st c in out ++ lex_from st' r
  end.

Definition ngx_lex (s : string) : list tok := lex_from l_init s.

(* statements: (block depth, words); [cur] = the words of the statement being read *)
Fixpoint stmts (d : nat) (cur : list string) (ts : list tok) : list (nat * list string) :=
  match ts with
  | [] => [(d, cur)]
  | TWord w :: r => stmts d (cur ++ [w]) r
  | TSemi :: r => (d, cur) :: stmts d [] r
  | TOpen :: r => (d, cur) :: stmts (S d) [] r
  | TClose :: r => (d, cur) :: stmts (pred d) [] r
  end.

Definition snippet_stmts (s : string) : list (nat * list string) := stmts 0 [] (ngx_lex s).

Definition name_of (st : nat * list string) : list string :=
  match st with
  | (0, name :: _) => [name]
  | _ => []
  end.

(* the names of the directives the snippet puts into its context *)
Definition directive_names (s : string) : list string := flat_map name_of (snippet_stmts s).

(* every word that is not such a name: arguments/values of the top-level directives and all words inside blocks *)
Definition rest_of (st : nat * list string) : list string :=
  match st with
  | (0, _ :: args) => args
  | (_, ws) => ws
  end.
Definition other_words (s : string) : list string := flat_map rest_of (snippet_stmts s).

(* the context part of a reported "directive-context" string (product-telemetry.md: "directive-context strings") *)
Definition ctx_label (ctx : string) : string :=
  if (ctx =? "main") then "main"
  else if (ctx =? "http") then "http"
  else if (ctx =? "http.server") then "server"
  else if (ctx =? "http.server.location") then "location"
  else "unknown".

(* a snippet the pre-repair code handled correctly (class of finding D22 is its complement): only printable
   characters other than quotes, backslash, '#', '$', braces; every ';' is followed by end of text, a single
   space or a newline; every space is single and follows a non-space. *)
Definition plain_char (c : ascii) : bool :=
  match classify c with
  | COther => ((33 <=? nat_of_ascii c) && (nat_of_ascii c <=? 126))%nat
  | _ => false
  end.

Fixpoint simple_from (prev_word : bool) (s : string) : bool :=
  match s with
  | EmptyString => true
  | String c r =>
      match classify c with
      | COther => if plain_char c then simple_from true r else false
      | CSemi => if prev_word then
                   match r with
                   | EmptyString => true
                   | String c2 r2 =>
                       match classify c2 with
                       | CNewline => simple_from false r2
                       | CSpace => if (c2 =? " ")%char then simple_from false r2 else false
                       | _ => false
                       end
                   end
                 else false
      | CSpace => if prev_word && (c =? " ")%char then
                    match r with
                    | String c2 _ => if plain_char c2 then simple_from false r else false
                    | EmptyString => false
                    end
                  else false
      | _ => false
      end
  end.
Definition simple_snippet (s : string) : bool := simple_from false s.

(* ================================================================== Part 2: inputs and what a report may contain *)

(* a SnippetsFilter of the graph: nil, or its Snippets map (context -> value) *)
Definition sfilter := option (list (string * string)).


(* what the code reads of the latest graph and configuration *)
Record gdesc := mkG {
  g_has_class : bool;                     (* g.GatewayClass != nil *)
  g_ign_classes : nat;                    (* len(g.IgnoredGatewayClasses) *)
  g_has_gw : bool;
  g_ign_gws : nat;
  g_routes : list string;                 (* RouteType of every entry of g.Routes *)
  g_l4routes : nat;
  g_secrets : nat;                        (* len(g.ReferencedSecrets) *)
  g_services : nat;
  g_upstreams : list (bool * nat);        (* per cfg.Upstreams entry: ErrorMsg != "", len(Endpoints) *)
  g_btps : nat;
  g_policies : list (string * list string);   (* per g.NGFPolicies entry: key.GVK.Kind, Kind of each TargetRef *)
  g_has_np : bool;
  g_sfs : list sfilter                    (* g.SnippetsFilters values *)
}.


(* a pflag.Flag as parseFlags reads it: Name, Value.Type() == "bool", Value.String(), DefValue *)
Record flagd := mkF { f_name : string; f_bool : bool; f_value : string; f_def : string }.


(* ---- resource counts: "the numbers of resources actually in effect", each by the filter the documentation names *)

Definition count_if {A} (p : A -> bool) (l : list A) : Z := Z.of_nat (length (filter p l)).
Definition zsum (l : list nat) : Z := Z.of_nat (list_sum l).

Definition is_csp_attached_to_gateway (kp : string * list string) : bool :=
  (fst kp =? "ClientSettingsPolicy") && match snd kp with t :: _ => (t =? "Gateway") | [] => false end.
Definition is_csp_attached_to_route (kp : string * list string) : bool :=
  (fst kp =? "ClientSettingsPolicy") && match snd kp with t :: _ => negb (t =? "Gateway") | [] => false end.

Definition spec_counts (g : gdesc) : list (string * Z) :=
  [ ("GatewayClassCount", Z.of_nat (g_ign_classes g + (if g_has_class g then 1 else 0)));
    ("GatewayCount", Z.of_nat (g_ign_gws g + (if g_has_gw g then 1 else 0)));
    ("HTTPRouteCount", count_if (fun rt => rt =? "http") (g_routes g));
    ("GRPCRouteCount", count_if (fun rt => rt =? "grpc") (g_routes g));
    ("TLSRouteCount", Z.of_nat (g_l4routes g));
    ("SecretCount", Z.of_nat (g_secrets g));
    ("ServiceCount", Z.of_nat (g_services g));
    (* endpoints of the upstreams that resolved without error *)
    ("EndpointCount", zsum (map snd (filter (fun u => negb (fst u)) (g_upstreams g))));
    ("BackendTLSPolicyCount", Z.of_nat (g_btps g));
    ("GatewayAttachedClientSettingsPolicyCount", count_if is_csp_attached_to_gateway (g_policies g));
    ("RouteAttachedClientSettingsPolicyCount", count_if is_csp_attached_to_route (g_policies g));
    ("ObservabilityPolicyCount", count_if (fun kp => fst kp =? "ObservabilityPolicy") (g_policies g));
    ("UpstreamSettingsPolicyCount", count_if (fun kp => fst kp =? "UpstreamSettingsPolicy") (g_policies g));
    ("NginxProxyCount", if g_has_np g then 1%Z else 0%Z);
    ("SnippetsFilterCount", Z.of_nat (length (g_sfs g))) ].

(* ---- flags: a reported value is a reduction of the flag's value to true/false/default/user-defined: a boolean flag
        is reported as it is; any other flag as "default" only if its value is the default, else "user-defined"
        (the weaker reading: "user-defined" for a flag the user set explicitly to its default value is not excluded) *)

Definition mem_str (x : string) (l : list string) : bool := existsb (String.eqb x) l.

Definition reduced (f : flagd) (v : string) : bool :=
  if f_bool f then (v =? f_value f) && mem_str v ["true"; "false"]
  else ((v =? "default") && (f_value f =? f_def f)) || (v =? "user-defined").

(* ---- SnippetsFilters: a reported string is <directive name>-<context> for a directive name of a snippet of that
        context in a SnippetsFilter of the graph *)

Definition snippet_entries (cv : string * string) : list string :=
  map (fun d => d ++ "-" ++ ctx_label (fst cv)) (directive_names (snd cv)).

Definition allowed_entries (sfs : list sfilter) : list string :=
  flat_map (fun sf => match sf with
                      | Some snippets => flat_map snippet_entries snippets
                      | None => []
                      end) sfs.

Definition disclosed_ok (sfs : list sfilter) (e : string) : bool := mem_str e (allowed_entries sfs).

Definition all_snippet_values (sfs : list sfilter) : list string :=
  flat_map (fun sf => match sf with Some snippets => map snd snippets | None => [] end) sfs.
