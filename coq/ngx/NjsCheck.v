(* Correspondence between the model of httpmatches.js (ngx/Eval.v: njs_redirect) and the REAL module, run unmodified under
   node on generated match tables and requests (harness: TestVerifNjs, harness/njs/run.mjs). Compared: the status the
   module returns, or the path of the internal redirect (the query string the module appends to it for the benefit of
   rewrites is not part of the location lookup and is cut off). *)
From Coq Require Import List String ZArith Bool Arith Ascii.
From NGF Require Export lib.CaseLib lib.Str k8s.State k8s.Spec ngx.Lexer ngx.Eval.
Import ListNotations.

Inductive observed := ObsStatus (code : Z) | ObsRedirect (path : string) | ObsOther (what : string).

Record case := NCase { nc_table : matchtable; nc_key : option string; nc_request : request; nc_observed : observed }.

Definition before_query (p : string) : string :=
  match split_on "?"%char p with a :: _ => a | [] => p end.

(* Oracle, for the tables the generator can write (every match well-formed, with a redirect path): the module must pick the
   first match of the list that the request satisfies in the sense of the specification (k8s/Spec.v: method equal, every
   header - name case-insensitive - has the value among the comma-separated values of the request's header, every query
   parameter's first occurrence has exactly the value), and answer 404 when there is none. Independent of the model above. *)
Definition split_first (sep : ascii) (s : string) : option (string * string) :=
  match index_of_l sep (chars_of s) 0 with
  | Some i => Some (string_of (firstn i (chars_of s)), drop (S i) s)
  | None => None
  end.

Definition wf_header (h : string) : bool :=
  match split_on ":"%char h with [n; v] => negb (seqb n "") && negb (seqb v "") | _ => false end.
Definition wf_param (p : string) : bool :=
  match split_first "="%char p with Some (k, v) => negb (seqb k "") && negb (seqb v "") | None => false end.
Definition wf_match (m : jsmatch) : bool :=
  match jm_redirect m with Some p => negb (seqb p "") | None => false end &&
  match jm_method m with Some me => negb (seqb me "") | None => true end &&
  forallb wf_header (jm_headers m) && forallb wf_param (jm_params m).

Definition spec_satisfies (q : request) (m : jsmatch) : bool :=
  jm_any m ||
  (match jm_method m with Some me => seqb me (q_method q) | None => true end &&
   forallb (fun h => match split_first ":"%char h with Some nv => header_ok q nv | None => false end) (jm_headers m) &&
   forallb (fun p => match split_first "="%char p with Some kv => query_ok q kv | None => false end) (jm_params m)).

Definition oracle (c : case) : bool :=
  match nc_key c with
  | None => true
  | Some k =>
      match find (fun e => seqb (fst e) k) (nc_table c) with
      | Some (_, (_ :: _) as ms) =>
          if negb (seqb k "") && forallb wf_match ms then
            match find (spec_satisfies (nc_request c)) ms, nc_observed c with
            | Some m, ObsRedirect p => match jm_redirect m with Some r => seqb r (before_query p) | None => false end
            | None, ObsStatus code => Z.eqb code 404
            | _, _ => false
            end
          else true
      | _ => true
      end
  end.

Definition check_case (c : case) : list nat :=
  (if oracle c then [] else [code_violation]) ++
  match njs_redirect (nc_table c) (nc_key c) (nc_request c), nc_observed c with
  | NjsStatus a, ObsStatus b => if Z.eqb a b then [] else [code_mismatch]
  | NjsRedirect p, ObsRedirect q => if seqb p (before_query q) then [] else [code_mismatch]
  | _, _ => [code_mismatch]
  end.
