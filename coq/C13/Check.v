(* C13 — correspondence checker and property oracle, evaluated on what the Go harness observed
   (harness/pkg/internal/mode/static/zz_verif_c13_test.go).

   CResolve: one world (NginxProxy setting, EndpointSlices, referenced Service ports) on NGINX OSS: per referenced
     port the upstream name, whether Resolve failed, the Endpoints of the built dataplane.Upstream, and the server
     lines of the upstream block read back from the generated http.conf / stream.conf.
   CPlus: a history of batches on NGINX Plus (ClusterStateChange = reload path, EndpointsOnlyChange = API path);
     per step the same as above plus the server lists the stateful fake NGINX Plus holds afterwards.

   [corr_*]  : the model (C13.Model, repaired variant) agrees with the implementation on those observables; server
               lists and endpoint lists are compared as sets (Go map order), never text.
   [oracle_*]: the property itself on the observed behaviour, written WITHOUT the model: a declarative enumeration
               of the ready addresses of the slices that belong, are allowed and expose the port.  For slices whose
               port list is not well-formed (duplicate names, a nil port next to other entries: things API
               validation / the EndpointSlice controller never produce) the statement is ambiguous, so only
               soundness (every server is justified by some reading) is demanded there. *)
From Coq Require Import List String ZArith Bool.
From NGF Require Export lib.CaseLib C13.Model.
Import ListNotations.
Open Scope string_scope.

Record obs_up := ObsUp { o_name : string; o_err : bool; o_eps : list ep; o_block : option (list string) }.

Record pstep := PStep { p_reload : bool; p_world : world; p_obs : list obs_up;
                        p_http : list (string * list string); p_stream : list (string * list string);
                        p_err : bool }.

Inductive case :=
| CResolve (w : world) (obs : list obs_up)
| CPlus (steps : list pstep).

(* ---------------------------------------------------------------- helpers *)

Definition str_subset (a b : list string) : bool := forallb (fun s => mem s b) a.
Definition str_set_eq (a b : list string) : bool := str_subset a b && str_subset b a.

Fixpoint str_nodup (l : list string) : bool :=
  match l with [] => true | x :: l' => negb (mem x l') && str_nodup l' end.

Definition ep_eqb (x y : ep) : bool :=
  String.eqb (a_addr x) (a_addr y) && Z.eqb (a_port x) (a_port y) && Bool.eqb (a_v6 x) (a_v6 y).
Definition ep_mem (x : ep) (l : list ep) : bool := existsb (ep_eqb x) l.
Definition ep_subset (a b : list ep) : bool := forallb (fun x => ep_mem x b) a.
Definition ep_set_eq (a b : list ep) : bool := ep_subset a b && ep_subset b a.
Fixpoint ep_nodup (l : list ep) : bool :=
  match l with [] => true | x :: l' => negb (ep_mem x l') && ep_nodup l' end.

Fixpoint zip {A B} (a : list A) (b : list B) : list (A * B) :=
  match a, b with x :: a', y :: b' => (x, y) :: zip a' b' | _, _ => [] end.

Definition opt_eqb_none {A} (o : option A) : bool := match o with None => true | _ => false end.

(* ---------------------------------------------------------------- correspondence *)

Definition corr_obs (w : world) (v : svc) (o : obs_up) : bool :=
  let m := world_eps w v in
  String.eqb (o_name o) (upstream_name v) &&
  Bool.eqb (o_err o) (opt_eqb_none (world_resolve w v)) &&
  ep_set_eq (o_eps o) m && Nat.eqb (List.length (o_eps o)) (List.length m).

Definition corr_block_oss (w : world) (v : svc) (o : obs_up) : bool :=
  let m := world_eps w v in
  if v_stream v then
    match oss_stream_block m, o_block o with
    | None, None => true
    | Some a, Some b => str_set_eq a b && Nat.eqb (List.length a) (List.length b)
    | _, _ => false
    end
  else
    match o_block o with
    | Some b => str_set_eq (oss_http_block m) b && Nat.eqb (List.length (oss_http_block m)) (List.length b)
    | None => false
    end.

Definition corr_resolve (w : world) (obs : list obs_up) : bool :=
  Nat.eqb (List.length obs) (List.length (w_svcs w)) &&
  forallb (fun vo => corr_obs w (fst vo) (snd vo) && corr_block_oss w (fst vo) (snd vo)) (zip (w_svcs w) obs).

Definition view (run : list (string * (bool * list string))) : list (string * list string) :=
  map (fun x => (fst x, snd (snd x))) run.

Definition view_eq (a b : list (string * list string)) : bool :=
  names_eqb (map fst a) (map fst b) &&
  forallb (fun x => match lookup (fst x) b with
                    | Some l => str_set_eq (snd x) l && Nat.eqb (List.length (snd x)) (List.length l)
                    | None => false
                    end) a.

(* run the repaired model along the history *)
Fixpoint corr_plus (h : hstate) (steps : list pstep) : bool :=
  match steps with
  | [] => true
  | s :: steps' =>
      let w := p_world s in
      let h' := plus_step true (p_reload s) (world_conf w) h in
      if negb (p_err s) &&
         Nat.eqb (List.length (p_obs s)) (List.length (w_svcs w)) &&
         forallb (fun vo => corr_obs w (fst vo) (snd vo)) (zip (w_svcs w) (p_obs s)) &&
         view_eq (view (n_http (h_ng h'))) (p_http s) &&
         view_eq (view (n_stream (h_ng h'))) (p_stream s)
      then corr_plus h' steps'
      else false
  end.

(* ---------------------------------------------------------------- the property, stated on the input *)

(* which address types the NginxProxy setting allows *)
Definition o_type_allowed (np : npspec) (t : addrtype) : bool :=
  match t with
  | ATv4 => match np with NP true (Some FIPv6) => false | _ => true end
  | ATv6 => match np with NP true (Some FIPv4) => false | _ => true end
  | _ => false                                        (* FQDN and unknown types are never balanced across *)
  end.

(* the slice belongs to the Service: same namespace, kubernetes.io/service-name label = the Service's name *)
Definition o_belongs (v : svc) (s : slice) : bool :=
  String.eqb (s_ns s) (v_ns v) &&
  match s_label s with Some l => String.eqb l (v_name v) && negb (String.eqb (v_name v) "") | None => false end.

(* the port that stands for "all ports": integer targetPort if set, else the Service port *)
Definition o_default_port (sp : sport) : Z :=
  match sp_target sp with
  | TInt 0%Z => sp_port sp
  | TInt z => z
  | TStr _ => sp_port sp
  end.

(* every port the slice can be said to publish for the referenced Service port *)
Definition o_ports (ps : list eport) (sp : sport) : list Z :=
  filter (fun z => negb (Z.eqb z 0))
    match ps with
    | [EPort _ None] => [o_default_port sp]
    | _ => flat_map (fun p => match ep_name p, ep_port p with
                              | Some n, Some z => if String.eqb n (sp_name sp) then [z] else []
                              | _, _ => []
                              end) ps
    end.

(* well-formed port list: unique names; a nil port only as the single entry *)
Fixpoint o_names_nodup (l : list (option string)) : bool :=
  match l with
  | [] => true
  | x :: l' =>
      negb (existsb (fun y => match x, y with
                              | Some a, Some b => String.eqb a b
                              | None, None => true
                              | _, _ => false
                              end) l') && o_names_nodup l'
  end.

Definition o_wf_ports (ps : list eport) : bool :=
  o_names_nodup (map ep_name ps) &&
  (negb (existsb (fun p => opt_eqb_none (ep_port p)) ps) || Nat.eqb (List.length ps) 1).

Definition o_relevant (w : world) (v : svc) : list slice :=
  filter (fun s => o_belongs v s && o_type_allowed (w_np w) (s_type s)) (w_slices w).

Definition o_ready_addrs (s : slice) : list string :=
  flat_map (fun e => match e_ready e with Some true => e_addrs e | _ => [] end) (s_eps s).

(* the servers the property prescribes (with repetitions) *)
Definition o_expected (w : world) (v : svc) : list ep :=
  flat_map (fun s => flat_map (fun p => map (fun a => Ep a p (addrtype_eqb (s_type s) ATv6)) (o_ready_addrs s))
                              (o_ports (s_ports s) (v_port v)))
           (o_relevant w v).

Definition o_wf (w : world) (v : svc) : bool := forallb (fun s => o_wf_ports (s_ports s)) (o_relevant w v).

(* loose reading for ill-formed port lists: any published port number or the default port *)
Definition o_loose_ports (ps : list eport) (sp : sport) : list Z :=
  filter (fun z => negb (Z.eqb z 0))
    (o_default_port sp :: flat_map (fun p => match ep_port p with Some z => [z] | None => [] end) ps).

Definition o_justified (w : world) (v : svc) (e : ep) : bool :=
  existsb (fun s => Bool.eqb (a_v6 e) (addrtype_eqb (s_type s) ATv6) &&
                    mem (a_addr e) (o_ready_addrs s) &&
                    existsb (Z.eqb (a_port e)) (o_loose_ports (s_ports s) (v_port v)))
          (o_relevant w v).

Definition o_fmt (e : ep) : string :=
  (if a_v6 e then "[" ++ a_addr e ++ "]" else a_addr e) ++ ":" ++ dec (a_port e).

(* what NGINX balances across for v must be exactly [want] (503 placeholder when there is nothing) *)
Definition o_servers_ok (stream : bool) (want : list ep) (block : option (list string)) : bool :=
  match want with
  | [] => if stream then match block with None | Some [] => true | _ => false end
          else match block with Some [s] => String.eqb s sock503 | _ => false end
  | _ => match block with
         | Some l => str_nodup l && str_set_eq l (map o_fmt want)
         | None => false
         end
  end.

Definition oracle_obs (w : world) (v : svc) (o : obs_up) : bool :=
  ep_nodup (o_eps o) &&
  if o_wf w v
  then ep_set_eq (o_eps o) (o_expected w v) && o_servers_ok (v_stream v) (o_expected w v) (o_block o)
  else forallb (o_justified w v) (o_eps o) && o_servers_ok (v_stream v) (o_eps o) (o_block o).

Definition oracle_resolve (w : world) (obs : list obs_up) : bool :=
  forallb (fun vo => oracle_obs w (fst vo) (snd vo)) (zip (w_svcs w) obs).

(* NGINX Plus: after every batch the servers of the upstream of every referenced port are exactly the prescribed
   ones; nothing prescribed: no servers (the upstream may also be absent).  Results per (step, service):
   0 = fine, 1 = fails, 2 = fails in the class of D32 *)
Definition oracle_plus_one (s : pstep) (v : svc) (o : obs_up) : nat :=
  let w := p_world s in
  let want := if o_wf w v then o_expected w v else o_eps o in
  let got := lookup (upstream_name v) (if v_stream v then p_stream s else p_http s) in
  match got with
  | Some l => if str_nodup l && str_set_eq l (map o_fmt want) then 0 else 1
  | None => match want with
            | [] => 0
            | _ => (* class_D32: a TLSRoute backend has endpoints, the batch was an EndpointsOnlyChange, and NGINX has
                      no stream upstream of that name *)
                   if v_stream v && negb (p_reload s) then 2 else 1
            end
  end.

Definition oracle_plus (steps : list pstep) : list nat :=
  flat_map (fun s => map (fun vo => oracle_plus_one s (fst vo) (snd vo)) (zip (w_svcs (p_world s)) (p_obs s))) steps.

Definition code_D32 := code_known 32.

Definition check_case (c : case) : list nat :=
  match c with
  | CResolve w obs =>
      if oracle_resolve w obs then when (negb (corr_resolve w obs)) code_mismatch else [code_violation]
  | CPlus steps =>
      let r := oracle_plus steps in
      if existsb (Nat.eqb 1) r then [code_violation]
      else if existsb (Nat.eqb 2) r then [code_D32]
      else when (negb (corr_plus hstate0 steps)) code_mismatch
  end.
