(* Proofs about prefix replacement (C02/Rewrite.v). *)
From Coq Require Import List String Ascii Bool Arith Lia.
From NGF Require Import lib.Str C02.Rewrite.
Import ListNotations.

Lemma ends_slash_snoc l c : ends_slash (l ++ [c]) = Ascii.eqb c slash.
Proof. unfold ends_slash. rewrite rev_app_distr. reflexivity. Qed.

Lemma ends_slash_spec l : ends_slash l = true <-> exists l0, l = l0 ++ [slash].
Proof.
  split.
  - destruct l as [|a l'] using rev_ind; [discriminate|]. rewrite ends_slash_snoc. intros H.
    apply Ascii.eqb_eq in H. subst. exists l'. reflexivity.
  - intros [l0 ->]. rewrite ends_slash_snoc. apply Ascii.eqb_refl.
Qed.

Lemma strip_slash_snoc l : strip_slash (l ++ [slash]) = l.
Proof. unfold strip_slash. rewrite ends_slash_snoc, Ascii.eqb_refl. apply removelast_last. Qed.

Lemma strip_slash_id l : ends_slash l = false -> strip_slash l = l.
Proof. unfold strip_slash. intros ->. reflexivity. Qed.

Lemma is_prefix_app p rest : is_prefix_l p (p ++ rest) = true.
Proof. induction p as [|a p IH]; simpl; [reflexivity|]. rewrite Ascii.eqb_refl. exact IH. Qed.

Lemma skipn_exact {A} (p rest : list A) : skipn (List.length p) (p ++ rest) = rest.
Proof. induction p as [|a p IH]; simpl; [reflexivity|exact IH]. Qed.

Lemma skipn_self {A} (p : list A) : skipn (List.length p) p = [].
Proof. induction p as [|a p IH]; simpl; [reflexivity|exact IH]. Qed.

Lemma apply_at p opt repl rest :
  apply (RW opt p repl) (p ++ rest) =
  Some (repl ++ (if opt then match rest with c :: rest' => if Ascii.eqb c slash then rest' else [] | [] => [] end else rest)).
Proof. unfold apply. simpl. rewrite is_prefix_app, skipn_exact. reflexivity. Qed.

Lemma apply_self p opt repl :
  apply (RW opt p repl) p = Some (repl ++ (if opt then [] else [])).
Proof.
  rewrite <- (app_nil_r p) at 2. rewrite apply_at. destruct opt; reflexivity.
Qed.

(* THE theorem: for every prefix, every replacement and every request path that reaches the rule's locations, the rewrite
   directive the generator writes turns the path into what Gateway API prescribes *)
Theorem rewrite_is_prefix_replacement P R q :
  reaches P q -> apply (main_rewrite P R) q = Some (expected P R q).
Proof.
  unfold reaches, main_rewrite, expected. destruct (ends_slash P) eqn:HP.
  - (* P = P0/ : one prefix location *)
    apply ends_slash_spec in HP. destruct HP as [P0 ->]. intros [xs ->].
    rewrite strip_slash_snoc. simpl. rewrite andb_false_r.
    rewrite apply_at.
    replace (skipn (List.length P0) ((P0 ++ [slash]) ++ xs)) with (slash :: xs)
      by (rewrite <- app_assoc; simpl; rewrite skipn_exact; reflexivity).
    destruct R as [|r R'].
    + reflexivity.
    + destruct (ends_slash (r :: R')) eqn:HR.
      * apply ends_slash_spec in HR. destruct HR as [R0 HR0]. rewrite HR0, strip_slash_snoc.
        simpl. rewrite <- app_assoc. reflexivity.
      * rewrite (strip_slash_id _ HR). simpl. rewrite <- app_assoc. reflexivity.
  - (* P without a trailing slash: locations "P/" and "= P" *)
    rewrite (strip_slash_id _ HP). simpl. rewrite andb_true_r.
    intros [->|[xs ->]].
    + (* the request path is the prefix *)
      rewrite skipn_self, apply_self.
      destruct R as [|r R']; [reflexivity|].
      destruct (ends_slash (r :: R')); rewrite app_nil_r; reflexivity.
    + rewrite skipn_exact, apply_at.
      destruct R as [|r R'].
      * reflexivity.
      * destruct (ends_slash (r :: R')) eqn:HR.
        -- rewrite Ascii.eqb_refl. apply ends_slash_spec in HR. destruct HR as [R0 HR0].
           rewrite HR0, strip_slash_snoc, <- app_assoc. reflexivity.
        -- rewrite (strip_slash_id _ HR). reflexivity.
Qed.

(* the rows of the table in the Gateway API reference (HTTPPathModifier, ReplacePrefixMatch) *)
Definition c := chars_of.
Example gateway_api_table :
  map (fun t : string * string * string => let '(q, P, R) := t in string_of (expected (c P) (c R) (c q)))
    [("/foo/bar", "/foo", "/xyz"); ("/foo/bar", "/foo", "/xyz/"); ("/foo/bar", "/foo/", "/xyz"); ("/foo/bar", "/foo/", "/xyz/");
     ("/foo", "/foo", "/xyz"); ("/foo/", "/foo", "/xyz"); ("/foo/bar", "/foo", ""); ("/foo/", "/foo", ""); ("/foo", "/foo", "");
     ("/foo/", "/foo", "/"); ("/foo", "/foo", "/")]%string
  = ["/xyz/bar"; "/xyz/bar"; "/xyz/bar"; "/xyz/bar"; "/xyz"; "/xyz/"; "/bar"; "/"; "/"; "/"; "/"]%string.
Proof. vm_compute. reflexivity. Qed.

(* the premise is met: those request paths do reach the rule *)
Example reaches_examples : reaches (c "/foo") (c "/foo/bar") /\ reaches (c "/foo") (c "/foo") /\ reaches (c "/foo/") (c "/foo/bar").
Proof.
  repeat split.
  - right. exists (c "bar"). reflexivity.
  - left. reflexivity.
  - exists (c "bar"). reflexivity.
Qed.

(* junction: the result never has two slashes where prefix replacement and rest meet unless R itself ends with two *)
Lemma result_not_empty P R q : expected P R q <> [].
Proof.
  unfold expected. destruct (skipn _ q) as [|a rem].
  - destruct R; discriminate.
  - destruct (strip_slash R); discriminate.
Qed.
