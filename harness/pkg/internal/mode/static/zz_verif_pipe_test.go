//go:build verif

package static

// Shared whole-pipeline world for the /verif correspondence harnesses (C01, C02, C03, C04, C05, C07,
// C14, C16, C17): the REAL eventHandlerImpl with the real ChangeProcessorImpl, real validators, real
// service resolver (over a controller-runtime fake client holding the "cluster"), real configuration
// generator and real status updater/setters. Only the environment is faked: file manager (records the
// files), runtime manager (records reloads, scripted errors), event recorder, licensing collector.

import (
	"context"
	"errors"
	"fmt"
	"reflect"
	"sort"
	"strings"

	"github.com/go-logr/logr"
	ngxclient "github.com/nginxinc/nginx-plus-go-client/client"
	"go.uber.org/zap"
	apiv1 "k8s.io/api/core/v1"
	discoveryV1 "k8s.io/api/discovery/v1"
	apiext "k8s.io/apiextensions-apiserver/pkg/apis/apiextensions/v1"
	metav1 "k8s.io/apimachinery/pkg/apis/meta/v1"
	"k8s.io/apimachinery/pkg/types"
	"k8s.io/client-go/tools/record"
	"sigs.k8s.io/controller-runtime/pkg/client"
	"sigs.k8s.io/controller-runtime/pkg/client/fake"
	gatewayv1 "sigs.k8s.io/gateway-api/apis/v1"
	"sigs.k8s.io/gateway-api/apis/v1alpha2"
	"sigs.k8s.io/gateway-api/apis/v1alpha3"
	"sigs.k8s.io/gateway-api/apis/v1beta1"

	ngfAPIv1alpha1 "github.com/nginx/nginx-gateway-fabric/apis/v1alpha1"
	ngfAPIv1alpha2 "github.com/nginx/nginx-gateway-fabric/apis/v1alpha2"
	"github.com/nginx/nginx-gateway-fabric/internal/framework/controller/index"
	"github.com/nginx/nginx-gateway-fabric/internal/framework/events"
	"github.com/nginx/nginx-gateway-fabric/internal/framework/gatewayclass"
	"github.com/nginx/nginx-gateway-fabric/internal/framework/kinds"
	frameworkStatus "github.com/nginx/nginx-gateway-fabric/internal/framework/status"
	ngfConfig "github.com/nginx/nginx-gateway-fabric/internal/mode/static/config"
	"github.com/nginx/nginx-gateway-fabric/internal/mode/static/licensing/licensingfakes"
	"github.com/nginx/nginx-gateway-fabric/internal/mode/static/metrics/collectors"
	ngxcfg "github.com/nginx/nginx-gateway-fabric/internal/mode/static/nginx/config"
	ngxvalidation "github.com/nginx/nginx-gateway-fabric/internal/mode/static/nginx/config/validation"
	"github.com/nginx/nginx-gateway-fabric/internal/mode/static/nginx/file"
	"github.com/nginx/nginx-gateway-fabric/internal/mode/static/state"
	"github.com/nginx/nginx-gateway-fabric/internal/mode/static/state/graph"
	"github.com/nginx/nginx-gateway-fabric/internal/mode/static/state/resolver"
	"github.com/nginx/nginx-gateway-fabric/internal/mode/static/state/validation"
)

const (
	vpCtlrName  = "gateway.nginx.org/nginx-gateway-controller"
	vpClassName = "nginx"
	vpPodNS     = "nginx-gateway"
)

// vpFileMgr records the file set of every ReplaceFiles call.
type vpFileMgr struct {
	calls [][]file.File
	err   error
}

func (f *vpFileMgr) ReplaceFiles(files []file.File) error {
	cp := make([]file.File, len(files))
	copy(cp, files)
	f.calls = append(f.calls, cp)
	return f.err
}

func (f *vpFileMgr) last() []file.File {
	if len(f.calls) == 0 {
		return nil
	}
	return f.calls[len(f.calls)-1]
}

// vpRuntime records reloads.
type vpRuntime struct {
	versions []int
	err      error
}

func (r *vpRuntime) Reload(_ context.Context, v int) error {
	r.versions = append(r.versions, v)
	return r.err
}
func (r *vpRuntime) IsPlus() bool { return false }
func (r *vpRuntime) GetUpstreams() (ngxclient.Upstreams, ngxclient.StreamUpstreams, error) {
	return ngxclient.Upstreams{}, ngxclient.StreamUpstreams{}, nil
}
func (r *vpRuntime) UpdateHTTPServers(string, []ngxclient.UpstreamServer) error         { return nil }
func (r *vpRuntime) UpdateStreamServers(string, []ngxclient.StreamUpstreamServer) error { return nil }

// vpGroupUpdater applies every status request at once through the real Updater (so the real setters run
// against the objects of the fake cluster) and records which objects were targeted.
type vpGroupUpdater struct {
	upd     *frameworkStatus.Updater
	targets []string
	groups  []string
}

func (g *vpGroupUpdater) UpdateGroup(ctx context.Context, name string, reqs ...frameworkStatus.UpdateRequest) {
	g.groups = append(g.groups, name)
	for _, r := range reqs {
		k := r.ResourceType.GetObjectKind().GroupVersionKind().Kind
		if k == "" {
			k = fmt.Sprintf("%T", r.ResourceType)
			k = k[strings.LastIndex(k, ".")+1:]
		}
		g.targets = append(g.targets, k+"/"+r.NsName.Namespace+"/"+r.NsName.Name)
	}
	g.upd.Update(ctx, reqs...)
}

type vpWorld struct {
	h       *eventHandlerImpl
	proc    *state.ChangeProcessorImpl
	k8s     client.WithWatch
	files   *vpFileMgr
	rt      *vpRuntime
	su      *vpGroupUpdater
	plus    bool
	batches int
}

func vpCRD(name string) *metav1.PartialObjectMetadata {
	return &metav1.PartialObjectMetadata{
		TypeMeta: metav1.TypeMeta{Kind: "CustomResourceDefinition", APIVersion: "apiextensions.k8s.io/v1"},
		ObjectMeta: metav1.ObjectMeta{
			Name:        name,
			Annotations: map[string]string{gatewayclass.BundleVersionAnnotation: gatewayclass.SupportedVersion},
		},
	}
}

// vpNewCluster creates the fake API server.
func vpNewCluster() client.WithWatch {
	k8s := fake.NewClientBuilder().WithScheme(scheme).
		WithIndex(&discoveryV1.EndpointSlice{}, index.KubernetesServiceNameIndexField, index.ServiceNameIndexFunc).
		WithStatusSubresource(
			&gatewayv1.GatewayClass{}, &gatewayv1.Gateway{}, &gatewayv1.HTTPRoute{}, &gatewayv1.GRPCRoute{},
			&v1alpha2.TLSRoute{}, &v1alpha3.BackendTLSPolicy{}, &ngfAPIv1alpha1.ClientSettingsPolicy{},
			&ngfAPIv1alpha2.ObservabilityPolicy{}, &ngfAPIv1alpha1.UpstreamSettingsPolicy{},
			&ngfAPIv1alpha1.SnippetsFilter{}, &ngfAPIv1alpha1.NginxGateway{},
		).Build()
	// the NGF-fronting Service is looked up on every status update
	_ = k8s.Create(context.Background(), &apiv1.Service{ObjectMeta: metav1.ObjectMeta{Name: "nginx-gateway", Namespace: vpPodNS}})
	return k8s
}

func vpNewWorld(plus bool) *vpWorld { return vpNewWorldWith(vpNewCluster(), plus) }

// vpNewWorldOver starts a new controller incarnation (OSS) over an existing cluster.
func vpNewWorldOver(k8s client.WithWatch) *vpWorld { return vpNewWorldWith(k8s, false) }

func vpNewWorldWith(k8s client.WithWatch, plus bool) *vpWorld {
	w := &vpWorld{files: &vpFileMgr{}, rt: &vpRuntime{}, plus: plus}
	w.k8s = k8s
	mustExtractGVK := kinds.NewMustExtractGKV(scheme)
	genericValidator := ngxvalidation.GenericValidator{}
	policyManager := createPolicyManager(mustExtractGVK, genericValidator)
	w.proc = state.NewChangeProcessorImpl(state.ChangeProcessorConfig{
		GatewayCtlrName:  vpCtlrName,
		GatewayClassName: vpClassName,
		Logger:           logr.Discard(),
		Validators: validation.Validators{
			HTTPFieldsValidator: ngxvalidation.HTTPValidator{},
			GenericValidator:    genericValidator,
			PolicyValidator:     policyManager,
		},
		EventRecorder:  record.NewFakeRecorder(10000),
		MustExtractGVK: mustExtractGVK,
		ProtectedPorts: map[int32]string{9113: "MetricsPort", 8081: "HealthPort"},
		PlusSecrets:    vpPlusSecrets(plus),
	})
	w.su = &vpGroupUpdater{upd: frameworkStatus.NewUpdater(w.k8s, logr.Discard())}
	w.h = newEventHandlerImpl(eventHandlerConfig{
		nginxFileMgr:                  w.files,
		metricsCollector:              collectors.NewControllerNoopCollector(),
		nginxRuntimeMgr:               w.rt,
		statusUpdater:                 w.su,
		processor:                     w.proc,
		serviceResolver:               resolver.NewServiceResolverImpl(w.k8s),
		generator:                     ngxcfg.NewGeneratorImpl(plus, &ngfConfig.UsageReportConfig{SecretName: "nplus-license", Endpoint: "product.connect.nginx.com"}, logr.Discard()),
		k8sClient:                     w.k8s,
		k8sReader:                     w.k8s,
		logLevelSetter:                newZapLogLevelSetter(zap.NewAtomicLevel()),
		eventRecorder:                 record.NewFakeRecorder(10000),
		deployCtxCollector:            &licensingfakes.FakeCollector{},
		nginxConfiguredOnStartChecker: newNginxConfiguredOnStartChecker(),
		gatewayPodConfig: ngfConfig.GatewayPodConfig{
			PodIP: "10.0.0.1", ServiceName: "nginx-gateway", Namespace: vpPodNS, Name: "ngf-pod", UID: "uid",
		},
		controlConfigNSName:      types.NamespacedName{Namespace: vpPodNS, Name: "nginx-gateway-config"},
		gatewayCtlrName:          vpCtlrName,
		updateGatewayClassStatus: true,
		plus:                     plus,
	})
	return w
}

// vpListAll lists every object of every watched kind (the start-up listing of the first event batch).
func vpListAll(k8s client.WithWatch) []client.Object {
	ctx := context.Background()
	var out []client.Object
	add := func(list client.ObjectList) {
		if err := k8s.List(ctx, list); err != nil {
			panic(err)
		}
		items := reflect.ValueOf(list).Elem().FieldByName("Items")
		for i := 0; i < items.Len(); i++ {
			out = append(out, items.Index(i).Addr().Interface().(client.Object))
		}
	}
	add(&apiv1.NamespaceList{})
	add(&gatewayv1.GatewayClassList{})
	add(&apiv1.SecretList{})
	add(&apiv1.ConfigMapList{})
	add(&apiv1.ServiceList{})
	add(&discoveryV1.EndpointSliceList{})
	add(&v1beta1.ReferenceGrantList{})
	add(&v1alpha3.BackendTLSPolicyList{})
	add(&ngfAPIv1alpha1.NginxProxyList{})
	add(&gatewayv1.GatewayList{})
	add(&gatewayv1.HTTPRouteList{})
	add(&gatewayv1.GRPCRouteList{})
	add(&v1alpha2.TLSRouteList{})
	add(&ngfAPIv1alpha1.ClientSettingsPolicyList{})
	add(&ngfAPIv1alpha2.ObservabilityPolicyList{})
	add(&ngfAPIv1alpha1.UpstreamSettingsPolicyList{})
	add(&ngfAPIv1alpha1.SnippetsFilterList{})
	var keep []client.Object
	for _, o := range out {
		if svc, ok := o.(*apiv1.Service); ok && svc.Namespace == vpPodNS && svc.Name == "nginx-gateway" {
			continue
		}
		keep = append(keep, o)
	}
	return keep
}

// vpCloneCluster copies every object (without status) into a new fake API server.
func vpCloneCluster(k8s client.WithWatch) client.WithWatch {
	nk := vpNewCluster()
	for _, o := range vpListAll(k8s) {
		cp := o.DeepCopyObject().(client.Object)
		cp.SetResourceVersion("")
		if err := nk.Create(context.Background(), cp); err != nil {
			panic(err)
		}
	}
	return nk
}

func vpPlusSecrets(plus bool) map[types.NamespacedName][]graph.PlusSecretFile {
	m := map[types.NamespacedName][]graph.PlusSecretFile{}
	if plus {
		m[types.NamespacedName{Namespace: vpPodNS, Name: "nplus-license"}] = []graph.PlusSecretFile{
			{FieldName: plusLicenseField, Type: graph.PlusReportJWTToken},
		}
	}
	return m
}

// vpPlusEvents: the usage-report Secret a Plus deployment is started with.
func (w *vpWorld) vpPlusEvents() []interface{} {
	if !w.plus {
		return nil
	}
	return []interface{}{w.Apply(&apiv1.Secret{
		ObjectMeta: metav1.ObjectMeta{Namespace: vpPodNS, Name: "nplus-license"},
		Data:       map[string][]byte{plusLicenseField: []byte("jwt-token")},
	})}
}

// vpBaseEvents are the CRD-metadata events every start-up listing contains (Gateway API CRDs exist).
func vpBaseEvents() []interface{} {
	var evs []interface{}
	for _, n := range []string{"gatewayclasses", "gateways", "httproutes", "referencegrants", "grpcroutes"} {
		evs = append(evs, &events.UpsertEvent{Resource: vpCRD(n + ".gateway.networking.k8s.io")})
	}
	return evs
}

// Batch delivers one event batch to the real handler.
func (w *vpWorld) Batch(evs []interface{}) {
	w.batches++
	w.h.HandleEventBatch(context.Background(), logr.Discard(), events.EventBatch(evs))
}

// Apply creates/updates the object in the fake cluster and returns the upsert event carrying the object
// exactly as a watch would deliver it (a fresh copy read back from the "API server").
func (w *vpWorld) Apply(obj client.Object) interface{} {
	ctx := context.Background()
	cp := obj.DeepCopyObject().(client.Object)
	cp.SetResourceVersion("")
	cur := obj.DeepCopyObject().(client.Object)
	err := w.k8s.Get(ctx, client.ObjectKeyFromObject(obj), cur)
	if err == nil {
		cp.SetResourceVersion(cur.GetResourceVersion())
		// keep status written by the controller: a spec update does not reset status
		vpCopyStatus(cur, cp)
		if e := w.k8s.Update(ctx, cp); e != nil {
			panic(e)
		}
	} else {
		if e := w.k8s.Create(ctx, cp); e != nil {
			panic(e)
		}
	}
	got := obj.DeepCopyObject().(client.Object)
	if e := w.k8s.Get(ctx, client.ObjectKeyFromObject(obj), got); e != nil {
		panic(e)
	}
	vpRestoreEmpty(reflect.ValueOf(obj), reflect.ValueOf(got))
	return &events.UpsertEvent{Resource: got}
}

// vpRestoreEmpty: the fake client stores typed objects re-encoded with omitempty, which turns an empty list into an absent one.
// The API server stores the JSON the user sent, and an informer decodes "field: []" into an empty, non-nil slice: where the
// object as written has an empty non-nil slice and the stored one has nil, the empty slice is put back.
func vpRestoreEmpty(orig, got reflect.Value) {
	if orig.Kind() != got.Kind() {
		return
	}
	switch orig.Kind() {
	case reflect.Ptr, reflect.Interface:
		if !orig.IsNil() && !got.IsNil() {
			vpRestoreEmpty(orig.Elem(), got.Elem())
		}
	case reflect.Struct:
		for i := 0; i < orig.NumField(); i++ {
			if got.Field(i).CanSet() || got.Field(i).Kind() == reflect.Ptr || got.Field(i).Kind() == reflect.Struct || got.Field(i).Kind() == reflect.Slice {
				vpRestoreEmpty(orig.Field(i), got.Field(i))
			}
		}
	case reflect.Slice:
		if !orig.IsNil() && orig.Len() == 0 && got.IsNil() && got.CanSet() {
			got.Set(reflect.MakeSlice(orig.Type(), 0, 0))
			return
		}
		if orig.Len() == got.Len() {
			for i := 0; i < orig.Len(); i++ {
				vpRestoreEmpty(orig.Index(i), got.Index(i))
			}
		}
	}
}

// Remove deletes the object from the fake cluster and returns the delete event (bare registered type +
// name, exactly as internal/framework/controller/reconciler.go builds it).
func (w *vpWorld) Remove(obj client.Object) interface{} {
	_ = w.k8s.Delete(context.Background(), obj.DeepCopyObject().(client.Object))
	bare := vpBareType(obj)
	return &events.DeleteEvent{Type: bare, NamespacedName: client.ObjectKeyFromObject(obj)}
}

func vpBareType(obj client.Object) client.Object {
	switch obj.(type) {
	case *gatewayv1.GatewayClass:
		return &gatewayv1.GatewayClass{}
	case *gatewayv1.Gateway:
		return &gatewayv1.Gateway{}
	case *gatewayv1.HTTPRoute:
		return &gatewayv1.HTTPRoute{}
	case *gatewayv1.GRPCRoute:
		return &gatewayv1.GRPCRoute{}
	case *v1alpha2.TLSRoute:
		return &v1alpha2.TLSRoute{}
	case *apiv1.Service:
		return &apiv1.Service{}
	case *apiv1.Secret:
		return &apiv1.Secret{}
	case *apiv1.ConfigMap:
		return &apiv1.ConfigMap{}
	case *apiv1.Namespace:
		return &apiv1.Namespace{}
	case *discoveryV1.EndpointSlice:
		return &discoveryV1.EndpointSlice{}
	case *v1beta1.ReferenceGrant:
		return &v1beta1.ReferenceGrant{}
	case *v1alpha3.BackendTLSPolicy:
		return &v1alpha3.BackendTLSPolicy{}
	case *ngfAPIv1alpha1.NginxProxy:
		return &ngfAPIv1alpha1.NginxProxy{}
	case *ngfAPIv1alpha1.ClientSettingsPolicy:
		return &ngfAPIv1alpha1.ClientSettingsPolicy{}
	case *ngfAPIv1alpha2.ObservabilityPolicy:
		return &ngfAPIv1alpha2.ObservabilityPolicy{}
	case *ngfAPIv1alpha1.UpstreamSettingsPolicy:
		return &ngfAPIv1alpha1.UpstreamSettingsPolicy{}
	case *ngfAPIv1alpha1.SnippetsFilter:
		return &ngfAPIv1alpha1.SnippetsFilter{}
	case *ngfAPIv1alpha1.NginxGateway:
		return &ngfAPIv1alpha1.NginxGateway{}
	case *metav1.PartialObjectMetadata:
		return &metav1.PartialObjectMetadata{TypeMeta: metav1.TypeMeta{Kind: "CustomResourceDefinition", APIVersion: "apiextensions.k8s.io/v1"}}
	case *apiext.CustomResourceDefinition:
		return &apiext.CustomResourceDefinition{}
	}
	panic(fmt.Sprintf("vpBareType: %T", obj))
}

func vpCopyStatus(from, to client.Object) {
	switch f := from.(type) {
	case *gatewayv1.GatewayClass:
		to.(*gatewayv1.GatewayClass).Status = f.Status
	case *gatewayv1.Gateway:
		to.(*gatewayv1.Gateway).Status = f.Status
	case *gatewayv1.HTTPRoute:
		to.(*gatewayv1.HTTPRoute).Status = f.Status
	case *gatewayv1.GRPCRoute:
		to.(*gatewayv1.GRPCRoute).Status = f.Status
	case *v1alpha2.TLSRoute:
		to.(*v1alpha2.TLSRoute).Status = f.Status
	case *v1alpha3.BackendTLSPolicy:
		to.(*v1alpha3.BackendTLSPolicy).Status = f.Status
	}
}

// Files returns the last file set handed to the file manager as path -> content (nil if none yet).
func (w *vpWorld) Files() map[string]string {
	fs := w.files.last()
	if fs == nil {
		return nil
	}
	m := map[string]string{}
	for _, f := range fs {
		m[f.Path] = string(f.Content)
	}
	return m
}

func vpSortedKeys(m map[string]string) []string {
	ks := make([]string, 0, len(m))
	for k := range m {
		ks = append(ks, k)
	}
	sort.Strings(ks)
	return ks
}

var errVpReload = errors.New("verif: scripted reload failure")

func clientKey(ns, name string) types.NamespacedName {
	return types.NamespacedName{Namespace: ns, Name: name}
}

func upsertOf(obj client.Object) interface{} { return &events.UpsertEvent{Resource: obj} }

func isNamespace(o client.Object) bool { _, ok := o.(*apiv1.Namespace); return ok }
