(* C09 — correspondence checker and property oracle, evaluated on histories observed by the Go
   harness (real LeaderAwareGroupUpdater over the real Updater and a recording fake client).

   A case is a set of invocations with logical call/return instants and the status writes each one
   performed, plus the global write log.  [lin_ok]: there is a linearisation, consistent with the
   real-time order, in which the model performs exactly the observed writes (correspondence).
   [oracle]: the property itself, stated on the observed history without using the model. *)
From Coq Require Import List Arith Bool.
From NGF Require Export lib.CaseLib C09.Model.
Import ListNotations.

Record ev := Ev { e_op : op; e_call : nat; e_ret : nat; e_out : list req }.
Definition case := (list ev * list req)%type.

Fixpoint list_eqb (a b : list nat) : bool :=
  match a, b with
  | [], [] => true
  | x :: a', y :: b' => Nat.eqb x y && list_eqb a' b'
  | _, _ => false
  end.

Fixpoint is_prefix (a b : list nat) : bool :=
  match a, b with
  | [], _ => true
  | x :: a', y :: b' => Nat.eqb x y && is_prefix a' b'
  | _, _ => false
  end.

(* [obs] is the concatenation of the saved groups' requests in some order (tags are unique) *)
Fixpoint flush_ok (fuel : nat) (obs : list req) (sv : list (group * list req)) : bool :=
  match fuel with
  | 0 => false
  | S f =>
      match sv with
      | [] => match obs with [] => true | _ => false end
      | _ =>
          existsb (fun p => if is_prefix (snd p) obs
                            then flush_ok f (skipn (length (snd p)) obs) (remove_key (fst p) sv)
                            else false) sv
      end
  end.

Definition pi_id (l : list (group * list req)) := l.

(* does the model, in state s, produce the writes observed for e? *)
Definition step_matches (s : st) (e : ev) : bool :=
  match e_op e with
  | Enable =>
      if enabled s then false   (* harness never enables twice *)
      else flush_ok (S (length (saved s))) (e_out e) (saved s)
  | o => list_eqb (snd (step pi_id s o)) (e_out e)
  end.

Fixpoint remove_nth {A} (n : nat) (l : list A) : list A :=
  match n, l with
  | _, [] => []
  | 0, _ :: l' => l'
  | S n', x :: l' => x :: remove_nth n' l'
  end.

Definition minimal (e : ev) (rest : list ev) : bool :=
  forallb (fun e' => negb (Nat.ltb (e_ret e') (e_call e))) rest.

Fixpoint indexed {A} (i : nat) (l : list A) : list (nat * A) :=
  match l with [] => [] | x :: l' => (i, x) :: indexed (S i) l' end.

Fixpoint dfs (fuel : nat) (s : st) (rest : list ev) (log : list req) : bool :=
  match fuel with
  | 0 => false
  | S f =>
      match rest with
      | [] => match log with [] => true | _ => false end
      | _ =>
          existsb (fun ie =>
                     let e := snd ie in
                     (* vm_compute is call-by-value: [if] keeps the search from exploring dead branches *)
                     if minimal e rest && step_matches s e && is_prefix (e_out e) log
                     then dfs f (fst (step pi_id s (e_op e))) (remove_nth (fst ie) rest)
                              (skipn (length (e_out e)) log)
                     else false)
                  (indexed 0 rest)
      end
  end.

Definition lin_ok (c : case) : bool := dfs (S (length (fst c))) init (fst c) (snd c).

(* ---------------------------------------------------------------- the property on the history *)

Definition is_update (e : ev) := negb (is_enable (e_op e)).
Definition grp (e : ev) : nat := match e_op e with Update g _ => g | Enable => 0 end.
Definition reqs (e : ev) : list req := update_out (e_op e).
Definition before (a b : ev) : bool := Nat.ltb (e_ret a) (e_call b).

Definition the_enable (evs : list ev) : option ev := find (fun e => is_enable (e_op e)) evs.

Fixpoint nodupb (l : list nat) : bool :=
  match l with [] => true | x :: l' => negb (existsb (Nat.eqb x) l') && nodupb l' end.

(* parse the flush into whole submissions: returns the submissions used, or None *)
Fixpoint parse_flush (fuel : nat) (obs : list req) (ups : list ev) : option (list ev) :=
  match fuel with
  | 0 => None
  | S f =>
      match obs with
      | [] => Some []
      | _ =>
          match find (fun u => match reqs u with [] => false | _ => is_prefix (reqs u) obs end) ups with
          | None => None
          | Some u => match parse_flush f (skipn (length (reqs u)) obs) ups with
                      | None => None
                      | Some us => Some (u :: us)
                      end
          end
      end
  end.

Definition oracle (c : case) : bool :=
  let evs := fst c in
  let ups := filter is_update evs in
  nodupb (snd c) &&
  forallb (fun u => match e_out u with [] => true | o => list_eqb o (reqs u) end) ups &&
  match the_enable evs with
  | None => forallb (fun u => match e_out u with [] => true | _ => false end) ups
  | Some en =>
      (* not yet leader: no write *)
      forallb (fun u => implb (before u en) (match e_out u with [] => true | _ => false end)) ups &&
      (* leader: immediate write *)
      forallb (fun u => implb (before en u) (list_eqb (e_out u) (reqs u))) ups &&
      match parse_flush (S (length (e_out en))) (e_out en) ups with
      | None => false
      | Some used =>
          nodupb (map grp used) &&
          (* nothing older than a later submission that was surely made before leadership *)
          forallb (fun u => negb (existsb (fun u' => Nat.eqb (grp u') (grp u) && before u u' && before u' en) ups)
                            && negb (before en u)) used &&
          (* the surely-latest submission of a group is written (or, if empty, nothing of that group) *)
          forallb (fun u =>
                     let same := filter (fun u' => Nat.eqb (grp u') (grp u)) ups in
                     let surely_latest :=
                       before u en &&
                       forallb (fun u' => (Nat.eqb (e_call u') (e_call u)) || before u' u || before en u') same in
                     implb surely_latest
                       (match reqs u with
                        | [] => negb (existsb (fun w => Nat.eqb (grp w) (grp u)) used)
                        | _ => existsb (fun w => Nat.eqb (e_call w) (e_call u)) used
                        end)) ups
      end
  end.

Definition check_case (c : case) : list nat :=
  if oracle c then when (negb (lin_ok c)) code_mismatch else [code_violation].
