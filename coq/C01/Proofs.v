From Coq Require Import List Bool.
From NGF Require Import C01.Model.
Import ListNotations.

Section Proofs.
  Variables St Ev G : Type.
  Variable build : St -> G.
  Variable upd : St -> Ev -> St.
  Variable relevant : G -> St -> Ev -> bool.

  (* the frame condition *)
  Hypothesis frame : forall s e, relevant (build s) s e = false -> build (upd s e) = build s.

  Notation pstate := (pstate St G).
  Notation capture := (capture St Ev G upd relevant).
  Notation process := (process St G build).
  Notation handle_batch := (handle_batch St Ev G build upd relevant).
  Notation run := (run St Ev G build upd relevant).
  Notation store_after := (store_after St Ev upd).

  (* unless something relevant is pending, the latest graph is the graph of the store *)
  Definition Inv (p : pstate) : Prop := dirty St G p = false -> latest St G p = build (store St G p).

  Lemma capture_inv p e : Inv p -> Inv (capture p e).
  Proof.
    unfold Inv, Model.capture; simpl. intros H Hd.
    apply orb_false_iff in Hd. destruct Hd as [Hd Hr].
    specialize (H Hd). rewrite H in Hr. rewrite H. symmetry. apply frame. exact Hr.
  Qed.

  Lemma captures_inv batch p : Inv p -> Inv (fold_left capture batch p).
  Proof. revert p. induction batch as [|e es IH]; intros p H; simpl; [exact H|]. apply IH. apply capture_inv. exact H. Qed.

  Lemma process_clean p : Inv p -> dirty St G (process p) = false /\ latest St G (process p) = build (store St G (process p)).
  Proof.
    unfold Inv, Model.process. intros H. destruct (dirty St G p) eqn:Hd; simpl.
    - split; reflexivity.
    - split; [exact Hd|apply H; reflexivity].
  Qed.

  Lemma capture_store p e : store St G (capture p e) = upd (store St G p) e.
  Proof. reflexivity. Qed.

  Lemma captures_store batch p : store St G (fold_left capture batch p) = fold_left upd batch (store St G p).
  Proof. revert p. induction batch as [|e es IH]; intros p; simpl; [reflexivity|]. rewrite IH. reflexivity. Qed.

  Lemma process_store p : store St G (process p) = store St G p.
  Proof. unfold Model.process. destruct (dirty St G p); reflexivity. Qed.

  (* after every batch: nothing pending, and the latest graph is the graph of everything stored so far *)
  Theorem run_invariant s0 batches :
    let p := run s0 batches in
    dirty St G p = false /\ latest St G p = build (store St G p) /\ store St G p = store_after s0 batches.
  Proof.
    unfold Model.run, Model.store_after.
    assert (Hgen : forall p, (dirty St G p = false /\ latest St G p = build (store St G p)) ->
                   let q := fold_left handle_batch batches p in
                   dirty St G q = false /\ latest St G q = build (store St G q) /\
                   store St G q = fold_left upd (concat batches) (store St G p)).
    { induction batches as [|b bs IH]; intros p [Hd Hl]; simpl.
      - auto.
      - assert (Hinv : Inv (fold_left capture b p)) by (apply captures_inv; intros _; exact Hl).
        destruct (process_clean _ Hinv) as [Hd' Hl'].
        specialize (IH (handle_batch p b) (conj Hd' Hl')). simpl in IH.
        destruct IH as (A & B & C). repeat split; try assumption.
        rewrite C. unfold Model.handle_batch. rewrite process_store, captures_store.
        rewrite fold_left_app. reflexivity. }
    apply Hgen. split; reflexivity.
  Qed.

  (* Convergence: two histories (any batching, any starting listing) that leave the same objects in the
     store leave the same latest graph; in particular a long-lived controller agrees with one freshly
     started on the final cluster state. *)
  Theorem converge s0 batches1 batches2 :
    store_after s0 batches1 = store_after s0 batches2 ->
    latest St G (run s0 batches1) = latest St G (run s0 batches2).
  Proof.
    intros H.
    destruct (run_invariant s0 batches1) as (_ & L1 & S1).
    destruct (run_invariant s0 batches2) as (_ & L2 & S2).
    rewrite L1, L2, S1, S2, H. reflexivity.
  Qed.

  (* Batching is immaterial. *)
  Theorem batching_irrelevant s0 batches :
    latest St G (run s0 batches) = latest St G (run s0 [concat batches]).
  Proof.
    apply converge. unfold Model.store_after. simpl. rewrite app_nil_r. reflexivity.
  Qed.
End Proofs.

(* ---------------------------------------------------------------- non-vacuity: a tiny instance *)
(* store: which of two services exist and whether a route references service 0; the graph records whether the
   referenced service exists; events on service 1 are irrelevant *)
Inductive ev := SvcUp (i : nat) | SvcDown (i : nat) | RouteUp | RouteDown.
Record st := { s0x : bool; s1x : bool; rt : bool }.
Definition build_ex (s : st) : bool * bool := (rt s, rt s && s0x s).
Definition upd_ex (s : st) (e : ev) : st :=
  match e with
  | SvcUp 0 => {| s0x := true; s1x := s1x s; rt := rt s |}
  | SvcUp _ => {| s0x := s0x s; s1x := true; rt := rt s |}
  | SvcDown 0 => {| s0x := false; s1x := s1x s; rt := rt s |}
  | SvcDown _ => {| s0x := s0x s; s1x := false; rt := rt s |}
  | RouteUp => {| s0x := s0x s; s1x := s1x s; rt := true |}
  | RouteDown => {| s0x := s0x s; s1x := s1x s; rt := false |}
  end.
Definition relevant_ex (g : bool * bool) (_ : st) (e : ev) : bool :=
  match e with
  | SvcUp 0 | SvcDown 0 => fst g          (* service 0 is referenced iff the route exists *)
  | SvcUp _ | SvcDown _ => false
  | RouteUp | RouteDown => true
  end.

Lemma frame_ex : forall s e, relevant_ex (build_ex s) s e = false -> build_ex (upd_ex s e) = build_ex s.
Proof.
  intros [a b r] e; destruct e as [[|i]|[|i]| |]; unfold relevant_ex, build_ex; simpl; intros H; try discriminate; try reflexivity;
    subst; reflexivity.
Qed.

Example converge_ex :
  latest _ _ (run st ev (bool * bool) build_ex upd_ex relevant_ex {| s0x := false; s1x := false; rt := false |}
                  [[SvcUp 0; SvcUp 1]; [RouteUp]; [SvcDown 1]])
  = (true, true).
Proof. reflexivity. Qed.
