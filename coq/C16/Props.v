(* C16 — property theorems (on the specification side: k8s/Spec.v is what the C16 check compares the generated servers with). *)
From Coq Require Import List String ZArith Bool.
From NGF Require Import lib.Str k8s.State k8s.Spec C16.SecretProofs.
Import ListNotations.

(* A backend whose BackendTLSPolicy is invalid (missing CA ConfigMap, ...) is never in effect. *)
Theorem C16_invalid_policy_backend_not_served :
  forall cs r b p,
  btp_for cs (match b_ns b with Some n => n | None => rt_ns r end) (b_name b) = Some p ->
  btp_valid cs p = false -> backend_valid cs r b = false.
Proof.
  intros cs r b p Hf Hv. unfold backend_valid. rewrite Hf, Hv. apply andb_false_r.
Qed.

(* A backend that is not in effect contributes no TLS settings. *)
Theorem C16_no_tls_from_invalid_backend :
  forall cs r b, backend_valid cs r b = false -> backend_tls cs r b = None.
Proof. intros cs r b H. unfold backend_tls. rewrite H. reflexivity. Qed.

(* The certificate prescribed for a TLS request belongs to a valid listener of the winning Gateway on the request's port; for an
   HTTPS listener its Secret exists, is a usable key pair, and is in the Gateway's namespace or permitted by a ReferenceGrant. *)
Theorem C16_presented_certificate_is_usable_and_permitted : forall cs q ns name amb,
  expected_secret cs q = Some (ns, name, amb) ->
  exists g l cr,
    winning_gateway cs = Some g /\ In l (g_listeners g) /\ (l_port l =? q_port q)%Z = true /\
    listener_valid cs g l = true /\ l_cert l = Some cr /\
    ns = (match cr_ns cr with Some n => n | None => g_ns g end) /\ name = cr_name cr /\
    (l_proto l = PHTTPS ->
       (seqb ns (g_ns g) || ref_permitted cs ns "Secret" name "Gateway" (g_ns g)) = true /\
       existsb (fun s => seqb (sec_ns s) ns && seqb (sec_name s) name && sec_ok s) (c_secrets cs) = true).
Proof. exact expected_secret_sound. Qed.

(* An HTTPS listener whose Secret is missing, unusable or not permitted is not valid (and so serves no certificate). *)
Theorem C16_unusable_secret_invalidates_listener : forall cs g l,
  l_proto l = PHTTPS -> cert_ok cs g l = false -> listener_valid cs g l = false.
Proof. exact unusable_secret_invalidates_listener. Qed.
