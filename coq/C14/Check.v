(* C14 — oracle: the generated configuration (parsed; top-level blocks as multisets; match keys replaced
   by the match lists they denote) and the (object, type, status, reason) of every condition are a
   function of the cluster state only: the REAL pipeline is run several times on the same state with the
   events delivered in different orders and batchings (Go re-randomises map iteration in every run), and
   all runs must agree.  That the common result is the right one (oldest, then namespace/name wins) is
   what the C02/C07/C16 oracles check against the specification. *)
From Coq Require Import List String ZArith Bool Arith.
From NGF Require Export lib.CaseLib lib.Str k8s.State k8s.Spec ngx.Lexer ngx.Eval C04.Check C17.Check.
Import ListNotations.
Local Open Scope string_scope.
Local Open Scope list_scope.

Record run := Run { r_files : list (string * string); r_matches : matchtable; r_conds : list string }.

Record case := Case { k_cluster : cluster; k_runs : list run }.

Definition runs_agree (a b : run) : list (nat * string) :=
  (if files_equal (r_files a) (r_matches a) (r_files b) (r_matches b) then [] else [(code_violation, "configuration differs between two runs")]) ++
  (if str_list_eqb (r_conds a) (r_conds b) then [] else [(code_violation, "conditions differ between two runs")]).

(* "the losers are told so in status", BackendTLSPolicies on one Service. Stated on the observed conditions, in the
   one situation where it is certain that the competition was in front of the controller: the winner (oldest, then
   namespace/name) targets that Service only and carries an entry of one of our Gateways (so the Service is a backend of
   a Route the controller handles); a loser that targets that Service only must then carry an entry that is not Accepted. *)
Definition btp_entry_prefixes (cs : cluster) (b : btp) : list string :=
  map (fun g => ("BackendTLSPolicy/" ++ bt_ns b ++ "/" ++ bt_name b ++ "|ancestor " ++ g_name g ++ "|")%string) (c_gateways cs).
Definition btp_has_entry (cs : cluster) (conds : list string) (b : btp) : bool :=
  existsb (fun c => existsb (fun p => has_prefix p c) (btp_entry_prefixes cs b)) conds.
Definition btp_told_no (cs : cluster) (conds : list string) (b : btp) : bool :=
  existsb (fun c => existsb (fun p => has_prefix (p ++ "Accepted=False")%string c) (btp_entry_prefixes cs b)) conds.
Definition same_btp (a b : btp) : bool := seqb (bt_ns a) (bt_ns b) && seqb (bt_name a) (bt_name b).
Definition silent_losers (cs : cluster) (conds : list string) : list btp :=
  filter (fun b =>
    match bt_targets b with
    | [svc] =>
        match btp_for cs (bt_ns b) svc with
        | Some w => negb (same_btp w b) && (match bt_targets w with [_] => true | _ => false end) &&
                    btp_has_entry cs conds w && negb (btp_told_no cs conds b)
        | None => false
        end
    | _ => false
    end) (c_btps cs).

Definition complaints (c : case) : list (nat * string) :=
  match k_runs c with
  | [] => []
  | r0 :: rest =>
      let cs := flat_map (runs_agree r0) rest in
      (match cs with
       | [] => []
       | _ => if has_mixed_group (k_cluster c) then [(code_known 33, "runs differ (finding D33/D19: HTTPRoute and GRPCRoute share host and path)")] else cs
       end) ++
      (match silent_losers (k_cluster c) (r_conds r0) with
       | [] => []
       | _ => [(code_known 46, "a BackendTLSPolicy that lost against an older policy on the same Service carries no status entry (finding D46)")]
       end)
  end.

Definition check_case (c : case) : list nat := dedup_nat (map fst (complaints c)).
