"""C02 check configuration."""


def setup(register, COMMON_TB):
    register(
        "C02", coq="C02", coq_extra=["k8s", "ngx"], pkg="./internal/mode/static/", test="TestVerifC02",
        extra=[dict(pkg="./internal/mode/static/state/graph/", test="TestVerifC02Hosts")],
        rule="generated cluster states (gateway classes own/foreign, 1-2 gateways, HTTP/HTTPS listeners with hostnames, allowedRoutes, "
             "certificate refs, HTTPRoutes/GRPCRoutes with matches, filters, weighted backends, services, secrets, grants, namespaces), each "
             "run through the real handler/graph/configuration/generator; 40 (quick) or 100 (thorough) requests per state over the mentioned "
             "hosts/paths/methods/headers/params and near misses; non-trivial = at least 2 routes and a generated http.conf over 2 kB; "
             "distinct = distinct cluster states"
             " Second part (TestVerifC02Hosts, evaluated by k8s/HostCheck.v): the real findAcceptedHostnames on every pair of a pool of 15 hostnames (exact names, "
             "wildcards of several depths, look-alikes) and on random lists: equal to Spec.accepted_hostnames, and on 15 probe hosts some returned name serves the host "
             "exactly when the listener hostname and a route hostname admit it",
        trusted_base=COMMON_TB + [
            "ngx/Lexer.v + ngx/Eval.v: NGINX tokenizer, server_name/location selection, rewrite-phase and split_clients semantics written from the NGINX documentation (no NGINX binary in the sandbox)",
            "Njs part of ngx/Eval.v: transcription of httpmatches.js",
            "k8s/Spec.v: the reading of Gateway API routing semantics used as specification",
            "controller-runtime fake client as API server; file manager and NGINX runtime manager are recording fakes",
        ],
        assumptions=["requests avoid prefixes with a trailing slash and NGF-internal location names",
                     "admission (CRD schema/CEL) is approximated by the generator producing only admissible objects"],
        timeout={"quick": 900, "thorough": 7200},
    )
