(* C07, second part — lemmas about the model of the status-assembly code (Prep.v) and soundness of the oracle
   (PrepCheck.v) for the model, with Examples showing that the hypotheses are satisfiable and the statements not vacuous. *)
From Coq Require Import List String Bool Arith ZArith Lia.
From NGF Require Import lib.CaseLib C07.Prep C07.PrepCheck.
Import ListNotations.
Local Open Scope string_scope.
Local Open Scope list_scope.

(* ================================================================== 1. DeduplicateConditions *)

(* declarative reading: a condition is kept iff no later condition has its type *)
Fixpoint dd (l : list pcond) : list pcond :=
  match l with [] => [] | c :: l' => if has_type (pc_type c) l' then dd l' else c :: dd l' end.

Lemma has_type_cons t c l : has_type t (c :: l) = String.eqb (pc_type c) t || has_type t l.
Proof. reflexivity. Qed.

Lemma dedup_scan_dd : forall r s seen,
  (forall t, seen_type t seen = has_type t s) ->
  dedup_scan r seen (dd s) = dd (rev r ++ s).
Proof.
  induction r as [|c r IH]; intros s seen Hinv; [reflexivity|].
  cbn [dedup_scan rev]. rewrite <- app_assoc. cbn [app].
  destruct (seen_type (pc_type c) seen) eqn:Hs.
  - rewrite <- (IH (c :: s) seen).
    + cbn [dd]. rewrite <- Hinv, Hs. reflexivity.
    + intro t. rewrite has_type_cons, <- Hinv.
      destruct (String.eqb (pc_type c) t) eqn:E; [|reflexivity].
      apply String.eqb_eq in E. subst t. exact Hs.
  - rewrite <- (IH (c :: s) (pc_type c :: seen)).
    + cbn [dd]. rewrite <- Hinv, Hs. reflexivity.
    + intro t. rewrite has_type_cons, <- Hinv. cbn [seen_type].
      rewrite (String.eqb_sym t (pc_type c)).
      destruct (String.eqb (pc_type c) t); reflexivity.
Qed.

(* the scan of the Go code computes the declarative reading *)
Lemma dedup_dd l : dedup l = dd l.
Proof.
  unfold dedup. change (@nil pcond) with (dd []) at 1.
  rewrite (dedup_scan_dd (rev l) [] []); [|intro t; reflexivity].
  rewrite rev_involutive, app_nil_r. reflexivity.
Qed.

Lemma last_of_type_none t l : last_of_type t l = None <-> has_type t l = false.
Proof.
  induction l as [|c l IH]; [split; reflexivity|].
  cbn [last_of_type]. rewrite has_type_cons. destruct (last_of_type t l) as [d|].
  - split; [discriminate|]. intro H. apply orb_false_iff in H. destruct H as [_ H].
    apply IH in H. discriminate.
  - destruct IH as [IH _]. rewrite (IH eq_refl), orb_false_r.
    destruct (String.eqb (pc_type c) t); split; (reflexivity || discriminate).
Qed.

Lemma last_of_type_type t l c : last_of_type t l = Some c -> pc_type c = t.
Proof.
  induction l as [|x l IH]; [discriminate|]. cbn [last_of_type].
  destruct (last_of_type t l) as [d|].
  - intro H. injection H as H. subst d. apply IH. reflexivity.
  - destruct (String.eqb (pc_type x) t) eqn:E; [|discriminate].
    intro H. injection H as H. subst x. apply String.eqb_eq. exact E.
Qed.

(* [last_of_type] is what its name says *)
Lemma last_of_type_spec t l c :
  last_of_type t l = Some c <-> exists a b, l = a ++ c :: b /\ pc_type c = t /\ has_type t b = false.
Proof.
  split.
  - revert c. induction l as [|x l IH]; [discriminate|]. intros c. cbn [last_of_type].
    destruct (last_of_type t l) as [d|] eqn:El.
    + intro H. injection H as H. subst d. destruct (IH c eq_refl) as [a [b [H1 [H2 H3]]]].
      exists (x :: a), b. subst l. repeat split; assumption.
    + destruct (String.eqb (pc_type x) t) eqn:E; [|discriminate].
      intro H. injection H as H. subst x. exists [], l. repeat split.
      * apply String.eqb_eq. exact E.
      * apply last_of_type_none. exact El.
  - intros [a [b [H1 [H2 H3]]]]. subst l. induction a as [|x a IH]; cbn [app last_of_type].
    + apply last_of_type_none in H3. rewrite H3. subst t. rewrite String.eqb_refl. reflexivity.
    + rewrite IH. reflexivity.
Qed.

Lemma last_of_type_app t a b :
  last_of_type t (a ++ b) = match last_of_type t b with Some d => Some d | None => last_of_type t a end.
Proof.
  induction a as [|x a IH]; cbn [app last_of_type].
  - destruct (last_of_type t b); reflexivity.
  - rewrite IH. destruct (last_of_type t b); reflexivity.
Qed.

Lemma last_of_type_snoc t a x :
  last_of_type t (a ++ [x]) = if String.eqb (pc_type x) t then Some x else last_of_type t a.
Proof. rewrite last_of_type_app. cbn [last_of_type]. destruct (String.eqb (pc_type x) t); reflexivity. Qed.

Lemma of_type_nil_iff t e : of_type t e = [] <-> has_type t e = false.
Proof.
  induction e as [|c e IH]; [split; reflexivity|].
  unfold of_type in *. cbn [filter]. rewrite has_type_cons.
  destruct (String.eqb (pc_type c) t); cbn [orb]; [split; discriminate|exact IH].
Qed.

(* LAST WINS: of every type, the de-duplicated list carries exactly the last condition of the input *)
Lemma of_type_dd t l : of_type t (dd l) = opt_list (last_of_type t l).
Proof.
  induction l as [|c l IH]; [reflexivity|].
  cbn [dd last_of_type]. destruct (has_type (pc_type c) l) eqn:Hh.
  - rewrite IH. destruct (last_of_type t l) as [d|] eqn:El; [reflexivity|].
    destruct (String.eqb (pc_type c) t) eqn:E; [|reflexivity].
    apply String.eqb_eq in E. subst t. apply last_of_type_none in El. rewrite El in Hh. discriminate.
  - unfold of_type in *. cbn [filter]. destruct (String.eqb (pc_type c) t) eqn:E.
    + apply String.eqb_eq in E. subst t. rewrite IH.
      apply last_of_type_none in Hh. rewrite Hh. reflexivity.
    + rewrite IH. destruct (last_of_type t l); reflexivity.
Qed.

Lemma of_type_dedup t l : of_type t (dedup l) = opt_list (last_of_type t l).
Proof. rewrite dedup_dd. apply of_type_dd. Qed.

Lemma has_type_in t e : has_type t e = true <-> In t (types_of e).
Proof.
  unfold has_type, types_of. rewrite existsb_exists, in_map_iff. split.
  - intros [c [Hin E]]. exists c. split; [apply String.eqb_eq; exact E|exact Hin].
  - intros [c [E Hin]]. exists c. split; [exact Hin|apply String.eqb_eq; exact E].
Qed.

Lemma has_type_dd t l : has_type t (dd l) = has_type t l.
Proof.
  induction l as [|c l IH]; [reflexivity|]. cbn [dd].
  destruct (has_type (pc_type c) l) eqn:Hh.
  - rewrite IH, has_type_cons. destruct (String.eqb (pc_type c) t) eqn:E; [|reflexivity].
    apply String.eqb_eq in E. subst t. rewrite Hh. reflexivity.
  - rewrite !has_type_cons, IH. reflexivity.
Qed.

(* EVERY TYPE SURVIVES, and no type is invented *)
Lemma dedup_types_survive l t : In t (types_of l) <-> In t (types_of (dedup l)).
Proof. rewrite dedup_dd, <- !has_type_in, has_type_dd. reflexivity. Qed.

Lemma distinct_types_dd l : distinct_types (dd l) = true.
Proof.
  induction l as [|c l IH]; [reflexivity|]. cbn [dd].
  destruct (has_type (pc_type c) l) eqn:Hh; [exact IH|].
  cbn [distinct_types]. rewrite has_type_dd, Hh, IH. reflexivity.
Qed.

Lemma distinct_types_dedup l : distinct_types (dedup l) = true.
Proof. rewrite dedup_dd. apply distinct_types_dd. Qed.

Lemma distinct_types_nodup e : distinct_types e = true <-> NoDup (types_of e).
Proof.
  induction e as [|c e IH]; [split; [constructor|reflexivity]|].
  cbn [distinct_types types_of map]. rewrite andb_true_iff, negb_true_iff. split.
  - intros [H1 H2]. constructor; [|apply IH; exact H2].
    intro Hin. apply has_type_in in Hin. rewrite Hin in H1. discriminate.
  - intro H. inversion H as [|x xs Hn Hd]; subst. split; [|apply IH; exact Hd].
    destruct (has_type (pc_type c) e) eqn:Hh; [|reflexivity].
    exfalso. apply Hn. apply has_type_in. exact Hh.
Qed.

(* PAIRWISE DISTINCT TYPES *)
Lemma dedup_nodup l : NoDup (types_of (dedup l)).
Proof. apply distinct_types_nodup, distinct_types_dedup. Qed.

(* nothing is invented, and the order of the survivors is the order of the input *)
Inductive subseq {A} : list A -> list A -> Prop :=
| sub_nil : subseq [] []
| sub_skip x a b : subseq a b -> subseq a (x :: b)
| sub_keep x a b : subseq a b -> subseq (x :: a) (x :: b).

Lemma dedup_subseq l : subseq (dedup l) l.
Proof.
  rewrite dedup_dd. induction l as [|c l IH]; [constructor|]. cbn [dd].
  destruct (has_type (pc_type c) l); constructor; exact IH.
Qed.

Lemma dedup_summary l :
  (forall t, of_type t (dedup l) = opt_list (last_of_type t l)) /\
  NoDup (types_of (dedup l)) /\
  (forall t, In t (types_of l) <-> In t (types_of (dedup l))) /\
  subseq (dedup l) l.
Proof.
  split; [intro t; apply of_type_dedup|]. split; [apply dedup_nodup|].
  split; [intro t; apply dedup_types_survive|apply dedup_subseq].
Qed.

Example dedup_example :
  dedup [PC "Accepted" "True" "Accepted"; PC "ResolvedRefs" "True" "ResolvedRefs"; PC "Accepted" "False" "InvalidListener";
         PC "PartiallyInvalid" "True" "UnsupportedValue"; PC "Accepted" "False" "GatewayNotProgrammed"]
  = [PC "ResolvedRefs" "True" "ResolvedRefs"; PC "PartiallyInvalid" "True" "UnsupportedValue";
     PC "Accepted" "False" "GatewayNotProgrammed"].
Proof. reflexivity. Qed.

(* ================================================================== 2. small facts about the oracle vocabulary *)

Lemma pcond_eqb_refl c : pcond_eqb c c = true.
Proof. unfold pcond_eqb. rewrite !String.eqb_refl. reflexivity. Qed.

Lemma pcond_eqb_eq a b : pcond_eqb a b = true -> a = b.
Proof.
  destruct a as [a1 a2 a3], b as [b1 b2 b3]. unfold pcond_eqb. cbn [pc_type pc_status pc_reason].
  intro H. apply andb_true_iff in H. destruct H as [H H3]. apply andb_true_iff in H. destruct H as [H1 H2].
  apply String.eqb_eq in H1, H2, H3. subst. reflexivity.
Qed.

Lemma pconds_eqb_refl l : pconds_eqb l l = true.
Proof. induction l as [|c l IH]; [reflexivity|]. cbn [pconds_eqb]. rewrite pcond_eqb_refl, IH. reflexivity. Qed.

Lemma carries_exactly_of e t o : of_type t e = opt_list o -> carries_exactly e t o = true.
Proof. intro H. unfold carries_exactly. rewrite H. apply pconds_eqb_refl. Qed.

Lemma sole_of e c : of_type (pc_type c) e = [c] -> sole e c = true.
Proof. intro H. unfold sole. rewrite H. apply pcond_eqb_refl. Qed.

Lemma sole_inv e c : sole e c = true -> of_type (pc_type c) e = [c].
Proof.
  unfold sole. destruct (of_type (pc_type c) e) as [|x [|y r]]; try discriminate.
  intro H. apply pcond_eqb_eq in H. subst x. reflexivity.
Qed.

(* when the only condition of type t has another status, nothing reports (t, s) *)
Lemma reports_false e t s x : of_type t e = [x] -> pc_status x <> s -> reports e t s = false.
Proof.
  intros Hof Hs. unfold reports. destruct (existsb _ e) eqn:Ex; [|reflexivity]. exfalso.
  apply existsb_exists in Ex. destruct Ex as [c [Hin Hc]]. apply andb_true_iff in Hc. destruct Hc as [Ht Hst].
  assert (Hc : In c (of_type t e)) by (unfold of_type; apply filter_In; split; assumption).
  rewrite Hof in Hc. destruct Hc as [Hc|[]]. subst x. apply Hs. apply String.eqb_eq. exact Hst.
Qed.

Lemma forallb2_map {A B} (f : A -> B -> bool) (g : A -> B) l :
  (forall x, In x l -> f x (g x) = true) -> forallb2 f l (map g l) = true.
Proof.
  induction l as [|x l IH]; intro H; [reflexivity|]. cbn [map forallb2].
  rewrite (H x (or_introl eq_refl)), IH; [reflexivity|]. intros y Hy. apply H. right. exact Hy.
Qed.

Lemma forallb2_refl {A} (f : A -> A -> bool) l : (forall x, f x x = true) -> forallb2 f l l = true.
Proof. intro H. induction l as [|x l IH]; [reflexivity|]. cbn [forallb2]. rewrite H, IH. reflexivity. Qed.

(* ================================================================== 3. prepareRouteStatus *)

(* (g) precedence, for EVERY condition type: failed reload > failed attachment > last Route condition > default *)
Lemma route_entry_spec conds rf a t :
  of_type t (route_parent_conds conds rf a) = opt_list (route_expected conds rf a t).
Proof.
  unfold route_parent_conds, route_expected, failed_condition. rewrite of_type_dedup. f_equal.
  assert (Hbase : last_of_type t (default_route_conds ++ conds) =
                  match last_of_type t conds with
                  | Some d => Some d
                  | None => last_of_type t [PC "Accepted" "True" "Accepted"; PC "ResolvedRefs" "True" "ResolvedRefs"]
                  end) by (rewrite last_of_type_app; reflexivity).
  assert (Hsym : String.eqb (pc_type route_gateway_not_programmed) t = String.eqb t "Accepted")
    by (cbn [pc_type route_gateway_not_programmed]; apply String.eqb_sym).
  destruct rf; cbn [andb];
    [rewrite last_of_type_snoc, Hsym; destruct (String.eqb t "Accepted"); [reflexivity|]|];
    (destruct a as [[att fc]|]; cbn [at_attached at_failed];
     [destruct att; [exact Hbase|rewrite last_of_type_snoc, Hbase; reflexivity]|exact Hbase]).
Qed.

Lemma route_entry_distinct conds rf a : distinct_types (route_parent_conds conds rf a) = true.
Proof. unfold route_parent_conds. apply distinct_types_dedup. Qed.

(* (a) *)
Lemma route_entry_reload_failed conds a :
  of_type "Accepted" (route_parent_conds conds true a) = [route_gateway_not_programmed] /\
  reports (route_parent_conds conds true a) "Accepted" "True" = false.
Proof.
  assert (H : of_type "Accepted" (route_parent_conds conds true a) = [route_gateway_not_programmed])
    by (rewrite route_entry_spec; reflexivity).
  split; [exact H|]. apply (reports_false _ _ _ _ H). discriminate.
Qed.

(* (b) *)
Lemma route_entry_failed_attachment conds rf fc :
  rf = false \/ pc_type fc <> "Accepted" ->
  of_type (pc_type fc) (route_parent_conds conds rf (Some (Att false fc))) = [fc].
Proof.
  intro H. rewrite route_entry_spec. unfold route_expected, failed_condition. cbn [at_attached at_failed].
  rewrite String.eqb_refl.
  destruct rf; cbn [andb]; [|reflexivity].
  destruct H as [H|H]; [discriminate|].
  destruct (String.eqb (pc_type fc) "Accepted") eqn:E; [|reflexivity].
  apply String.eqb_eq in E. contradiction.
Qed.

(* attached, or no attachment recorded, and the reload succeeded: the Route's own last condition of the type, else the
   default — in particular Accepted=True only if no Route-level condition says otherwise *)
Lemma route_entry_plain conds a t :
  failed_condition a = None ->
  of_type t (route_parent_conds conds false a) =
  opt_list (match last_of_type t conds with Some d => Some d | None => last_of_type t default_route_conds end).
Proof.
  intro H. rewrite route_entry_spec. unfold route_expected. rewrite H. reflexivity.
Qed.

Lemma route_status_entries conds parents rf i :
  nth_error (prepare_route_status conds parents rf) i = option_map (route_parent_conds conds rf) (nth_error parents i).
Proof. unfold prepare_route_status. apply nth_error_map. Qed.

Lemma route_entry_precedence conds parents rf i t :
  nth_error (prepare_route_status conds parents rf) i = option_map (route_parent_conds conds rf) (nth_error parents i) /\
  forall a, of_type t (route_parent_conds conds rf a) = opt_list (route_expected conds rf a t).
Proof. split; [apply route_status_entries|intro a; apply route_entry_spec]. Qed.

Lemma route_status_in conds parents rf e :
  In e (prepare_route_status conds parents rf) -> exists a, In a parents /\ e = route_parent_conds conds rf a.
Proof.
  unfold prepare_route_status. rewrite in_map_iff. intros [a [H1 H2]]. exists a. split; [exact H2|symmetry; exact H1].
Qed.

Lemma route_reload_failed_all conds parents e :
  In e (prepare_route_status conds parents true) ->
  of_type "Accepted" e = [route_gateway_not_programmed] /\ reports e "Accepted" "True" = false.
Proof. intro H. apply route_status_in in H. destruct H as [a [_ He]]. subst e. apply route_entry_reload_failed. Qed.

Lemma route_failed_attachment_all conds parents rf i fc :
  nth_error parents i = Some (Some (Att false fc)) ->
  rf = false \/ pc_type fc <> "Accepted" ->
  exists e, nth_error (prepare_route_status conds parents rf) i = Some e /\ of_type (pc_type fc) e = [fc].
Proof.
  intros Hn Hc. exists (route_parent_conds conds rf (Some (Att false fc))). split.
  - rewrite route_status_entries, Hn. reflexivity.
  - apply route_entry_failed_attachment. exact Hc.
Qed.

Lemma route_status_shape conds parents rf :
  List.length (prepare_route_status conds parents rf) = List.length parents /\
  forall e, In e (prepare_route_status conds parents rf) -> NoDup (types_of e).
Proof.
  split; [apply map_length|]. intros e H. apply route_status_in in H. destruct H as [a [_ He]]. subst e.
  apply distinct_types_nodup, route_entry_distinct.
Qed.

Lemma forallb_types (P : string -> bool) l : (forall t, P t = true) -> forallb P l = true.
Proof. intro H. apply forallb_forall. intros t _. apply H. Qed.

Lemma oracle_route_entry_sound conds rf a : oracle_route_entry conds rf a (route_parent_conds conds rf a) = true.
Proof.
  unfold oracle_route_entry. rewrite route_entry_distinct. cbn [andb].
  assert (Ha : (if rf then sole (route_parent_conds conds rf a) (PC "Accepted" "False" "GatewayNotProgrammed") &&
                           negb (reports (route_parent_conds conds rf a) "Accepted" "True") else true) = true).
  { destruct rf; [|reflexivity]. destruct (route_entry_reload_failed conds a) as [H1 H2].
    pose proof (sole_of _ route_gateway_not_programmed H1) as H3. unfold route_gateway_not_programmed in H3.
    rewrite H2, H3. reflexivity. }
  rewrite Ha. cbn [andb].
  assert (Hb : match failed_condition a with
               | Some fc => if rf && String.eqb (pc_type fc) "Accepted" then true else sole (route_parent_conds conds rf a) fc
               | None => true end = true).
  { destruct a as [[att fc]|]; [|reflexivity]. unfold failed_condition. cbn [at_attached at_failed].
    destruct att; [reflexivity|].
    destruct (rf && String.eqb (pc_type fc) "Accepted") eqn:E; [reflexivity|].
    apply sole_of, route_entry_failed_attachment.
    destruct rf; [right|left; reflexivity]. cbn [andb] in E. intro Heq. rewrite Heq in E. discriminate. }
  rewrite Hb. cbn [andb].
  apply forallb_types. intro t. apply carries_exactly_of, route_entry_spec.
Qed.

Lemma oracle_route_sound conds parents rf : oracle_route conds parents rf (prepare_route_status conds parents rf) = true.
Proof. unfold oracle_route, prepare_route_status. apply forallb2_map. intros a _. apply oracle_route_entry_sound. Qed.

(* hypotheses satisfiable, statements not vacuous: a Route that is itself Accepted=True (twice) and partially invalid, with
   one parentRef attached, one that failed with InvalidListener and one without attachment — after a failed reload *)
Example route_example_reload_failed :
  prepare_route_status
    [PC "Accepted" "True" "Accepted"; PC "PartiallyInvalid" "True" "UnsupportedValue"; PC "Accepted" "True" "Accepted"]
    [Some (Att true (PC "" "" "")); Some (Att false (PC "Accepted" "False" "InvalidListener")); None] true
  = [ [PC "ResolvedRefs" "True" "ResolvedRefs"; PC "PartiallyInvalid" "True" "UnsupportedValue"; PC "Accepted" "False" "GatewayNotProgrammed"];
      [PC "ResolvedRefs" "True" "ResolvedRefs"; PC "PartiallyInvalid" "True" "UnsupportedValue"; PC "Accepted" "False" "GatewayNotProgrammed"];
      [PC "ResolvedRefs" "True" "ResolvedRefs"; PC "PartiallyInvalid" "True" "UnsupportedValue"; PC "Accepted" "False" "GatewayNotProgrammed"] ].
Proof. reflexivity. Qed.

(* the same Route after a successful reload: only the failed parentRef is not accepted; a failed condition of another type
   (ResolvedRefs) satisfies the second disjunct of the hypothesis of (b) also after a failed reload *)
Example route_example_failed_attachment :
  nth_error [Some (Att true (PC "" "" "")); Some (Att false (PC "Accepted" "False" "InvalidListener")); None] 1
    = Some (Some (Att false (PC "Accepted" "False" "InvalidListener"))) /\
  prepare_route_status [PC "Accepted" "True" "Accepted"]
    [Some (Att true (PC "" "" "")); Some (Att false (PC "Accepted" "False" "InvalidListener")); None] false
  = [ [PC "ResolvedRefs" "True" "ResolvedRefs"; PC "Accepted" "True" "Accepted"];
      [PC "ResolvedRefs" "True" "ResolvedRefs"; PC "Accepted" "False" "InvalidListener"];
      [PC "ResolvedRefs" "True" "ResolvedRefs"; PC "Accepted" "True" "Accepted"] ] /\
  (pc_type (PC "ResolvedRefs" "False" "RefNotPermitted") <> "Accepted" /\
   route_parent_conds [] true (Some (Att false (PC "ResolvedRefs" "False" "RefNotPermitted")))
   = [PC "ResolvedRefs" "False" "RefNotPermitted"; PC "Accepted" "False" "GatewayNotProgrammed"]).
Proof. repeat split; try reflexivity. discriminate. Qed.

(* ================================================================== 4. prepareGatewayRequest / PrepareGatewayRequests *)

Lemma valid_listener_count_filter ls : valid_listener_count ls = List.length (filter pl_valid ls).
Proof.
  induction ls as [|l ls IH]; [reflexivity|]. cbn [valid_listener_count filter].
  destruct (pl_valid l); cbn [List.length]; rewrite IH; reflexivity.
Qed.

Lemma listener_spec rf l t :
  of_type t (lo_conds (listener_status rf l)) = opt_list (listener_expected l rf t).
Proof.
  unfold listener_status, listener_expected. cbn [lo_conds]. rewrite of_type_dedup. f_equal.
  assert (Hsym : String.eqb (pc_type listener_not_programmed_invalid) t = String.eqb t "Programmed")
    by (cbn [pc_type listener_not_programmed_invalid]; apply String.eqb_sym).
  destruct rf; cbn [andb].
  - rewrite last_of_type_snoc, Hsym. destruct (String.eqb t "Programmed"); [reflexivity|].
    destruct (pl_valid l); reflexivity.
  - destruct (pl_valid l); reflexivity.
Qed.

Lemma listener_distinct rf l : distinct_types (lo_conds (listener_status rf l)) = true.
Proof. unfold listener_status. cbn [lo_conds]. apply distinct_types_dedup. Qed.

(* (e) *)
Lemma listener_name_attached rf l :
  lo_name (listener_status rf l) = pl_name l /\
  lo_attached (listener_status rf l) = Z.of_nat (pl_routes l + pl_l4routes l).
Proof. unfold listener_status. cbn [lo_name lo_attached]. split; [reflexivity|]. rewrite Nat2Z.inj_add. reflexivity. Qed.

(* (a) for listeners *)
Lemma listener_reload_failed l :
  of_type "Programmed" (lo_conds (listener_status true l)) = [listener_not_programmed_invalid] /\
  reports (lo_conds (listener_status true l)) "Programmed" "True" = false.
Proof.
  assert (H : of_type "Programmed" (lo_conds (listener_status true l)) = [listener_not_programmed_invalid])
    by (rewrite listener_spec; reflexivity).
  split; [exact H|]. apply (reports_false _ _ _ _ H). discriminate.
Qed.

(* listener conditions reflect listener validity *)
Lemma listener_valid_ok l :
  pl_valid l = true -> lo_conds (listener_status false l) = default_listener_conds.
Proof. intro H. unfold listener_status. rewrite H. reflexivity. Qed.

Lemma listener_invalid_own rf l t :
  pl_valid l = false -> rf = false \/ t <> "Programmed" ->
  of_type t (lo_conds (listener_status rf l)) = opt_list (last_of_type t (pl_conds l)).
Proof.
  intros Hv Hc. rewrite listener_spec. unfold listener_expected. rewrite Hv.
  destruct rf; cbn [andb]; [|reflexivity].
  destruct Hc as [Hc|Hc]; [discriminate|].
  destruct (String.eqb t "Programmed") eqn:E; [|reflexivity]. apply String.eqb_eq in E. contradiction.
Qed.

Lemma oracle_listener_sound rf l : oracle_listener rf l (listener_status rf l) = true.
Proof.
  unfold oracle_listener. destruct (listener_name_attached rf l) as [Hn Ha].
  rewrite Hn, Ha, String.eqb_refl, Z.eqb_refl, listener_distinct. cbn [andb].
  assert (Hr : (if rf then sole (lo_conds (listener_status rf l)) not_programmed &&
                           negb (reports (lo_conds (listener_status rf l)) "Programmed" "True") else true) = true).
  { destruct rf; [|reflexivity]. destruct (listener_reload_failed l) as [H1 H2].
    pose proof (sole_of _ listener_not_programmed_invalid H1) as H3.
    change listener_not_programmed_invalid with not_programmed in H3.
    rewrite H2, H3. reflexivity. }
  rewrite Hr. cbn [andb].
  apply forallb_types. intro t. apply carries_exactly_of, listener_spec.
Qed.

(* the Gateway's own conditions: one of six concrete lists *)
Lemma gateway_conds_cases ls rf :
  let n := List.length (filter pl_valid ls) in
  gateway_conds ls rf =
  if Nat.eqb n 0
  then [PC "Accepted" "False" "ListenersNotValid"; PC "Programmed" "False" "Invalid"]
  else if Nat.ltb n (List.length ls)
       then (if rf then [PC "Accepted" "True" "ListenersNotValid"; PC "Programmed" "False" "Invalid"]
             else [PC "Programmed" "True" "Programmed"; PC "Accepted" "True" "ListenersNotValid"])
       else (if rf then [PC "Accepted" "True" "Accepted"; PC "Programmed" "False" "Invalid"]
             else [PC "Accepted" "True" "Accepted"; PC "Programmed" "True" "Programmed"]).
Proof.
  cbv zeta. unfold gateway_conds. rewrite valid_listener_count_filter.
  destruct (Nat.eqb (List.length (filter pl_valid ls)) 0);
    [destruct rf; reflexivity|].
  destruct (Nat.ltb (List.length (filter pl_valid ls)) (List.length ls)); destruct rf; reflexivity.
Qed.

Lemma oracle_valid_gateway_conds_sound ls rf : oracle_valid_gateway_conds ls rf (gateway_conds ls rf) = true.
Proof.
  unfold oracle_valid_gateway_conds. rewrite gateway_conds_cases. cbv zeta.
  destruct (Nat.eqb (List.length (filter pl_valid ls)) 0);
    [destruct rf; reflexivity|].
  destruct (Nat.ltb (List.length (filter pl_valid ls)) (List.length ls)); destruct rf; reflexivity.
Qed.

(* (d) *)
Lemma gateway_accepted_reflects_listeners g rf :
  pg_valid g = true ->
  let n := List.length (filter pl_valid (pg_listeners g)) in
  let e := go_conds (prepare_gateway g rf) in
  (n = 0 -> of_type "Accepted" e = [PC "Accepted" "False" "ListenersNotValid"] /\
            reports e "Accepted" "True" = false /\
            of_type "Programmed" e = [gateway_not_programmed_invalid]) /\
  (0 < n -> n < List.length (pg_listeners g) -> of_type "Accepted" e = [gateway_accepted_listeners_not_valid]) /\
  (0 < n -> n = List.length (pg_listeners g) -> of_type "Accepted" e = [gateway_accepted]) /\
  (0 < n -> rf = false -> of_type "Programmed" e = [gateway_programmed]) /\
  (forall c, In c e -> pc_type c = "Accepted" \/ pc_type c = "Programmed") /\
  NoDup (types_of e).
Proof.
  intro Hv. cbv zeta. unfold prepare_gateway. rewrite Hv. cbn [negb go_conds].
  rewrite gateway_conds_cases. cbv zeta.
  set (n := List.length (filter pl_valid (pg_listeners g))).
  set (len := List.length (pg_listeners g)).
  destruct (Nat.eqb n 0) eqn:E0.
  - apply Nat.eqb_eq in E0. repeat split; try (intros; lia); try reflexivity.
    + intros c [H|[H|[]]]; subst c; [left|right]; reflexivity.
    + apply distinct_types_nodup. reflexivity.
  - apply Nat.eqb_neq in E0. destruct (Nat.ltb n len) eqn:E1.
    + apply Nat.ltb_lt in E1. destruct rf; repeat split; try (intros; lia); try reflexivity; try discriminate.
      * intros c [H|[H|[]]]; subst c; [left|right]; reflexivity.
      * apply distinct_types_nodup. reflexivity.
      * intros c [H|[H|[]]]; subst c; [right|left]; reflexivity.
      * apply distinct_types_nodup. reflexivity.
    + apply Nat.ltb_ge in E1. destruct rf; repeat split; try (intros; lia); try reflexivity; try discriminate.
      * intros c [H|[H|[]]]; subst c; [left|right]; reflexivity.
      * apply distinct_types_nodup. reflexivity.
      * intros c [H|[H|[]]]; subst c; [left|right]; reflexivity.
      * apply distinct_types_nodup. reflexivity.
Qed.

(* (a) for Gateways *)
Lemma gateway_reload_failed g :
  pg_valid g = true ->
  of_type "Programmed" (go_conds (prepare_gateway g true)) = [gateway_not_programmed_invalid] /\
  reports (go_conds (prepare_gateway g true)) "Programmed" "True" = false /\
  List.length (go_listeners (prepare_gateway g true)) = List.length (pg_listeners g) /\
  forall o, In o (go_listeners (prepare_gateway g true)) ->
            of_type "Programmed" (lo_conds o) = [listener_not_programmed_invalid] /\
            reports (lo_conds o) "Programmed" "True" = false.
Proof.
  intro Hv. unfold prepare_gateway. rewrite Hv. cbn [negb go_conds go_listeners].
  split; [|split; [|split]].
  - rewrite gateway_conds_cases. cbv zeta.
    destruct (Nat.eqb _ 0); [reflexivity|]. destruct (Nat.ltb _ _); reflexivity.
  - rewrite gateway_conds_cases. cbv zeta.
    destruct (Nat.eqb _ 0); [reflexivity|]. destruct (Nat.ltb _ _); reflexivity.
  - apply map_length.
  - intros o Ho. apply in_map_iff in Ho. destruct Ho as [l [Hl _]]. subst o. apply listener_reload_failed.
Qed.

(* (e) *)
Lemma gateway_listener_statuses g rf :
  pg_valid g = true ->
  map (fun o => (lo_name o, lo_attached o)) (go_listeners (prepare_gateway g rf)) =
  map (fun l => (pl_name l, Z.of_nat (pl_routes l + pl_l4routes l))) (pg_listeners g) /\
  forall o, In o (go_listeners (prepare_gateway g rf)) -> NoDup (types_of (lo_conds o)).
Proof.
  intro Hv. unfold prepare_gateway. rewrite Hv. cbn [negb go_listeners]. split.
  - rewrite map_map. apply map_ext. intro l. destruct (listener_name_attached rf l) as [H1 H2]. rewrite H1, H2. reflexivity.
  - intros o Ho. apply in_map_iff in Ho. destruct Ho as [l [Hl _]]. subst o.
    apply distinct_types_nodup, listener_distinct.
Qed.

(* listeners: validity decides between the defaults and the listener's own conditions *)
Lemma gateway_listener_conditions g rf i l :
  pg_valid g = true -> nth_error (pg_listeners g) i = Some l ->
  exists o, nth_error (go_listeners (prepare_gateway g rf)) i = Some o /\
            (pl_valid l = true -> rf = false -> lo_conds o = default_listener_conds) /\
            (forall t, pl_valid l = false -> rf = false \/ t <> "Programmed" ->
                       of_type t (lo_conds o) = opt_list (last_of_type t (pl_conds l))).
Proof.
  intros Hv Hn. exists (listener_status rf l). unfold prepare_gateway. rewrite Hv. cbn [negb go_listeners].
  split; [rewrite nth_error_map, Hn; reflexivity|]. split.
  - intros H1 H2. subst rf. apply listener_valid_ok. exact H1.
  - intros t H1 H2. apply listener_invalid_own; assumption.
Qed.

(* (h) *)
Lemma gateway_invalid_own g rf :
  pg_valid g = false ->
  go_listeners (prepare_gateway g rf) = [] /\
  (forall t, of_type t (go_conds (prepare_gateway g rf)) = opt_list (last_of_type t (pg_conds g))) /\
  NoDup (types_of (go_conds (prepare_gateway g rf))).
Proof.
  intro Hv. unfold prepare_gateway. rewrite Hv. cbn [negb go_conds go_listeners].
  split; [reflexivity|]. split; [intro t; apply of_type_dedup|apply dedup_nodup].
Qed.

Lemma oracle_gateway_sound g rf : oracle_gateway g rf (prepare_gateway g rf) = true.
Proof.
  unfold oracle_gateway. destruct (pg_valid g) eqn:Hv.
  - unfold prepare_gateway. rewrite Hv. cbn [negb go_conds go_listeners].
    rewrite oracle_valid_gateway_conds_sound. cbn [andb].
    apply forallb2_map. intros l _. apply oracle_listener_sound.
  - destruct (gateway_invalid_own g rf Hv) as [H1 [H2 H3]].
    rewrite H1. apply distinct_types_nodup in H3. rewrite H3. cbn [andb].
    apply forallb_types. intro t. apply carries_exactly_of, H2.
Qed.

(* (f) *)
Lemma ignored_gateways g n rf :
  List.length (snd (prepare_gateways g n rf)) = n /\
  forall o, In o (snd (prepare_gateways g n rf)) ->
    go_conds o = [PC "Accepted" "False" "GatewayConflict"; PC "Programmed" "False" "GatewayConflict"] /\
    go_listeners o = [].
Proof.
  unfold prepare_gateways. cbn [snd]. split; [apply repeat_length|].
  intros o Ho. apply repeat_spec in Ho. subst o. split; reflexivity.
Qed.

Lemma prepare_gateways_winner g n rf :
  fst (prepare_gateways g n rf) = option_map (fun g' => prepare_gateway g' rf) g.
Proof. destruct g; reflexivity. Qed.

Lemma oracle_gateways_sound g n rf : oracle_gateways g n rf (prepare_gateways g n rf) = true.
Proof.
  unfold oracle_gateways, prepare_gateways. cbn [fst snd].
  rewrite repeat_length, Nat.eqb_refl.
  assert (Hi : forallb oracle_ignored (repeat ignored_gateway_status n) = true).
  { apply forallb_forall. intros o Ho. apply repeat_spec in Ho. subst o. reflexivity. }
  rewrite Hi. destruct g as [g'|]; [rewrite oracle_gateway_sound|]; reflexivity.
Qed.

(* ================================================================== 5. the model passes its own check *)

Lemma lst_out_eqb_refl o : lst_out_eqb o o = true.
Proof. unfold lst_out_eqb. rewrite String.eqb_refl, Z.eqb_refl, pconds_eqb_refl. reflexivity. Qed.

Lemma gw_out_eqb_refl o : gw_out_eqb o o = true.
Proof. unfold gw_out_eqb. rewrite pconds_eqb_refl. apply forallb2_refl, lst_out_eqb_refl. Qed.

Lemma check_case_model :
  (forall conds parents rf, check_case (RouteCase conds parents rf (prepare_route_status conds parents rf)) = []) /\
  (forall g n rf, check_case (GatewaysCase g n rf (fst (prepare_gateways g n rf)) (snd (prepare_gateways g n rf))) = []) /\
  check_case (CtorCase ctor_table) = [].
Proof.
  split; [|split].
  - intros conds parents rf. cbn [check_case]. rewrite oracle_route_sound.
    unfold entries_eqb. rewrite (forallb2_refl pconds_eqb _ pconds_eqb_refl). reflexivity.
  - intros g n rf. cbn [check_case]. rewrite <- surjective_pairing, oracle_gateways_sound.
    unfold gateways_eqb. rewrite (forallb2_refl gw_out_eqb _ gw_out_eqb_refl).
    destruct (fst (prepare_gateways g n rf)); [rewrite gw_out_eqb_refl|]; reflexivity.
  - reflexivity.
Qed.

(* the oracle is not trivially true: it rejects the outputs the five anchored mutations would produce *)
Example oracle_rejects_reload_condition_overridden :       (* a Route-level Accepted=True survives a failed reload *)
  oracle_route [PC "Accepted" "True" "Accepted"] [None] true
               [[PC "ResolvedRefs" "True" "ResolvedRefs"; PC "Accepted" "True" "Accepted"]] = false.
Proof. reflexivity. Qed.
Example oracle_rejects_failed_attachment_dropped :
  oracle_route [] [Some (Att false (PC "Accepted" "False" "NotAllowedByListeners"))] false
               [[PC "Accepted" "True" "Accepted"; PC "ResolvedRefs" "True" "ResolvedRefs"]] = false.
Proof. reflexivity. Qed.
Example oracle_rejects_partially_valid_gateway_not_accepted :
  oracle_gateway (PG true [] [PL "a" true [] 0 0; PL "b" false [PC "Accepted" "False" "UnsupportedProtocol"] 0 0]) false
    (GOut [PC "Accepted" "False" "ListenersNotValid"; PC "Programmed" "False" "Invalid"]
          [LOut "a" 0 default_listener_conds; LOut "b" 0 [PC "Accepted" "False" "UnsupportedProtocol"]]) = false.
Proof. reflexivity. Qed.
Example oracle_rejects_invalid_listener_without_not_programmed :
  oracle_gateway (PG true [] [PL "b" false [PC "Accepted" "False" "UnsupportedProtocol"] 0 0]) true
    (GOut [PC "Accepted" "False" "ListenersNotValid"; PC "Programmed" "False" "Invalid"]
          [LOut "b" 0 [PC "Accepted" "False" "UnsupportedProtocol"]]) = false.
Proof. reflexivity. Qed.
Example oracle_rejects_l4_routes_not_counted :
  oracle_gateway (PG true [] [PL "a" true [] 2 1]) false
    (GOut default_gateway_conds [LOut "a" 2 default_listener_conds]) = false.
Proof. reflexivity. Qed.

(* a Gateway with one valid and one invalid listener, failed reload *)
Example gateway_example :
  prepare_gateway (PG true [] [PL "a" true [] 2 1;
                               PL "b" false [PC "Accepted" "False" "UnsupportedProtocol"; PC "Programmed" "False" "Invalid"] 0 0]) true
  = GOut [PC "Accepted" "True" "ListenersNotValid"; PC "Programmed" "False" "Invalid"]
         [LOut "a" 3 [PC "Accepted" "True" "Accepted"; PC "ResolvedRefs" "True" "ResolvedRefs"; PC "Conflicted" "False" "NoConflicts";
                      PC "Programmed" "False" "Invalid"];
          LOut "b" 0 [PC "Accepted" "False" "UnsupportedProtocol"; PC "Programmed" "False" "Invalid"]].
Proof. reflexivity. Qed.

Example gateway_example_hypotheses :
  let g := PG true [] [PL "a" true [] 2 1; PL "b" false [PC "Accepted" "False" "UnsupportedProtocol"] 0 0] in
  pg_valid g = true /\ 0 < List.length (filter pl_valid (pg_listeners g)) < List.length (pg_listeners g) /\
  pg_valid (PG true [] []) = true /\ List.length (filter pl_valid (pg_listeners (PG true [] []))) = 0 /\
  (let g1 := PG true [] [PL "a" true [] 0 0] in 0 < List.length (filter pl_valid (pg_listeners g1)) /\
     List.length (filter pl_valid (pg_listeners g1)) = List.length (pg_listeners g1)) /\
  nth_error (pg_listeners g) 1 = Some (PL "b" false [PC "Accepted" "False" "UnsupportedProtocol"] 0 0) /\
  pg_valid (PG false [PC "Accepted" "False" "Invalid"; PC "Programmed" "False" "Invalid"] []) = false.
Proof. cbv zeta. cbn. repeat split; lia. Qed.
