//go:build verif

package main

import (
	"encoding/json"
	"os"
	"strconv"
	"testing"

	"github.com/spf13/pflag"

	vu "github.com/nginx/nginx-gateway-fabric/internal/verifutil"
)

// C19 (flags part): drive the real parseFlags of cmd/gateway over the real static-mode flag set after parsing
// generated command lines. It is started as a sub-process by TestVerifC19 of internal/mode/static/telemetry
// (parseFlags lives in package main and cannot be imported), and writes what it saw to VERIF_C19_FLAGS_OUT.

type c19Flag struct {
	Name  string `json:"name"`
	Bool  bool   `json:"bool"`
	Value string `json:"value"` // flag.Value.String() after parsing
	Def   string `json:"def"`   // flag.DefValue
}

type c19Scenario struct {
	Args   []string  `json:"args"`
	Flags  []c19Flag `json:"flags"`
	Names  []string  `json:"names"`  // parseFlags result
	Values []string  `json:"values"` // parseFlags result
}

var c19Strings = []string{
	"gateway.nginx.org/nginx-gateway-controller", "nginx", "my-gateway", "prod/edge-gw", "nginx-gateway/ngf-config",
	"true", "false", "default", "user-defined", "corp-secret-license", "usage.internal.corp.example:8443",
	"10.9.8.7:53", "https://telemetry.internal.example/v1", "s3cr3t-token", "", "Not A Valid Name!", "a/b/c",
	"9113", "8081", "0", "65536", "1h", "24h0m0s", "12m", "x,y", "default/ca-bundle",
}

func c19Value(r *vu.Rng, f *pflag.Flag) string {
	switch {
	case f.Value.Type() == "bool":
		if r.Chance(1, 8) {
			return c19Strings[r.Intn(len(c19Strings))] // mostly rejected by pflag
		}
		return strconv.FormatBool(r.Bool())
	case r.Chance(1, 6):
		return f.DefValue // explicitly set to the default
	case f.Value.Type() == "int" || f.Name == "metrics-port" || f.Name == "health-port":
		if r.Chance(3, 4) {
			return strconv.Itoa(r.Range(1024, 65535))
		}
	case f.Value.Type() == "duration":
		if r.Chance(3, 4) {
			return strconv.Itoa(r.Range(1, 90)) + []string{"s", "m", "h"}[r.Intn(3)]
		}
	}
	return c19Strings[r.Intn(len(c19Strings))]
}

func TestVerifC19Flags(t *testing.T) {
	path := os.Getenv("VERIF_C19_FLAGS_OUT")
	if path == "" {
		t.Skip("VERIF_C19_FLAGS_OUT not set (this test is run by TestVerifC19 of the telemetry package)")
	}
	seed, _ := strconv.ParseUint(os.Getenv("VERIF_SEED"), 10, 64)
	n, _ := strconv.Atoi(os.Getenv("VERIF_C19_FLAGS_N"))
	if n <= 0 {
		n = 50
	}
	rng := vu.NewRng(seed ^ 0xC19F)
	var out []c19Scenario
	for i := 0; i < n; i++ {
		r := rng.Fork()
		root := createRootCommand()
		cmd := createStaticModeCommand()
		root.AddCommand(cmd)
		// learn the flag set (local flags + the persistent flags of the root command, as in RunE)
		var all []*pflag.Flag
		cmd.LocalFlags().VisitAll(func(f *pflag.Flag) { all = append(all, f) })
		cmd.InheritedFlags().VisitAll(func(f *pflag.Flag) { all = append(all, f) })
		var args []string
		nset := 0
		if i > 0 {
			nset = r.Intn(1 + (i*len(all))/n + 1)
		}
		for k := 0; k < nset; k++ {
			f := all[r.Intn(len(all))]
			args = append(args, "--"+f.Name+"="+c19Value(r, f))
		}
		_ = cmd.ParseFlags(args) // a rejected value stops parsing; the flag set is then whatever was set so far
		sc := c19Scenario{Args: args}
		cmd.Flags().VisitAll(func(f *pflag.Flag) {
			sc.Flags = append(sc.Flags, c19Flag{Name: f.Name, Bool: f.Value.Type() == "bool", Value: f.Value.String(), Def: f.DefValue})
		})
		sc.Names, sc.Values = parseFlags(cmd.Flags())
		out = append(out, sc)
	}
	b, err := json.Marshal(out)
	if err != nil {
		t.Fatal(err)
	}
	if err := os.WriteFile(path, b, 0o644); err != nil {
		t.Fatal(err)
	}
}
