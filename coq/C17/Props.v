(* C17 — property theorems: resources of other controllers cannot influence what the routing
   specification prescribes (the spec is what the C02 check validates the generated configuration
   against), and a configured class owned by another controller disables everything. *)
From Coq Require Import List String.
From NGF Require Import lib.Str k8s.State k8s.Spec k8s.SpecProofs.
Import ListNotations.

(* A Route that names none of our (winning) Gateway in its parentRefs changes no request's outcome. *)
Theorem C17_foreign_route_changes_nothing :
  forall cs r q, (forall g, winning_gateway cs = Some g -> route_ignores g r = true) ->
  decide (add_route cs r) q = decide cs q.
Proof. exact foreign_route_irrelevant. Qed.

(* A Gateway of any other class changes no request's outcome. *)
Theorem C17_foreign_gateway_changes_nothing :
  forall cs g q, seqb (g_class g) our_class = false -> decide (add_gateway cs g) q = decide cs q.
Proof. exact foreign_gateway_irrelevant. Qed.

(* The configured class owned by another controller (or absent): nothing listens. *)
Theorem C17_foreign_named_class_disables_everything :
  forall cs q, class_active cs = false -> decide cs q = DOutcome ONoListener false.
Proof. intros cs q H. unfold decide, winning_gateway. rewrite H. reflexivity. Qed.
