(* Proofs: the directive texts of C02/RewriteLoc.v are read back by the evaluator as the rewrite they were written for, and
   the rewrite phase of a location - external or internal - leaves the path Gateway API prescribes. *)
From Coq Require Import List String Ascii Bool Arith Lia.
From NGF Require Import lib.Str k8s.State ngx.Lexer ngx.Eval C02.Rewrite C02.RewriteProofs ngx.EvalFwd C02.RewriteLoc k8s.Spec k8s.SpecFwd.
Import ListNotations.

Ltac norm := change Lexer.string_of with Str.string_of in *; change Lexer.chars_of with Str.chars_of in *.

Lemma unescape_esc c l : unescape ("\"%char :: c :: l) = c :: unescape l.
Proof. reflexivity. Qed.

Lemma unescape_plain c l : Ascii.eqb c "\"%char = false -> unescape (c :: l) = c :: unescape l.
Proof.
  intros H. destruct c as [b0 b1 b2 b3 b4 b5 b6 b7].
  destruct b0, b1, b2, b3, b4, b5, b6, b7; try reflexivity; vm_compute in H; discriminate.
Qed.

Lemma quote_meta_cons c l : quote_meta (c :: l) = (if is_meta c then ["\"%char; c] else [c]) ++ quote_meta l.
Proof. reflexivity. Qed.

Lemma unescape_quote l : unescape (quote_meta l) = l.
Proof.
  induction l as [|c l IH]; [reflexivity|].
  rewrite quote_meta_cons. destruct (is_meta c) eqn:Hm.
  - change (["\"%char; c] ++ quote_meta l) with ("\"%char :: c :: quote_meta l). rewrite unescape_esc, IH. reflexivity.
  - change ([c] ++ quote_meta l) with (c :: quote_meta l).
    rewrite unescape_plain, IH; [reflexivity|].
    destruct (Ascii.eqb c "\"%char) eqn:Hb; [|reflexivity].
    apply Ascii.eqb_eq in Hb. subst c. vm_compute in Hm. discriminate.
Qed.

Lemma ends_with_app suf l : ends_with suf (l ++ suf) = true.
Proof. unfold ends_with. rewrite rev_app_distr. apply is_prefix_app. Qed.

Lemma drop_last_app l suf : drop_last (List.length suf) (l ++ suf) = l.
Proof.
  unfold drop_last. rewrite app_length. replace (List.length l + List.length suf - List.length suf) with (List.length l) by lia.
  rewrite firstn_app, Nat.sub_diag, firstn_all. simpl. apply app_nil_r.
Qed.

Lemma plain_is_not_optslash l : ends_with tail_optslash (l ++ tail_plain) = false.
Proof. unfold ends_with. rewrite rev_app_distr. reflexivity. Qed.

(* the evaluator reads a prefix rewrite back as it was written *)
Lemma parse_print r : parse_prefix_rewrite (regex_text r) (repl_text r) = Some r.
Proof.
  unfold parse_prefix_rewrite, regex_text, repl_text. norm. rewrite !chars_of_string_of.
  cbv beta iota zeta.
  rewrite ends_with_app, drop_last_app.
  destruct r as [opt p rp]. cbn [rw_optslash rw_prefix rw_repl].
  destruct opt.
  - rewrite ends_with_app, drop_last_app, unescape_quote. reflexivity.
  - rewrite plain_is_not_optslash, ends_with_app, drop_last_app, unescape_quote. reflexivity.
Qed.

Lemma regex_text_not_caret r : seqb (regex_text r) "^" = false.
Proof.
  unfold regex_text. destruct (rw_optslash r); destruct (quote_meta (rw_prefix r)); reflexivity.
Qed.

(* ---- the rewrite phase of a location *)

(* full replacement: whatever the location, the path is the replacement (its own query part cut off) *)
Lemma full_replacement kind internal s P orig entry :
  seqb s "$request_uri" = false ->      (* the validators admit no dollar sign in a path (C04) *)
  location_path kind internal (Some (ReplaceFull s)) P orig entry = Some (strip_args s).
Proof.
  intros Hs. unfold location_path, location_rewrites, main_rewrite_args. simpl.
  destruct internal; destruct kind; simpl; rewrite ?Hs; reflexivity.
Qed.

Lemma run_reset orig cur ds :
  run_rewrites orig cur (rewrite_dir ["^"%string; "$request_uri"%string] :: ds) = run_rewrites orig orig ds.
Proof. reflexivity. Qed.

Lemma run_one r flags orig cur :
  run_rewrites orig cur [rewrite_dir (regex_text r :: repl_text r :: flags)] =
    Some (match Rewrite.apply r (Str.chars_of cur) with Some c => Str.string_of c | None => cur end).
Proof.
  unfold run_rewrites, rewrite_dir. cbn [d_args].
  rewrite regex_text_not_caret, parse_print. norm.
  destruct (Rewrite.apply r (Str.chars_of cur)); [|reflexivity].
  destruct (existsb (seqb "break") flags); reflexivity.
Qed.

(* prefix replacement in an external location, or in an internal one (entered with any path whatever): the path that leaves
   the location is the request path with the prefix replaced as Gateway API prescribes *)
Theorem prefix_replacement kind internal R P q entry :
  reaches (Str.chars_of P) (Str.chars_of q) ->
  (internal = false -> entry = q) ->
  location_path kind internal (Some (ReplacePrefix R)) P q entry =
    Some (Str.string_of (expected (Str.chars_of P) (Str.chars_of R) (Str.chars_of q))).
Proof.
  intros Hreach Hentry. unfold location_path, location_rewrites, main_rewrite_args.
  set (r := main_rewrite (Str.chars_of P) (Str.chars_of R)).
  pose proof (rewrite_is_prefix_replacement (Str.chars_of P) (Str.chars_of R) (Str.chars_of q) Hreach) as Happ.
  fold r in Happ. cbn [uses_original_uri].
  destruct internal.
  - cbn [app]. rewrite run_reset.
    change ((regex_text r :: repl_text r :: nil) ++ match kind with KRewrite => ["break"%string] | KRedirect => [] end)
      with (regex_text r :: repl_text r :: match kind with KRewrite => ["break"%string] | KRedirect => [] end).
    rewrite run_one, Happ. reflexivity.
  - rewrite (Hentry eq_refl). cbn [app].
    change ((regex_text r :: repl_text r :: nil) ++ match kind with KRewrite => ["break"%string] | KRedirect => [] end)
      with (regex_text r :: repl_text r :: match kind with KRewrite => ["break"%string] | KRedirect => [] end).
    rewrite run_one, Happ. reflexivity.
Qed.

(* without a path modifier the original path leaves the location *)
Lemma no_modifier kind internal P orig entry : location_path kind internal None P orig entry = Some orig.
Proof. reflexivity. Qed.

(* all three together, against the specification's [modified_path] (k8s/SpecFwd.v) *)
Theorem location_path_is_the_prescribed_path kind internal pm P q entry :
  (forall s, pm = Some (ReplaceFull s) -> strip_args s = s /\ seqb s "$request_uri" = false) ->
  reaches (Str.chars_of P) (Str.chars_of q) ->
  (internal = false -> entry = q) ->
  location_path kind internal pm P q entry = Some (modified_path pm (PathPrefix P) q).
Proof.
  intros Hfull Hreach Hentry. destruct pm as [[s|R]|].
  - destruct (Hfull s eq_refl) as [Hs1 Hs2]. rewrite (full_replacement kind internal s P q entry Hs2), Hs1. reflexivity.
  - rewrite (prefix_replacement kind internal R P q entry Hreach Hentry). reflexivity.
  - apply no_modifier.
Qed.
