//go:build verif

package static

import (
	"context"
	"strconv"
	"testing"

	metav1 "k8s.io/apimachinery/pkg/apis/meta/v1"
	gatewayv1 "sigs.k8s.io/gateway-api/apis/v1"
	"sigs.k8s.io/gateway-api/apis/v1alpha2"
	"sigs.k8s.io/gateway-api/apis/v1alpha3"

	vu "github.com/nginx/nginx-gateway-fabric/internal/verifutil"
)

func c07Conds(cs []metav1.Condition) string {
	var it []string
	for _, c := range cs {
		it = append(it, vu.App("Cond", vu.Str(c.Type), vu.Str(string(c.Status)), vu.Str(c.Reason), vu.Z(c.ObservedGeneration)))
	}
	return vu.List(it)
}

func c07Parents(ps []gatewayv1.RouteParentStatus) string {
	var it []string
	for _, p := range ps {
		ns, sec := "None", "None"
		if p.ParentRef.Namespace != nil {
			ns = vu.Some(vu.Str(string(*p.ParentRef.Namespace)))
		}
		if p.ParentRef.SectionName != nil {
			sec = vu.Some(vu.Str(string(*p.ParentRef.SectionName)))
		}
		it = append(it, vu.App("PEntry", ns, vu.Str(string(p.ParentRef.Name)), sec, vu.Str(string(p.ControllerName)), c07Conds(p.Conditions)))
	}
	return vu.List(it)
}

// vpStatusTerms reads every Route and Gateway status back from the fake cluster.
func vpStatusTerms(w *vpWorld) (routes string, gateways string, human map[string]any) {
	ctx := context.Background()
	var rs, gs []string
	var hrs gatewayv1.HTTPRouteList
	_ = w.k8s.List(ctx, &hrs)
	for _, o := range hrs.Items {
		rs = append(rs, vu.App("RStatus", "false", vu.Str(o.Namespace), vu.Str(o.Name), c07Parents(o.Status.Parents)))
	}
	var grs gatewayv1.GRPCRouteList
	_ = w.k8s.List(ctx, &grs)
	for _, o := range grs.Items {
		rs = append(rs, vu.App("RStatus", "true", vu.Str(o.Namespace), vu.Str(o.Name), c07Parents(o.Status.Parents)))
	}
	var gws gatewayv1.GatewayList
	_ = w.k8s.List(ctx, &gws)
	for _, o := range gws.Items {
		var ls []string
		for _, l := range o.Status.Listeners {
			ls = append(ls, vu.App("LStatus", vu.Str(string(l.Name)), vu.Z(int64(l.AttachedRoutes)), c07Conds(l.Conditions)))
		}
		gs = append(gs, vu.App("GStatus", vu.Str(o.Namespace), vu.Str(o.Name), c07Conds(o.Status.Conditions), vu.List(ls)))
	}
	return vu.List(rs), vu.List(gs), map[string]any{"conditions": vpAllConditions(w)}
}

func TestVerifC07(t *testing.T) {
	out := vu.Open("C07")
	out.ShardLen(25)
	rng := vu.NewRng(out.Seed ^ 0xC07)
	n := out.Count(300, 6000)
	for i := 0; i < n; i++ {
		r := rng.Fork()
		c := vsGen(r, (i*6)/n)
		reloadOK := !r.Chance(1, 5)
		w := vpNewWorld(false)
		if !reloadOK {
			if r.Bool() {
				w.rt.err = errVpReload
			} else {
				w.files.err = errVpReload
			}
		}
		evs := vpBaseEvents()
		for _, o := range c.Objects() {
			evs = append(evs, w.Apply(o))
		}
		w.Batch(evs)
		rs, gs, human := vpStatusTerms(w)
		human["cluster"] = c
		human["reload_ok"] = reloadOK
		term := vu.App("Case", c.Coq(), vu.Bool(reloadOK), rs, gs)
		out.Case(term, human, len(c.Routes) >= 2, c.Coq()+strconv.FormatBool(reloadOK))
		out.Tally("reload_ok", strconv.FormatBool(reloadOK))
		out.Tally("routes", strconv.Itoa(len(c.Routes)))
	}
	out.Close("C07.Check", "")
}

// vpWipeStatuses clears the status of every Gateway API object in the fake cluster.
func vpWipeStatuses(w *vpWorld) {
	ctx := context.Background()
	var gcs gatewayv1.GatewayClassList
	_ = w.k8s.List(ctx, &gcs)
	for i := range gcs.Items {
		gcs.Items[i].Status = gatewayv1.GatewayClassStatus{}
		_ = w.k8s.Status().Update(ctx, &gcs.Items[i])
	}
	var gws gatewayv1.GatewayList
	_ = w.k8s.List(ctx, &gws)
	for i := range gws.Items {
		gws.Items[i].Status = gatewayv1.GatewayStatus{}
		_ = w.k8s.Status().Update(ctx, &gws.Items[i])
	}
	var hrs gatewayv1.HTTPRouteList
	_ = w.k8s.List(ctx, &hrs)
	for i := range hrs.Items {
		hrs.Items[i].Status = gatewayv1.HTTPRouteStatus{}
		_ = w.k8s.Status().Update(ctx, &hrs.Items[i])
	}
	var grs gatewayv1.GRPCRouteList
	_ = w.k8s.List(ctx, &grs)
	for i := range grs.Items {
		grs.Items[i].Status = gatewayv1.GRPCRouteStatus{}
		_ = w.k8s.Status().Update(ctx, &grs.Items[i])
	}
	var btps v1alpha3.BackendTLSPolicyList
	_ = w.k8s.List(ctx, &btps)
	for i := range btps.Items {
		btps.Items[i].Status = v1alpha2.PolicyStatus{}
		_ = w.k8s.Status().Update(ctx, &btps.Items[i])
	}
}
