"""C09 check configuration."""


def setup(register, COMMON_TB):
    register(
        "C09", coq="C09", pkg="./internal/framework/status/", test="TestVerifC09",
        rule="sequential schedules (size ramps with the index) and concurrent schedules (2-3 submitter goroutines racing one "
             "Enable, randomly delayed client writes); non-trivial = has an Enable that flushed at least one saved request "
             "and at least 4 invocations; distinct = distinct (schedule, observed log)",
        trusted_base=COMMON_TB + [
            "modelled, not verified: sync.Mutex makes UpdateGroup/Enable atomic; the controller-runtime fake client stands for the API server",
            "leader election wiring (Enable registered as a leader-only runnable) is checked by the C01/C17 handler harness, not proved",
        ],
        assumptions=["mutex atomicity", "flush order over the Go map is an arbitrary permutation (theorem quantifies over it)"],
    )
