(* Proofs about the selection of parentRefs (C17/Parent.v). *)
From Coq Require Import List String Bool Arith Lia.
From NGF Require Import lib.Str lib.Order C17.Parent.
Import ListNotations.

Lemma find_gw_sound p rns gws g :
  find_gw p rns gws = Some g ->
  In g gws /\ snd g = pf_name p /\ fst g = (match pf_ns p with Some n => n | None => rns end) /\
  (pf_kind p = None \/ pf_kind p = Some "Gateway"%string) /\
  (pf_group p = None \/ pf_group p = Some "gateway.networking.k8s.io"%string).
Proof.
  unfold find_gw. intros H.
  destruct (pf_kind p) as [k|] eqn:Hk.
  - destruct (seqb k "Gateway") eqn:Hkk; simpl in H; [|discriminate]. apply seqb_eq in Hkk. subst k.
    destruct (pf_group p) as [gr|] eqn:Hg.
    + destruct (seqb gr "gateway.networking.k8s.io") eqn:Hgg; simpl in H; [|discriminate]. apply seqb_eq in Hgg. subst gr.
      apply find_some in H. destruct H as [Hin Hm]. apply andb_true_iff in Hm. destruct Hm as [Hns Hn].
      apply seqb_eq in Hns, Hn. repeat split; auto.
    + simpl in H. apply find_some in H. destruct H as [Hin Hm]. apply andb_true_iff in Hm. destruct Hm as [Hns Hn].
      apply seqb_eq in Hns, Hn. repeat split; auto.
  - simpl in H. destruct (pf_group p) as [gr|] eqn:Hg.
    + destruct (seqb gr "gateway.networking.k8s.io") eqn:Hgg; simpl in H; [|discriminate]. apply seqb_eq in Hgg. subst gr.
      apply find_some in H. destruct H as [Hin Hm]. apply andb_true_iff in Hm. destruct Hm as [Hns Hn].
      apply seqb_eq in Hns, Hn. repeat split; auto.
    + simpl in H. apply find_some in H. destruct H as [Hin Hm]. apply andb_true_iff in Hm. destruct Hm as [Hns Hn].
      apply seqb_eq in Hns, Hn. repeat split; auto.
Qed.

(* every reference that is kept names one of the Gateways handed in, and is the parentRef at its index *)
Lemma build_refs_sound refs : forall idx seen rns gws out,
  build_refs idx seen refs rns gws = Some out ->
  forall i g s, In (i, g, s) out ->
    In g gws /\ idx <= i /\ exists p, nth_error refs (i - idx) = Some p /\ find_gw p rns gws = Some g /\ pf_section p = s.
Proof.
  induction refs as [|p refs IH]; intros idx seen rns gws out H i g s Hin; simpl in H.
  - inversion H; subst. contradiction.
  - destruct (find_gw p rns gws) as [g0|] eqn:Hf.
    + destruct (existsb _ seen); [discriminate|].
      destruct (build_refs (S idx) ((g0, section_of p) :: seen) refs rns gws) as [out'|] eqn:Hb; [|discriminate].
      inversion H; subst out. destruct Hin as [Heq|Hin].
      * inversion Heq; subst. split; [exact (proj1 (find_gw_sound p rns gws g Hf))|]. split; [lia|].
        exists p. rewrite Nat.sub_diag. simpl. auto.
      * destruct (IH (S idx) _ rns gws out' Hb i g s Hin) as [Hg [Hle [p' [Hn [Hfp Hs]]]]].
        split; [exact Hg|]. split; [lia|]. exists p'. replace (i - idx) with (S (i - S idx)) by lia. simpl. auto.
    + destruct (IH (S idx) seen rns gws out H i g s Hin) as [Hg [Hle [p' [Hn [Hfp Hs]]]]].
      split; [exact Hg|]. split; [lia|]. exists p'. replace (i - idx) with (S (i - S idx)) by lia. simpl. auto.
Qed.

Theorem section_refs_only_our_gateways refs rns gws out :
  section_refs refs rns gws = Some out ->
  forall i g s, In (i, g, s) out -> In g gws /\ exists p, nth_error refs i = Some p /\ find_gw p rns gws = Some g /\ pf_section p = s.
Proof.
  intros H i g s Hin. destruct (build_refs_sound refs 0 [] rns gws out H i g s Hin) as [Hg [_ [p [Hn Hrest]]]].
  split; [exact Hg|]. exists p. rewrite Nat.sub_0_r in Hn. auto.
Qed.

(* a Route none of whose parentRefs names one of the Gateways keeps no reference: it is not built *)
Lemma build_refs_foreign refs : forall idx seen rns gws,
  (forall p, In p refs -> find_gw p rns gws = None) -> build_refs idx seen refs rns gws = Some [].
Proof.
  induction refs as [|p refs IH]; intros idx seen rns gws H; simpl; [reflexivity|].
  rewrite (H p (or_introl eq_refl)). apply IH. intros q Hq. apply H. right. exact Hq.
Qed.

Theorem foreign_route_keeps_no_reference refs rns gws :
  (forall p, In p refs -> find_gw p rns gws = None) -> section_refs refs rns gws = Some [].
Proof. apply build_refs_foreign. Qed.

(* with no Gateway of ours at all, nothing is kept, whatever the Route says *)
Theorem no_gateway_no_reference refs rns : section_refs refs rns [] = Some [].
Proof.
  apply foreign_route_keeps_no_reference. intros p _. unfold find_gw.
  destruct (match pf_kind p with Some k => negb (seqb k "Gateway") | None => false end); [reflexivity|].
  destruct (match pf_group p with Some g => negb (seqb g "gateway.networking.k8s.io") | None => false end); reflexivity.
Qed.

(* the premises are satisfiable, and the function does keep what is ours *)
Example kept_and_dropped :
  section_refs [PRef None None None "gw" None; PRef (Some "Service") None None "gw" None; PRef None None (Some "other") "gw" (Some "l1")]%string
               "default"%string [("default", "gw")]%string = Some [(0, ("default", "gw"), None)]%string.
Proof. vm_compute. reflexivity. Qed.
