(* C09, second part — the WIRING of the leader-aware status updater in
   internal/mode/static/manager.go (StartManager and the helpers it calls).

   The first part (Model/Check) is about what LeaderAwareGroupUpdater does once Enable is called.
   This part is about WHEN Enable is called: StartManager registers
     mgr.Add(runnables.NewEnableAfterBecameLeader(groupStatusUpdater.Enable))
   and controller-runtime (pkg/manager/runnable_group.go, runnables.Add) puts a runnable into the
   leader-election group unless it implements manager.LeaderElectionRunnable and
   NeedLeaderElection() returns false.  The leader-election group is started only when the replica
   is elected (internal.go, OnStartedLeading / startLeaderElectionRunnables); every other group is
   started by Start.

   The Go harness (internal/framework/runnables/zz_verif_c09wire_test.go) translates manager.go
   into a list of registrations: for every mgr.Add(e) the chain of runnable types of e, outermost
   first, as strings; it then builds the REAL object of that shape from the real types of package
   runnables and measures (1) the group rule on it and (2) how often one Start of the real object
   calls the enable function.  Here:
     - [needs_leader], [start_invokes]: model of the three types of package runnables;
     - [mstep]/[mrun]: the manager as a state machine over Start / Elected;
     - [corr]: model = measurement, and the translator understood everything (code 1);
     - [oracle]: the property on the measured facts alone (code 2). *)
From Coq Require Import List Arith Bool String.
From NGF Require Export lib.CaseLib C09.Model.
Import ListNotations.
Local Open Scope string_scope.
Local Open Scope list_scope.

(* ---------------------------------------------------------------- names used by the translator *)

Definition wLeader : string := "Leader".
Definition wLeaderOrNonLeader : string := "LeaderOrNonLeader".
Definition wEnable : string := "EnableAfterBecameLeader".
Definition wCronJob : string := "CronJob".
(* any other element is a leaf the translator does not look into: "opaque:<import path>.<Func>" *)

(* the constructor the handler's status updater must come from (import path qualified) *)
Definition la_ctor : string :=
  "github.com/nginx/nginx-gateway-fabric/internal/framework/status.NewLeaderAwareGroupUpdater".

(* ---------------------------------------------------------------- what the harness reports *)

Record reg := Reg {
  r_payload : string;       (* printed argument of NewEnableAfterBecameLeader, "" for other leaves *)
  r_chain : list string;    (* runnable types, outermost first *)
  r_leader_only : bool;     (* measured on the real object: !ok || lr.NeedLeaderElection() *)
  r_invokes : nat;          (* measured: calls of the enable function, with the very context Start was given, during one Start of the real object *)
  r_known : bool            (* the translator resolved the whole expression, and the type that decides the group is real *)
}.

Record wiring := Wiring {
  w_regs : list reg;                  (* every mgr.Add(...) of manager.go, in source order *)
  w_su_found : bool;                  (* exactly one eventHandlerConfig{... statusUpdater: <identifier> ...} *)
  w_su_ident : string;                (* that identifier *)
  w_su_ctor : string;                 (* function whose call defines it, import path qualified *)
  w_su_arg : string;                  (* printed first argument of that call (informative) *)
  w_strays : list (string * string)   (* every other use of a selector .Enable in the file: (receiver, constructor of the receiver) *)
}.

Inductive case :=
| Real (w : wiring)     (* manager.go of the tree under test *)
| Synth (r : reg).      (* a chain built by the harness from the real types, to exercise the model *)

(* ---------------------------------------------------------------- model of package runnables *)

(* runnables.Add: only the dynamic type of the registered value (the outermost element) decides.
   Leader and EnableAfterBecameLeader answer true; LeaderOrNonLeader answers false; CronJob,
   EventLoop and everything unknown do not implement LeaderElectionRunnable => leader group. *)
Definition needs_leader (chain : list string) : bool :=
  match chain with
  | x :: _ => negb (String.eqb x wLeaderOrNonLeader)
  | [] => true
  end.

(* Start of Leader / LeaderOrNonLeader is the promoted Start of the embedded Runnable;
   EnableAfterBecameLeader.Start calls enable once; nothing else calls it. *)
Fixpoint start_invokes (chain : list string) : nat :=
  match chain with
  | [] => 0
  | x :: c =>
      if String.eqb x wLeader || String.eqb x wLeaderOrNonLeader then start_invokes c
      else if String.eqb x wEnable then 1 else 0
  end.

(* ---------------------------------------------------------------- model of the manager *)

Inductive mev := MStart | MElected.   (* mgr.Start is called; the leader elector reports OnStartedLeading *)

Record mst := MSt { m_started : bool; m_elected : bool }.
Definition minit : mst := MSt false false.

Definition group_leader (w : wiring) : list reg := filter (fun r => needs_leader (r_chain r)) (w_regs w).
Definition group_others (w : wiring) : list reg := filter (fun r => negb (needs_leader (r_chain r))) (w_regs w).

(* the enable functions called when the runnables [rs] are started *)
Definition started_payloads (rs : list reg) : list string :=
  flat_map (fun r => repeat (r_payload r) (start_invokes (r_chain r))) rs.

(* One event: new state and the enable functions invoked by it.  Start starts the non-leader group
   once; Elected (possible only after Start, effective once) starts the leader group.  Losing the
   lease makes Start return an error and the process exit, so there is no way back. *)
Definition mstep (w : wiring) (s : mst) (e : mev) : mst * list string :=
  match e with
  | MStart =>
      if m_started s then (s, [])
      else (MSt true (m_elected s), started_payloads (group_others w))
  | MElected =>
      if m_started s && negb (m_elected s) then (MSt true true, started_payloads (group_leader w))
      else (s, [])
  end.

(* all steps of a trace: the state reached by each event and what it invoked *)
Fixpoint mrun (w : wiring) (s : mst) (tr : list mev) : list (mst * list string) :=
  match tr with
  | [] => []
  | e :: tr' => let r := mstep w s e in r :: mrun w (fst r) tr'
  end.

Definition mfinal (w : wiring) (s : mst) (tr : list mev) : mst :=
  fold_left (fun s e => fst (mstep w s e)) tr s.

(* "Enable of the handler's status updater": the method value <ident>.Enable *)
Definition enable_of (w : wiring) : string := String.append (w_su_ident w) ".Enable".

(* ---------------------------------------------------------------- wiring + LeaderAwareGroupUpdater *)

(* The replica as a whole: manager events interleaved with the handler's UpdateGroup submissions.
   An invocation of <ident>.Enable is the operation Enable of C09.Model; if the handler was not given
   a LeaderAwareGroupUpdater, its submissions go to the plain Updater, which writes at once. *)
Inductive sysev := SysM (e : mev) | SysU (g : group) (rs : list req).

Definition enable_ops (w : wiring) (inv : list string) : list op :=
  map (fun _ => Enable) (filter (String.eqb (enable_of w)) inv).

Fixpoint sys_ops (w : wiring) (s : mst) (evs : list sysev) : list op :=
  match evs with
  | [] => []
  | SysU g rs :: evs' => Update g rs :: sys_ops w s evs'
  | SysM e :: evs' => let r := mstep w s e in enable_ops w (snd r) ++ sys_ops w (fst r) evs'
  end.

Definition leader_aware (w : wiring) : bool := String.eqb (w_su_ctor w) la_ctor.

Definition raw_out (e : sysev) : list req := match e with SysU _ rs => rs | SysM _ => [] end.

(* the status writes of the replica, one list per operation *)
Definition sys_writes (pi : list (group * list req) -> list (group * list req)) (w : wiring)
           (evs : list sysev) : list (list req) :=
  if leader_aware w then snd (run pi init (sys_ops w minit evs)) else map raw_out evs.

Definition never_elected (evs : list sysev) : Prop := forall e, In e evs -> e <> SysM MElected.

(* ---------------------------------------------------------------- the check *)

(* code 1: the model of package runnables agrees with the measurement on the real object, and the
   translator resolved the expression *)
Definition corr_reg (r : reg) : bool :=
  r_known r &&
  Bool.eqb (needs_leader (r_chain r)) (r_leader_only r) &&
  Nat.eqb (start_invokes (r_chain r)) (r_invokes r).

(* a use of .Enable outside a registration that concerns the handler's updater: the translator
   cannot tell when it runs *)
Definition stray_relevant (w : wiring) (s : string * string) : bool :=
  String.eqb (fst s) (w_su_ident w) || String.eqb (snd s) la_ctor.

Definition corr (w : wiring) : bool :=
  w_su_found w && forallb corr_reg (w_regs w) && negb (existsb (stray_relevant w) (w_strays w)).

(* code 2: the property on the measured facts, without [needs_leader]/[start_invokes] *)
Definition is_enable_reg (w : wiring) (r : reg) : bool :=
  String.eqb (r_payload r) (enable_of w) || existsb (String.eqb wEnable) (r_chain r) || Nat.ltb 0 (r_invokes r).

Definition oracle (w : wiring) : bool :=
  (* every registration that can call Enable is started in the leader group only *)
  forallb (fun r => implb (is_enable_reg w r) (r_leader_only r)) (w_regs w) &&
  (* Enable of the very updater the handler submits to is registered, and starting it calls it once *)
  existsb (fun r => String.eqb (r_payload r) (enable_of w) && Nat.eqb (r_invokes r) 1) (w_regs w) &&
  (* that updater is a LeaderAwareGroupUpdater *)
  leader_aware w.

Definition check_case (c : case) : list nat :=
  match c with
  | Real w => when (negb (corr w)) code_mismatch ++ when (negb (oracle w)) code_violation
  | Synth r => when (negb (corr_reg r)) code_mismatch
  end.
