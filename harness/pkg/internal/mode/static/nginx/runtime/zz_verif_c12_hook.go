//go:build verif

package runtime

// C12 verification hook (overlaid by /verif/bin/check, compiled only under the build tag `verif`).
// The production constructor NewVerifyClient dials the fixed socket /var/run/nginx/nginx-config-version.sock
// and ManagerImpl.Reload reads /proc/<pid>/task/<pid>/children; the harness needs both to point into a
// temporary directory.  Nothing else is changed: the client is built by the real constructor.

import (
	"context"
	"net"
	"net/http"
	"time"
)

// C12NewVerifyClient returns NewVerifyClient(timeout) whose transport dials through dial instead of
// the fixed unix socket.
func C12NewVerifyClient(
	timeout time.Duration,
	dial func(ctx context.Context, network, addr string) (net.Conn, error),
) *VerifyClient {
	c := NewVerifyClient(timeout)
	c.client.Transport.(*http.Transport).DialContext = dial
	return c
}

// C12SetChildProcPathFmt replaces the format of the children file path and returns the previous one.
func C12SetChildProcPathFmt(f string) string {
	old := childProcPathFmt
	childProcPathFmt = f
	return old
}
