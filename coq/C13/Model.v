(* C13 — model of
     internal/mode/static/state/resolver/resolver.go        (Resolve, resolveEndpoints, filterEndpointSliceList,
                                                             ignoreEndpointSlice, endpointReady, findPort, getDefaultPort)
     internal/framework/controller/index/endpointslice.go   (ServiceNameIndexFunc: which slices a List returns)
     internal/mode/static/state/dataplane/configuration.go  (buildBaseHTTPConfig.IPFamily, getAllowedAddressType, buildUpstreams)
     internal/mode/static/nginx/config/upstreams.go         (createUpstream: 503 placeholder; createStreamUpstreams)
     internal/mode/static/nginx/config/convert.go           (ConvertEndpoints)
     internal/mode/static/handler.go                        (HandleEventBatch EndpointsOnlyChange/ClusterStateChange on
                                                             NGINX Plus, updateNginxConf, updateUpstreamServers, serversEqual)
   plus the environment the Plus path talks to: nginx-plus-go-client's UpdateHTTPServers/UpdateStreamServers
   (determineUpdates: add what is missing, delete what is not wanted) and an NGINX Plus that keeps the servers of an
   upstream with a [state] file across reloads.

   Same case splits and order of checks as the Go code.  Go maps are modelled by lists; wherever the Go code
   iterates a map the result is only ever used as a set (the checker compares sets).
   Preconditions of Resolve that make it panic (port 0, empty name/namespace) are outside the model: the graph never
   produces such a BackendRef. *)
From Coq Require Import List String ZArith Bool DecimalString.
Import ListNotations.
Open Scope string_scope.

(* ---------------------------------------------------------------- data *)

Inductive addrtype := ATv4 | ATv6 | ATfqdn | ATother.

Definition addrtype_eqb (a b : addrtype) : bool :=
  match a, b with
  | ATv4, ATv4 | ATv6, ATv6 | ATfqdn, ATfqdn | ATother, ATother => true
  | _, _ => false
  end.

(* NginxProxy.spec.ipFamily as written by the user *)
Inductive famspec := FDual | FIPv4 | FIPv6 | FOther.
Inductive npspec := NoNP | NP (valid : bool) (fam : option famspec).
Inductive family := Dual | IPv4 | IPv6.

Record eport := EPort { ep_name : option string; ep_port : option Z }.
Inductive target := TInt (z : Z) | TStr (s : string).
Record sport := SPort { sp_name : string; sp_port : Z; sp_target : target }.
Record endp := Endp { e_ready : option bool; e_addrs : list string }.
Record slice := Slice { s_name : string; s_ns : string; s_label : option string; s_type : addrtype;
                        s_ports : list eport; s_eps : list endp }.
(* a Service port referenced by an HTTPRoute rule (v_stream = false) or by a TLSRoute (true) *)
Record svc := Svc { v_ns : string; v_name : string; v_port : sport; v_stream : bool }.
Record world := World { w_np : npspec; w_slices : list slice; w_svcs : list svc }.

(* resolver.Endpoint *)
Record ep := Ep { a_addr : string; a_port : Z; a_v6 : bool }.

Definition ep_eq_dec (x y : ep) : {x = y} + {x <> y}.
Proof. decide equality; [apply bool_dec | apply Z.eq_dec | apply string_dec]. Defined.

(* ---------------------------------------------------------------- address family (configuration.go) *)

(* buildBaseHTTPConfig: Dual unless a VALID NginxProxy says ipv4 or ipv6 *)
Definition base_family (np : npspec) : family :=
  match np with
  | NoNP => Dual
  | NP false _ => Dual
  | NP true None => Dual
  | NP true (Some FIPv4) => IPv4
  | NP true (Some FIPv6) => IPv6
  | NP true (Some _) => Dual
  end.

(* getAllowedAddressType *)
Definition allowed_types (f : family) : list addrtype :=
  match f with
  | IPv4 => [ATv4]
  | IPv6 => [ATv6]
  | Dual => [ATv4; ATv6]
  end.

(* ---------------------------------------------------------------- resolver.go *)

(* getDefaultPort *)
Definition default_port (sp : sport) : Z :=
  match sp_target sp with
  | TInt z => if Z.eqb z 0 then sp_port sp else z
  | TStr _ => sp_port sp
  end.

(* findPort: first entry with a nil port wins with the default port; otherwise first entry with the name *)
Fixpoint find_port (ps : list eport) (sp : sport) : Z :=
  match ps with
  | [] => 0%Z
  | p :: ps' =>
      match ep_port p with
      | None => default_port sp
      | Some z =>
          match ep_name p with
          | Some n => if String.eqb n (sp_name sp) then z else find_port ps' sp
          | None => find_port ps' sp
          end
      end
  end.

(* ignoreEndpointSlice *)
Definition ignore_slice (s : slice) (sp : sport) (allowed : list addrtype) : bool :=
  if addrtype_eqb (s_type s) ATfqdn then true
  else if negb (existsb (addrtype_eqb (s_type s)) allowed) then true
  else Z.eqb (find_port (s_ports s) sp) 0.

(* endpointReady *)
Definition endpoint_ready (e : endp) : bool :=
  match e_ready e with Some true => true | _ => false end.

(* client.List with MatchingFields{k8sServiceName: name} + InNamespace(ns): ServiceNameIndexFunc indexes a slice
   under its kubernetes.io/service-name label unless the label is absent or empty *)
Definition belongs (ns name : string) (s : slice) : bool :=
  String.eqb (s_ns s) ns &&
  match s_label s with
  | Some l => negb (String.eqb l "") && String.eqb l name
  | None => false
  end.

(* the inner loops of resolveEndpoints for one slice *)
Definition slice_endpoints (sp : sport) (s : slice) : list ep :=
  let p := find_port (s_ports s) sp in
  let v6 := addrtype_eqb (s_type s) ATv6 in
  flat_map (fun e => if endpoint_ready e then map (fun a => Ep a p v6) (e_addrs e) else []) (s_eps s).

(* Resolve; None = an error is returned (no slice of the Service / none left after filtering) *)
Definition resolve (ns name : string) (sp : sport) (allowed : list addrtype) (slices : list slice)
  : option (list ep) :=
  match filter (belongs ns name) slices with
  | [] => None
  | mine =>
      match filter (fun s => negb (ignore_slice s sp allowed)) mine with
      | [] => None
      | fs => Some (nodup ep_eq_dec (flat_map (slice_endpoints sp) fs))
      end
  end.

(* buildUpstreams / buildStreamUpstreams: Endpoints of the upstream of one referenced Service port
   (an error leaves Endpoints nil) *)
Definition world_resolve (w : world) (v : svc) : option (list ep) :=
  resolve (v_ns v) (v_name v) (v_port v) (allowed_types (base_family (w_np w))) (w_slices w).

Definition world_eps (w : world) (v : svc) : list ep :=
  match world_resolve w v with Some l => l | None => [] end.

(* ---------------------------------------------------------------- names and server strings *)

(* Go's %d *)
Definition dec (z : Z) : string := NilZero.string_of_int (Z.to_int z).

(* BackendRef.ServicePortReference *)
Definition upstream_name (v : svc) : string :=
  v_ns v ++ "_" ++ v_name v ++ "_" ++ dec (sp_port (v_port v)).

(* createUpstream / createStreamUpstream: "%s:%d" or "[%s]:%d" *)
Definition fmt_server (e : ep) : string :=
  if a_v6 e then "[" ++ a_addr e ++ "]:" ++ dec (a_port e) else a_addr e ++ ":" ++ dec (a_port e).

(* ConvertEndpoints / getPortAndIPFormat: the port is left out when it is 0 *)
Definition plus_server (e : ep) : string :=
  if Z.eqb (a_port e) 0 then (if a_v6 e then "[" ++ a_addr e ++ "]" else a_addr e) else fmt_server e.

Definition sock503 := "unix:/var/run/nginx/nginx-503-server.sock".
Definition sock500 := "unix:/var/run/nginx/nginx-500-server.sock".
Definition invalid_backend_ref := "invalid-backend-ref".

(* NGINX OSS: the server lines of the upstream block (createUpstream) *)
Definition oss_http_block (eps : list ep) : list string :=
  match eps with
  | [] => [sock503]
  | _ => map fmt_server eps
  end.

(* NGINX OSS: createStreamUpstreams leaves out an upstream without endpoints *)
Definition oss_stream_block (eps : list ep) : option (list string) :=
  match eps with
  | [] => None
  | _ => Some (map fmt_server eps)
  end.

(* ---------------------------------------------------------------- NGINX Plus *)

Definition mem (s : string) (l : list string) : bool := existsb (String.eqb s) l.

Fixpoint lookup {A} (k : string) (m : list (string * A)) : option A :=
  match m with
  | [] => None
  | (k', v) :: m' => if String.eqb k k' then Some v else lookup k m'
  end.

Fixpoint set_key {A} (k : string) (v : A) (m : list (string * A)) : list (string * A) :=
  match m with
  | [] => [(k, v)]
  | (k', v') :: m' => if String.eqb k k' then (k, v) :: m' else (k', v') :: set_key k v m'
  end.

(* the configuration the handler works from: upstream name -> endpoints *)
Record pconf := PConf { c_http : list (string * list ep); c_stream : list (string * list ep) }.

(* a running upstream: does it have a state file (all generated Plus upstreams do; invalid-backend-ref does not),
   and its servers.  State files are named after the upstream: /var/lib/nginx/state/<name>.conf — http and stream
   upstreams of one name share the file. *)
Record nginx := Nginx { n_files : list (string * list string);
                        n_http : list (string * (bool * list string));
                        n_stream : list (string * (bool * list string)) }.

Definition nginx0 : nginx := Nginx [] [] [].

(* upstream blocks of the files generated with plus = true: None = `state` directive, Some l = server lines *)
Definition plus_http_blocks (c : pconf) : list (string * option (list string)) :=
  (map (fun ne => (fst ne, None)) (c_http c) ++ [(invalid_backend_ref, Some [sock500])])%list.

Definition nonempty {A} (l : list A) : bool := match l with [] => false | _ => true end.

(* createStreamUpstreams: only upstreams with endpoints are rendered *)
Definition rendered_stream (c : pconf) : list string :=
  map fst (filter (fun ne => nonempty (snd ne)) (c_stream c)).

Definition plus_stream_blocks (c : pconf) : list (string * option (list string)) :=
  map (fun n => (n, None)) (rendered_stream c).

Definition load (files : list (string * list string)) (blocks : list (string * option (list string)))
  : list (string * (bool * list string)) :=
  map (fun nb => match snd nb with
                 | None => (fst nb, (true, match lookup (fst nb) files with Some l => l | None => [] end))
                 | Some l => (fst nb, (false, l))
                 end) blocks.

(* ReplaceFiles + Reload *)
Definition ng_reload (c : pconf) (ng : nginx) : nginx :=
  Nginx (n_files ng) (load (n_files ng) (plus_http_blocks c)) (load (n_files ng) (plus_stream_blocks c)).

(* serversEqual *)
Definition servers_equal (new old : list string) : bool :=
  Nat.eqb (List.length new) (List.length old) && forallb (fun s => mem s new) old.

(* nginx-plus-go-client Update*Servers on the server list: POST every wanted server that is missing (a server
   that exists is refused), then DELETE every server that is not wanted *)
Definition api_update (new old : list string) : list string :=
  let added := fold_left (fun l s => if mem s l then l else (l ++ [s])%list) (filter (fun s => negb (mem s old)) new) old in
  filter (fun s => mem s new) added.

(* one upstream of the configuration against the running upstreams of its kind *)
Definition update_one (files : list (string * list string)) (run : list (string * (bool * list string)))
           (name : string) (eps : list ep)
  : list (string * list string) * list (string * (bool * list string)) :=
  let new := map plus_server eps in
  match lookup name run with
  | None => (files, run)                                   (* not known to NGINX: skipped *)
  | Some (st, old) =>
      if servers_equal new old then (files, run)
      else let l := api_update new old in
           ((if st then set_key name l files else files), set_key name (st, l) run)
  end.

Definition update_all (files : list (string * list string)) (run : list (string * (bool * list string)))
           (conf : list (string * list ep)) :=
  fold_left (fun fr ne => update_one (fst fr) (snd fr) (fst ne) (snd ne)) conf (files, run).

(* updateUpstreamServers *)
Definition update_upstream_servers (c : pconf) (ng : nginx) : nginx :=
  let '(f1, h1) := update_all (n_files ng) (n_http ng) (c_http c) in
  let '(f2, s2) := update_all f1 (n_stream ng) (c_stream c) in
  Nginx f2 h1 s2.

(* updateNginxConf on NGINX Plus *)
Definition update_nginx_conf (c : pconf) (ng : nginx) : nginx :=
  update_upstream_servers c (ng_reload c ng).

(* handler state: NGINX and what the previous configuration rendered as stream upstreams *)
Record hstate := HState { h_ng : nginx; h_rendered : list string }.

Definition hstate0 : hstate := HState nginx0 [].

Definition names_eqb (a b : list string) : bool :=
  forallb (fun s => mem s b) a && forallb (fun s => mem s a) b.

(* HandleEventBatch on NGINX Plus.  reload = true: ClusterStateChange.  reload = false: EndpointsOnlyChange.
   fixed = false is the code as found (always the API only); fixed = true is the repair D32: when the set of
   stream upstreams that are rendered into the configuration changes, the configuration is regenerated and
   reloaded, because the API cannot create or remove an upstream. *)
Definition plus_step (fixed : bool) (reload : bool) (c : pconf) (h : hstate) : hstate :=
  let need := reload || (fixed && negb (names_eqb (h_rendered h) (rendered_stream c))) in
  HState (if need then update_nginx_conf c (h_ng h) else update_upstream_servers c (h_ng h))
         (rendered_stream c).

Fixpoint plus_run (fixed : bool) (steps : list (bool * pconf)) (h : hstate) : hstate :=
  match steps with
  | [] => h
  | (r, c) :: steps' => plus_run fixed steps' (plus_step fixed r c h)
  end.

(* the configuration built from a world (first Service port with a given upstream name wins) *)
Fixpoint add_first {A} (k : string) (v : A) (m : list (string * A)) : list (string * A) :=
  match m with
  | [] => [(k, v)]
  | (k', v') :: m' => if String.eqb k k' then m else (k', v') :: add_first k v m'
  end.

Definition world_conf (w : world) : pconf :=
  let ups (stream : bool) :=
      fold_left (fun m v => if Bool.eqb (v_stream v) stream then add_first (upstream_name v) (world_eps w v) m else m)
                (w_svcs w) [] in
  PConf (ups false) (ups true).
