#!/usr/bin/env python3
"""Shared driver of every /verif check.  See DESIGN.md section 3.

bin/check Cnn [--tier quick|thorough] [--replay FILE] [--seed N]

Steps: regenerate coq/gen from /repo -> build the Coq project (full .vo) -> audit (no Admitted/Axiom...,
Print Assumptions under every property theorem) -> run the Go correspondence harness against /repo's
working tree (go test -overlay, tag verif) -> evaluate the emitted cases inside Coq (vm_compute) ->
decide (known findings / violation) -> write evidence.
"""
import fcntl
import glob
import hashlib
import json
import os
import re
import subprocess
import sys
import time
from concurrent.futures import ThreadPoolExecutor

VERIF = os.path.dirname(os.path.dirname(os.path.abspath(__file__)))
REPO = os.environ.get("VERIF_REPO", "/repo")
WORK = os.path.join(VERIF, ".work")
COQ = os.path.join(VERIF, "coq")
GOENV = dict(os.environ, GOFLAGS="-mod=readonly", GOPROXY="off", GOSUMDB="off", GOTOOLCHAIN="local",
             CGO_ENABLED=os.environ.get("CGO_ENABLED", "0"))

FORBIDDEN = re.compile(r"\b(Admitted|admit|Axiom|Axioms|Parameter|Parameters|Conjecture|Conjectures|"
                       r"Hypothesis|Hypotheses|Variable|Variables|Admit Obligations)\b|Unset Guard|"
                       r"bypass_check|type-in-type|impredicative-set|Unset Universe Checking|"
                       r"Unset Positivity")
# axioms of the standard library that may appear under a theorem (each named in the evidence)
ALLOWED_AXIOMS = {
    "functional_extensionality_dep", "FunctionalExtensionality.functional_extensionality_dep",
    "Classical_Prop.classic", "classic", "ClassicalDedekindReals.sig_not_dec",
    "ClassicalDedekindReals.sig_forall_dec", "sig_not_dec", "sig_forall_dec",
    "Eqdep.Eq_rect_eq.eq_rect_eq", "JMeq_eq", "JMeq.JMeq_eq", "proof_irrelevance",
}


def sh(cmd, cwd=None, env=None, timeout=None):
    p = subprocess.run(cmd, cwd=cwd, env=env, shell=isinstance(cmd, str), stdout=subprocess.PIPE,
                       stderr=subprocess.STDOUT, timeout=timeout, text=True, errors="replace")
    return p.returncode, p.stdout


class Lock:
    def __init__(self, name):
        os.makedirs(WORK, exist_ok=True)
        self.path = os.path.join(WORK, name + ".lock")

    def __enter__(self):
        self.f = open(self.path, "w")
        fcntl.flock(self.f, fcntl.LOCK_EX)
        return self

    def __exit__(self, *a):
        fcntl.flock(self.f, fcntl.LOCK_UN)
        self.f.close()


# ------------------------------------------------------------------------------------------- overlay

def write_overlay():
    """harness/pkg/<rel>/x_test.go is overlaid as /repo/<rel>/x_test.go; harness/verifutil as internal/verifutil."""
    rep = {}
    base = os.path.join(VERIF, "harness", "pkg")
    for root, _, files in os.walk(base):
        for f in files:
            if f.endswith(".go"):
                rel = os.path.relpath(os.path.join(root, f), base)
                rep[os.path.join(REPO, rel)] = os.path.join(root, f)
    for f in glob.glob(os.path.join(VERIF, "harness", "verifutil", "*.go")):
        rep[os.path.join(REPO, "internal", "verifutil", os.path.basename(f))] = f
    # the crossplane module (its own go.mod) gets the case writer as a package of its own
    rep[os.path.join(REPO, "tests", "framework", "crossplane", "cmd", "crossplane", "vu", "util.go")] = \
        os.path.join(VERIF, "harness", "verifutil", "util.go")
    os.makedirs(WORK, exist_ok=True)
    # one overlay file per target tree: concurrent checks with different VERIF_REPO must not overwrite each other
    tag = "" if REPO == "/repo" else "-" + hashlib.sha1(REPO.encode()).hexdigest()[:10]
    path = os.path.join(WORK, "overlay%s.json" % tag)
    data = json.dumps({"Replace": rep}, indent=1, sort_keys=True)
    if not os.path.exists(path) or open(path).read() != data:
        with open(path + ".tmp", "w") as fh:
            fh.write(data)
        os.replace(path + ".tmp", path)
    return path


def repo_dirty_state():
    rc, out = sh(["git", "-C", REPO, "status", "--porcelain"])
    return out


def go_test(pkg, run, env_extra, timeout, cwd=None, race=False):
    ov = write_overlay()
    cmd = ["go", "test", "-overlay", ov, "-tags", "verif", "-vet=off", "-count=1", "-timeout",
           "%ds" % timeout, "-run", "^" + run + "$"]
    if race:
        cmd.append("-race")
    cmd.append(pkg)
    env = dict(GOENV)
    if race:
        env["CGO_ENABLED"] = "1"
    env.update(env_extra)
    return sh(cmd, cwd=cwd or REPO, env=env, timeout=timeout + 60)


# ------------------------------------------------------------------------------------------- Coq build

def coq_build(prop=None):
    """Full .vo build (incremental make) of the property's files and everything they depend on
    (all files when prop is None). Returns (ok, log)."""
    with Lock("coq"):
        sh([os.path.join(VERIF, "bin", "mkcoqproject")])
        if not os.path.exists(os.path.join(COQ, "Makefile")) or \
                os.path.getmtime(os.path.join(COQ, "Makefile")) < os.path.getmtime(os.path.join(COQ, "_CoqProject")):
            rc, out = sh("coq_makefile -f _CoqProject -o Makefile", cwd=COQ)
            if rc != 0:
                return False, out
        targets = ""
        if prop is not None:
            d = PROPS[prop]["coq"]
            fl = os.path.join(COQ, d, "FILES")
            names = [l.strip() for l in open(fl) if l.strip()] if os.path.exists(fl) else []
            for extra in PROPS[prop].get("coq_extra", []):
                fl2 = os.path.join(COQ, extra, "FILES")
                names += [l.strip() for l in open(fl2) if l.strip()] if os.path.exists(fl2) else []
            targets = " ".join(n[:-2] + ".vo" for n in names)
        # -k: when a proof file breaks, everything that does not depend on it (the Check modules) is still built, so
        # that the oracle can search the cases for a concrete failing input
        rc, out = sh("timeout 3000 make -k -j16 %s 2>&1" % targets, cwd=COQ, timeout=3100)
        return rc == 0, out


def coq_files(prop):
    d = PROPS[prop]["coq"]
    return sorted(glob.glob(os.path.join(COQ, d, "*.v")))


def theorems_of(prop):
    """Names of the property theorems: every Theorem in <prop>/Props.v."""
    path = os.path.join(COQ, PROPS[prop]["coq"], "Props.v")
    names = []
    if os.path.exists(path):
        for m in re.finditer(r"^\s*Theorem\s+([A-Za-z0-9_']+)", open(path).read(), re.M):
            names.append(m.group(1))
    return names


def strip_comments(src):
    out, depth, i = [], 0, 0
    while i < len(src):
        if src.startswith("(*", i):
            depth += 1
            i += 2
        elif src.startswith("*)", i) and depth > 0:
            depth -= 1
            i += 2
        else:
            if depth == 0:
                out.append(src[i])
            i += 1
    return "".join(out)


def audit_sources():
    """No Admitted/admit/Axiom/Parameter/... anywhere in the development (Section variables and
    hypotheses are allowed only inside a Section, checked by scanning Section/End nesting)."""
    problems = []
    for path in sorted(glob.glob(os.path.join(COQ, "**", "*.v"), recursive=True)):
        src = strip_comments(open(path).read())
        # remove string literals
        src_ns = re.sub(r'"(?:[^"]|"")*"', '""', src)
        depth = 0
        for ln, line in enumerate(src_ns.split("\n"), 1):
            if re.match(r"\s*(Section|Module Type)\b", line):
                depth += 1
            elif re.match(r"\s*End\b", line) and depth > 0:
                depth -= 1
            for m in FORBIDDEN.finditer(line):
                w = m.group(0)
                if w in ("Variable", "Variables", "Hypothesis", "Hypotheses") and depth > 0:
                    continue
                problems.append("%s:%d: %s" % (os.path.relpath(path, VERIF), ln, w))
    return problems


def print_assumptions(prop):
    """Compile a tiny file that Requires the property file and prints the assumptions of every theorem."""
    names = theorems_of(prop)
    d = PROPS[prop]["coq"]
    os.makedirs(os.path.join(WORK, prop), exist_ok=True)
    path = os.path.join(WORK, prop, "Assumptions_%s.v" % prop)
    with open(path, "w") as fh:
        fh.write("From NGF Require Import %s.Props.\n" % d)
        for n in names:
            fh.write('Goal True. idtac "@@ %s". Abort.\nPrint Assumptions %s.\n' % (n, n))
    rc, out = sh(["coqc", "-Q", COQ, "NGF", path], cwd=os.path.join(WORK, prop), timeout=600)
    res = {}
    if rc != 0:
        return None, out
    cur = None
    for line in out.split("\n"):
        if line.startswith("@@ "):
            cur = line[3:].strip()
            res[cur] = []
        elif cur is not None:
            s = line.strip()
            if not s or s.startswith("Closed under the global context") or s in ("Axioms:", "Section Variables:"):
                continue
            if line[0] in " \t":
                continue
            m = re.match(r"([A-Za-z0-9_.']+)\s*(:|$)", s)
            if m:
                res[cur].append(m.group(1))
    return res, out


# ------------------------------------------------------------------------------------------- cases

REPORT_RE = re.compile(r"report\s*=\s*(.*?)\s*:\s*list", re.S)


def eval_shard(path, limit=1500):
    d = os.path.dirname(path)
    try:
        rc, out = sh(["timeout", str(limit), "coqc", "-Q", COQ, "NGF", os.path.basename(path)], cwd=d, timeout=limit + 100)
    except subprocess.TimeoutExpired:
        rc, out = 124, "timed out"
    if rc != 0:
        return None, out
    m = REPORT_RE.search(out)
    if not m:
        return None, out
    txt = m.group(1).replace(";", ",")
    txt = re.sub(r"\s+", " ", txt)
    try:
        val = eval(txt, {"__builtins__": {}}, {})
    except Exception as e:  # noqa
        return None, out
    return [(int(i), [int(c) for c in codes]) for i, codes in val], out


def eval_cases(outdir):
    shards = sorted(glob.glob(os.path.join(outdir, "cases_[0-9]*.v")))
    failing, errors = [], []
    with ThreadPoolExecutor(max_workers=14) as ex:
        for path, (res, out) in zip(shards, ex.map(eval_shard, shards)):
            if res is None:
                errors.append((path, out[-3000:]))
            else:
                failing.extend(res)
    # a shard that did not come back (on a loaded machine the time limit of a large shard can run out while fourteen are evaluated
    # at once) is evaluated once more, alone and with a longer limit, before it counts as an error
    retry, errors = errors, []
    for path, out in retry:
        res, out2 = eval_shard(path, limit=5400)
        if res is None:
            errors.append((path, (out + "\n--- second attempt ---\n" + out2)[-3000:]))
        else:
            failing.extend(res)
    return sorted(failing), errors, len(shards)


# ------------------------------------------------------------------------------------------- findings

def load_findings():
    """known_findings.json is the committed list; known_findings.d/*.json are per-property fragments merged into it."""
    out = []
    for path in [os.path.join(VERIF, "known_findings.json")] + sorted(glob.glob(os.path.join(VERIF, "known_findings.d", "*.json"))):
        if os.path.exists(path):
            out.extend(json.load(open(path))["findings"])
    return out


# ------------------------------------------------------------------------------------------- registry

PROPS = {}
COMMON_TB = [
    "Coq 8.16.1 kernel (coqc, full .vo build); vm_compute used for case evaluation and refuted-witness lemmas; native_compute not used",
    "Go harness (/verif/harness, overlaid with go test -overlay under build tag verif) and its generators",
    "cases_*.v printers in /verif/harness/verifutil (Go values -> Coq terms)",
]


def register(pid, **kw):
    PROPS[pid] = kw


def load_registry():
    import importlib.util
    for path in sorted(glob.glob(os.path.join(VERIF, "lib", "registry.d", "*.py"))):
        spec = importlib.util.spec_from_file_location("registry_" + os.path.basename(path)[:-3], path)
        mod = importlib.util.module_from_spec(spec)
        spec.loader.exec_module(mod)
        mod.setup(register, COMMON_TB)


# ------------------------------------------------------------------------------------------- main

def write_replay(prop, name, payload):
    d = os.path.join(VERIF, "replays", prop)
    os.makedirs(d, exist_ok=True)
    path = os.path.join(d, name + ".json")
    with open(path, "w") as fh:
        json.dump(payload, fh, indent=1, default=str)
    return path


def main(argv):
    load_registry()
    if len(argv) < 2 or argv[1] not in PROPS:
        print("usage: check <%s> [--tier quick|thorough] [--seed N] [--replay FILE]" % "|".join(sorted(PROPS)))
        return 2
    prop = argv[1]
    tier = os.environ.get("VERIF_TIER", "quick")
    seed = int(os.environ.get("VERIF_SEED", "1") or "1")
    replay = None
    i = 2
    while i < len(argv):
        if argv[i] == "--tier":
            tier = argv[i + 1]; i += 2
        elif argv[i] == "--seed":
            seed = int(argv[i + 1]); i += 2
        elif argv[i] == "--replay":
            replay = argv[i + 1]; i += 2
        else:
            i += 1
    only = None
    if replay:
        rp = json.load(open(replay))
        seed = int(rp.get("seed", seed))
        tier = rp.get("tier", tier)
        only = rp.get("case_index")
    return run_check(prop, tier, seed, only)


def run_check(prop, tier, seed, only=None):
    t0 = time.time()
    cfg = PROPS[prop]
    os.makedirs(os.path.join(VERIF, "evidence"), exist_ok=True)
    outdir = os.path.join(WORK, prop, "cases_%s" % tier)
    sh(["rm", "-rf", outdir])
    os.makedirs(outdir, exist_ok=True)
    dirty0 = repo_dirty_state()
    violations = []   # (what, replay_path, found_input: bool)
    known_lines = []
    notes = []

    # 1. regenerate data extracted from the source
    gen_log = ""
    if cfg.get("gen"):
        with Lock("gen"):
            ok, gen_log = cfg["gen"]()
        if not ok:
            tp = write_replay(prop, "translator-failure", {"property": prop, "what": "a translator (lib/gen.py) failed on the working tree: the data the "
                              "theorems are re-checked against could not be regenerated from the source", "broken": "translator of " + prop,
                              "output": gen_log[-6000:]})
            violations.append(("translator failed on the working tree: " + gen_log[-1500:], tp, False))

    # 2. build
    ok, build_log = coq_build(prop)
    broken_files = []
    if not ok:
        for m in re.finditer(r'File "\./([^"]+)", line (\d+)', build_log):
            broken_files.append(m.group(1))
        notes.append("coq build failed: " + ", ".join(sorted(set(broken_files))))

    # 3. audit
    theorems = theorems_of(prop)
    problems = audit_sources()
    assumptions, ass_out = (None, "")
    discharged = 0
    axioms_used = set()
    relevant_break = (not ok)
    if ok:
        assumptions, ass_out = print_assumptions(prop)
        if assumptions is None:
            relevant_break = True
            notes.append("Print Assumptions failed: " + ass_out[-800:])
        else:
            for th in theorems:
                ax = assumptions.get(th)
                if ax is None:
                    continue
                bad = [a for a in ax if a.split(".")[-1] not in {x.split(".")[-1] for x in ALLOWED_AXIOMS}]
                axioms_used.update(ax)
                if not bad:
                    discharged += 1
                else:
                    problems.append("theorem %s depends on non-allowed axioms %s" % (th, bad))
    if problems:
        relevant_break = True
        notes.append("audit: " + "; ".join(problems[:10]))

    # 4. correspondence: the main harness and optional extra harnesses (other packages), each into its own directory
    parts = [dict(pkg=cfg["pkg"], test=cfg["test"], cwd=cfg.get("cwd", ""))] + list(cfg.get("extra", []))
    meta = {}
    failing, errors, nshards = [], [], 0
    harness_ok = True
    part_dirs = []
    offset = 0
    all_humans = []
    for pi, part in enumerate(parts):
        pdir = outdir if pi == 0 else os.path.join(outdir, "part%d" % pi)
        os.makedirs(pdir, exist_ok=True)
        part_dirs.append(pdir)
        env = {"VERIF_SEED": str(seed), "VERIF_TIER": tier, "VERIF_OUT": pdir, "VERIF_HOME": VERIF}
        env.update(cfg.get("env", {}))
        tmo = cfg.get("timeout", {}).get(tier, 900 if tier == "quick" else 7200)
        rc, hout = go_test(part["pkg"], part["test"], env, tmo, cwd=os.path.join(REPO, part.get("cwd", "")),
                           race=cfg.get("race", False) and tier == "thorough")
        if not (rc == 0 and os.path.exists(os.path.join(pdir, "meta.json"))):
            harness_ok = False
            notes.append("harness %s %s did not complete (rc=%d): %s" % (part["pkg"], part["test"], rc, hout[-2500:]))
            path = write_replay(prop, "harness-failure", {"property": prop, "seed": seed, "tier": tier,
                                                         "what": "correspondence harness failed to build or run against the working tree",
                                                         "harness": "%s %s" % (part["pkg"], part["test"]), "output": hout[-6000:]})
            violations.append(("harness failed", path, False))
            break
        pm = json.load(open(os.path.join(pdir, "meta.json")))
        if pi == 0:
            meta = pm
        else:
            for k in ("evaluations", "distinct", "distinct_nontrivial", "shards"):
                meta[k] = meta.get(k, 0) + pm.get(k, 0)
            meta.setdefault("distribution", {}).update({"part%d.%s" % (pi, k): v for k, v in pm.get("distribution", {}).items()})
            meta.setdefault("extra", {}).update(pm.get("extra", {}))
        try:
            ph = json.load(open(os.path.join(pdir, "cases.json")))
        except Exception:
            ph = []
        # with a broken build the shards are still evaluated where their Check module was built: this is the search for
        # a concrete failing input (a shard that cannot be compiled then is not a separate complaint)
        pf, pe, pn = eval_cases(pdir)
        failing.extend([(i + offset, codes) for i, codes in pf])
        errors.extend(pe)
        nshards += pn
        all_humans.extend(ph)
        offset += len(ph)
    if harness_ok and ok:
        for path, eout in errors:
            notes.append("case shard failed to evaluate: %s: %s" % (os.path.basename(path), eout[-600:]))
        if errors:
            p = write_replay(prop, "shard-error", {"property": prop, "seed": seed, "tier": tier,
                                                  "what": "a cases shard did not type-check/evaluate", "detail": errors[0][1]})
            violations.append(("cases shard error", p, False))

    humans = all_humans

    findings = load_findings()
    known_by_code = {f["code"]: f for f in findings if f["property"] == prop and f["status"] == "known"}
    fixed_by_code = {f["code"]: f for f in findings if f["property"] == prop and f["status"] == "fixed"}
    mism, viol, known_hits = [], [], {}
    for idx, codes in failing:
        if only is not None and idx != only:
            continue
        for c in codes:
            if c == 1:
                mism.append(idx)
            elif c >= 100 and (c - 100) in known_by_code:
                known_hits.setdefault(c - 100, []).append(idx)
            else:
                viol.append((idx, c))
    for k, idxs in sorted(known_hits.items()):
        f = known_by_code[k]
        known_lines.append("KNOWN-FINDING: property=%s %s: %s (%d generated case(s) in its class, e.g. case %d)" %
                           (prop, f["id"], f["what"], len(idxs), idxs[0]))
    # extra: properties may define static known-finding probes (witness replay inside the harness)
    for w in meta.get("extra", {}).get("known_probe", []) if meta else []:
        k = w.get("code")
        if w.get("reproduced"):
            if k in known_by_code:
                f = known_by_code[k]
                known_lines.append("KNOWN-FINDING: property=%s %s: %s (witness reproduced on the working tree)" %
                                   (prop, f["id"], f["what"]))
            else:
                viol.append((w.get("case_index", -1), 100 + k))

    def case_payload(idx, code, what):
        return {"property": prop, "seed": seed, "tier": tier, "case_index": idx, "code": code, "what": what,
                "input_and_observed": humans[idx] if 0 <= idx < len(humans) else None,
                "replay": "bin/check %s --replay <this file>  (re-runs the harness with the same seed and reports on this case)" % prop}

    if viol:
        idx, code = viol[0]
        what = "property oracle fails on the implementation's own output"
        if code >= 100:
            k = code - 100
            what += " (class of finding code %d, which is %s)" % (k, "recorded as fixed: it has returned" if k in fixed_by_code else "not listed in known_findings.json")
        p = write_replay(prop, "violation-%d" % idx, dict(case_payload(idx, code, what), all_failing=[v[0] for v in viol][:50]))
        violations.append((what, p, True))
    elif mism:
        idx = mism[0]
        what = ("correspondence C%s.Check.lin/model disagreement: the model and the implementation differ on a projected "
                "observable, the property oracle found no failing input among %d cases" % (prop[1:], meta.get("evaluations", 0)))
        p = write_replay(prop, "mismatch-%d" % idx, dict(case_payload(idx, 1, what), all_failing=mism[:50],
                                                         broken="correspondence %s.Check.check_case" % cfg["coq"]))
        violations.append((what, p, False))
    if relevant_break and not violations:
        what = "proof obligations of %s no longer check: %s" % (prop, "; ".join(notes)[:1500])
        p = write_replay(prop, "proof-break", {"property": prop, "what": what, "broken_files": broken_files,
                                               "theorems": theorems, "build_log_tail": build_log[-4000:]})
        violations.append((what, p, False))
    elif relevant_break and violations:
        notes.append("proof/audit break accompanies the violation")

    dirty1 = repo_dirty_state()
    if dirty1 != dirty0:
        notes.append("WARNING: /repo working tree changed during the check: " + dirty1)

    # 5. evidence
    wall = time.time() - t0
    samples = []
    if humans:
        step = max(1, len(humans) // 5)
        samples = [humans[i] for i in range(0, len(humans), step)][:5]
    cov = {
        "obligations": len(theorems),
        "discharged": discharged,
        "theorems": theorems,
        "checker_cmd": "cd /verif/coq && coq_makefile -f _CoqProject -o Makefile && make -j16   (coqc 8.16.1, full .vo); "
                       "Print Assumptions via coqc -Q /verif/coq NGF .work/%s/Assumptions_%s.v; cases: coqc -Q /verif/coq NGF cases_NNN.v (vm_compute)" % (prop, prop),
        "axioms_reported_by_Print_Assumptions": sorted(axioms_used),
        "trusted_base": cfg.get("trusted_base", []),
        "evaluations": int(meta.get("evaluations", 0)) if meta else 0,
        "distinct_nontrivial": int(meta.get("distinct_nontrivial", 0)) if meta else 0,
        "distinct": int(meta.get("distinct", 0)) if meta else 0,
        "rule": cfg.get("rule", ""),
        "samples": samples if samples else [{"note": "harness did not run"}],
        "input_distribution": meta.get("distribution", {}) if meta else {},
        "case_shards_evaluated_in_coq": nshards,
        "correspondence_mismatches": len(mism),
        "oracle_failures": len(viol),
        "known_finding_cases": {str(k): len(v) for k, v in known_hits.items()},
        "harness": "%s %s" % (cfg["pkg"], cfg["test"]),
        "extra": meta.get("extra", {}) if meta else {},
        "notes": notes,
        "exhaustive": False,
    }
    ev = {
        "property_id": prop, "tier": tier, "seed": seed, "level": "proof", "coverage": cov,
        "assumptions": cfg.get("assumptions", []), "wall_s": round(wall, 2), "violations": len(violations),
    }
    with open(os.path.join(VERIF, "evidence", prop + ".json"), "w") as fh:
        json.dump(ev, fh, indent=1, default=str)

    for line in known_lines:
        print(line)
    for n in notes:
        print("note: " + n[:600])
    if violations:
        # a violation with a concrete failing input is reported in preference to a broken proof / translator / correspondence
        violations.sort(key=lambda v: not v[2])
        what, p, found = violations[0]
        tail = "" if found else " no-failing-input-found"
        print("%s: %s" % (prop, what[:800]))
        print("VIOLATION property=%s replay=%s%s" % (prop, p, tail))
        return 1
    print("%s ok: %d theorems (%d discharged), %d cases (%d distinct non-trivial), %.1fs" %
          (prop, len(theorems), discharged, cov["evaluations"], cov["distinct_nontrivial"], wall))
    return 0


if __name__ == "__main__":
    sys.exit(main(sys.argv))
